// Package c08 drives hostile HTTP requests through the real livesim2 router and the real CMAF-ingest
// receiver router and records, for every request, the abstract classes it was built from and the
// observed outcome (status | panic(site) | timeout | fatal).
//
// This file turns ABSTRACT requests (printed by TLC from spec/UrlSpace.tla) into concrete ones.
// The abstract classes are the ground truth of the oracle: the concretiser must only ever produce a
// string that belongs to the class it is asked for (e.g. class "nonnum" never yields digits only).
package c08

import (
	"encoding/base64"
	"encoding/binary"
	"fmt"
	"math/rand"
	"net/url"
	"os"
	"path/filepath"
	"strconv"
	"strings"
	"time"
)

type part struct {
	K string `json:"k"`
	C string `json:"c"`
}

// absReq is one element of the abstract request space (record printed by TLC, prefix GEN).
type absReq struct {
	Srv    string `json:"srv"`
	Ep     string `json:"ep"`
	Method string `json:"method"`
	Parts  []part `json:"parts"`
	Asset  string `json:"asset"`
	Tail   string `json:"tail"`
	Query  string `json:"query"`
	Body   string `json:"body"`
}

type preReq struct {
	Method  string            `json:"method"`
	Path    string            `json:"path"`
	Headers map[string]string `json:"headers,omitempty"`
	Body    []byte            `json:"body,omitempty"`
	WantID  bool              `json:"want_id,omitempty"` // response JSON has "id": substitute {ID} in the main path
	SettleMS int              `json:"settle_ms,omitempty"`
}

// job is one concrete request.
type job struct {
	ID       int               `json:"id"`
	Abs      absReq            `json:"abs"`
	Ctx      []part            `json:"ctx"`
	Rep      int               `json:"rep"`
	Method   string            `json:"method"`
	Path     string            `json:"path"`
	RawQuery string            `json:"rawquery"`
	Headers  map[string]string `json:"headers,omitempty"`
	Body     []byte            `json:"body,omitempty"`
	CL       int64             `json:"cl"` // http.Request.ContentLength
	SettleMS int               `json:"settle_ms,omitempty"`
	Pre      []preReq          `json:"pre,omitempty"`
}

func (j *job) url() string {
	if j.RawQuery == "" {
		return j.Path
	}
	return j.Path + "?" + j.RawQuery
}

// ---------------------------------------------------------------------------------------------
// assets: constants of the VoD test assets (generator knowledge, not taken from livesim2 tables)

type assetInfo struct {
	name     string
	mpd      string
	segDurMS int
	vInit    string
	vMedia   string // %s = number or time
	aInit    string
	aMedia   string
	vTS      int // video timescale
	aTS      int // audio timescale
}

var knownAssets = []assetInfo{
	{"testpic_2s", "Manifest.mpd", 2000, "V300/init.mp4", "V300/%s.m4s", "A48/init.mp4", "A48/%s.m4s", 0, 0},
	{"testpic_6s", "Manifest.mpd", 6000, "V300/init.mp4", "V300/%s.m4s", "A48/init.mp4", "A48/%s.m4s", 0, 0},
	{"testpic_8s", "Manifest.mpd", 8000, "V300/init.mp4", "V300/%s.m4s", "A48/init.mp4", "A48/%s.m4s", 0, 0},
	// HEVC + AC-3: an asset livesim2 cannot encrypt itself, flat segment names
	{"bbb_hevc_ac3_8s", "manifest.mpd", 2000, "video_init.mp4", "video_%s.m4s", "audio_init.mp4", "audio_%s.m4s", 0, 0},
}

type concretizer struct {
	rng     *rand.Rand
	baseMS  int64 // the nowMS of all requests with query class now_ok
	vodRoot string
	rcvData string // directory with a valid init + media segment for the receiver
	initSeg []byte
	mediaSeg []byte
	media2  []byte
	nextCh  int
	cur     assetInfo // asset of the request being built (livesim2 / patch)
	curAudio bool     // the tail of the request addresses the audio track
	rcvSets map[string]*rcvSet
	instMS  int64     // nowMS of the request being built when its query class is an instant class (t_*)
	early   bool
}

func newConcretizer(seed int64, repo string) (*concretizer, error) {
	c := &concretizer{rng: rand.New(rand.NewSource(seed))}
	// non-aligned instant in Nov 2023, moved by the seed
	c.baseMS = 1_700_000_123_457 + (seed%1000)*7919
	c.vodRoot = filepath.Join(repo, "cmd/livesim2/app/testdata/assets")
	c.rcvData = filepath.Join(repo, "cmd/cmaf-ingest-receiver/app/testdata/awsMediaLiveScte35/video")
	var err error
	if c.initSeg, err = os.ReadFile(filepath.Join(c.rcvData, "init.cmfv")); err != nil {
		return nil, err
	}
	if c.mediaSeg, err = os.ReadFile(filepath.Join(c.rcvData, "896605655.cmfv")); err != nil {
		return nil, err
	}
	if c.media2, err = os.ReadFile(filepath.Join(c.rcvData, "896605656.cmfv")); err != nil {
		return nil, err
	}
	for i, a := range knownAssets {
		if _, err := os.Stat(filepath.Join(c.vodRoot, a.name, a.mpd)); err != nil {
			return nil, fmt.Errorf("known asset %s: %w", a.name, err)
		}
		// timescales: read from the init segments of the asset (generator knowledge, not livesim2's tables)
		for k, f := range []string{a.vInit, a.aInit} {
			data, err := os.ReadFile(filepath.Join(c.vodRoot, a.name, f))
			if err != nil {
				return nil, err
			}
			ts, err := mdhdTimescale(data)
			if err != nil {
				return nil, fmt.Errorf("%s/%s: %w", a.name, f, err)
			}
			if k == 0 {
				knownAssets[i].vTS = ts
			} else {
				knownAssets[i].aTS = ts
			}
		}
	}
	if err := c.loadRcvSets(repo); err != nil {
		return nil, err
	}
	return c, nil
}

func (c *concretizer) pick(xs ...string) string { return xs[c.rng.Intn(len(xs))] }

// ---------------------------------------------------------------------------------------------
// value classes

var intKeys = map[string]bool{"start": true, "ast": true, "stop": true, "startrel": true, "stoprel": true, "dur": true,
	"init": true, "tsbd": true, "mup": true, "periods": true, "xlink": true, "etp": true, "etpDuration": true,
	"peroff": true, "scte35": true, "snr": true, "ltgt": true, "spd": true, "timesubsdur": true, "timesubsreg": true,
	"patch": true, "modulo": true, "zzz": true}
var floatKeys = map[string]bool{"timeoffset": true, "chunkdur": true, "ato": true}
var flagKeys = map[string]bool{"tfdt": true, "cont": true, "insertad": true, "continuous": true, "segtimeline": true,
	"segtimelinenr": true, "sidx": true, "segtimelineloss": true}

const hugeStr = "9223372036854775807"

// genericValue: representatives of a class for keys that take a number.
func (c *concretizer) genericValue(class string, float bool) string {
	switch class {
	case "empty":
		return ""
	case "zero":
		return c.pick("0", "0", "00", "-0", "000")
	case "neg1":
		return c.pick("-1", "-1", "-1", "-2", "-1500", "-60")
	case "one":
		return "1"
	case "huge":
		return c.pick(hugeStr, "9223372036854775808", "4294967296", "2147483648", "18446744073709551616",
			"99999999999999999999999999")
	case "nonnum":
		if float { // strconv.ParseFloat accepts "NaN": not unambiguously non-numeric for a float parameter
			return c.pick("abc", "x1", "1x", "one", "١٢", "1 ", "1..2")
		}
		return c.pick("abc", "x1", "1x", "NaN", "0x10", "one", "١٢", "1 ")
	case "float":
		return c.pick("1.5", "0.5", "2.0", "2.5", ".5", "1e3", "8.0")
	case "inf":
		return c.pick("inf", "inf", "+Inf", "-inf", "Infinity")
	case "wrongsep":
		return c.pick("1,5", "1;2", "1 000", "1:2", "1=2", "1|2")
	case "brokenlist":
		return c.pick(",", "1,,2", ",1", "1,", "--", "[]", "{}", "[{")
	}
	panic("unknown class " + class)
}

func (c *concretizer) typicalInt(key string) string {
	nowS := c.baseMS / 1000
	switch key {
	case "start", "ast":
		return strconv.FormatInt(nowS-c.rng.Int63n(3)*3600-3600, 10)
	case "stop":
		return strconv.FormatInt(nowS+[]int64{3600, -600, 30}[c.rng.Intn(3)], 10)
	case "startrel":
		return c.pick("-3600", "-20", "-600")
	case "stoprel":
		return c.pick("20", "3600", "-10")
	case "dur":
		return c.pick("60", "120")
	case "init":
		return c.pick("10", "5")
	case "tsbd":
		return c.pick("30", "60", "300", "172800")
	case "mup":
		return c.pick("2", "10", "30")
	case "periods":
		return c.pick("2", "6", "60", "30")
	case "xlink", "etp":
		return c.pick("2", "6")
	case "etpDuration":
		return c.pick("10", "20")
	case "peroff":
		return c.pick("1", "2")
	case "scte35":
		return c.pick("2", "3")
	case "snr":
		return c.pick("10", "100", "44")
	case "ltgt":
		return c.pick("2500", "3000")
	case "spd":
		return c.pick("4", "10")
	case "timesubsdur":
		return c.pick("900", "500", "1000")
	case "timesubsreg":
		return c.pick("1", "0")
	case "patch":
		return c.pick("30", "60")
	}
	return c.pick("2", "5", "17")
}

// tickEdge: boundary values derived from the asset of the request: the segment duration, exactly and off by half a
// tick / one tick of the track's timescale / 1 ms (seconds with 7 decimals for float keys, milliseconds for int keys).
func (c *concretizer) tickEdge(key string) string {
	segMS := c.cur.segDurMS
	if !floatKeys[key] {
		return strconv.Itoa(segMS + []int{-1, 0, 1, -1}[c.rng.Intn(4)])
	}
	ts := float64(c.cur.vTS)
	if c.curAudio {
		ts = float64(c.cur.aTS)
	}
	d := []float64{-0.45 / ts, -0.2 / ts, -0.45 / ts, -1 / ts, -0.55 / ts, 0, 0.45 / ts, 1 / ts, -0.001, 0.001}[c.rng.Intn(10)]
	return strconv.FormatFloat(float64(segMS)/1000+d, 'f', 7, 64)
}

var drmNames = []string{"EZDRM-1-key-cbcs-test", "EZDRM-2-keys-cbcs-test"}

// value returns a concrete string for (key, class).
func (c *concretizer) value(key, class string) string {
	if class == "tickedge" {
		return c.tickEdge(key)
	}
	switch {
	case floatKeys[key]:
		if key == "ato" && class == "float" && c.rng.Intn(2) == 0 {
			// boundary: exactly the segment duration of the asset (chunk duration = segment duration - ato = 0)
			return fmt.Sprintf("%.1f", float64(c.cur.segDurMS)/1000)
		}
		if class == "typical" {
			switch key {
			case "ato":
				return c.pick("0.5", "1", "1.5")
			case "chunkdur":
				return c.pick("0.2", "0.25", "0.5", "1")
			default:
				return c.pick("-1.5", "2", "10.25")
			}
		}
		return c.genericValue(class, true)
	case intKeys[key] || flagKeys[key]:
		if class == "typical" {
			if flagKeys[key] {
				return "1"
			}
			return c.typicalInt(key)
		}
		return c.genericValue(class, false)
	}
	switch key {
	case "utc":
		switch class {
		case "typical":
			return c.pick("direct", "direct-ntp", "keep", "head", "none", "httpxsdate-httpiso", "sntp-httpxsdatems-httpisoms")
		case "wrongsep":
			return c.pick("direct,ntp", "direct;ntp", "direct ntp", "direct_ntp")
		case "brokenlist":
			return c.pick("-", "direct--ntp", "-direct", "direct-", "keep-direct")
		case "huge":
			return strings.Repeat("direct-", 2000) + "ntp"
		}
	case "timesubsstpp", "timesubswvtt":
		switch class {
		case "typical":
			return c.pick("en", "en,sv", "sv,en,fi")
		case "wrongsep":
			return c.pick("en-sv", "en;sv", "en sv")
		case "brokenlist":
			return c.pick(",", "en,,sv", ",en", "en,")
		case "huge":
			return strings.Repeat("en,", 3000) + "sv"
		}
	case "statuscode":
		switch class {
		case "typical":
			return c.pick("[{cycle:30,rsq:0,code:404}]", "[{cycle:30,rsq:1,code:503,rep:V300}]",
				"[{cycle:30,rsq:0,code:404},{cycle:20,rsq:2,code:410,rep:A48}]", "[{cycle:10,rsq:0,code:500,rep:*}]")
		case "zero":
			return c.pick("[{cycle:0,rsq:0,code:404}]", "[{cycle:30,rsq:0,code:0}]", "[{cycle:0}]")
		case "neg1":
			return c.pick("[{cycle:-1,rsq:0,code:404}]", "[{cycle:30,rsq:-1,code:404}]", "[{cycle:30,rsq:0,code:-1}]")
		case "one":
			return "[{cycle:1,rsq:0,code:404}]"
		case "huge":
			// NB: cycles of ~10^9..10^10 s (cycle:3000000000, cycle:4294967296) are not generated: calcStatusCode walks
			// the segments of the whole cycle, a finite computation of several seconds per request (measured 1.4-7 s),
			// which a wall-time bound cannot tell from non-termination
			return c.pick("[{cycle:"+hugeStr+",rsq:0,code:404}]", "[{cycle:30,rsq:"+hugeStr+",code:404}]",
				"[{cycle:30,rsq:0,code:99999}]", "[{cycle:30,rsq:0,code:"+hugeStr+"}]")
		case "nonnum":
			return c.pick("[{cycle:abc,rsq:0,code:404}]", "[{cycle:30,rsq:x,code:404}]", "[{cycle:30,rsq:0,code:four}]")
		case "float":
			return c.pick("[{cycle:1.5,rsq:0,code:404}]", "[{cycle:30,rsq:0.5,code:404}]")
		case "inf":
			return c.pick("[{cycle:inf,rsq:0,code:404}]", "[{cycle:30,rsq:0,code:inf}]")
		case "wrongsep":
			return c.pick("[{cycle=30;rsq=0;code=404}]", "[{cycle:30;rsq:0;code:404}]", "({cycle:30,rsq:0,code:404})",
				"[{cycle:30,rsq:0,code:404};{cycle:20,rsq:0,code:404}]")
		case "brokenlist":
			return c.pick("[{cycle:30,rsq:0,code:404}", "[{", "[{}]", "[{cycle:30,rsq:0,code:404},]", "[{,}]", "[]", "{}",
				"[{cycle:30,,code:404}]", "[{cycle}]", "[{cycle:30,rsq:0,code:404},{}]",
				// entries that lack one of the keys (the others well-formed): whatever default the parser leaves in place
				// must be validated like a given value
				"[{rsq:0,code:404}]", "[{rsq:0,code:404}]", "[{cycle:30,code:404}]", "[{cycle:30,rsq:0}]", "[{code:503}]",
				"[{cycle:30,rsq:0,code:404},{rsq:1,code:503}]", "[{rsq:0,code:404,rep:V300}]", "[{rsq:0,code:410,rep:*}]")
		}
	case "traffic":
		// NB: no 's' (slow, 2 s) and no 'h' (hang, 10 s) states: those waits are by design (covered by C14)
		switch class {
		case "typical":
			return c.pick("u20d10", "u10d5,d5u10", "u3600", "d1u1,u1d1,u7")
		case "zero":
			return c.pick("u0", "u0d0", "u10d0", "0")
		case "neg1":
			return c.pick("u-1", "-1", "u10d-1")
		case "one":
			return c.pick("u1", "u1d1")
		case "huge":
			// durations are accumulated in an int: 2 x 2^63 and 4 x 2^62 wrap the cycle length to 0
			return c.pick("u9223372036854775808d9223372036854775808", "u4611686018427387904d4611686018427387904u4611686018427387904d4611686018427387904",
				"d9223372036854775808u9223372036854775808", "u"+hugeStr+"d"+hugeStr)
		case "nonnum":
			return c.pick("abc", "x10", "uu", "ud", "u10x")
		case "float":
			return c.pick("u1.5", "u0.5d2")
		case "inf":
			return c.pick("inf", "uinf")
		case "wrongsep":
			return c.pick("u20;d10", "u20-d10", "u20 d10", "u20:d10")
		case "brokenlist":
			return c.pick(",", "u20,,d10", ",u20", "u20,", ",,")
		}
	case "annexI":
		switch class {
		case "typical":
			return c.pick("a=1", "a=1,b=2")
		case "wrongsep":
			return c.pick("a:1", "a=1;b=2", "a-1")
		case "brokenlist":
			return c.pick("a=1,,b=2", ",", "a=1=2", "=", "a=", "a=1,")
		case "huge":
			return "a=" + strings.Repeat("9", 5000)
		}
	case "drm":
		switch class {
		case "typical":
			return c.pick("eccp-cbcs", "eccp-cenc", drmNames[0], drmNames[1])
		case "wrongsep":
			return c.pick("eccp_cbcs", "eccp,cbcs", "eccp cbcs")
		case "brokenlist":
			return c.pick("eccp-", "-cbcs", "eccp--cbcs", "eccp-cbcs,eccp-cenc")
		case "huge":
			return strings.Repeat("E", 5000)
		}
	case "eccp":
		switch class {
		case "typical":
			return c.pick("cbcs", "cenc")
		case "wrongsep":
			return c.pick("cbcs,cenc", "cbcs-cenc")
		case "brokenlist":
			return c.pick("cbc", "-", "cbcs,", "cbcx")
		case "huge":
			return strings.Repeat("c", 5000)
		}
	}
	// remaining classes of the string-valued keys: the generic numeric-looking representatives
	if class == "typical" {
		return "x"
	}
	return c.genericValue(class, false)
}

// ---------------------------------------------------------------------------------------------
// tails

// tailCtx: context parameters a tail shape needs to be meaningful; MUST equal TailCtx of UrlSpaceOps.tla.
func tailCtx(ep, tail string) []part {
	if ep == "patch" {
		return []part{{"patch", "typical"}}
	}
	if ep != "livesim2" {
		return nil
	}
	switch tail {
	case "vnum_lt", "anum_lt":
		return []part{{"snr", "typical"}}
	case "vtime", "atime":
		return []part{{"segtimeline", "typical"}}
	case "bu_in", "bu_out":
		return []part{{"traffic", "typical"}}
	case "subs_init", "subs_media", "subs_unk_lang":
		return []part{{"timesubsstpp", "typical"}}
	case "wvtt_media":
		return []part{{"timesubswvtt", "typical"}}
	}
	return nil
}

type kv struct{ k, c, v string }

func leadingInt(s string) (int64, bool) {
	n, err := strconv.ParseInt(s, 10, 64)
	return n, err == nil
}

// livesimPath builds "<params>/<asset>/<tail>" for ep livesim2 / patch.
func (c *concretizer) livesimPath(a absReq, kvs []kv) (string, string) {
	find := func(k string) (string, bool) {
		for _, x := range kvs {
			if x.k == k {
				return x.v, true
			}
		}
		return "", false
	}
	ai := c.cur
	segS := int64(ai.segDurMS / 1000)
	nowS := c.baseMS / 1000
	snr := int64(0)
	if v, ok := find("snr"); ok {
		if n, ok := leadingInt(v); ok {
			snr = n
		}
	}
	// number of a segment that ended >= 2 segment durations ago (startNumber 0, AST 0)
	live := nowS/segS - 3 + snr
	if c.early {
		// instant classes around the stream start: the newest complete segment or an older one (down to the first)
		startS := int64(0)
		for _, x := range kvs {
			if x.k == "start" || x.k == "ast" {
				if n, ok := leadingInt(x.v); ok {
					startS = n
				}
			}
		}
		done := (c.instMS/1000 - startS) / segS // complete segments at the instant
		live = snr
		if done > 0 && done < 1000 {
			live = snr + done - 1 - c.rng.Int63n(done)
		}
	}
	if live < 0 {
		live = 0
	}
	var sb strings.Builder
	for _, x := range kvs {
		sb.WriteString(x.k + "_" + x.v + "/")
	}
	params := sb.String()
	extraQ := ""
	if v, ok := find("annexI"); ok && !strings.Contains(v, "%") {
		// give the query the MPD's annexI check asks for, so that the valid path is exercised as well
		extraQ = "&" + strings.ReplaceAll(v, ",", "&")
	}
	switch a.Asset {
	case "none":
		return strings.TrimSuffix(params, "/"), extraQ
	case "unknown":
		name := c.pick("nosuch_asset", "testpic_2", "testpic_2s_x", "WAVE/nothing", "testpic_2s0")
		if _, err := os.Stat(filepath.Join(c.vodRoot, name)); err == nil {
			panic("unknown asset exists: " + name)
		}
		t := "Manifest.mpd"
		if a.Tail != "mpd" && a.Tail != "mpp" {
			t = fmt.Sprintf(ai.vMedia, strconv.FormatInt(live, 10))
		} else if a.Tail == "mpp" {
			t = "Manifest.mpp"
		}
		return params + name + "/" + t, extraQ
	}
	num := func(pat string, n int64) string { return fmt.Sprintf(pat, strconv.FormatInt(n, 10)) }
	va := func() string { return c.pick(ai.vMedia, ai.aMedia) }
	var t string
	switch a.Tail {
	case "mpd":
		t = ai.mpd
	case "mpp":
		t = strings.Replace(ai.mpd, ".mpd", ".mpp", 1)
	case "init":
		t = c.pick(ai.vInit, ai.aInit)
	case "vnum":
		t = num(ai.vMedia, live)
	case "anum":
		t = num(ai.aMedia, live)
	case "vnum_lt", "anum_lt":
		n := snr - 1 - c.rng.Int63n(3)
		if n < 0 {
			n = 0
		}
		pat := ai.vMedia
		if a.Tail == "anum_lt" {
			pat = ai.aMedia
		}
		t = num(pat, n)
	case "num_huge":
		t = fmt.Sprintf(va(), c.pick("4294967295", "4000000000", "999999999", "2147483648", "4294967296", hugeStr))
	case "num_ovf":
		t = fmt.Sprintf(va(), c.pick("9223372036854775808", "99999999999999999999999"))
	case "vtime":
		t = num(ai.vMedia, (live-snr)*segS*int64(ai.vTS))
	case "atime":
		// audio segment boundaries are sample aligned: {AT} is replaced in the child by a time taken from the
		// segtimeline MPD of this asset at baseMS (only used to reach the valid path; no verdict depends on it)
		t = fmt.Sprintf(ai.aMedia, "{AT:"+ai.name+"/"+ai.mpd+"}")
	case "bu_in", "bu_out":
		n := 0
		if a.Tail == "bu_out" {
			tr, _ := find("traffic")
			np := strings.Count(tr, ",") + 1
			n = np + []int{0, 1, 5, 1000000}[c.rng.Intn(4)]
		}
		t = fmt.Sprintf("bu%d/", n) + num(va(), live)
	case "unk_rep":
		t = c.pick("V999", "A49", "v300", "V300x", "thumbs2", "video") + fmt.Sprintf("/%d.m4s", live)
		if c.rng.Intn(3) == 0 {
			t = c.pick("V999", "X1") + "/init.mp4"
		}
	case "bad_seg":
		t = fmt.Sprintf(va(), c.pick("abc", "x1", "-1", "seg_", "1_2"))
	case "unk_ext":
		t = strings.TrimSuffix(num(ai.vMedia, live), "m4s") + c.pick("xyz", "ts", "m4", "MPD", "m4s2")
	case "subs_init":
		t = "timestpp-en/init.mp4"
	case "subs_media":
		t = fmt.Sprintf("timestpp-en/%d.m4s", live)
	case "subs_unk_lang":
		t = fmt.Sprintf("timestpp-%s/%d.m4s", c.pick("xx", "", "EN", "en-"), live)
	case "wvtt_media":
		t = fmt.Sprintf("timewvtt-en/%d.m4s", live)
	default:
		panic("unknown tail " + a.Tail)
	}
	return params + ai.name + "/" + t, extraQ
}

func rfc3339(ms int64) string { return time.UnixMilli(ms).UTC().Format(time.RFC3339) }

func (c *concretizer) liveQuery(q string) string {
	b := strconv.FormatInt(c.baseMS, 10)
	switch q {
	case "now_ok":
		return "nowMS=" + b
	case "now_none":
		return ""
	case "t_start", "t_first", "t_early":
		return "nowMS=" + strconv.FormatInt(c.instMS, 10)
	case "now_bad":
		return "nowMS=" + c.pick("abc", "1.5", "", "1e12")
	case "now_neg":
		return "nowMS=" + c.pick("-5", "-1", "-"+b)
	case "now_huge":
		return "nowMS=" + c.pick(hugeStr, "99999999999999999999", "9223372036854775")
	case "now_zero":
		return "nowMS=0"
	case "nowdate_ok":
		return "nowDate=" + url.QueryEscape(rfc3339(c.baseMS))
	case "nowdate_bad":
		return "nowDate=" + c.pick("yesterday", "2023-13-45T00:00:00Z", "0", "")
	case "pubtime_bad":
		return "nowMS=" + b + "&publishTime=" + c.pick("xyz", "2023-02-30", "12")
	case "pt_ok":
		return "nowMS=" + b + "&publishTime=" + url.QueryEscape(rfc3339(c.baseMS-int64(c.rng.Intn(20)+2)*1000))
	case "pt_none":
		return "nowMS=" + b
	case "pt_bad":
		return "nowMS=" + b + "&publishTime=" + c.pick("xyz", "2023-02-30", "12", "")
	case "pt_future":
		return "nowMS=" + b + "&publishTime=" + url.QueryEscape(rfc3339(c.baseMS+3600_000))
	case "pt_same":
		return "nowMS=" + b + "&publishTime=" + url.QueryEscape(rfc3339(c.baseMS))
	case "pt_only":
		return "publishTime=" + url.QueryEscape(rfc3339(c.baseMS-4000))
	case "extra":
		return "nowMS=" + b + "&a=1&a=2&%zz=1&;&=&b"
	}
	panic("unknown query class " + q)
}

// ---------------------------------------------------------------------------------------------

func b64url(b []byte) string { return strings.TrimRight(base64.URLEncoding.EncodeToString(b), "=") }

func (c *concretizer) laurlBody(shape string) []byte {
	kidOK := append([]byte{0x28, 0x80, 0xfe}, make([]byte, 13)...)
	c.rng.Read(kidOK[3:])
	kidNo := make([]byte, 16)
	c.rng.Read(kidNo)
	kidNo[0] = 0x11
	switch shape {
	case "empty":
		return nil
	case "notjson":
		return []byte(c.pick("hello", "{", "<xml/>", "[1,2", "\x00\x01"))
	case "json_nokids":
		return []byte(c.pick(`{}`, `{"type":"temporary"}`, `[]`, `null`, `3`))
	case "kids_empty":
		return []byte(`{"kids":[],"type":"temporary"}`)
	case "kid_ok":
		return []byte(`{"kids":["` + b64url(kidOK) + `"],"type":"temporary"}`)
	case "kid_wronglen":
		return []byte(`{"kids":["` + c.pick(b64url(kidOK[:15]), b64url(append(kidOK, 1)), "", "KA") + `"],"type":"temporary"}`)
	case "kid_noprefix":
		return []byte(`{"kids":["` + b64url(kidNo) + `"],"type":"temporary"}`)
	case "kid_badb64":
		return []byte(`{"kids":["` + c.pick("!!!!", "KID*", "a b", "====") + `"],"type":"temporary"}`)
	case "kids_many":
		var sb strings.Builder
		sb.WriteString(`{"kids":[`)
		for i := 0; i < 200; i++ {
			if i > 0 {
				sb.WriteString(",")
			}
			sb.WriteString(`"` + b64url(kidOK) + `"`)
		}
		sb.WriteString(`]}`)
		return []byte(sb.String())
	case "kids_notarray":
		return []byte(c.pick(`{"kids":"abc"}`, `{"kids":{"a":1}}`, `{"kids":[1,2]}`, `{"kids":null}`, `{"kids":[null]}`))
	}
	panic("unknown laurl body " + shape)
}

func (c *concretizer) apiCreateBody(shape string) []byte {
	good := `"destRoot":"http://127.0.0.1:9/upload","destName":"c08","testNowMS":` + strconv.FormatInt(c.baseMS, 10)
	u := func(s string) string { return `{"livesimURL":"` + s + `",` + good + `}` }
	switch shape {
	case "empty":
		return nil
	case "notjson":
		return []byte(c.pick("hello", "{", "[1,2"))
	case "json_empty":
		return []byte(c.pick(`{}`, `[]`, `null`))
	case "valid_unreach":
		return []byte(u("/livesim2/testpic_2s/Manifest.mpd"))
	case "url_empty":
		return []byte(u(""))
	case "url_noslash":
		return []byte(u(c.pick("livesim2/testpic_2s/Manifest.mpd", "x", "Manifest.mpd")))
	case "url_space":
		return []byte(u(c.pick("/livesim2/testpic 2s/Manifest.mpd", " ", "/live sim2/x y", "/livesim2/%zz/Manifest.mpd", "http://[::1/x")))
	case "url_unknown_asset":
		return []byte(u("/livesim2/nosuch_asset/Manifest.mpd"))
	case "url_badcfg":
		return []byte(u(c.pick("/livesim2/tsbd_abc/testpic_2s/Manifest.mpd", "/livesim2/tsbd_-1/testpic_2s/Manifest.mpd",
			"/livesim2/", "/livesim2", "/")))
	case "url_segment":
		return []byte(u("/livesim2/testpic_2s/V300/1.m4s"))
	case "url_unknown_mpd":
		return []byte(u("/livesim2/testpic_2s/Nosuch.mpd"))
	case "dur_neg":
		return []byte(`{"livesimURL":"/livesim2/testpic_2s/Manifest.mpd","duration":-1,` + good + `}`)
	case "dur_zero":
		return []byte(`{"livesimURL":"/livesim2/testpic_2s/Manifest.mpd","duration":0,` + good + `}`)
	case "dur_huge":
		return []byte(`{"livesimURL":"/livesim2/testpic_2s/Manifest.mpd","duration":9223372036854775807,` + good + `}`)
	case "nowms_neg":
		return []byte(`{"livesimURL":"/livesim2/testpic_2s/Manifest.mpd","destRoot":"http://127.0.0.1:9/upload","destName":"c08","testNowMS":-5}`)
	case "wrong_types":
		return []byte(c.pick(`{"livesimURL":5}`, `{"livesimURL":"/livesim2/testpic_2s/Manifest.mpd","duration":"x"}`,
			`{"livesimURL":null,"destRoot":[],"destName":{}}`))
	}
	panic("unknown api body " + shape)
}

// ---------------------------------------------------------------------------------------------
// receiver bodies

func box(size uint32, typ string, payload []byte) []byte {
	b := make([]byte, 8, 8+len(payload))
	binary.BigEndian.PutUint32(b, size)
	copy(b[4:], typ)
	return append(b, payload...)
}

func okBox(typ string, payload []byte) []byte { return box(uint32(8+len(payload)), typ, payload) }

// rcvBody: NEVER produces a box whose size field is huge without wrapping the parser's 32-bit offset
// (the parser would allocate that many bytes): sizes are < 2^20 or make offset+size wrap.
func (c *concretizer) rcvBody(shape string) []byte {
	pay := make([]byte, 16)
	c.rng.Read(pay)
	mfhd := okBox("mfhd", []byte{0, 0, 0, 0, 0, 0, 0, 7})
	switch shape {
	case "empty":
		return nil
	case "size0", "size1", "size2", "size3", "size4", "size5", "size6", "size7":
		n := uint32(shape[4] - '0')
		b := box(n, c.pick("moof", "styp", "mdat", "moov", "free"), pay)
		if c.rng.Intn(2) == 0 { // after a well-formed first box
			b = append(okBox("styp", []byte("cmfc\x00\x00\x00\x00cmfc")), b...)
		}
		return b
	case "size_gt":
		return box(uint32(8+len(pay)+1+c.rng.Intn(5000)), c.pick("moof", "mdat", "moov"), pay)
	case "size_wrap":
		first := okBox("styp", []byte("cmfc\x00\x00\x00\x00cmfc"))
		// offset(first) + size >= 2^32
		return append(first, box(0xFFFFFFFF-uint32(c.rng.Intn(int(len(first)))), c.pick("moof", "mdat"), pay)...)
	case "junk":
		b := make([]byte, 200+c.rng.Intn(300))
		c.rng.Read(b)
		binary.BigEndian.PutUint32(b, uint32(8+c.rng.Intn(1000))) // bounded first size
		// following "sizes" are random: keep the declared first box covering everything so that no huge size is read
		binary.BigEndian.PutUint32(b, uint32(len(b)))
		return b
	case "moof_no_traf":
		return append(okBox("moof", mfhd), okBox("mdat", pay)...)
	case "moof_empty":
		return append(okBox("moof", nil), okBox("mdat", nil)...)
	case "moov_empty":
		return okBox("moov", nil)
	case "moov_junk":
		return okBox("moov", pay)
	case "ftyp_only":
		return okBox("ftyp", []byte("cmfc\x00\x00\x00\x00cmfc"))
	case "mdat_only":
		return okBox("mdat", pay)
	case "media_valid", "init_then_media":
		return c.mediaSeg
	case "init_valid":
		return c.initSeg
	case "init_truncated":
		return c.initSeg[:len(c.initSeg)/2+c.rng.Intn(len(c.initSeg)/3)]
	case "media_truncated":
		return c.mediaSeg[:200+c.rng.Intn(len(c.mediaSeg)/2)]
	case "two_media":
		return append(append([]byte{}, c.mediaSeg...), c.media2...)
	case "init_plus_media":
		return append(append([]byte{}, c.initSeg...), c.mediaSeg...)
	case "mpd_xml":
		return []byte(`<?xml version="1.0"?><MPD xmlns="urn:mpeg:dash:schema:mpd:2011" type="dynamic"></MPD>`)
	case "text":
		return []byte("hello world, this is not mp4 at all")
	}
	panic("unknown rcv body " + shape)
}

func (c *concretizer) rcvPath(tail string, ch string) string {
	switch tail {
	case "seg":
		return "/upload/" + ch + "/video/" + c.pick("1", "896605655", "0") + ".cmfv"
	case "streams":
		return "/upload/" + ch + "/Streams(video.cmfv)"
	case "mpd":
		return "/upload/" + ch + "/manifest.mpd"
	case "badext":
		return "/upload/" + ch + "/video/1." + c.pick("mp4", "m4s", "cmf", "cmfx", "CMFV")
	case "nochan":
		return "/upload/" + c.pick("1.cmfv", "video/1.cmfv", "Streams(video.cmfv)")
	case "deep":
		return "/upload/a/b/c/d/" + ch + "/video/1.cmfv"
	case "prefix_only":
		return c.pick("/upload/", "/upload", "/upload//")
	case "outside":
		return c.pick("/other/x.cmfv", "/", "/uploadx/ch/video/1.cmfv")
	case "emptytrack":
		return "/upload/" + ch + c.pick("//1.cmfv", "/video/.cmfv", "/Streams(.cmfv)", "/Streams().cmfv")
	case "audio":
		return "/upload/" + ch + "/audio/1.cmfa"
	case "text":
		return "/upload/" + ch + "/text/1.cmft"
	case "meta":
		return "/upload/" + ch + "/scte/1.cmfm"
	case "weird":
		return "/upload/" + ch + c.pick("/vi%deo/1.cmfv", "/v d/1.cmfv", "/Streams(a(b).cmfv)", "/.mpd", "/x.mpd/1.cmfv")
	}
	panic("unknown rcv path " + tail)
}

// ---------------------------------------------------------------------------------------------

var urlgenKey = map[string]string{"patch": "patch-ttl"}

// concretize builds one concrete request of the abstract request a.
func (c *concretizer) concretize(id int, a absReq, rep int) job {
	j := job{ID: id, Abs: a, Rep: rep, Method: a.Method, Headers: map[string]string{}}
	if j.Abs.Parts == nil {
		j.Abs.Parts = []part{}
	}
	j.Ctx = []part{}
	c.cur = knownAssets[c.rng.Intn(len(knownAssets))]
	c.curAudio = a.Tail == "anum" || a.Tail == "atime" || a.Tail == "anum_lt"
	for _, p := range tailCtx(a.Ep, a.Tail) {
		dup := false
		for _, q := range a.Parts {
			if q.K == p.K {
				dup = true
			}
		}
		if !dup {
			j.Ctx = append(j.Ctx, p)
		}
	}
	var kvs []kv
	for _, p := range j.Ctx {
		kvs = append(kvs, kv{p.K, p.C, c.value(p.K, p.C)})
	}
	for _, p := range a.Parts {
		kvs = append(kvs, kv{p.K, p.C, c.value(p.K, p.C)})
	}
	c.early = strings.HasPrefix(a.Query, "t_")
	if c.early {
		startS := int64(0)
		for _, x := range kvs {
			if x.k == "start" || x.k == "ast" {
				if n, ok := leadingInt(x.v); ok && n > -(1<<40) && n < 1<<40 {
					startS = n
				}
			}
		}
		seg := int64(c.cur.segDurMS)
		switch a.Query {
		case "t_start":
			c.instMS = startS * 1000
		case "t_first":
			c.instMS = startS*1000 + []int64{1, 1000, seg - 1, seg / 2}[c.rng.Intn(4)]
		default: // t_early: 2 or 3 complete segments, inside the first status-code cycle
			c.instMS = startS*1000 + int64(2+c.rng.Intn(2))*seg + 500
		}
	}
	switch a.Ep {
	case "livesim2":
		p, extraQ := c.livesimPath(a, kvs)
		j.Path = "/livesim2/" + p
		j.RawQuery = c.liveQuery(a.Query)
		if extraQ != "" && j.RawQuery != "" {
			j.RawQuery += extraQ
		}
		if a.Method == "POST" {
			j.Body = c.laurlBody("kid_ok")
		}
	case "patch":
		p, _ := c.livesimPath(a, kvs)
		j.Path = "/patch/livesim2/" + p
		j.RawQuery = c.liveQuery(a.Query)
	case "urlgen_create", "urlgen_mpds", "urlgen_drms":
		q := url.Values{}
		switch a.Asset {
		case "known":
			q.Set("asset", knownAssets[c.rng.Intn(len(knownAssets))].name)
		case "unknown":
			q.Set("asset", c.pick("nosuch_asset", "", "testpic_2s/"))
		}
		j.Path = "/urlgen/" + strings.TrimPrefix(a.Ep, "urlgen_")
		if a.Ep == "urlgen_create" {
			if a.Asset != "none" {
				q.Set("mpd", c.pick("Manifest.mpd", "manifest.mpd", "nosuch.mpd"))
			}
			q.Set("stl", c.pick("nr", "tlt", "tlnr", "bad"))
			for _, x := range kvs {
				k := x.k
				if m, ok := urlgenKey[k]; ok {
					k = m
				}
				q.Set(k, x.v)
			}
		}
		j.RawQuery = q.Encode()
	case "misc":
		known := knownAssets[c.rng.Intn(len(knownAssets))].name
		switch a.Tail {
		case "urlgen":
			j.Path = "/urlgen/"
		case "urlgen_other":
			j.Path = "/urlgen/" + c.pick("nosuch", "create/", "mpds/x", "%zz")
		case "assets":
			j.Path = "/assets"
		case "vod_root":
			j.Path = "/vod"
		case "vod_file":
			switch a.Asset {
			case "known":
				j.Path = "/vod/" + c.pick("testpic_2s", "testpic_8s") + c.pick("/Manifest.mpd", "/V300/init.mp4", "/V300/1.m4s", "/", "")
			default:
				j.Path = "/vod/" + c.pick("nosuch_asset/Manifest.mpd", "testpic_2s/V999/1.m4s", "testpic_2s/Nosuch.mpd")
			}
		case "reqcount":
			j.Path = "/reqcount"
		case "healthz", "config", "version", "metrics", "favicon.ico":
			j.Path = "/" + a.Tail
		case "index":
			j.Path = "/"
		case "static":
			j.Path = "/static/" + c.pick("time.txt", "nosuch.txt", "", "../start.go", "css/")
		case "nopath":
			j.Path = c.pick("/nosuch", "/livesim3/x", "/api", "/api/nosuch", "/debug", "//", "/livesim2")
		case "redirect":
			j.Path = c.pick("/livesim/", "/livesim-chunked/", "/dash/vod/", "/urlgen") + c.pick("", known+"/Manifest.mpd", "tsbd_abc/x")
			if strings.HasPrefix(j.Path, "/urlgen") {
				j.Path = "/urlgen"
			}
		case "debug":
			j.Path = c.pick("/debug/pprof/", "/debug/pprof/cmdline", "/debug/vars", "/debug/pprof/nosuch")
		default:
			panic("unknown misc tail " + a.Tail)
		}
		if a.Query == "now_ok" {
			j.RawQuery = c.liveQuery("now_ok")
		}
	case "laurl":
		switch a.Tail {
		case "live_eccp":
			j.Path = "/livesim2/eccp_cbcs/testpic_2s/eccp.json"
		case "root_eccp":
			j.Path = c.pick("/eccp.json", "/x/y/eccp.json", "/vod/eccp.json")
		case "not_eccp":
			j.Path = c.pick("/livesim2/testpic_2s/Manifest.mpd", "/", "/urlgen/create", "/livesim2/eccp.jso")
		default:
			panic("unknown laurl tail " + a.Tail)
		}
		j.Body = c.laurlBody(a.Body)
		j.Headers["Content-Type"] = "application/json"
	case "api":
		j.Headers["Content-Type"] = "application/json"
		switch a.Tail {
		case "create":
			j.Path = "/api/cmaf-ingests"
			j.Body = c.apiCreateBody(a.Body)
			j.SettleMS = 150
		case "get", "step", "delete":
			id := ""
			switch a.Query {
			case "id_nonnum":
				id = c.pick("abc", "1x", "%zz", "1.5")
			case "id_neg":
				id = c.pick("-1", "-0")
			case "id_huge":
				id = c.pick(hugeStr, "9223372036854775808", "4294967296")
			case "id_long":
				id = strings.Repeat("1", 33+c.rng.Intn(100))
			case "id_unknown":
				id = c.pick("0", "999999", "77")
			case "id_known":
				id = "{ID}"
				j.Pre = []preReq{{Method: "POST", Path: "/api/cmaf-ingests", Headers: map[string]string{"Content-Type": "application/json"},
					Body: c.apiCreateBody("valid_unreach"), WantID: true}}
			default:
				panic("unknown id class " + a.Query)
			}
			j.Path = "/api/cmaf-ingests/" + id
			if a.Tail == "step" {
				j.Path += "/step"
			}
			j.SettleMS = 50
		case "docs":
			j.Path = c.pick("/api/openapi.json", "/api/docs", "/api/openapi.yaml", "/api/schemas/x.json")
		default:
			panic("unknown api tail " + a.Tail)
		}
	case "rcvseq":
		c.rcvSequence(&j, a)
	case "rcv":
		c.nextCh++
		ch := fmt.Sprintf("ch%d", c.nextCh)
		j.Path = c.rcvPath(a.Tail, ch)
		if a.Method != "DELETE" || a.Body != "empty" {
			j.Body = c.rcvBody(a.Body)
		}
		if a.Body == "init_then_media" && (a.Tail == "seg" || a.Tail == "streams") {
			initPath := "/upload/" + ch + "/video/init.cmfv"
			if a.Tail == "streams" {
				initPath = j.Path
			}
			j.Pre = []preReq{{Method: "PUT", Path: initPath, Body: c.initSeg,
				Headers: map[string]string{"Content-Length": strconv.Itoa(len(c.initSeg))}}}
		}
		if strings.HasPrefix(a.Body, "media") || strings.HasPrefix(a.Body, "init") || a.Body == "two_media" {
			j.SettleMS = 20
		}
		n := len(j.Body)
		j.CL = int64(n)
		switch a.Query {
		case "cl_ok":
			j.Headers["Content-Length"] = strconv.Itoa(n)
		case "cl_none":
			j.CL = -1
		case "cl_small":
			j.Headers["Content-Length"] = strconv.Itoa(n / 2)
		case "cl_big":
			j.Headers["Content-Length"] = strconv.Itoa(n + 1 + c.rng.Intn(100000))
		case "cl_neg":
			j.Headers["Content-Length"] = c.pick("-1", "-100")
			j.CL = -1
		case "cl_nonnum":
			j.Headers["Content-Length"] = c.pick("abc", "1.5", "12 ", "0x10")
		case "cl_huge":
			// beyond any possible allocation (makeslice refuses without allocating); never a few GB
			j.Headers["Content-Length"] = c.pick(hugeStr, "4611686018427387904", "9223372036854775806")
		default:
			panic("unknown cl class " + a.Query)
		}
	default:
		panic("unknown endpoint " + a.Ep)
	}
	return j
}

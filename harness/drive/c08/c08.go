package c08

import (
	"bufio"
	"encoding/json"
	"flag"
	"fmt"
	"os"
	"os/exec"
	"path/filepath"
	"regexp"
	"strings"
	"sync"
	"time"

	"verifharness/tr"
)

// Main: parent mode ("run") concretises the TLC-generated abstract requests, runs them in child
// processes (this binary re-executed with -mode child) and writes the trace; a child that dies or whose
// handler does not return is an observation (fatal / timeout), never the end of the run.
func Main(args []string) error {
	fs := flag.NewFlagSet("c08", flag.ExitOnError)
	mode := fs.String("mode", "run", "run|child")
	gen := fs.String("gen", "", "abstract requests, one JSON object per line (from TLC)")
	out := fs.String("out", "c08.ndjson", "trace output")
	seed := fs.Int64("seed", 1, "seed")
	workers := fs.Int("workers", 4, "parallel child processes")
	repsSingle := fs.Int("reps1", 2, "concrete representatives per abstract request with <= 1 parameter")
	repsPair := fs.Int("reps2", 1, "concrete representatives per abstract request with 2 parameters")
	bound := fs.Int("bound", 2000, "wall-time bound per request in ms (first stage)")
	cbound := fs.Int("cbound", 10000, "wall-time bound in ms when a request is re-run alone (confirmation)")
	budget := fs.Int("budget", 40, "max number of confirmation re-runs")
	work := fs.String("work", "", "scratch directory")
	jobsFile := fs.String("jobs", "", "(child) job file")
	tmp := fs.String("tmp", "", "(child) scratch directory = cwd")
	base := fs.Int64("base", 0, "(child) nowMS base")
	asMB := fs.Int("as", 0, "(child) RLIMIT_AS in MiB")
	memMB := fs.Int("mem", 0, "(child) heap watchdog in MiB")
	only := fs.String("only", "", "run only requests whose URL matches this regexp (debugging)")
	fast := fs.String("fastsites", "", "(child) call sites already confirmed as non-terminating")
	_ = fs.Parse(args)
	repo := os.Getenv("VERIF_REPO")
	if repo == "" {
		repo = "/repo"
	}
	if *mode == "child" {
		memLimitMB = *memMB
		for _, s := range strings.Split(*fast, ",") {
			if s != "" {
				fastSites[s] = true
			}
		}
		return childMain(*jobsFile, *bound, repo, *tmp, *base, *asMB)
	}
	if *work == "" {
		*work = filepath.Dir(*out)
	}
	p := &parent{repo: repo, work: *work, bound: *bound, cbound: *cbound, budget: *budget, seed: *seed}
	return p.run(*gen, *out, *workers, *repsSingle, *repsPair, *only)
}

type parent struct {
	repo   string
	work   string
	bound  int
	cbound int
	budget int
	seed   int64
	baseMS int64
	mu     sync.Mutex
	outs   map[int]outcome
	stage1 map[int]outcome // first-stage timeouts / crashes awaiting confirmation
	nChild int
	restarts int
	byID     map[int]job
	self     string
	// confirmation state
	confirmSem    chan struct{}
	confirmedBad  map[string]int // kind@site -> number of confirmations alone with the long bound
	confirmedOK   map[string]int // site of a first-stage timeout -> number of re-runs alone that returned in time
	nConfirm      int
	nInconclusive int
	unattributed  int
	fastSites     []string // call sites confirmed (twice) as non-terminating: children stop waiting early there
}

func (p *parent) run(genFile, outFile string, workers, reps1, reps2 int, only string) error {
	self, err := os.Executable()
	if err != nil {
		return err
	}
	conc, err := newConcretizer(p.seed, p.repo)
	if err != nil {
		return err
	}
	p.baseMS = conc.baseMS
	f, err := os.Open(genFile)
	if err != nil {
		return err
	}
	var jobs []job
	sc := bufio.NewScanner(f)
	sc.Buffer(make([]byte, 1<<20), 16<<20)
	nAbs := 0
	distinct := map[string]bool{}
	var onlyRe *regexp.Regexp
	if only != "" {
		onlyRe = regexp.MustCompile(only)
	}
	for sc.Scan() {
		var a absReq
		if err := json.Unmarshal(sc.Bytes(), &a); err != nil {
			return fmt.Errorf("gen line: %w", err)
		}
		nAbs++
		distinct[string(sc.Bytes())] = true
		n := reps1
		if len(a.Parts) >= 2 {
			n = reps2
		}
		for r := 0; r < n; r++ {
			j := conc.concretize(len(jobs)+1, a, r)
			if onlyRe != nil && !onlyRe.MatchString(j.url()) {
				continue
			}
			jobs = append(jobs, j)
		}
	}
	f.Close()
	if err := sc.Err(); err != nil {
		return err
	}
	for i := range jobs {
		jobs[i].ID = i + 1
	}
	p.outs = map[int]outcome{}
	p.stage1 = map[int]outcome{}
	p.confirmedBad = map[string]int{}
	p.confirmedOK = map[string]int{}
	p.confirmSem = make(chan struct{}, 4)
	p.self = self
	p.byID = map[int]job{}
	for _, j := range jobs {
		p.byID[j.ID] = j
	}

	// batches per server kind (one server per child), order preserved inside a batch
	bySrv := map[string][]job{}
	var srvs []string
	for _, j := range jobs {
		if _, ok := bySrv[j.Abs.Srv]; !ok {
			srvs = append(srvs, j.Abs.Srv)
		}
		bySrv[j.Abs.Srv] = append(bySrv[j.Abs.Srv], j)
	}
	const batchSize = 600
	var batches [][]job
	for _, s := range srvs {
		js := bySrv[s]
		for len(js) > 0 {
			n := min(batchSize, len(js))
			batches = append(batches, js[:n])
			js = js[n:]
		}
	}
	t0 := time.Now()
	ch := make(chan []job)
	var wg sync.WaitGroup
	var firstErr error
	for w := 0; w < workers; w++ {
		wg.Add(1)
		go func() {
			defer wg.Done()
			for b := range ch {
				if err := p.runBatch(self, b, p.bound, 1024, 0, false); err != nil {
					p.mu.Lock()
					if firstErr == nil {
						firstErr = err
					}
					p.mu.Unlock()
				}
			}
		}()
	}
	for _, b := range batches {
		ch <- b
	}
	close(ch)
	wg.Wait()
	if firstErr != nil {
		return firstErr
	}
	stage1Wall := time.Since(t0)
	nConfirm, nInconclusive, unattributed := p.nConfirm, p.nInconclusive, p.unattributed

	// trace
	w, err := tr.New(outFile)
	if err != nil {
		return err
	}
	kinds := map[string]int{}
	classes := map[string]int{}
	panicSites := map[string]int{}
	eps := map[string]int{}
	var samples []any
	maxMS := 0
	for _, j := range jobs {
		o, ok := p.outs[j.ID]
		if !ok {
			return fmt.Errorf("request %d has no outcome", j.ID)
		}
		w.Emit(tr.E{"ev": "req", "id": j.ID, "srv": j.Abs.Srv, "ep": j.Abs.Ep, "method": j.Abs.Method, "parts": j.Abs.Parts,
			"ctx": j.Ctx, "asset": j.Abs.Asset, "tail": j.Abs.Tail, "query": j.Abs.Query, "body": j.Abs.Body,
			"url": o.URL, "rep": j.Rep})
		w.Emit(tr.E{"ev": "out", "id": j.ID, "kind": o.Kind, "status": o.Status, "blen": min(o.Blen, 1<<30), "site": o.Site,
			"top": o.Top, "chain": o.Chain, "msg": o.Msg, "ms": o.MS})
		kinds[o.Kind]++
		eps[j.Abs.Ep]++
		if o.Kind == "status" {
			classes[fmt.Sprintf("%dxx", o.Status/100)]++
		}
		if o.Kind == "panic" || o.Kind == "fatal" || o.Kind == "timeout" {
			panicSites[o.Kind+"@"+o.Site]++
			if len(samples) < 6 && panicSites[o.Kind+"@"+o.Site] == 1 {
				samples = append(samples, map[string]any{"url": o.URL, "kind": o.Kind, "site": o.Site, "msg": trunc(o.Msg, 80)})
			}
		}
		if o.MS > maxMS {
			maxMS = o.MS
		}
	}
	if err := w.Close(); err != nil {
		return err
	}
	for _, j := range jobs[:min(2, len(jobs))] {
		samples = append(samples, map[string]any{"url": p.outs[j.ID].URL, "kind": p.outs[j.ID].Kind, "status": p.outs[j.ID].Status})
	}
	tr.PrintStats(map[string]any{"scenarios": len(jobs), "events": w.N, "distinct": len(distinct), "abstract": nAbs,
		"samples": samples, "kinds": kinds, "status_classes": classes, "crash_sites": panicSites, "endpoints": eps,
		"children": p.nChild, "child_restarts": p.restarts, "confirm_runs": nConfirm, "inconclusive": nInconclusive,
		"unattributed_crashes": unattributed, "stage1_wall_s": stage1Wall.Seconds(), "max_ms": maxMS, "base_ms_s": p.baseMS / 1000})
	return nil
}

var crashHead = regexp.MustCompile(`(?m)^(panic: .*|fatal error: .*|runtime: out of memory.*)$`)

// crashInfo extracts message and call site from the stderr of a child that died.
func crashInfo(stderr string) (msg, site, top string) {
	loc := crashHead.FindStringIndex(stderr)
	if loc == nil {
		return trunc(strings.TrimSpace(stderr), 160), "", ""
	}
	msg = trunc(stderr[loc[0]:loc[1]], 160)
	rest := stderr[loc[1]:]
	if i := strings.Index(rest, "goroutine "); i >= 0 {
		rest = rest[i:]
	}
	blk := rest
	if i := strings.Index(rest, "\n\n"); i >= 0 {
		blk = rest[:i]
	}
	site, top = sites(parseFrames(blk), strings.Contains(blk, "\npanic("))
	if site == "" { // e.g. out of memory: the allocating goroutine is listed later
		for _, b := range strings.Split(rest, "\n\n") {
			if strings.Contains(b, "c08.(*child).serve") {
				site, top = sites(parseFrames(b), false)
				break
			}
		}
	}
	return
}

// runBatch runs the jobs in child processes until every job has an outcome.
func (p *parent) runBatch(self string, batch []job, boundMS, memMB, asMB int, confirming bool) error {
	rest := batch
	for len(rest) > 0 {
		fast := ""
		if !confirming {
			p.mu.Lock()
			fast = strings.Join(p.fastSites, ",")
			p.mu.Unlock()
		}
		p.mu.Lock()
		p.nChild++
		n := p.nChild
		p.mu.Unlock()
		dir := filepath.Join(p.work, fmt.Sprintf("child%d", n))
		if err := os.MkdirAll(dir, 0o755); err != nil {
			return err
		}
		jf := filepath.Join(dir, "jobs.jsonl")
		f, err := os.Create(jf)
		if err != nil {
			return err
		}
		bw := bufio.NewWriter(f)
		for _, j := range rest {
			b, _ := json.Marshal(j)
			bw.Write(b)
			bw.WriteByte('\n')
		}
		bw.Flush()
		f.Close()
		cmd := exec.Command(self, "-mode", "child", "-jobs", jf, "-bound", fmt.Sprint(boundMS), "-tmp", filepath.Join(dir, "tmp"),
			"-base", fmt.Sprint(p.baseMS), "-mem", fmt.Sprint(memMB), "-as", fmt.Sprint(asMB), "-fastsites", fast)
		cmd.Env = append(os.Environ(), "VERIF_REPO="+p.repo, "GOTRACEBACK=all")
		errFile, err := os.Create(filepath.Join(dir, "stderr.txt"))
		if err != nil {
			return err
		}
		cmd.Stderr = errFile
		stdout, err := cmd.StdoutPipe()
		if err != nil {
			return err
		}
		if err := cmd.Start(); err != nil {
			return err
		}
		lines := make(chan string, 64)
		go func() {
			sc := bufio.NewScanner(stdout)
			sc.Buffer(make([]byte, 1<<20), 16<<20)
			for sc.Scan() {
				lines <- sc.Text()
			}
			close(lines)
		}()
		done := 0
		hard := time.Duration(boundMS)*time.Millisecond*2 + 20*time.Second
		killed := false
	loop:
		for {
			select {
			case l, ok := <-lines:
				if !ok {
					break loop
				}
				if !strings.HasPrefix(l, "{") {
					continue // stray output of the code under test
				}
				var o outcome
				if err := json.Unmarshal([]byte(l), &o); err != nil || o.ID == 0 {
					continue
				}
				if done < len(rest) && o.ID == rest[done].ID {
					p.mu.Lock()
					p.outs[o.ID] = o
					if o.Kind == "timeout" {
						p.stage1[o.ID] = o
					}
					p.mu.Unlock()
					done++
				}
			case <-time.After(hard):
				killed = true
				_ = cmd.Process.Kill()
			}
		}
		werr := cmd.Wait()
		errFile.Close()
		if done < len(rest) {
			// the child ended while request rest[done] was in flight (or, with exit 77, after reporting it)
			p.mu.Lock()
			p.restarts++
			p.mu.Unlock()
			if werr == nil {
				return fmt.Errorf("child %d exited 0 after %d of %d jobs", n, done, len(rest))
			}
			if ee, ok := werr.(*exec.ExitError); ok && ee.ExitCode() == exitTimeout && !killed {
				// the child reported a timeout for rest[done-1] and terminated itself
				if !confirming && done > 0 {
					if err := p.resolve(rest[done-1].ID, nil); err != nil {
						return err
					}
				}
				rest = rest[done:]
				continue
			}
			j := rest[done]
			se, _ := os.ReadFile(filepath.Join(dir, "stderr.txt"))
			msg, site, top := crashInfo(string(se))
			o := outcome{ID: j.ID, Kind: "fatal", Msg: msg, Site: site, Top: top, URL: trunc(j.url(), 300)}
			if killed {
				o.Kind, o.Msg = "timeout", "child made no progress and was killed"
			}
			if strings.Contains(string(se), "driver error") && !crashHead.MatchString(string(se)) {
				return fmt.Errorf("child %d: %s", n, trunc(string(se), 2000))
			}
			p.mu.Lock()
			p.outs[j.ID] = o
			p.stage1[j.ID] = o
			p.mu.Unlock()
			var nb []int
			for k := done - 1; k >= 0 && k >= done-3; k-- {
				nb = append(nb, rest[k].ID)
			}
			if !confirming {
				if err := p.resolve(j.ID, nb); err != nil {
					return err
				}
			}
			rest = rest[done+1:]
			continue
		}
		// all jobs answered; exit code 77 happens when the last job timed out
		if ee, ok := werr.(*exec.ExitError); ok && ee.ExitCode() == exitTimeout && !confirming && done > 0 {
			if err := p.resolve(rest[done-1].ID, nil); err != nil {
				return err
			}
		}
		rest = nil
	}
	return nil
}

// resolve decides what a first-stage timeout / crash of request id becomes: it is re-run alone with the long bound
// (confirmation) unless the same kind@site has already been confirmed twice in this run.
func (p *parent) resolve(id int, neighbors []int) error {
	p.mu.Lock()
	s1 := p.stage1[id]
	key := s1.Kind + "@" + s1.Site
	if p.confirmedBad[key] >= 2 && s1.Site != "" {
		o := s1
		o.Msg = "[as confirmed for the same site] " + o.Msg
		p.outs[id] = o
		p.mu.Unlock()
		return nil
	}
	if s1.Kind == "timeout" && s1.Site != "" && p.confirmedOK[s1.Site] >= 2 && p.confirmedBad[key] == 0 {
		// this call site is slow but has returned twice when re-run alone with the long bound: inconclusive, not judged
		o := s1
		o.Kind = "slow"
		o.Msg = "[same call site returned within the long bound when re-run alone] " + o.Msg
		p.outs[id] = o
		p.nInconclusive++
		p.mu.Unlock()
		return nil
	}
	if p.nConfirm >= p.budget {
		o := s1
		o.Kind = "slow"
		o.Msg = "[not confirmed: budget] " + o.Msg
		p.outs[id] = o
		p.nInconclusive++
		p.mu.Unlock()
		return nil
	}
	p.nConfirm++
	delete(p.outs, id)
	p.mu.Unlock()
	p.confirmSem <- struct{}{}
	defer func() { <-p.confirmSem }()
	if err := p.runBatch(p.self, []job{p.byID[id]}, p.cbound, 0, 4096, true); err != nil {
		return err
	}
	p.mu.Lock()
	o, ok := p.outs[id]
	if !ok {
		p.mu.Unlock()
		return fmt.Errorf("confirmation of request %d produced no outcome", id)
	}
	if o.Kind == "timeout" || o.Kind == "fatal" {
		p.confirmedBad[o.Kind+"@"+o.Site]++
		if o.Kind == "timeout" && o.Site != "" && p.confirmedBad[o.Kind+"@"+o.Site] == 2 {
			p.fastSites = append(p.fastSites, o.Site)
		}
		p.mu.Unlock()
		return nil
	}
	if s1.Kind == "timeout" && s1.Site != "" {
		p.confirmedOK[s1.Site]++
	}
	p.mu.Unlock()
	// the request alone is fine
	if s1.Kind == "fatal" {
		// the crash came from a goroutine started by an earlier request: try the neighbours alone
		found := false
		for _, nid := range neighbors {
			p.mu.Lock()
			if p.nConfirm >= p.budget {
				p.mu.Unlock()
				break
			}
			p.nConfirm++
			nj := p.byID[nid]
			prev := p.outs[nid]
			delete(p.outs, nid)
			p.mu.Unlock()
			nj.SettleMS = 500
			if err := p.runBatch(p.self, []job{nj}, p.cbound, 0, 4096, true); err != nil {
				return err
			}
			p.mu.Lock()
			no := p.outs[nid]
			if no.Kind == "fatal" {
				found = true
				p.mu.Unlock()
				break
			}
			p.outs[nid] = prev
			p.mu.Unlock()
		}
		if !found {
			p.mu.Lock()
			p.unattributed++
			p.mu.Unlock()
		}
	}
	return nil
}

---------------------------- MODULE LiveTimelineImpl ----------------------------
(* (M) for X03: the transcription of livesegment.go / livempd.go / asset.go (LiveTimelineImplOps) is run at every
   sampled instant `now` of every small configuration and judged by the EXISTING oracle of C01/C02/C04/C05
   (LiveTimelineOps, LiveMpdOps) - the same operators the trace specifications evaluate on the real code.
   One behaviour = one configuration c, `now` stepping through its sampling schedule.
   With EmitGen the explorer prints one GEN line per state: the PREDICTION for every request of that state,
   replayed into the real server by harness/drive/x03. *)
EXTENDS LiveTimelineImplOps, LiveMpdOps, TLC, Json
CONSTANTS Configs,     \* set of records c (LiveTimelineImplOps) + sampling fields grain, loops
          Fix,         \* TRUE: the present code; FALSE: the code before the vod0 fixes 27fa7f8 / 52d2ae2 (history, *_cex_vod0_* configs)
          EmitGen,     \* print GEN lines
          Seed         \* selects the thin sample of GEN cases away from breakpoints
VARIABLES c, now
vars == <<c, now>>

Sc(cc) == [N |-> cc.N, dur |-> cc.dur, vod0 |-> cc.vod0, TS |-> cc.TS, loopMS |-> cc.loopMS,
           tsbd |-> cc.tsbd, ato |-> cc.ato, snr |-> cc.snr]
AstMS(cc) == cc.ast * 1000
Ato0(cc)  == IF cc.ato < 0 THEN 0 ELSE cc.ato
\* the request instant relative to availabilityStartTime as the oracle's pair over P in u (negative before AST)
NowP(cc, t) == TNorm(P(Sc(cc)), 0, (t - AstMS(cc)) * cc.TS)

(* ---- sampling schedule of `now` (absolute ms): from 2 ms before AST over cc.loops loop periods (+ window, + offset)
   at every ms (grain 1) or at every multiple of grain after AST and the ms before / after it; then the same over the
   instants at which the segments of the first loop leave the served window (tsbd + 10 s margin). *)
First(cc)     == AstMS(cc) - 2
DenseEnd(cc)  == AstMS(cc) + cc.loops * cc.loopMS + cc.tsbd * 1000 + Ato0(cc) + 2
GoneFrom(cc)  == AstMS(cc) + (cc.tsbd + MarginS) * 1000 - Ato0(cc) - 2
GoneEnd(cc)   == AstMS(cc) + (cc.tsbd + MarginS) * 1000 + cc.loopMS + (cc.vod0 * 1000) \div cc.TS + 3
Snap(cc, t)   == IF cc.grain = 1 THEN t
                 ELSE LET r == (t - AstMS(cc)) % cc.grain IN
                      IF r \in {0, 1, cc.grain - 1} THEN t ELSE t + (cc.grain - 1 - r)
NextNow(cc, t) == LET t1 == IF t + 1 <= DenseEnd(cc) \/ t + 1 >= GoneFrom(cc) THEN t + 1 ELSE GoneFrom(cc) IN Snap(cc, t1)

Init == c \in { [s EXCEPT !.fix = Fix] : s \in Configs } /\ now = First(c)
Tick == /\ NextNow(c, now) <= GoneEnd(c)
        /\ now' = NextNow(c, now)
        /\ UNCHANGED c
Spec == Init /\ [][Tick]_vars

(* ---- which requests are examined at (cc, t): 0-based indices n (number snr + n) around stream start, the live edge,
   the start of the time-shift window and the end of the served window *)
Base(cc, x) == IF x < 0 THEN 0 ELSE (x \div cc.loopMS) * cc.N
Around(cc, x) == { n \in (Base(cc, x) - 2)..(Base(cc, x) + cc.N + 1) : n >= 0 }
NrIdx(cc, t) == LET rel == t - AstMS(cc) IN
   (0..cc.N) \cup Around(cc, rel + Ato0(cc)) \cup Around(cc, rel - cc.tsbd * 1000) \cup Around(cc, rel - (cc.tsbd + MarginS) * 1000)
TimeOf(cc, n) == (n \div cc.N) * RepDuration(cc) + SegStart(cc, n % cc.N)       \* (input choice only)
TimeSet(cc, t) == { TimeOf(cc, n) : n \in NrIdx(cc, t) } \cup { TimeOf(cc, n) + 1 : n \in 0..cc.N }
                  \cup { (n \div cc.N) * RepDuration(cc) : n \in NrIdx(cc, t) }

(* ---- agreement of one lookup result with the oracle: C04.status / C04.body / C01.time / C01.dur / C01.nr / C01.payload *)
Near(sc, a, b) == TLt(TSub(P(sc), a, b), MsPair(sc, 1)) /\ TLt(TSub(P(sc), b, a), MsPair(sc, 1))
AgreeSeg(cc, r, k, i, nr, t) ==
   LET sc  == Sc(cc)
       np  == NowP(cc, t)
       x   == TNorm(P(sc), 0, r.early * cc.TS)
   IN /\ r.st \in Status(sc, k, i, np)
      /\ r.st = 200 => /\ TEq(TNorm(L(sc), 0, r.t), Start(sc, k, i))
                       /\ r.d = Dur(sc, i) /\ r.idx = i /\ r.nr = nr
      /\ (r.st = 425 /\ np.w >= 0 /\ ~r.efrag) => (r.early >= 0 /\ Near(sc, x, TooEarlyBy(sc, k, i, np)))
      /\ (r.st = 425 /\ np.w < 0) => (Near(sc, x, TooEarlyBy(sc, k, i, np)) \/ Near(sc, x, TSub(P(sc), TZero, np)))

\* HISTORY (Fix = FALSE, the code before 27fa7f8 / 52d2ae2; findings C02-vod0 / C05-vod0 / X03-vod0-*): the deviation classes of a
\* VoD representation whose first decode time is not 0.  With Fix = TRUE the *All invariants hold without these restrictions.
Vod0Zero(cc) == cc.vod0 = 0
\* ... for $Time$ lookups only the layouts in which a VoD segment starts at or beyond vod0-less loop end were affected
StartsInsideLoop(cc) == \A i \in 0..(cc.N - 1) : SegStart(cc, i) < RepDuration(cc)

InvLookupNr ==
   /\ \A n \in NrIdx(c, now) : AgreeSeg(c, LookupNr(c, c.snr + n, now), n \div c.N, n % c.N, c.snr + n, now)
   \* C04.notfound (before AST every request is answered 425: the text does not order the two)
   /\ c.snr > 0 => LookupNr(c, c.snr - 1, now).st \in (IF BeforeStart(c, now) THEN {404, 425} ELSE {404})

TimeAgree(cc, tm, t) ==
   LET sc == Sc(cc)
       r  == LookupTime(cc, tm, t)
       x  == IdxOfStart(sc, TNorm(L(sc), 0, tm))
   IN IF Refused(cc) THEN r.st = 400                      \* ato_inf + SegmentTimeline: the configuration is a bad request
      ELSE IF x[1] >= 0 THEN AgreeSeg(cc, r, x[1], x[2], cc.snr + x[1] * cc.N + x[2], t)
      ELSE r.st # 200                                     \* a time that is no segment start is never served
InvLookupTimeAll == \A tm \in TimeSet(c, now) : TimeAgree(c, tm, now)
InvLookupTime    == StartsInsideLoop(c) => InvLookupTimeAll                        \* (history: what held before 27fa7f8)

(* ---- agreement of the generated timeline with LiveMpdOps (C02.contig / grid / last / first / nr, C05.pt_le_now / pt_edge) *)
Raw5(cc, S) == [j \in 1..Len(S) |-> LET tp == TNorm(L(Sc(cc)), 0, S[j][2]) IN <<S[j][1], tp.w, tp.r, S[j][3], S[j][4]>>]
TlView(cc, t) ==
   LET sc == Sc(cc)
       tl == Timeline(cc, t)
       E  == Expand(sc, Raw5(cc, tl.S))
       first == IF Len(E) > 0 THEN IdxOfStart(sc, E[1].t) ELSE <<-1, -1>>
       last  == IF Len(E) > 0 /\ first[1] >= 0 THEN Plus(sc, first, Len(E) - 1) ELSE <<-1, -1>>
   IN [tl |-> tl, E |-> E, first |-> first, last |-> last, pt |-> TNorm(P(sc), 0, (tl.pt - AstMS(cc)) * cc.TS)]
TlContig(v) == \A j \in 1..Len(v.E) : v.E[j].gapless
TlGrid(cc, v) == Len(v.E) > 0 => (v.first[1] >= 0 /\ OnGrid(Sc(cc), v.E, v.first))
TlLast(cc, v, t) == IF Len(v.E) = 0 THEN NoneAvail(Sc(cc), NowP(cc, t))
                    ELSE v.first[1] >= 0 => IsLast(Sc(cc), v.last[1], v.last[2], NowP(cc, t))
TlFirst(cc, v, t) == (Len(v.E) > 0 /\ v.first[1] >= 0) => FirstOK(Sc(cc), v.first, NowP(cc, t))
TlNr(cc, v) == IF Len(v.E) = 0 THEN v.tl.sn = -1
               ELSE v.first[1] >= 0 => v.tl.sn = v.first[1] * cc.N + v.first[2]
TlPt(cc, v, t) == LET sc == Sc(cc) IN
   /\ TLeq(v.pt, NowP(cc, t))
   /\ ~v.tl.ptfrag =>
        IF Len(v.E) = 0 THEN TEq(v.pt, TZero)
        ELSE v.first[1] >= 0 => LET a == Avail(sc, v.last[1], v.last[2])
                                    a0 == IF a.w < 0 THEN TZero ELSE a
                                IN Near(sc, a0, v.pt)
Judged(cc, t) == cc.ato >= 0 /\ ~BeforeStart(cc, t)
\* structural clauses hold for every layout ...
InvTimelineShape == Judged(c, now) => LET v == TlView(c, now) IN
   v.tl.st = 200 /\ TlContig(v) /\ TlGrid(c, v) /\ TlNr(c, v) /\ TlFirst(c, v, now)
\* ... the live edge and publishTime (before 52d2ae2 only for vod0 = 0: InvTimelineEdge)
InvTimelineEdge == (Judged(c, now) /\ Vod0Zero(c)) => LET v == TlView(c, now) IN TlLast(c, v, now) /\ TlPt(c, v, now)
InvTimelineEdgeAll == Judged(c, now) => LET v == TlView(c, now) IN TlLast(c, v, now) /\ TlPt(c, v, now)
\* the MPD and the segment server agree (C02.served / C02.edge): every listed segment is served 200 at the same instant
\* with the declared time, duration and number, by $Number$ and by $Time$; the one after the last is refused 425
ListedServed(cc, t) == LET tl == Timeline(cc, t) IN
   /\ \A n \in (IF tl.sn < 0 THEN {} ELSE tl.sn..tl.lastNr) :
        LET rn == LookupNr(cc, cc.snr + n, t)
            rt == LookupTime(cc, TimeOf(cc, n), t)
        IN rn.st = 200 /\ rt.st = 200 /\ rn.t = rt.t /\ rn.nr = rt.nr /\ rn.idx = rt.idx /\ rn.d = rt.d
   /\ LookupNr(cc, cc.snr + tl.lastNr + 1, t).st = 425
InvListedServed == (Judged(c, now) /\ Vod0Zero(c)) => ListedServed(c, now)
InvListedServedAll == Judged(c, now) => ListedServed(c, now)

(* ---- relational theorems on the transcription (C04.monotone, C05.forward, C05.pt_mono) *)
PairOf(cc, n) == <<n \div cc.N, n % cc.N>>
ImplMonotone == [][\A n \in NrIdx(c, now) \cap NrIdx(c, now') :
                     Phase(LookupNr(c, c.snr + n, now').st) >= Phase(LookupNr(c, c.snr + n, now).st)]_vars
ImplForward == [][(Judged(c, now) /\ Judged(c, now')) =>
                    LET a == Timeline(c, now)
                        b == Timeline(c, now')
                    IN a.sn <= b.sn /\ a.lastNr <= b.lastNr /\ a.pt <= b.pt]_vars
\* C05 "two MPDs with the same publishTime are identical": NOT true of the code (open finding C05-window-start)
ImplPtIdentifies == [][(Judged(c, now) /\ Judged(c, now')) =>
                         LET a == Timeline(c, now)
                             b == Timeline(c, now')
                         IN a.pt = b.pt => (a.S = b.S /\ a.sn = b.sn)]_vars

\* ... what does hold: publishTime identifies the live edge (the same publishTime => the same newest segment), for layouts
\* whose segment ends are whole milliseconds.  (With a sub-ms end publishTime is rounded to the nearest ms: an availability instant
\* of AST + 0.33 ms gives publishTime = AST, the value the empty MPD before it carries - ImplPtIdentifiesEdgeAll is violated.)
WholeMs(cc) == \A i \in 0..(cc.N - 1) : (SegEnd(cc, i) * 1000) % cc.TS = 0
PtEdgeStep == (Judged(c, now) /\ Judged(c, now')) =>
                 LET a == Timeline(c, now)
                     b == Timeline(c, now')
                 IN a.pt = b.pt => a.lastNr = b.lastNr
ImplPtIdentifiesEdge == [][WholeMs(c) => PtEdgeStep]_vars
ImplPtIdentifiesEdgeAll == [][PtEdgeStep]_vars

(* ---- (R) generator: the predictions of this state that are replayed into the real server.  A request is emitted at the
   instants next to which its predicted answer changes (both sides of every breakpoint) and at a thin seeded sample of the
   other instants; the ms figure of a 425 body changes every ms and does not count as a change. *)
Core(r) == [r EXCEPT !.early = 0, !.efrag = FALSE]
Thin(q, t) == (q + t + Seed) % 11 = 0
PickNr(cc, q, t) == \/ Thin(q, t)
                    \/ Core(LookupNr(cc, q, t)) # Core(LookupNr(cc, q, t - 1))
                    \/ Core(LookupNr(cc, q, t)) # Core(LookupNr(cc, q, t + 1))
PickTm(cc, tm, t) == \/ Thin(tm, t)
                     \/ Core(LookupTime(cc, tm, t)) # Core(LookupTime(cc, tm, t - 1))
                     \/ Core(LookupTime(cc, tm, t)) # Core(LookupTime(cc, tm, t + 1))
PickTl(cc, t) == Thin(3, t) \/ Timeline(cc, t) # Timeline(cc, t - 1) \/ Timeline(cc, t) # Timeline(cc, t + 1)
Key(cc) == <<cc.dur, cc.vod0, cc.TS, cc.tsbd, cc.ato, cc.snr, cc.ast>>
Emit == EmitGen =>
   LET qs == { c.snr + n : n \in NrIdx(c, now) } \cup (IF c.snr > 0 THEN {c.snr - 1} ELSE {})
       nr == { [q |-> q, r |-> LookupNr(c, q, now)] : q \in { x \in qs : PickNr(c, x, now) } }
       tm == { [q |-> q, r |-> LookupTime(c, q, now)] : q \in { x \in TimeSet(c, now) : PickTm(c, x, now) } }
       tl == IF PickTl(c, now) THEN { Timeline(c, now) } ELSE {}
   IN IF nr = {} /\ tm = {} /\ tl = {} THEN TRUE
      ELSE PrintT("GEN" \o ToJson([k |-> Key(c), now |-> now, nr |-> nr, tm |-> tm, tl |-> tl]))

\* non-vacuity witnesses (each must be violated)
NeverGone   == \A n \in 0..(c.N - 1) : LookupNr(c, c.snr + n, now).st # 410
NeverMulti  == Judged(c, now) => Len(Timeline(c, now).S) < 2
NeverRepeat == Judged(c, now) => \A j \in 1..Len(Timeline(c, now).S) : Timeline(c, now).S[j][4] = 0
NeverClip   == Judged(c, now) => LET tl == Timeline(c, now) IN tl.sn < 0 \/ tl.sn > 0 \/ tl.lastNr < 2
=============================================================================

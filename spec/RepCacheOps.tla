---------------------------- MODULE RepCacheOps ----------------------------
(* ORACLE for C15 - "the representation-metadata cache never changes what is served".
   Pure operators, no constants: shared by the model-checking module RepCache and by the trace
   specification RepCache_Trace.

   Vocabulary
     kind of the metadata file of one representation:
        absent     no file
        good       <rep>_data.json.gz as written by a server started with write mode on
        plainjson  <rep>_data.json holding the un-gzipped bytes of a good file (the loader documents
                   "gzipped or plain JSON"), no .gz next to it
        truncated  a good .gz cut at an offset 0 < o < size
        garbage    a .gz that is not a gzipped representation record
        empty      a .gz of 0 bytes
     root: where the files live - "same" (the VoD root itself), "separate" (another directory),
           "disabled" (no metadata root configured).
     outcome of ONE asset on ONE started server, judged against the scanning server of the same VoD root:
        Scan       every request of the pool gets the status and body digest the scanning server gives and
                   the asset is listed exactly as the scanning server lists it
        Absent     every request of the pool is answered 404 and the asset is not listed
        Different  anything else                                                                          *)
EXTENDS Integers, Sequences, FiniteSets

Kinds       == {"absent", "good", "truncated", "garbage", "empty", "plainjson"}
DamageKinds == {"truncated", "garbage", "empty", "plainjson"}
Roots       == {"same", "separate", "disabled"}
Outcomes    == {"Scan", "Absent", "Different"}

Usable(k)  == k \in {"good", "plainjson"}
Corrupt(k) == k \in {"truncated", "garbage", "empty"}

\* fs : function from the representations of ONE asset to the kind of their file
Complete(fs) == \A r \in DOMAIN fs : Usable(fs[r])
NoCache(fs)  == \A r \in DOMAIN fs : fs[r] = "absent"

(* The outcomes the property permits for one asset of a server started with (root, write) on files fs.
   C15.admit   : an inadmissible asset is Absent in every mode.
   C15.same    : files are not consulted (no root / write mode), or every file is a previously written one,
                 or there is none: the answers are those of the scanning server.
   C15.damaged : a damaged or partial set: served identically or left out, never differently.
                 (The text can also be read as demanding a fall-back to scanning; both readings are accepted.) *)
Allowed(root, write, fs, adm) ==
   IF ~adm THEN {"Absent"}
   ELSE IF root = "disabled" \/ write \/ Complete(fs) \/ NoCache(fs) THEN {"Scan"}
   ELSE {"Scan", "Absent"}

\* name of the clause that decides (for messages and for known-finding matching)
ClauseOf(root, write, fs, adm) ==
   IF ~adm THEN "C15.admit"
   ELSE IF root = "disabled" \/ write \/ Complete(fs) \/ NoCache(fs) THEN "C15.same"
   ELSE "C15.damaged"

\* effect of the actions on the files (file : function from ALL representations to kinds)
AfterStart(root, write, file) == IF root # "disabled" /\ write THEN [r \in DOMAIN file |-> "good"] ELSE file
CanDamage(root, k, cur) == /\ root # "disabled" /\ k \in DamageKinds /\ cur # k
                           /\ (k \in {"truncated", "plainjson"} => cur = "good")
CanRemove(root, cur)    == root # "disabled" /\ cur # "absent"

(* ---- observations ---- *)
\* cls : sequence of per-request-class summaries [c, n, n200, n404, dig] (dig: digest over (url, status, body digest))
AllNotFound(cls) == \A i \in 1..Len(cls) : cls[i].n404 = cls[i].n
Outcome(cls, listed, refcls, reflisted) ==
   IF ~listed /\ AllNotFound(cls) THEN "Absent"
   ELSE IF listed = reflisted /\ cls = refcls THEN "Scan"
   ELSE "Different"

\* C15.contig: consecutive served segments n0, n0+1, ... of one representation: each starts where the previous ends;
\* the window must span a whole loop and the wrap (cnt >= N + 1)
Contig(tfdt, dur) == /\ Len(tfdt) = Len(dur)
                     /\ \A i \in 1..(Len(tfdt) - 1) : tfdt[i + 1] = tfdt[i] + dur[i]
FirstGap(tfdt, dur) == IF Len(tfdt) # Len(dur) THEN 0
                       ELSE LET bad == { i \in 1..(Len(tfdt) - 1) : tfdt[i + 1] # tfdt[i] + dur[i] } IN
                            IF bad = {} THEN -1 ELSE CHOOSE i \in bad : \A j \in bad : i <= j

\* C15.contig, declared form: t, d = expanded SegmentTimeline entries; st, tfdt = status and first decode time of the segment
\* served for each entry. Every entry is served at its declared start and starts where the previous one ends.
DeclaredEntryOK(t, d, st, tfdt, i) == /\ st[i] = 200 /\ tfdt[i] = t[i]
                                       /\ (i < Len(t) => t[i + 1] = t[i] + d[i])
DeclaredOK(t, d, st, tfdt) == /\ Len(d) = Len(t) /\ Len(st) = Len(t) /\ Len(tfdt) = Len(t)
                              /\ \A i \in 1..Len(t) : DeclaredEntryOK(t, d, st, tfdt, i)
FirstBadDeclared(t, d, st, tfdt) ==
   IF ~(Len(d) = Len(t) /\ Len(st) = Len(t) /\ Len(tfdt) = Len(t)) THEN 0
   ELSE LET bad == { i \in 1..Len(t) : ~DeclaredEntryOK(t, d, st, tfdt, i) } IN
        IF bad = {} THEN -1 ELSE CHOOSE i \in bad : \A j \in bad : i <= j

\* C15.contig, far form: segment k*N + j (j = 0, 1) is served (200) at k*L + exp[j]: pair [w, r] over L with w = k, r = exp[j]
FarOK(k, st, w, r, exp) == \A j \in 1..Len(exp) : st[j] = 200 /\ w[j] = k /\ r[j] = exp[j]
=============================================================================

------------------------- MODULE ReceiverShiftOps -------------------------
(* X02 - ORACLE of the extra specification "the ingest receiver normalises time and sequence numbers of a
   channel consistently, and its $Number$ manifest matches what it stored"
   (cmd/cmaf-ingest-receiver/app: channel.go, receiver.go, run.go).

   PROPERTY TEXT (what the check is held to; written from the usage text of run.go, the comments of
   channel.go / receiver.go and the commented requirement list of run_test.go - never stronger):

   A channel receives CMAF tracks as init + media segments.  Every media segment is stored as
   storage/channel/track/<number>.cmf?, where <number> is the OUTGOING sequence number            (usage text).
   startNr is "the start number for the first segment" of the sender (AWS MediaLive starts at 1)   (usage text).
   "At start" the outgoing number is incomingSeqNr - startNr                                      (receiver.go)
   and the media time is kept.
   The master track is the first video track.  "Once two video segments of the same duration have been
   received" (usage text; channel.go: two consecutive numbers, same duration) the channel is TUNED IN:
   the segment duration D is fixed, and from the FIRST segment of that pair (time t0, outgoing number n0)
       masterTimeShift  = D - (t0 mod D)  if t0 mod D # 0, else 0                                  (channel.go)
       masterSeqNrShift # 0  iff  n0 # (t0 + masterTimeShift) / D                                  (channel.go)
   If both are zero nothing changes.  Otherwise ("We want multiples, so we need to shift input times",
   "Rewrite times of the segments to be multiples", "Calculate number from incoming time") every segment of
   every track uploaded from then on is stored with its time increased by masterTimeShift (converted to the
   track's timescale) and "the outgoing sequence number should be (baseMediaTime - startTime) /
   segmentDuration - startNr when tuned in" (receiver.go).  The stored file carries the outgoing number in
   mfhd and the outgoing time in tfdt (receiver.go rewrites both; "TODO: test cases for multiple-chunks
   rewrite" - all chunks of a segment are meant).  Tracks whose stored timescale differs from the uploaded
   one ("Rewrite timescale for subtitles from 50000 to 1000") get times and sample durations scaled.
   "A DASH MPD with $Number$ is generated for each channel and stored as storage/channel/manifest.mpd.  The
   track name is mapped to RepresentationID."  Its availabilityStartTime "is extracted from the init segment
   if later than or equal to 1970-01-01.  If not, [it] is set to 0 (interpreted as 1970-01-01)".
   X02 adds the DASH meaning of that manifest: with SegmentTemplate@startNumber s, @duration d and
   @presentationTimeOffset o, the segment with number n has media time (n - s)*d + o, so that what the
   manifest says and what was stored agree.

   READINGS ACCEPTED (the text leaves them open; rule 1: accept every reading)
   * tuned-in numbering for startNr # 0: receiver.go says time/D - startNr, channel.go says the number IS
     (time + shift)/D: both n + startNr = t/D and n = t/D are accepted by X02.grid / X02.number / X02.listed;
   * "(baseMediaTime - startTime)": the grid clauses are only evaluated when the start time is 0 under every
     reading (creation time before or at 1970-01-01);
   * availabilityStartTime: creation time not at the start of a year: the usage text says the creation time,
     the code comment says "only full days"/"start of a year", the test list says "use 1970-01-01": both
     accepted; creation time at the start of a year after 1970: the creation time; before / at 1970: 0;
   * rounding of timescale conversions: any rounding of each conversion step is accepted (tolerances below);
     equality is demanded only when every conversion is exact in the rationals;
   * non-master tracks need not start exactly on the grid (audio frames): their number is the floor or the
     nearest grid index of the stored time.

   REPRESENTATION.  Absolute times (1.5e14 ticks) do not fit TLC integers.  The driver logs every time of
   track x as a pair <<q, rem>> : time = (G + q) * S + rem in the track's fine unit 1/F s,
   F = lcm(Tm, tsIn, tsOut), S = D * V fine units per grid step, V = F/Tm (fine units per master tick),
   Uin = F/tsIn, Uout = F/tsOut; G is the scenario's grid base.  Numbers are logged relative to G ("ng")
   and to the sender's number base NB - startNr ("nb"); Big marks "not a small number".                 *)
EXTENDS Integers, Sequences

Big == 1073741824
Small(x) == x # Big
Abs(x) == IF x < 0 THEN -x ELSE x
\* TLC integers are 32 bit and a product that does not fit is a TLC error, not FALSE: every product with an
\* OBSERVED factor is guarded (observed numbers are < 2^24 or Big)
MaxInt == 2147483647
Fits(a, b) == a = 0 \/ b = 0 \/ Abs(a) <= MaxInt \div Abs(b)
\* (q*S + r) mod U for a small grid index q (|q| < 1000) without forming q*S
ModU(q, r, S, U) == ((q * (S % U)) + (r % U)) % U

(* ---- time pairs over a step S *)
TNorm(q, r, S) == <<q + (r \div S), r % S>>
TAdd(t, x, S) == TNorm(t[1], t[2] + x, S)
\* difference in fine units; only meaningful (and only evaluated) for neighbouring grid indexes
TNear(a, b) == Abs(a[1] - b[1]) <= 1
TDiff(a, b, S) == (a[1] - b[1]) * S + a[2] - b[2]

(* ---- X02.tune: two consecutive master segments with equal durations (input numbers n, durations dur) *)
EqualPair(p, c) == c.n = p.n + 1 /\ c.dur = p.dur

(* ---- X02.shift.time / X02.shift.seq: from the first segment of the pair: grid index q0, remainder rem0
        (master ticks), outgoing number n0 (relative to the same base as q0) *)
TimeShiftOf(D, rem0) == IF rem0 = 0 THEN 0 ELSE D - rem0
SeqShiftOf(q0, rem0, n0) == q0 + (IF rem0 = 0 THEN 0 ELSE 1) - n0
ShiftedMode(ss, ts) == ss # 0 \/ ts # 0

(* ---- X02.time: stored time of a segment uploaded with time tin after tune-in with time shift ts *)
ExpTime(tin, ts, V, S) == TAdd(tin, ts * V, S)
\* every conversion step exact in the rationals: uploaded time is whole master ticks, the shift is whole
\* uploaded ticks, the result is whole stored ticks (gs = (G*S) mod Uout)
ExactShift(tin, ts, V, Uin, Uout, gs, S) ==
   /\ tin[2] % V = 0
   /\ (ts * V) % Uin = 0
   /\ LET x == ExpTime(tin, ts, V, S) IN (gs + ModU(x[1], x[2], S, Uout)) % Uout = 0
ExactKeep(tin, Uout, gs, S) == (gs + ModU(tin[1], tin[2], S, Uout)) % Uout = 0
TimeOK(exp, got, exact, tol, S) ==
   IF exact THEN got = exp ELSE TNear(got, exp) /\ Abs(TDiff(got, exp, S)) < tol

(* ---- X02.grid (master) / X02.number (other tracks): np is the candidate "number on the grid" *)
GridOK(np, t) == t[2] = 0 /\ np = t[1]
NumberOK(np, t, S) == np = t[1] \/ (np = t[1] + 1 /\ 2 * t[2] >= S)
\* both readings of the tuned-in numbering (see above)
GridEither(n, startNr, t) == GridOK(n + startNr, t) \/ GridOK(n, t)
NumberEither(n, startNr, t, S) == NumberOK(n + startNr, t, S) \/ NumberOK(n, t, S)

(* ---- X02.dur: a stored sample duration is the uploaded one scaled to the stored timescale *)
ScaledOK(din, dout, Uin, Uout) == Fits(dout, Uout) /\ Fits(din, Uin) /\ Abs(dout * Uout - din * Uin) < Uout

(* ---- X02.mpd: DASH meaning of SegmentTemplate@startNumber / @duration / @presentationTimeOffset *)
MpdDurOK(dur, Uout, S) == Fits(dur, Uout) /\ Abs(dur * Uout - S) < Uout
MpdDurExact(dur, Uout, S) == Fits(dur, Uout) /\ dur * Uout = S
\* media time of number n per manifest minus stored time, in fine units (n, q relative to the same base)
MpdOffset(n, t, sn, pto, Uout, S) == (n - sn - t[1]) * S + pto * Uout - t[2]
MpdExact(n, t, sn, pto, Uout, S) == Abs(n - sn - t[1]) <= 1 /\ Fits(pto, 2 * Uout) /\ MpdOffset(n, t, sn, pto, Uout, S) = 0
MpdNear(n, t, sn, pto, Uout, S) == Abs(n - sn - t[1]) <= 1 /\ Fits(pto, 2 * Uout) /\ 2 * Abs(MpdOffset(n, t, sn, pto, Uout, S)) <= S

(* ---- X02.ast: ast0 = AST in s since 1970 (Big if not small), astc = AST - creation time *)
AstOK(class, ast0, astc) ==
   CASE class \in {"before1970", "epoch"} -> ast0 = 0
     [] class = "year" -> astc = 0
     [] OTHER -> ast0 = 0 \/ astc = 0
\* the start time is 0 under every reading
StartTimeZero(class) == class \in {"before1970", "epoch"}
=============================================================================

---------------------------- MODULE LiveTimelineOps ----------------------------
(* Oracle for C01/C02/C04/C05: the looped live timeline of ONE representation, as pure operators
   over a scenario record
     sc = [ N       number of VoD segments in the loop
            dur     <<d_1..d_N>> segment durations in ticks
            vod0    first decode time of the VoD representation (ticks)
            TS      ticks per second
            loopMS  loop duration in ms (= 1000 * Sum(dur) / TS; asset admission: a whole number)
            tsbd    timeShiftBufferDepth in seconds
            ato     availabilityTimeOffset in ms, -1 = infinite
            snr     startNumber ]
   Segment index n (counted from availabilityStartTime) is given as k = n \div N, i = n % N.
   Tick quantities are pairs over L = Sum(dur); quantities compared across ticks and ms are pairs
   over P = L * 1000 = loopMS * TS in the unit u = 1/(1000*TS) s (1 tick = 1000 u, 1 ms = TS u). *)
EXTENDS Integers, Sequences, Time

RECURSIVE PreSum(_, _)
PreSum(d, i) == IF i = 0 THEN 0 ELSE PreSum(d, i - 1) + d[i]     \* ticks before 0-based VoD segment i
L(sc) == PreSum(sc.dur, sc.N)
P(sc) == L(sc) * 1000
Admissible(sc) == sc.loopMS * sc.TS = P(sc)                       \* C15.admit / header sanity

\* ---- media timeline (C01): segment n = (k, i) covers [Start, End) in ticks, as pairs over L
Start(sc, k, i) == TNorm(L(sc), k, sc.vod0 + PreSum(sc.dur, i))
End(sc, k, i)   == TNorm(L(sc), k, sc.vod0 + PreSum(sc.dur, i + 1))
Dur(sc, i)      == sc.dur[i + 1]
Succ(sc, k, i)  == IF i = sc.N - 1 THEN <<k + 1, 0>> ELSE <<k, i + 1>>
Pred(sc, k, i)  == IF i = 0 THEN <<k - 1, sc.N - 1>> ELSE <<k, i - 1>>

\* ---- wall-clock side (C04), pairs over P in u.  Instants are relative to availabilityStartTime.
MsPair(sc, ms)  == TNorm(P(sc), ms \div sc.loopMS, (ms % sc.loopMS) * sc.TS)      \* 0 <= ms < 2^31
TicksU(sc, a)   == [w |-> a.w, r |-> a.r * 1000]                                   \* pair over L -> pair over P
\* media time 0 is availabilityStartTime + 0: a VoD whose first decode time is vod0 starts vod0 late
EndU(sc, k, i)  == TicksU(sc, End(sc, k, i))
\* C04: the segment becomes available exactly at AST + segment end - ATO  (ATO infinite: from stream start)
Avail(sc, k, i) == IF sc.ato < 0 THEN TZero ELSE TSub(P(sc), EndU(sc, k, i), MsPair(sc, sc.ato))
WindowU(sc)     == MsPair(sc, sc.tsbd * 1000)
\* allowed status codes of a request for an existing segment at instant `now` (pair over P; may be negative)
Status(sc, k, i, now) ==
   IF now.w < 0 THEN {425}                                                          \* C04.beforeAST
   ELSE IF TLt(now, Avail(sc, k, i)) THEN {425}                                     \* C04.early
   ELSE IF TLeq(now, TAdd(P(sc), Avail(sc, k, i), WindowU(sc))) THEN {200}          \* C04.avail
   ELSE {200, 410}                                                                  \* after the window: either
\* C04.body: remaining time in u
TooEarlyBy(sc, k, i, now) == TSub(P(sc), Avail(sc, k, i), now)
Phase(status) == CASE status = 425 -> 1 [] status = 200 -> 2 [] status = 410 -> 3 [] OTHER -> 0

\* ---- newest available segment at `now` (C02.last / C05.step): greatest (k,i) with Avail <= now
Newer(a, b) == a[1] > b[1] \/ (a[1] = b[1] /\ a[2] > b[2])
AvailAt(sc, k, i, now) == k >= 0 /\ TLeq(Avail(sc, k, i), now)
IsLast(sc, k, i, now) ==     \* (k,i) is the newest available segment at now
   /\ AvailAt(sc, k, i, now)
   /\ LET s == Succ(sc, k, i) IN ~AvailAt(sc, s[1], s[2], now)
NoneAvail(sc, now) == ~AvailAt(sc, 0, 0, now)
=============================================================================

---------------------------- MODULE ReceiverCfg ----------------------------
(* (M) for X06: TLC enumerates small receiver configurations (global default credentials / -tsbd / -recRawNr, 0-2 channel
   entries with credential class x startNr x timeShiftBufferDepthS x receiveNrRawSegments x ignore x ignored track) and, per
   configuration, a focus channel (A, B or the unconfigured U) and a request script that exercises every request class
   against it (wrong / missing / other channel's / global credentials, both URL forms, PUT/POST, MPD before and after the
   channel exists, media rounds long enough to pass the time shift buffer or the raw-capture limit, a bystander channel,
   malformed names, DELETE/GET).  The oracle ReceiverCfgOps is run along the script as an abstract receiver (a set of
   files); the invariants are sanity properties of the oracle:
     InvEffFunction   effective settings are a function of (defaults, entry): Solo(cfg, c) has the same ones
     InvIsolation     replacing / removing the entry of another channel never changes Eff(cfg, c)
     InvAuthCredsOnly Authorised depends on a request only through its credentials (method, URL form, kind, track do not matter)
     InvNoCross       a channel that needs credentials is only opened by one of its own effective pairs
     InvRefusedNoTrace / InvOwnPlace / InvFormsAgree / InvHorizon / InvRawCount   consistency of ExpectedStore with the clauses
   Emit prints one GEN line per scenario (configuration, focus, script with the oracle's class per request); harness/drive/x06
   replays them with real fMP4 uploads through the real router.  The predictions are used for coverage statistics only. *)
EXTENDS Integers, Sequences, FiniteSets, TLC, Json, ReceiverCfgOps
CONSTANTS GlobCreds,    \* set of <<user, pswd>>: global default credentials
          CredClasses,  \* subset of {"none", "both", "user", "pswd", "same"}: credentials of an entry
          StartNrs, ETsbds, DefTsbds, ERaws, DefRaws,
          Ignores, IgnTracks,   \* subsets of BOOLEAN
          Names,        \* channel names that may have an entry (subset of {"A", "B"})
          MaxEntries, Prefixes,
          Focus,        \* subset of {"A", "B", "U"}
          Flips,        \* subset of BOOLEAN: which URL form / method comes first
          Rounds,       \* "full": media rounds pass the buffer depth / raw limit; "short": two rounds
          DSec          \* segment duration in seconds
VARIABLES cfg, focus, flip, script, pos, store, prev
vars == <<cfg, focus, flip, script, pos, store, prev>>

Chans == {"A", "B", "U"}
NB == 10      \* the sender's segment at time NB*DSec has number NB + startNr

OwnCreds(name, cls) ==
   CASE cls = "none" -> <<"", "">>
     [] cls = "both" -> <<"u" \o name, "p" \o name>>
     [] cls = "user" -> <<"u" \o name, "">>
     [] cls = "pswd" -> <<"", "p" \o name>>
     [] cls = "same" -> <<"uS", "pS">>
Entries(name) ==
   {[name |-> name, user |-> OwnCreds(name, c)[1], pswd |-> OwnCreds(name, c)[2], startNr |-> s, tsbd |-> t, raw |-> r,
     ignore |-> ig, ignTracks |-> IF it THEN <<"a">> ELSE <<>>] :
       c \in CredClasses, s \in StartNrs, t \in ETsbds, r \in ERaws, ig \in Ignores, it \in IgnTracks}
EntrySeqs == {<<>>} \cup {<<e>> : e \in UNION {Entries(n) : n \in Names}}
             \cup (IF MaxEntries >= 2 /\ Names = {"A", "B"} THEN {<<a, b>> : a \in Entries("A"), b \in Entries("B")} \cup {<<b, a>> : a \in Entries("A"), b \in Entries("B")} ELSE {})
Configs == {[prefix |-> p, defUser |-> g[1], defPswd |-> g[2], defTsbd |-> dt, defRaw |-> dr, chans |-> s] :
               p \in Prefixes, g \in GlobCreds, dt \in DefTsbds, dr \in DefRaws, s \in EntrySeqs}

(* ------------------------------------------------------------------ the request script *)
Ext(track, kind) == IF kind = "mpd" THEN ".mpd" ELSE IF track = "v" THEN ".cmfv" ELSE ".cmfa"
Rq(ch, kind, track, nin, form, m, cred, cls, big) ==
   [ch |-> ch, kind |-> kind, track |-> track, ext |-> Ext(track, kind), nin |-> nin, j |-> IF nin < 0 THEN -1 ELSE nin - NB - Eff(cfg, ch).startNr, form |-> form, m |-> m,
    hasCred |-> cred[1], user |-> cred[2], pswd |-> cred[3], credCls |-> cls, big |-> big]
NoCred == <<FALSE, "", "">>
Right(c, ch) == FieldCreds(c, Entry(c, ch))
RightC(c, ch) == IF Needs(Right(c, ch)) THEN <<TRUE, Right(c, ch)[1], Right(c, ch)[2]>> ELSE NoCred
FormAt(fl, k) == IF (k % 2 = 0) = fl THEN "streams" ELSE "seg"
MethAt(fl, k) == IF ((k \div 2) % 2 = 0) = fl THEN "POST" ELSE "PUT"
NIn(c, ch, j) == NB + Eff(c, ch).startNr + j
NRounds(c, ch) == LET f == Eff(c, ch) IN
   IF f.ignore THEN 1
   ELSE IF f.raw > 0 THEN f.raw + 1
   ELSE IF Rounds = "short" THEN 2
   ELSE IF f.tsbd <= 8 THEN Horizon(f.tsbd, DSec) + 4 ELSE 3
If(b, s) == IF b THEN s ELSE <<>>

Script(c, ch, fl) ==
   LET right == Right(c, ch)
       needs == Needs(right)
       rc    == RightC(c, ch)
       o     == IF ch = "A" THEN "B" ELSE "A"
       orc   == RightC(c, o)
       glob  == <<c.defUser, c.defPswd>>
       f     == Eff(c, ch)
       K     == NRounds(c, ch)
       first == IF needs THEN rc ELSE <<TRUE, "x", "y">>       \* an open channel does not mind credentials
       fcls  == IF needs THEN "right" ELSE "any"
       \* refused probes against the pristine channel
       pre == If(needs,
                 <<Rq(ch, "init", "v", -1, FormAt(fl, 0), "PUT", <<TRUE, right[1], "nope">>, "wrongp", FALSE),
                   Rq(ch, "init", "v", -1, FormAt(fl, 1), "POST", NoCred, "none", FALSE),
                   Rq(ch, "init", "v", -1, FormAt(fl, 0), "PUT", <<TRUE, "nobody", right[2]>>, "wrongu", FALSE)>>
                 \o If(Needs(Right(c, o)) /\ Right(c, o) # right,
                       <<Rq(ch, "init", "v", -1, FormAt(fl, 1), "PUT", orc, "other", FALSE)>>)
                 \o If(Needs(glob) /\ glob # right,
                       <<Rq(ch, "init", "v", -1, FormAt(fl, 0), "POST", <<TRUE, glob[1], glob[2]>>, "global", FALSE)>>)
                 \o If(right[2] # "",
                       <<Rq(ch, "init", "a", -1, FormAt(fl, 1), "PUT", <<TRUE, right[1], "">>, "emptyp", FALSE)>>)
                 \o <<Rq(ch, "media", "v", NIn(c, ch, 0), FormAt(fl, 0), "PUT", NoCred, "none", TRUE),
                      Rq(ch, "init", "v", -1, FormAt(fl, 1), "PUT", <<FALSE, "malformed", "">>, "malformed", FALSE),
                      Rq(ch, "mpd", "", -1, "mpd", "PUT", NoCred, "none", FALSE)>>)
       mpd0 == If(~f.ignore, <<Rq(ch, "mpd", "", -1, "mpd", MethAt(fl, 1), rc, "right", FALSE)>>)
       inits == <<Rq(ch, "init", "v", -1, FormAt(fl, 0), MethAt(fl, 0), first, fcls, FALSE),
                  Rq(ch, "init", "a", -1, FormAt(fl, 1), MethAt(fl, 1), rc, "right", FALSE)>>
       media(i) == LET j == (i - 1) \div 2 t == IF i % 2 = 1 THEN "v" ELSE "a" IN
                   Rq(ch, "media", t, NIn(c, ch, j), FormAt(fl, i + j), MethAt(fl, i), rc, "right", TRUE)
       \* the bystander channel: c's credentials on it, then its own
       by == <<Rq(o, "init", "v", -1, FormAt(fl, 0), "PUT", rc, "cross", FALSE),
               Rq(o, "init", "v", -1, FormAt(fl, 1), "PUT", orc, "right", FALSE),
               Rq(o, "media", "v", NIn(c, o, 0), FormAt(fl, 0), "POST", orc, "right", TRUE)>>
       mid == If(needs, <<Rq(ch, "media", "a", NIn(c, ch, 0), FormAt(fl, 1), "PUT", NoCred, "none", TRUE)>>)
       rounds == [i \in 1..(2 * K) |-> media(i)]
       r1 == SubSeq(rounds, 1, 1) \o mid \o SubSeq(rounds, 2, 2) \o by \o SubSeq(rounds, 3, 2 * K)
       post == If(~f.ignore, <<Rq(ch, "mpd", "", -1, "mpd", MethAt(fl, 0), rc, "right", FALSE)>>)
               \o <<Rq(ch, "init", "v", -1, "noprefix", "PUT", rc, "right", FALSE),
                    Rq(ch, "init", "v", -1, "badext", "PUT", rc, "right", FALSE),
                    Rq(ch, "media", "v", NIn(c, ch, 0), "segment_n", "POST", rc, "right", TRUE),
                    Rq(ch, "init", "v", -1, "onecomp", "PUT", rc, "right", FALSE),
                    Rq(ch, "init", "v", -1, "dotdot", "PUT", rc, "right", FALSE),
                    Rq(ch, "init", "v", -1, "nochan", "PUT", rc, "right", FALSE),
                    Rq(ch, "none", "v", -1, "seg", "DELETE", rc, "right", FALSE),
                    Rq(ch, "none", "v", -1, "streams", "DELETE", NoCred, "none", FALSE),
                    Rq(ch, "none", "v", -1, "seg", "GET", rc, "right", FALSE),
                    Rq(ch, "none", "v", -1, "streams", "HEAD", rc, "right", FALSE)>>
               \o If(needs, <<Rq(ch, "init", "v", -1, FormAt(fl, 0), "PUT", NoCred, "none", FALSE)>>)
               \o If(needs /\ ~f.ignore, <<Rq(ch, "mpd", "", -1, "mpd", "POST", <<TRUE, right[1], "nope">>, "wrongp", FALSE)>>)
   IN pre \o mpd0 \o inits \o r1 \o post

(* ------------------------------------------------------------------ the oracle as an abstract receiver: a set of files *)
Files(st, ch, track) == {x \in st : x[1] = ch /\ x[2] = track}
MediaNrs(st, ch, track) == {x[4] : x \in {y \in Files(st, ch, track) : y[3] = "media"}}
Apply(c, st, rq) ==
   LET cl == Class(c, rq) f == Eff(c, rq.ch) IN
   CASE cl = "mpd" -> st \cup {<<rq.ch, "", "received.mpd", -1>>}
     [] cl = "parse" /\ rq.kind = "init" -> st \cup {<<rq.ch, rq.track, n, -1>> : n \in ExpInitNames(rq)}
     [] cl = "parse" /\ rq.kind = "media" ->
           LET n == ExpMediaNr(c, rq) IN
           (st \cup {<<rq.ch, rq.track, "media", n>>}) \ {<<rq.ch, rq.track, "media", n - Horizon(f.tsbd, DSec) - 2>>}
     [] cl = "raw" -> LET k == Cardinality(Files(st, rq.ch, rq.track)) IN
                      IF k < f.raw THEN st \cup {<<rq.ch, rq.track, "raw", k>>} ELSE st
     [] OTHER -> st        \* unauth, bad, delete, ignored, open

Init == /\ cfg \in Configs /\ focus \in Focus /\ flip \in Flips
        /\ script = Script(cfg, focus, flip)
        /\ pos = 0 /\ store = {} /\ prev = {}
Step == /\ pos < Len(script)
        /\ pos' = pos + 1
        /\ prev' = store
        /\ store' = Apply(cfg, store, script[pos + 1])
        /\ UNCHANGED <<cfg, focus, flip, script>>
Terminal == pos = Len(script)
Next == Step \/ (Terminal /\ UNCHANGED vars)
Spec == Init /\ [][Next]_vars

(* ------------------------------------------------------------------ sanity of the oracle *)
Cur == script[pos]
SameEff(a, b) == /\ a.startNr = b.startNr /\ a.tsbd = b.tsbd /\ a.raw = b.raw /\ a.ignore = b.ignore /\ a.ignTracks = b.ignTracks
InvEffFunction == pos = 0 => \A ch \in Chans : LET s == Solo(cfg, ch) IN
   /\ SameEff(Eff(s, ch), Eff(cfg, ch))
   /\ FieldCreds(s, Entry(s, ch)) = FieldCreds(cfg, Entry(cfg, ch))
   /\ Cardinality(CredReadings(s, ch)) = 1
Without(c, o) == [c EXCEPT !.chans = SelectSeq(c.chans, LAMBDA e : e.name # o)]
\* a few alternative entries of the other channel: everything set, ignored, nothing set
AltEntries(o) == {[name |-> o, user |-> "uX", pswd |-> "pX", startNr |-> 1, tsbd |-> 4, raw |-> 2, ignore |-> FALSE, ignTracks |-> <<"a">>],
                  [name |-> o, user |-> "", pswd |-> "pX", startNr |-> 0, tsbd |-> 0, raw |-> 0, ignore |-> TRUE, ignTracks |-> <<>>],
                  NoEntry(o)}
InvIsolation == pos = 0 => \A ch \in Chans : \A o \in {"A", "B"} \ {ch} :
   /\ Eff(Without(cfg, o), ch) = Eff(cfg, ch)
   /\ \A alt \in AltEntries(o) : /\ Eff([cfg EXCEPT !.chans = Without(cfg, o).chans \o <<alt>>], ch) = Eff(cfg, ch)
                                 /\ Eff([cfg EXCEPT !.chans = <<alt>> \o Without(cfg, o).chans], ch) = Eff(cfg, ch)
InvAuthCredsOnly == pos > 0 => LET a == Authorised(cfg, Cur) IN
   /\ \A m \in {"PUT", "POST", "DELETE"} : Authorised(cfg, [Cur EXCEPT !.m = m]) = a
   /\ \A fm \in {"seg", "streams", "mpd"} : Authorised(cfg, [Cur EXCEPT !.form = fm]) = a
   /\ \A k \in {"init", "media", "mpd"} : \A t \in {"v", "a"} : Authorised(cfg, [Cur EXCEPT !.kind = k, !.track = t, !.m = "POST"]) = a
InvNoCross == pos > 0 =>
   /\ (Authorised(cfg, Cur) = "yes" /\ \A p \in CredReadings(cfg, Cur.ch) : Needs(p))
         => (Cur.hasCred /\ <<Cur.user, Cur.pswd>> \in CredReadings(cfg, Cur.ch))
   /\ (~Cur.hasCred /\ \A p \in CredReadings(cfg, Cur.ch) : Needs(p)) => Authorised(cfg, Cur) = "no"
InvRefusedNoTrace == pos > 0 => (Class(cfg, Cur) \in {"unauth", "bad", "delete", "ignored", "open"} => store = prev)
InvOwnPlace == pos > 0 => \A x \in (store \ prev) \cup (prev \ store) : x[1] = Cur.ch
Other(m) == IF m = "PUT" THEN "POST" ELSE "PUT"
InvFormsAgree == (pos > 0 /\ Cur.form \in {"seg", "streams"} /\ Cur.m \in UploadMethods) =>
   /\ ExpectedStore(cfg, [Cur EXCEPT !.form = "seg"]) = ExpectedStore(cfg, [Cur EXCEPT !.form = "streams", !.m = Other(Cur.m)])
   /\ Class(cfg, [Cur EXCEPT !.form = "seg"]) = Class(cfg, [Cur EXCEPT !.form = "streams", !.m = Other(Cur.m)])
InvHorizon ==
   /\ \A ch \in Chans : \A t \in {"v", "a"} : Cardinality(MediaNrs(store, ch, t)) <= MaxStored(Eff(cfg, ch).tsbd, DSec)
   /\ \A x \in prev \ store : x[3] = "media" /\ MayRemove(x[4], ExpMediaNr(cfg, Cur), Eff(cfg, x[1]).tsbd, DSec)
InvRawCount == \A ch \in Chans : \A t \in {"v", "a"} : LET f == Eff(cfg, ch) IN
   f.raw > 0 => /\ Cardinality(Files(store, ch, t)) <= f.raw
                /\ \A x \in Files(store, ch, t) : x[3] = "raw"
\* non-vacuity witnesses (expected to be violated)
NeverUnauth == ~(pos > 0 /\ Class(cfg, Cur) = "unauth")
NeverEither == ~(pos > 0 /\ Authorised(cfg, Cur) = "either")
NeverRemoved == ~(prev \ store # {})
NeverRawLimit == ~(pos > 0 /\ Class(cfg, Cur) = "raw" /\ store = prev)
NeverCrossOpen == ~(pos > 0 /\ Cur.credCls = "cross" /\ Cur.hasCred /\ Authorised(cfg, Cur) = "yes")

Emit == Terminal => PrintT("GEN" \o ToJson(
   [cfg |-> cfg, focus |-> focus, flip |-> flip, dsec |-> DSec, nb |-> NB,
    k |-> NRounds(cfg, focus), efftsbd |-> Eff(cfg, focus).tsbd, effraw |-> Eff(cfg, focus).raw, effignore |-> Eff(cfg, focus).ignore,
    script |-> [i \in DOMAIN script |-> [rq |-> script[i], cls |-> Class(cfg, script[i]), auth |-> Authorised(cfg, script[i])]]]))
=============================================================================

---------------------------- MODULE Scte35Ops ----------------------------
(* ORACLE for C13: SCTE-35 splice-insert events follow the per-minute schedule, each announced exactly once.
   Pure operators, shared by the model (Scte35.tla) and the trace specification (Scte35_Trace.tla).

   Time: a pair [w |-> whole seconds, r |-> ticks] over U ticks per second (Time.tla with period U).  Splice
   instants are whole seconds T (an integer below 2^31).

   Schedule (property text / urlgen page): N events per minute at the offsets Off(N) after the full minute, break
   duration 20 s for N = 1, else 10 s.  The event for the splice instant T is announced 7 s ahead: it is carried by
   THE video segment whose interval contains A = T - 7.  The text does not say which interval end is closed, so the
   clauses are stated on the partition of the timeline by a contiguous run of segments:
     C13.once   every scheduled T whose announce instant lies strictly inside the observed run is carried by exactly
                one segment of the run, and a segment [s, e) that carries T satisfies s <= A <= e (either end);
     C13.none   nothing else is carried: every carried event is on the schedule and carried once.
   The minute grid: the text says "wall-clock minute"; the media timeline starts at availabilityStartTime (AST), so
   wall-clock = AST + T.  A reading is the phase ph with minute boundaries at the instants t, (t + ph) % 60 = 0:
   ph = 0 (minutes of the media timeline) and ph = AST % 60 (minutes of the wall clock) are both accepted; they
   coincide when AST is a multiple of 60. *)
EXTENDS Integers, Sequences, FiniteSets, Time

Off(n)    == CASE n = 1 -> {10} [] n = 2 -> {10, 40} [] n = 3 -> {10, 36, 46} [] OTHER -> {}
BreakS(n) == IF n = 1 THEN 20 ELSE 10                 \* C13.fields: break duration in seconds
ValidN(n) == n \in {1, 2, 3}                          \* C13.reject: every other value must be refused
Ahead     == 7

Sec(t)                == [w |-> t, r |-> 0]
Announce(T)           == Sec(T - Ahead)
OnSchedule(n, ph, T)  == ((T + ph) % 60) \in Off(n)
\* C13.once (window): the carrying segment contains the announce instant, both interval ends accepted
MayCarry(s, e, T)     == TLeq(s, Announce(T)) /\ TLeq(Announce(T), e)
\* scheduled splice instants whose announce instant lies in [s, e): each falls due in exactly one segment of a partition
Due(n, ph, s, e)      == {T \in (s.w + Ahead)..(e.w + Ahead) :
                            OnSchedule(n, ph, T) /\ TLeq(s, Announce(T)) /\ TLt(Announce(T), e)}
\* C13.once (missing): due events announced strictly after the run start rs that nobody has carried (have = carried so far,
\* the current segment included).  A = rs exactly may have been carried by the segment before the run: no obligation.
Missing(n, ph, s, e, rs, have) == {T \in Due(n, ph, s, e) : TLt(rs, Announce(T)) /\ T \notin have}
\* C13.none: carried events that are not on the schedule
OffSchedule(n, ph, Ts) == {T \in Ts : ~OnSchedule(n, ph, T)}
\* discriminating fact about a missing event: its announce instant lies in a segment that started before the minute
\* (of reading ph) that contains the announce instant
MinuteStart(ph, t)    == t - ((t + ph) % 60)
StartedInPrevMinute(ph, s, T) == TLt(s, Sec(MinuteStart(ph, T - Ahead)))

\* ---- C13.fields: the binary splice_info_section.  pts_time = 90000 * T mod 2^33.  TLC integers are 32-bit:
\* 90000 = 16 * 5625, hence 90000*T mod 2^33 = 16 * (5625*T mod 2^29); 33-bit quantities are logged as pairs <<q, r>> = <<v \div 16, v % 16>>.
RECURSIVE MulMod(_, _, _)
MulMod(a, b, m) ==        \* a * b mod m for 0 <= a < m <= 2^30, b >= 0; every intermediate value stays below 2^31
   IF b = 0 THEN 0
   ELSE LET d == (2 * MulMod(a, b \div 2, m)) % m IN IF b % 2 = 1 THEN (d + a) % m ELSE d
Two29 == 536870912
Pts16(T)      == <<MulMod(T % Two29, 5625, Two29), 0>>          \* (90000*T mod 2^33) as <<div 16, mod 16>>
Break16(n)    == <<BreakS(n) * 5625, 0>>                        \* 90000 * BreakS(n) as <<div 16, mod 16>>
SchemeBin     == "urn:scte:scte35:2013:bin"
=============================================================================

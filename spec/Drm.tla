---------------------------- MODULE Drm ----------------------------
(* Protocol model for C10.  A DASH client talks to a server that offers one asset under a DRM mode:
     GetMPD        learns the default_KID announced for its AdaptationSet kind,
     GetInit       learns tenc.default_KID and the scheme of the served init segment,
     PostLicence   asks the licence endpoint for a key id it knows (from the MPD or from the init segment),
     GetSegment(n) fetches media segment n with DRM (cipher) and without (clear) at the same instant,
     Decrypt       decrypts the fetched segment with the licence's key for the init segment's key id.
   The SERVER is a constant of each behaviour (chosen in Init from Servers(req)): which key id it announces
   in the MPD and writes into the init segment per kind, which key / scheme it encrypts segments with, which
   key its licence endpoint returns per key id.  Enc/Dec are uninterpreted (DrmOps).

   Results (see spec/mc/Drm_*.cfg):
     Impl = "agreeing": every server satisfying ServerAgreesOn keeps all client-side invariants   (soundness)
     Impl = "all":      at the end of a session the invariants hold IFF the server agrees         (equivalence)
     Impl = "livesim2": today's implementation shape - kidFromString ignores its argument, MPD hashes the
                        Laurl, init hashes the asset name: agree only because the hash is constant
     Impl = "hash_fixed": kidFromString really hashes, call sites unchanged  => C10_Kid is violated
     Impl = "hash_fixed_same_name": ... and both call sites hash the same string => fine again
     Impl = "stale_pd": fragments encrypted with the other scheme's protect data => C10_Roundtrip violated
     Impl = "key_from_laurl": fragment key derived from the MPD's string, hash fixed => C10_Kid / Roundtrip *)
EXTENDS DrmOps, TLC

CONSTANTS Kind,      \* content kinds, e.g. {"video", "audio"}
          Kid,       \* key ids (strings)
          Key,       \* keys (strings); |Key| >= |Kid|
          NSeg,      \* segments 1..NSeg
          Impl       \* which family of servers to explore (string, see above)

VARIABLES srv, req, kind,          \* constants of a behaviour: server, requested scheme, the client's kind
          kidMPD, kidInit, schmInit,
          asked, lic,              \* key ids posted to the licence endpoint; licence records received
          seg, clear, cipher, dec
vars == <<srv, req, kind, kidMPD, kidInit, schmInit, asked, lic, seg, clear, cipher, dec>>

None == <<"none">>
Clear(n) == <<"clr", n>>
Other(s) == CHOOSE x \in Schemes : x # s

(* ---- server families ---- *)
AllServers ==
  [mpdKid : [Kind -> Kid], initKid : [Kind -> Kid], initSchm : [Kind -> Schemes],
   segKey : [Kind -> Key], segSchm : [Kind -> Schemes], lic : [Kid -> Key \cup {NoVal}]]

Names == {"asset", "laurl"}
Inj(S, T) == {f \in [S -> T] : \A a, b \in S : f[a] = f[b] => a = b}
HInj == CHOOSE f \in Inj(Names, Kid) : TRUE         \* a hash that really depends on its argument
K0 == CHOOSE k \in Kid : TRUE                        \* kidFromString today: the same value for every argument
KidToKey == CHOOSE f \in Inj(Kid, Key) : TRUE        \* kidToKey: injective
Hash(ignoresArg, name) == IF ignoresArg THEN K0 ELSE HInj[name]

\* livesim2-shaped server: ClearKey licence endpoint derives the key from ANY posted kid
Shaped(ignoresArg, mpdName, initName, keyName, r, segSchm) ==
  [mpdKid |-> [k \in Kind |-> Hash(ignoresArg, mpdName)],
   initKid |-> [k \in Kind |-> Hash(ignoresArg, initName)],
   initSchm |-> [k \in Kind |-> r],
   segKey |-> [k \in Kind |-> KidToKey[Hash(ignoresArg, keyName)]],
   segSchm |-> [k \in Kind |-> segSchm],
   lic |-> [kid \in Kid |-> KidToKey[kid]]]

Servers(r) ==
  CASE Impl = "all"      -> AllServers
    [] Impl = "agreeing" -> {s \in AllServers : \A k \in Kind : ServerAgreesOn(s, r, k)}
    [] Impl = "livesim2" -> {Shaped(TRUE, "laurl", "asset", "asset", r, r)}
    [] Impl = "hash_fixed" -> {Shaped(FALSE, "laurl", "asset", "asset", r, r)}
    [] Impl = "hash_fixed_same_name" -> {Shaped(FALSE, "asset", "asset", "asset", r, r)}
    [] Impl = "stale_pd" -> {Shaped(TRUE, "laurl", "asset", "asset", r, Other(r))}
    [] Impl = "key_from_laurl" -> {Shaped(FALSE, "asset", "asset", "laurl", r, r)}

(* ---- the protocol ---- *)
Init == /\ req \in Schemes
        /\ srv \in Servers(req)
        /\ kind \in Kind
        /\ kidMPD = NoVal /\ kidInit = NoVal /\ schmInit = NoVal
        /\ asked = {} /\ lic = {}
        /\ seg = 0 /\ clear = None /\ cipher = None /\ dec = None

GetMPD == /\ kidMPD = NoVal
          /\ kidMPD' = srv.mpdKid[kind]
          /\ UNCHANGED <<srv, req, kind, kidInit, schmInit, asked, lic, seg, clear, cipher, dec>>

GetInit == /\ kidInit = NoVal
           /\ kidInit' = srv.initKid[kind] /\ schmInit' = srv.initSchm[kind]
           /\ UNCHANGED <<srv, req, kind, kidMPD, asked, lic, seg, clear, cipher, dec>>

PostLicence(kid) ==
  /\ kid # NoVal /\ kid \notin asked
  /\ asked' = asked \cup {kid}
  /\ lic' = IF srv.lic[kid] = NoVal THEN lic
            ELSE lic \cup {[kid |-> kid, kdig |-> srv.lic[kid], klen |-> 16]}
  /\ UNCHANGED <<srv, req, kind, kidMPD, kidInit, schmInit, seg, clear, cipher, dec>>

GetSegment == /\ seg < NSeg
              /\ seg' = seg + 1
              /\ clear' = Clear(seg + 1)
              /\ cipher' = Enc(srv.segKey[kind], srv.segSchm[kind], Clear(seg + 1))
              /\ dec' = None
              /\ UNCHANGED <<srv, req, kind, kidMPD, kidInit, schmInit, asked, lic>>

\* the client decrypts with the key the licence gave for the INIT segment's key id and the init's scheme
Decrypt == /\ cipher # None /\ dec = None /\ kidInit # NoVal
           /\ \E r \in LicenceKeys(lic, kidInit) :
                dec' = Dec(r.kdig, schmInit, cipher)
           /\ UNCHANGED <<srv, req, kind, kidMPD, kidInit, schmInit, asked, lic, seg, clear, cipher>>

\* the client posts a key id it has learnt (from the MPD or from the init segment)
PostAny == \E kid \in {kidMPD, kidInit} : PostLicence(kid)

Next == GetMPD \/ GetInit \/ PostAny \/ GetSegment \/ Decrypt
Spec == Init /\ [][Next]_vars

(* ---- the property, client side ---- *)
C10_Kid       == (kidMPD # NoVal /\ kidInit # NoVal) => KidAgree(kidMPD, kidInit)
C10_Licence   == (kidInit # NoVal /\ kidInit \in asked) => LicenceOK(200, lic, kidInit)
C10_Roundtrip == dec # None => RoundtripOK(dec, clear)
C10_Scheme    == schmInit # NoVal => SchemeOK(schmInit, req)
AllClauses    == C10_Kid /\ C10_Licence /\ C10_Roundtrip /\ C10_Scheme

\* a session that has exercised everything for its kind
Done == /\ kidMPD # NoVal /\ kidInit # NoVal /\ kidInit \in asked /\ seg = NSeg
        /\ (dec # None \/ LicenceKeys(lic, kidInit) = {})

\* (Impl = "all") soundness and completeness of the client-side clauses w.r.t. the server-side relation
Sound    == ServerAgreesOn(srv, req, kind) => AllClauses
Complete == (Done /\ AllClauses) => ServerAgreesOn(srv, req, kind)

\* non-vacuity aid: some session decrypts successfully
SomeRoundtrip == ~(dec # None /\ dec = clear)
=============================================================================

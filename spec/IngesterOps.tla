---------------------------- MODULE IngesterOps ----------------------------
(* ORACLE for C16 "the CMAF-ingest sender emits a complete, ordered and faithful stream".
   Pure operators with explicit parameters; shared by the explorer (IngesterImpl.tla, model
   checking) and by the trace specification (trace/Ingester_Trace.tla, real code).

   Observation model: the request log of a scripted receiving HTTP server (one entry per
   request, in order of arrival; body-derived fields from an independent mp4ff parse) plus the
   call / return events of the REST API calls that control the session.

   Interpretation decisions (HACKING rule 1: never demand more than the property text):
   * "live edge" at the session's start instant t: the newest segment that has fully ended,
     e = max{n : End(n) <= t} on the timeline of the reference (video) track (segment durations of
     one loop from the VoD MPD, start number 0; uniform duration d: e = t \div d - 1).  The first
     media segment is e + 1.
   * "a session with a duration D (s) stops after the corresponding number of segments":
     natural reading D*1000/d segments.  When d does not divide D*1000 both roundings are
     accepted (NLo = floor, NHi = ceiling).  When it divides, exactly that many.
   * what happens after a receiver answered with an error status is left open by the text:
     the session may stop or go on.  After DELETE has been CALLED the session may stop.
   * "the last one marked as last": the `lmsg` compatible brand in `styp`.                 *)
EXTENDS Integers, Sequences, FiniteSets

Max2(a, b) == IF a >= b THEN a ELSE b
Min2(a, b) == IF a <= b THEN a ELSE b

(* ---- C16.consecutive ----
   durs = the segment durations (ms) of the reference (video) track over one loop of the asset, from the
   VoD MPD (uniform assets: one element).  Segment numbers count from 0 and wrap with the loop. *)
Cum(durs, k) == LET f[i \in 0..Len(durs)] == IF i = 0 THEN 0 ELSE f[i - 1] + durs[i] IN f[k]
LoopMS(durs) == Cum(durs, Len(durs))
MinDur(durs) == CHOOSE d \in {durs[i] : i \in 1..Len(durs)} : \A i \in 1..Len(durs) : d <= durs[i]
MaxDur(durs) == CHOOSE d \in {durs[i] : i \in 1..Len(durs)} : \A i \in 1..Len(durs) : d >= durs[i]
\* newest segment that has fully ended at startMS: e = max{n : End(n) <= startMS}
NewestEnded(startMS, durs) ==
   LET L == Len(durs)
       w == startMS \div LoopMS(durs)
       rem == startMS % LoopMS(durs)
   IN  w * L + Cardinality({i \in 1..L : Cum(durs, i) <= rem}) - 1
FirstNr(startMS, durs) == NewestEnded(startMS, durs) + 1
\* the k-th media request (k = 1, 2, ...) of a representation carries number first + k - 1
ExpectedNr(first, k) == first + k - 1
\* real-time sessions: the start instant is only known within [lo, hi] => first in firstLo..firstHi
ConsecutiveOK(firstLo, firstHi, k, nr, prevNr) ==
   IF k = 1 THEN nr >= firstLo /\ nr <= firstHi ELSE nr = prevNr + 1

(* ---- C16.init_first: kinds = the kinds of all requests of one representation so far ---- *)
InitFirstOK(kinds) ==
   kinds # <<>> => /\ kinds[1] = "init"
                   /\ \A i \in 2..Len(kinds) : kinds[i] = "media"

(* ---- C16.headers ---- *)
ExtOf(ct) == CASE ct = "video" -> ".cmfv" [] ct = "audio" -> ".cmfa" [] ct = "text" -> ".cmft" [] OTHER -> "?"
MimeOf(ct) == CASE ct = "video" -> "video/mp4" [] ct = "audio" -> "audio/mp4" [] ct = "text" -> "application/mp4" [] OTHER -> "?"
IngestVersion == "1.1"
\* URL form: per-segment URLs <rep>/init<ext>, <rep>/<number|time><ext>; Streams(<rep><ext>) for both
UrlFormOK(streams, kind, form) ==
   IF streams THEN form = "streams"
   ELSE (kind = "init" /\ form = "init") \/ (kind = "media" /\ form = "num")

(* ---- C16.duration ---- *)
\* non-uniform segment durations: every reading between "all segments long" and "all segments short" is accepted
NLo(durS, durs) == (durS * 1000) \div MaxDur(durs)
NHi(durS, durs) == (durS * 1000 + MinDur(durs) - 1) \div MinDur(durs)
\* idx = index (1-based) of a media request of one representation; nlo = nhi = -1: no duration
CountOK(nhi, idx) == nhi < 0 \/ idx <= nhi
\* lmsg only on a segment that can be the last one (uniform durations: nlo..nhi = {floor, ceiling}),
\* and always on the nhi-th (nothing may follow it)
LmsgOK(nlo, nhi, idx, lmsg) ==
   IF nhi < 0 THEN ~lmsg
   ELSE (lmsg => idx \in nlo..nhi) /\ (idx = nhi => lmsg)

(* ---- C16.step ----
   calls  = step calls issued so far for the session, servedLive = step calls that have returned
   before any DELETE of the session was issued, starts / ends = media requests of one
   representation that have started / been completely received.
   A step is served only after the previous step's requests are complete (ends >= served - 1),
   and no media request without a step (starts <= calls). *)
StepLowerOK(servedLive, ends) == ends >= servedLive - 1
StepUpperOK(calls, starts) == starts <= calls
\* at quiescence: every step served before a DELETE was issued has delivered its segment
StepDeliveredOK(servedLive, ends, cap) == ends >= (IF cap < 0 THEN servedLive ELSE Min2(servedLive, cap))

(* ---- C16.delete: callsAtDelRet = step calls issued before DELETE returned.  A media request with
   a larger index was triggered by something after DELETE returned (timing independent). ---- *)
DeleteOK(delReturned, callsAtDelRet, idx) == delReturned => idx <= callsAtDelRet

(* ---- may the session legitimately have stopped? (classification of stuck step calls) ---- *)
MayStop(delCalled, initErr, nlo, maxStarts) == delCalled \/ initErr \/ (nlo >= 0 /\ maxStarts >= nlo)

(* ---- C16.time: $Time$ URL value = start of the segment; toff = tfdt - nr * segTicks ---- *)
TimeOK(urlMinusTfdt, toff, toffMax) == urlMinusTfdt = 0 /\ toff >= 0 /\ toff <= toffMax
=============================================================================

---------------------------- MODULE LiveMpdOps ----------------------------
(* Oracle operators for C02 / C05 on top of LiveTimelineOps: what a live MPD served at `now`
   may declare, and how its SegmentTimeline / SegmentTemplate is to be read. *)
EXTENDS LiveTimelineOps, FiniteSets

\* ---- reading a SegmentTimeline: raw entries <<hasT, tw, tr, d, r>> (t as pair over L ticks)
RECURSIVE ExpandS(_, _, _, _)
ExpandS(sc, S, j, cur) ==
  IF j > Len(S) THEN <<>>
  ELSE LET e   == S[j]
           t0  == IF e[1] = 1 THEN [w |-> e[2], r |-> e[3]] ELSE cur
           one == [x \in 1..(e[5] + 1) |->
                     [t |-> TAdd(L(sc), t0, TNorm(L(sc), 0, (x - 1) * e[4])), d |-> e[4],
                      \* C02.contig: an explicit @t must continue where the previous entry ended
                      gapless |-> (x > 1 \/ e[1] = 0 \/ j = 1 \/ TEq(t0, cur))]]
       IN one \o ExpandS(sc, S, j + 1, TAdd(L(sc), t0, TNorm(L(sc), 0, (e[5] + 1) * e[4])))
Expand(sc, S) == ExpandS(sc, S, 1, TZero)

\* index (k, i) of the segment that starts at tick pair t, <<-1, -1>> if t is not a segment start
IdxOfStart(sc, t) ==
  LET cand == { x \in ((t.w - 1)..t.w) \X (0..(sc.N - 1)) : TEq(Start(sc, x[1], x[2]), t) }
  IN IF cand = {} THEN <<-1, -1>> ELSE CHOOSE x \in cand : TRUE
\* j-th successor of (k,i)
RECURSIVE Plus(_, _, _)
Plus(sc, x, j) == LET n == x[2] + j IN <<x[1] + (n \div sc.N), n % sc.N>>
\* C02.match (MPD level): entry j of the expanded list is segment first+j-1 of the looped timeline
OnGrid(sc, E, first) == \A j \in 1..Len(E) :
   LET x == Plus(sc, first, j - 1) IN TEq(E[j].t, Start(sc, x[1], x[2])) /\ E[j].d = Dur(sc, x[2])
\* C02.first: at most one listed segment lies entirely before now - tsbd  (one-sided: listing fewer is fine)
FirstOK(sc, first, now) ==
   /\ first[1] >= 0
   /\ LET s == Succ(sc, first[1], first[2]) IN TLeq(TSub(P(sc), now, WindowU(sc)), Avail(sc, s[1], s[2]))
PairLeq(a, b) == a[1] < b[1] \/ (a[1] = b[1] /\ a[2] <= b[2])

\* ---- $Number$ template: the DASH availability rule on the template's own (uniform) timeline.
\* tsc = the template as a scenario: N copies of @duration at @timescale (requires N*D*1000 = loopMS*TSm).
TemplateSc(sc, D, TSm, atoMS) == [sc EXCEPT !.dur = [x \in 1..sc.N |-> D], !.vod0 = 0, !.TS = TSm, !.ato = atoMS]
TemplateOK(sc, D, TSm) == sc.N * D * 1000 = sc.loopMS * TSm
\* segment number q (0-based from @startNumber) = (k, i): declared available at now iff
\*   A(q) <= now <= A(q) + tsbd + D     with A(q) = end of q on the template timeline - ATO
TmplDeclared(tsc, k, i, now) ==
   /\ k >= 0 /\ now.w >= 0
   /\ TLeq(Avail(tsc, k, i), now)
   /\ TLeq(now, TAdd(P(tsc), TAdd(P(tsc), Avail(tsc, k, i), WindowU(tsc)), TicksU(tsc, TNorm(L(tsc), 0, tsc.dur[1]))))
\* drift of the real layout against the template grid, in ticks of sc: max_i |Pre(i+1) - (i+1)*L/N|
Abs(x) == IF x < 0 THEN -x ELSE x
Drift(sc) == LET S == { Abs(PreSum(sc.dur, i) * sc.N - i * L(sc)) : i \in 1..sc.N } IN
             (CHOOSE m \in S : \A y \in S : y <= m) \div sc.N + 1
Uniform(sc) == \A i \in 1..sc.N : sc.dur[i] = sc.dur[1]
=============================================================================

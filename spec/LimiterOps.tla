---------------------------- MODULE LimiterOps ----------------------------
(* Pure transition function of the request limiter (C20), parameterised explicitly so that
   the model-checking module (constants) and the trace module (per-scenario header) share it. *)
EXTENDS Integers

\* C20.reset: counters restart when MORE than `interval` has elapsed; at equality either is accepted.
MustReset(rt, t, interval) == t - rt > interval
MayReset(rt, t, interval)  == t - rt >= interval
\* C20.quota / C20.white
Passes(nr, max, white) == nr <= max \/ white
MaxReported(max, white) == IF white THEN -1 ELSE max
=============================================================================

---------------------------- MODULE Scte35 ----------------------------
(* (M) for C13.  A contiguous run of segments (layout = cyclic sequence of durations in ticks, U ticks per second,
   arbitrary start offset) is walked over `Minutes` minutes.  Each segment carries the events given by a carrying
   RULE; the monitor clauses of Scte35Ops (the ones the trace specification evaluates on the real server) judge it.
     rule "L"       [s, e)  closed left   } the two readings of "the segment whose interval contains A":
     rule "R"       (s, e]  closed right  } both must be accepted, and both give exactly N events in ANY 60 s window
     rule "both"    [s, e]  an instant on a boundary is announced twice        (must be rejected: dup)
     rule "neither" (s, e)  an instant on a boundary is never announced        (must be rejected: missing)
     rule "impl"    pkg/scte35.CreateEmsgAhead as written before /repo commit 28a0bd0: (s, e], but only the splice instants
                    of the minute that contains the segment START are examined, first hit only (documented counterexample)
     rule "fix"     CreateEmsgAhead as of 28a0bd0 (the current code): additionally the first splice of the following
                    minute (minuteStart + 70 s)
   Invariants: MonitorExact (the incremental monitor = the direct statement of C13.once/none over the whole history),
   AcceptsBothReadings, ExactlyN (the theorem that makes `once` well defined), Rejected* (expected counterexamples). *)
EXTENDS Scte35Ops, TLC
CONSTANTS U,         \* ticks per second
          Layouts,   \* set of sequences of segment durations (ticks)
          Ns,        \* subset of {1,2,3}
          PHs,       \* phases of the minute grid (0 = media minutes; AST % 60 = wall-clock minutes)
          Rules,
          Minutes
VARIABLES lay, n, ph, rule, idx, s, rs, hist, flags
vars == <<lay, n, ph, rule, idx, s, rs, hist, flags>>

RECURSIVE SumSeq(_, _)
SumSeq(q, i) == IF i = 0 THEN 0 ELSE SumSeq(q, i - 1) + q[i]
Min(S) == CHOOSE x \in S : \A y \in S : x <= y
E == TNorm(U, s.w, s.r + lay[idx])
Cand == (s.w + Ahead - 1)..(E.w + Ahead + 1)

\* ---- carrying rules
CarryBy(lo(_), hi(_)) == {T \in Cand : OnSchedule(n, ph, T) /\ lo(Announce(T)) /\ hi(Announce(T))}
GeS(a) == TLeq(s, a)
GtS(a) == TLt(s, a)
LtE(a) == TLt(a, E)
LeE(a) == TLeq(a, E)
\* CreateEmsgAhead(segStart, segEnd, timescale, perMinute): modMinute = segStart % (60*timescale), minuteStart = segStart - modMinute,
\* splice instants minuteStart + o*timescale in increasing order, first one with segStart < announce <= segEnd
ImplIn(ms) == {ms + o : o \in {x \in Off(n) : TLt(s, Announce(ms + x)) /\ TLeq(Announce(ms + x), E)}}
First(S) == IF S = {} THEN {} ELSE {Min(S)}
\* 28a0bd0: spliceInsertTimes = append(spliceInsertTimes, minuteStart+70*timescale), examined last
NextFirst(ms) == IF TLt(s, Announce(ms + 70)) /\ TLeq(Announce(ms + 70), E) THEN {ms + 70} ELSE {}
MinuteOfStart == s.w - (s.w % 60)
Carry == CASE rule = "L"       -> CarryBy(GeS, LtE)
           [] rule = "R"       -> CarryBy(GtS, LeE)
           [] rule = "both"    -> CarryBy(GeS, LeE)
           [] rule = "neither" -> CarryBy(GtS, LtE)
           [] rule = "impl"    -> First(ImplIn(MinuteOfStart))
           [] rule = "fix"     -> First(ImplIn(MinuteOfStart) \cup NextFirst(MinuteOfStart))

\* ---- the monitor (exactly the clauses of Scte35_Trace)
CarriedT == {h.T : h \in hist}
Verdict(C) == (IF \E T \in C : ~MayCarry(s, E, T) THEN {"window"} ELSE {})
         \cup (IF C \cap CarriedT # {} THEN {"dup"} ELSE {})
         \cup (IF OffSchedule(n, ph, C) # {} THEN {"offschedule"} ELSE {})
         \cup (IF Missing(n, ph, s, E, rs, CarriedT \cup C) # {} THEN {"missing"} ELSE {})

Init == /\ lay \in Layouts /\ n \in Ns /\ ph \in PHs /\ rule \in Rules /\ idx = 1
        /\ \E f \in 0..(SumSeq(lay, Len(lay)) - 1) : s = TNorm(U, 0, f)
        /\ rs = s /\ hist = {} /\ flags = {}
Step == /\ s.w < 60 * Minutes
        /\ LET C == Carry IN
           /\ flags' = flags \cup Verdict(C)
           /\ hist' = hist \cup {[T |-> T, s |-> s, e |-> E] : T \in C}
        /\ s' = E /\ idx' = (idx % Len(lay)) + 1
        /\ UNCHANGED <<lay, n, ph, rule, rs>>
Spec == Init /\ [][Step]_vars

\* ---- the property stated directly on the whole history (C13.once, C13.none)
Inside(T) == TLt(rs, Announce(T)) /\ TLt(Announce(T), s)         \* announce instant strictly inside the processed run
ActualOK ==
   /\ \A h \in hist : OnSchedule(n, ph, h.T) /\ MayCarry(h.s, h.e, h.T)                      \* none / window
   /\ \A h1 \in hist, h2 \in hist : h1.T = h2.T => h1 = h2                                  \* at most once
   /\ \A T \in 0..(s.w + Ahead + 1) : (OnSchedule(n, ph, T) /\ Inside(T)) => T \in CarriedT  \* at least once
MonitorExact == (flags = {}) <=> ActualOK
AcceptsBothReadings == rule \in {"L", "R"} => flags = {}
\* exactly N events in ANY 60 s window of splice instants whose announce instants are all strictly inside the run
\* (evaluated when the walk is complete: windows and their events only accumulate)
ExactlyN == (rule \in {"L", "R"} /\ s.w >= 60 * Minutes) =>
   \A t0 \in 0..(60 * Minutes) : (Inside(t0) /\ Inside(t0 + 59)) => Cardinality({h \in hist : t0 <= h.T /\ h.T < t0 + 60}) = n
\* the offsets inside a grid minute are the documented ones
AtOffsets == rule \in {"L", "R"} => \A h \in hist : ((h.T + ph) % 60) \in Off(n)
\* expected counterexamples / fidelity of the implementation-shaped rules
RuleAccepted == flags = {}
NoDup == "dup" \notin flags
NoMissing == "missing" \notin flags
=============================================================================

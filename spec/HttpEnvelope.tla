---------------------------- MODULE HttpEnvelope ----------------------------
(* (M/R) for X07: the abstract request space  route x method x outcome class x kind x server x variant.
   TLC enumerates it as initial states, checks the sanity of the oracle HttpEnvelopeOps on every element and prints each
   element as one JSON line (prefix GEN) that harness/drive/x07 turns into concrete requests against the real server.

   Sanity (invariants):
     InvOneCT      every entity class has exactly one expected Content-Type, no class has more than one
     InvAccept     the response of an abstract FAITHFUL server (Ideal: what the property text describes) passes every clause
     InvSensitive  each single deviation of that response (Mutations) that the class is sensitive to fails at least one clause
     InvHead       the HEAD expectation is GET's minus the body: Ideal(HEAD r) = Ideal(GET r) with an empty body (handler-level
                   byte / write counts aside), and the pair passes X07.head
     InvRedirect   redirect targets are routes of the table that serve every method the redirect is registered for; the pair
                   (follow, direct) of a faithful server passes X07.redirect.follow
     InvAllow      a faithful server's OPTIONS answer does not name a method it answers 405
     InvFamily     the metric family of a path extension is unique and total                                              *)
EXTENDS HttpEnvelopeOps, TLC, Json

CONSTANTS RouteSet,   \* routes to enumerate
          V           \* variant indices (the driver concretises every class once per variant, with different inputs)

VARIABLE r

Init == \E route \in RouteSet, method \in Methods, v \in V :
          \E kind \in KindsOf(route) :
             \E outcome \in OutcomesOf(route, method, kind) :
                \E srv \in SrvsOf(route, outcome) : r = Req(route, method, outcome, kind, srv, v)
Next == UNCHANGED r
Spec == Init /\ [][Next]_r

TypeOK == ValidReq(r) /\ r.v \in V

-----------------------------------------------------------------------------
In0 == [tail |-> "/a/b/seg.m4s", q |-> "?nowMS=1000", ttl |-> 60, code |-> 503]
Size == 1000

ConfigKeySeq == <<"vodroot", "timeoutS", "maxrequests", "reqlimitint", "port", "livewindowS", "host", "playurl",
                  "whitelistblocks", "repdataroot", "writerepdata", "loglevel", "logformat">>
ASSUME ToSet(ConfigKeySeq) = ConfigKeys
MethodSeq == <<"OPTIONS", "GET", "HEAD", "POST">>

IdealSt(q, in) == IF q.outcome = "code" THEN in.code ELSE Intended(q.outcome, q.method)
\* the abstract faithful server
Ideal(q, in) ==
   LET st    == IdealSt(q, in)
       ent   == st = 200
       chk   == Chunked(q) /\ ent
       head  == q.method = "HEAD"
       body  == IF st \in {204, 429, 405} THEN 0 ELSE IF ent THEN Size ELSE 12
       hcl   == IF ent /\ NeedCL(q) THEN Size ELSE -1
       \* net/http adds Content-Length to small complete answers of GET; never to chunked ones
       cl    == IF chk THEN -1 ELSE IF hcl >= 0 THEN hcl ELSE IF head THEN -1 ELSE body
       ct    == IF ent /\ ExpectedCT(q) # {} THEN CHOOSE x \in ExpectedCT(q) : TRUE
                ELSE IF ent /\ q.route = "vod" THEN "application/octet-stream"
                ELSE IF st = 302 THEN "text/html"
                ELSE IF body = 0 THEN "" ELSE "text/plain"
   IN [st |-> st,
       env |-> [i \in DOMAIN EnvNames |-> <<EnvNames[i], 1, IF i = 1 THEN "v1.0" ELSE "*">>],
       acam |-> <<"POST", "GET", "HEAD", "OPTIONS">>,
       ct |-> ct, cl |-> cl, blen |-> IF head THEN 0 ELSE body, berr |-> "",
       hst |-> st, hct |-> ct, hcl |-> hcl,
       hbytes |-> IF head /\ q.route = "vod" THEN 0 ELSE body,
       writes |-> IF chk THEN 9 ELSE IF body = 0 \/ (head /\ q.route = "vod") THEN 0 ELSE 1,
       flushes |-> IF chk THEN 4 ELSE 0,
       te |-> IF chk /\ ~head THEN "chunked" ELSE "",
       allow |-> IF q.method = "OPTIONS" /\ st = 204 THEN SelectSeq(MethodSeq, LAMBDA m : m \in Served(q.route)) ELSE <<>>,
       loc |-> IF st = 302 THEN RedirTarget(q, in) ELSE "",
       hasexp |-> q.route = "patch" /\ ent, expoff |-> IF q.route = "patch" /\ ent THEN in.ttl + 10 ELSE 0,
       lreq |-> IF q.srv = "lim" /\ Grp(q.route) \in {"live", "vod"} THEN "1 (max 2)" ELSE "",
       facts |-> IF q.route = "version" /\ ent THEN << <<"Version", "v1.0", "v1.0">> >>
                 ELSE IF q.route = "config" /\ ent THEN [i \in DOMAIN ConfigKeySeq |-> <<ConfigKeySeq[i], "x", "x">>]
                 ELSE <<>>,
       listed |-> IF q.route = "assets" /\ ent THEN <<"a/M.mpd", "b/N.mpd">> ELSE <<>>,
       servable |-> IF q.route = "assets" /\ ent THEN <<"b/N.mpd", "a/M.mpd">> ELSE <<>>]

Mutations == {"cors.drop", "cors.dup", "cors.origin", "cors.method", "ct", "cl.off", "cl.none", "unchunk", "loc", "exp", "st",
              "allow.none", "lreq", "fact", "listed", "handler.extra"}
Mut(m, q, in, o) ==
   CASE m = "cors.drop"   -> [o EXCEPT !.env[6] = <<EnvNames[6], 0, "">>]
     [] m = "cors.dup"    -> [o EXCEPT !.env[2] = <<EnvNames[2], 2, "*">>]
     [] m = "cors.origin" -> [o EXCEPT !.env[2] = <<EnvNames[2], 1, "null">>]
     [] m = "cors.method" -> [o EXCEPT !.acam = SelectSeq(@, LAMBDA x : x # q.method)]
     [] m = "ct"          -> [o EXCEPT !.ct = "application/x-wrong"]
     [] m = "cl.off"      -> IF q.method = "HEAD" THEN [o EXCEPT !.blen = 5] ELSE [o EXCEPT !.cl = @ + 1]
     [] m = "cl.none"     -> [o EXCEPT !.cl = -1, !.hcl = -1]
     [] m = "unchunk"     -> [o EXCEPT !.cl = Size, !.hcl = Size, !.te = "", !.writes = 1, !.flushes = 0]
     [] m = "loc"         -> [o EXCEPT !.loc = @ \o "x"]
     [] m = "exp"         -> [o EXCEPT !.expoff = in.ttl]
     [] m = "st"          -> [o EXCEPT !.st = 500]
     [] m = "allow.none"  -> [o EXCEPT !.allow = <<>>]
     [] m = "lreq"        -> [o EXCEPT !.lreq = ""]
     [] m = "fact"        -> [o EXCEPT !.facts[1] = <<@[1], @[2], "other">>]
     [] m = "listed"      -> [o EXCEPT !.listed = @ \o <<"zz/Y.mpd">>]
     [] m = "handler.extra" -> [o EXCEPT !.hbytes = @ + 13]
\* the classes on which the property text is sensitive to the deviation
Applicable(m, q, in) ==
   LET o == Ideal(q, in) IN
   CASE m \in {"cors.drop", "cors.dup", "cors.origin"} -> TRUE
     [] m = "cors.method" -> o.st < 400
     [] m = "ct"          -> o.st = 200 /\ Entity(q) /\ ExpectedCT(q) # {}
     [] m = "cl.off"      -> o.cl >= 0 \/ q.method = "HEAD"
     [] m = "cl.none"     -> o.st = 200 /\ NeedCL(q)
     [] m = "unchunk"     -> o.st = 200 /\ Chunked(q)
     [] m = "loc"         -> q.outcome = "redirect"
     [] m = "exp"         -> q.route = "patch" /\ q.method = "GET" /\ o.st = 200
     [] m = "st"          -> \/ q.outcome \in {"limited", "redirect"}
                             \/ q.route \in {"healthz", "version", "config"} /\ q.method = "GET"
                             \/ q.method = "OPTIONS" /\ Grp(q.route) # "mounted"
                             \/ q.route = "unknown" /\ q.method \in {"GET", "HEAD"}
                             \/ q.route = "live" /\ q.kind = "llimage" /\ q.outcome = "ok" /\ q.method \in {"GET", "HEAD"}
     [] m = "allow.none"  -> q.method = "OPTIONS" /\ o.st = 204
     [] m = "lreq"        -> q.srv = "lim" /\ Grp(q.route) \in {"live", "vod"}
     [] m = "fact"        -> q.route \in {"version", "config"} /\ o.st = 200
     [] m = "listed"      -> q.route = "assets" /\ o.st = 200
     [] m = "handler.extra" -> o.hcl >= 0 /\ (q.method # "HEAD" \/ o.hbytes > 0)

InvOneCT == /\ Cardinality(ExpectedCT(r)) <= 1
            /\ EntityClass(r) => Cardinality(ExpectedCT(r)) = 1
InvAccept == Failing(r, In0, Ideal(r, In0)) = {}
InvSensitive == \A m \in Mutations : Applicable(m, r, In0) => Failing(r, In0, Mut(m, r, In0, Ideal(r, In0))) # {}

P(q, o) == [st |-> o.st, ct |-> o.ct, cl |-> o.cl, hst |-> o.hst, hct |-> o.hct, hcl |-> o.hcl, blen |-> o.blen,
            dig |-> "d", method |-> q.method, allow |-> o.allow]
With(q, m) == [q EXCEPT !.method = m]
InvHead == (r.method = "GET" /\ r.route \in {"live", "vod"}) =>
              LET g == Ideal(r, In0)
                  h == Ideal(With(r, "HEAD"), In0)
              IN /\ ValidReq(With(r, "HEAD"))
                 /\ h = [g EXCEPT !.blen = 0, !.hbytes = h.hbytes, !.writes = h.writes, !.te = "", !.cl = h.cl]
                 /\ (g.cl >= 0 /\ g.hcl >= 0) => h.cl = g.cl
                 /\ HeadPairOK(P(r, g), P(With(r, "HEAD"), h))
                 /\ ~HeadPairOK(P(r, g), P(With(r, "HEAD"), [h EXCEPT !.blen = 7]))
                 /\ ~HeadPairOK(P(r, g), P(With(r, "HEAD"), [h EXCEPT !.hcl = g.hcl + 1]))
                 /\ ~HeadPairOK(P(r, g), P(With(r, "HEAD"), [h EXCEPT !.st = 599]))
InvRedirect == IsRedirect(r.route) =>
                  LET to == RouteTable[r.route].to
                  IN /\ to \in Routes /\ ~IsRedirect(to)
                     /\ RouteTable[r.route].reg \subseteq Served(to)
                     /\ r.outcome = "redirect" =>
                           LET d == Ideal([r EXCEPT !.route = to, !.outcome = "ok",
                                                    !.kind = IF r.kind \in KindsOf(to) THEN r.kind ELSE "none"], In0)
                           IN /\ FollowPairOK(P(r, d), P(r, d))
                              /\ ~FollowPairOK(P(r, d), P(r, [d EXCEPT !.cl = @ + 1]))
InvAllow == r.outcome = "nometh" =>
               LET a == Ideal(r, In0)
                   b == Ideal([With(r, "OPTIONS") EXCEPT !.outcome = "ok"], In0)
               IN /\ a.st = 405
                  /\ Grp(r.route) # "mounted" =>
                        /\ AllowPairOK(P(r, a), P(With(r, "OPTIONS"), b))
                        /\ ~AllowPairOK(P(r, a), P(With(r, "OPTIONS"), [b EXCEPT !.allow = MethodSeq]))
Exts == {"", ".mpd", ".m4s", ".mp4", ".cmfv", ".cmfa", ".cmft", ".m4a", ".m4t", ".m4v", ".jpg", ".jpeg", ".json", ".ico", ".mpp", ".html"}
ASSUME InvFamily == \A e \in Exts : Family(e) \in Families /\ (Family(e) = "mpd" <=> e = ".mpd")
\* metrics bookkeeping: three requests, two in one series
ASSUME LET k1 == <<"mpd", "200">>  k2 == <<"other", "404">>
           c0 == [x \in {} |-> 0]
           c  == Bump(Bump(Bump(c0, k1), k2), k1)
           p  == [x \in {k1} |-> [tot |-> 5, hist |-> 5]]
           good == [x \in {k1, k2} |-> IF x = k1 THEN [tot |-> 7, hist |-> 7] ELSE [tot |-> 1, hist |-> 1]]
           twice == [good EXCEPT ![k2] = [tot |-> 2, hist |-> 2]]
           nohist == [good EXCEPT ![k1] = [tot |-> 7, hist |-> 6]]
       IN MetricsBad(p, good, c) = {} /\ MetricsBad(p, twice, c) = {k2} /\ MetricsBad(p, nohist, c) = {k1}
               /\ MetricsBad(p, p, c) = {k1, k2}

Emit == PrintT("GEN" \o ToJson(r))
=============================================================================

---------------------------- MODULE IngestMgrImpl ----------------------------
(* Explorer for the race clause of C07 (C07.norace) on the CMAF-ingest session manager, shaped like
   cmd/livesim2/app/cmaf-ingester.go (cmafIngesterMgr, cmafIngester.start) and api.go (the four REST
   handlers).  API client processes issue Create / Get / Step / Delete calls; every session has its
   own goroutine (process sess); optionally the manager is closed (process closer = cmafIngesterMgr.Close).
   Shared variables of the Go code:

       cm.ingesters   map id -> *cmafIngester   written by Create (NewCmafIngester), read by
                                                startIngester, Get, Step, Delete, Close
       cm.cancels     map id -> CancelFunc      written by Create (startIngester), read by Delete, Close
       ing.state      per session               written by the session goroutine (running, stopped),
                                                read by Close (and by Delete before commit abe3a53)
       ing.report     per session               appended by the session goroutine, read by Get
       cm.nr          atomic counter            (atomic: never part of a conflict; abstracted to alloc)

   Every access is TWO steps (begin / end) so that "two goroutines are inside accesses to the same
   variable" is a reachable STATE; `acc` holds the accesses in progress with the locks held.

       NoConflict == no two processes inside accesses to the same variable, one of them a write,
                     without a common lock (held exclusively by at least one of them)

   Designs (constants):
     MapsLocked   the two maps are accessed under cm.mu (sync.RWMutex: readers share).  FALSE = the code
                  before commit abe3a53, TRUE = the code now.
     SessLocked   state / report of a session are accessed under the per-session mutex (addReport / getReport /
                  setState / getState).  TRUE = the code now (commit bff5ff9 = proposed_fixes/C07-ingester-state-
                  report-lock.diff): NoConflict holds (spec/mc/IngestMgrImpl_code_*.cfg, expected ok).
                  FALSE = the code before bff5ff9: NoConflict is VIOLATED on `report` (Get reads what the session
                  goroutine appends) and, with the closer, on `state` - kept as DOCUMENTED design counterexamples
                  (spec/mc/IngestMgrImpl_sess_cex*.cfg, expected violation); the overlap of the `report`
                  counterexample is the one harness/drive/c07 forces through the gates ingest:sess_report /
                  ingest:get_report in the -race child on every run.
     OldDelete    Delete reads ing.state before cancelling (the code before abe3a53).
   Further hazards of the older code are kept as documented counterexamples (IngestMgrImpl_old_cex_*.cfg); they
   belong to C16 / C08, not to C07: the unsynchronised maps (MapsLocked = FALSE), a Step call on a session whose
   goroutine has returned blocks for ever on the unbuffered trigger channel (StepNotStuck; StepGuard = TRUE is the
   code since 23e3c73), and a Delete call that finds the id in `ingesters` but not yet in `cancels` calls a nil
   function (NoNilCancel; NilGuard = TRUE = code now). *)
EXTENDS Integers, Sequences, FiniteSets, TLC
CONSTANTS Clients,    \* API client goroutines (strings)
          Ids,        \* session ids (strings, disjoint from Clients); also the session goroutines
          MaxCalls,   \* calls per client
          MapsLocked, SessLocked, OldDelete, StepGuard, NilGuard,
          WithClose   \* a goroutine runs cmafIngesterMgr.Close() at some point

VING == <<"ingesters", "">>
VCAN == <<"cancels", "">>
VSTATE(i) == <<"state", i>>
VREP(i) == <<"report", i>>
MU == "mu"
LockIds == {MU} \cup Ids          \* the per-session mutex is named by the session id
L(on, k, mode) == IF on THEN {<<k, mode>>} ELSE {}

(* --algorithm ingestmgr {
  variables
    alloc = {},                        \* ids handed out by the atomic counter
    ingesters = {}, cancels = {},      \* domains of the two maps
    state = [i \in Ids |-> "notstarted"],
    started = {},                      \* go c.start(ctx) executed
    cancelled = {},                    \* contexts cancelled
    offers = [i \in Ids |-> {}],       \* clients blocked in `nextSegTrigger <- struct{}{}`
    lockW = [k \in LockIds |-> "free"],\* exclusive holder
    lockR = [k \in LockIds |-> {}],    \* shared holders (RWMutex.RLock)
    acc = {},                          \* accesses in progress: <<process, variable, "r"|"w", {<<lock, mode>>}>>
    nilcall = FALSE;                   \* a nil CancelFunc was called (panic in the handler)
  define {
    CanR(k) == lockW[k] = "free"
    CanW(k) == lockW[k] = "free" /\ lockR[k] = {}
    \* a common lock orders two accesses when at least one side holds it exclusively
    Protected(x, y) == \E k \in LockIds : \/ (<<k, "W">> \in x[4] /\ (<<k, "W">> \in y[4] \/ <<k, "R">> \in y[4]))
                                          \/ (<<k, "W">> \in y[4] /\ <<k, "R">> \in x[4])
    ConflictOn(V) == \E x, y \in acc : /\ x[1] # y[1] /\ x[2] = y[2] /\ x[2][1] \in V
                                       /\ (x[3] = "w" \/ y[3] = "w")
                                       /\ ~Protected(x, y)
    NoConflict == ~ConflictOn({"ingesters", "cancels", "state", "report"})
    NoConflict_ingesters == ~ConflictOn({"ingesters"})
    NoConflict_cancels == ~ConflictOn({"cancels"})
    NoConflict_state == ~ConflictOn({"state"})
    NoConflict_report == ~ConflictOn({"report"})
    NoNilCancel == ~nilcall
    \* sanity of the model itself: the lock words recorded with an access are really held, RW semantics hold
    LockDiscipline == /\ \A x \in acc : \A lk \in x[4] : IF lk[2] = "W" THEN lockW[lk[1]] = x[1] ELSE x[1] \in lockR[lk[1]]
                      /\ \A k \in LockIds : lockW[k] # "free" => lockR[k] = {}
  }
  macro AcqR(on, k) { await ~on \/ CanR(k); if (on) { lockR[k] := lockR[k] \cup {self} } }
  macro AcqW(on, k) { await ~on \/ CanW(k); if (on) { lockW[k] := self } }
  macro RelR(on, k) { if (on) { lockR[k] := lockR[k] \ {self} } }
  macro RelW(on, k) { if (on) { lockW[k] := "free" } }
  macro Begin(v, kind, locks) { acc := acc \cup {<<self, v, kind, locks>>} }
  macro End() { acc := {a \in acc : a[1] # self} }

  process (client \in Clients)
    variables calls = 0, op = "", id = "", found = FALSE, st = "";
  {
   c0: while (calls < MaxCalls) {
         calls := calls + 1; found := FALSE; st := "";
         either { await alloc # Ids; op := "create"; id := "" }
         or { with (o \in {"get", "step", "delete"}, i \in Ids) { op := o; id := i } };
   c1:   if (op = "create") {
   cr_cas:  with (i \in Ids \ alloc) { id := i; alloc := alloc \cup {i} };          \* cm.nr CAS loop
   cr_iw:   AcqW(MapsLocked, MU); Begin(VING, "w", L(MapsLocked, MU, "W"));         \* NewCmafIngester: cm.ingesters[nr] = &c
   cr_iw2:  End(); ingesters := ingesters \cup {id}; RelW(MapsLocked, MU);
   cr_ir:   AcqR(MapsLocked, MU); Begin(VING, "r", L(MapsLocked, MU, "R"));         \* startIngester: c, ok := cm.ingesters[nr]
   cr_ir2:  End(); RelR(MapsLocked, MU);
   cr_cw:   AcqW(MapsLocked, MU); Begin(VCAN, "w", L(MapsLocked, MU, "W"));         \* cm.cancels[nr] = cancel
   cr_cw2:  End(); cancels := cancels \cup {id}; RelW(MapsLocked, MU);
   cr_go:   started := started \cup {id};                                           \* go c.start(ctx)
         } else {
   lk:      AcqR(MapsLocked, MU); Begin(VING, "r", L(MapsLocked, MU, "R"));         \* ing, ok := cm.ingesters[id]
   lk2:     End(); found := id \in ingesters; RelR(MapsLocked, MU);
   disp:    if (found /\ op = "get") {
   g_r:        AcqW(SessLocked, id); Begin(VREP(id), "r", L(SessLocked, id, "W"));  \* strings.Join(ing.report, "\n")
   g_r2:       End(); RelW(SessLocked, id);
            } else if (found /\ op = "step") {
   s_send:     offers[id] := offers[id] \cup {self};                                \* c.nextSegTrigger <- struct{}{}
   s_wait:     await self \notin offers[id] \/ (StepGuard /\ pc[id] = "Done");      \* (select with <-c.done)
               offers[id] := offers[id] \ {self};
            } else if (found /\ op = "delete") {
               if (OldDelete) {
   d_sr:          AcqW(SessLocked, id); Begin(VSTATE(id), "r", L(SessLocked, id, "W")); \* if ci.state == ingesterStateRunning
   d_sr2:         End(); st := state[id]; RelW(SessLocked, id);
               };
   d_c:        AcqR(MapsLocked, MU); Begin(VCAN, "r", L(MapsLocked, MU, "R"));      \* cancel := cm.cancels[id]
   d_c2:       End(); RelR(MapsLocked, MU);
               if (id \in cancels) { cancelled := cancelled \cup {id} }             \* cancel()
               else if (~NilGuard) { nilcall := TRUE };
            }
         }
       }
  }

  process (sess \in Ids)
    variables err = FALSE;
  {
   w0:    await self \in started;
   i_rw:  AcqW(SessLocked, self); Begin(VREP(self), "w", L(SessLocked, self, "W"));     \* c.report = append(c.report, "Sent init segment ..")
   i_rw2: End(); RelW(SessLocked, self);
          either { skip } or { goto stop };                                             \* init upload failed: return
   run_w: AcqW(SessLocked, self); Begin(VSTATE(self), "w", L(SessLocked, self, "W"));   \* c.state = ingesterStateRunning
   run_w2: End(); state[self] := "running"; RelW(SessLocked, self);
   loop:  either { await offers[self] # {};                                             \* case <-c.nextSegTrigger
                   with (c \in offers[self]) { offers[self] := offers[self] \ {c} };
                   either { err := FALSE } or { err := TRUE } }                         \* sendMediaSegments error?
          or { await self \in cancelled; goto stop };                                   \* case <-ctx.Done()
   sent:  if (~err) { goto loop };
   e_rw:  AcqW(SessLocked, self); Begin(VREP(self), "w", L(SessLocked, self, "W"));     \* c.report = append(c.report, "Error sending ..")
   e_rw2: End(); RelW(SessLocked, self);
   stop:  AcqW(SessLocked, self); Begin(VSTATE(self), "w", L(SessLocked, self, "W"));   \* defer: c.state = ingesterStateStopped
   stop2: End(); state[self] := "stopped"; RelW(SessLocked, self);
  }

  process (closer \in {"closer"})
    variables todo = {}, tgt = "";
  {
   cl0:  await WithClose;
   cl_c: AcqR(MapsLocked, MU); Begin(VCAN, "r", L(MapsLocked, MU, "R"));                \* for i, cancel := range cm.cancels
   cl_c2: End(); todo := cancels;
   cl_l: while (todo # {}) {
           with (i \in todo) { tgt := i; todo := todo \ {i} };
   cl_i:   Begin(VING, "r", L(MapsLocked, MU, "R"));                                    \* cm.ingesters[i]
   cl_i2:  End();
   cl_s:   AcqW(SessLocked, tgt);                                                       \* .state == ingesterStateRunning
           Begin(VSTATE(tgt), "r", L(MapsLocked, MU, "R") \cup L(SessLocked, tgt, "W"));
   cl_s2:  End(); RelW(SessLocked, tgt);
           if (state[tgt] = "running") { cancelled := cancelled \cup {tgt} };
         };
   cl_u: RelR(MapsLocked, MU);
  }
} *)
\* BEGIN TRANSLATION
VARIABLES pc, alloc, ingesters, cancels, state, started, cancelled, offers, 
          lockW, lockR, acc, nilcall

(* define statement *)
CanR(k) == lockW[k] = "free"
CanW(k) == lockW[k] = "free" /\ lockR[k] = {}

Protected(x, y) == \E k \in LockIds : \/ (<<k, "W">> \in x[4] /\ (<<k, "W">> \in y[4] \/ <<k, "R">> \in y[4]))
                                      \/ (<<k, "W">> \in y[4] /\ <<k, "R">> \in x[4])
ConflictOn(V) == \E x, y \in acc : /\ x[1] # y[1] /\ x[2] = y[2] /\ x[2][1] \in V
                                   /\ (x[3] = "w" \/ y[3] = "w")
                                   /\ ~Protected(x, y)
NoConflict == ~ConflictOn({"ingesters", "cancels", "state", "report"})
NoConflict_ingesters == ~ConflictOn({"ingesters"})
NoConflict_cancels == ~ConflictOn({"cancels"})
NoConflict_state == ~ConflictOn({"state"})
NoConflict_report == ~ConflictOn({"report"})
NoNilCancel == ~nilcall

LockDiscipline == /\ \A x \in acc : \A lk \in x[4] : IF lk[2] = "W" THEN lockW[lk[1]] = x[1] ELSE x[1] \in lockR[lk[1]]
                  /\ \A k \in LockIds : lockW[k] # "free" => lockR[k] = {}

VARIABLES calls, op, id, found, st, err, todo, tgt

vars == << pc, alloc, ingesters, cancels, state, started, cancelled, offers, 
           lockW, lockR, acc, nilcall, calls, op, id, found, st, err, todo, 
           tgt >>

ProcSet == (Clients) \cup (Ids) \cup ({"closer"})

Init == (* Global variables *)
        /\ alloc = {}
        /\ ingesters = {}
        /\ cancels = {}
        /\ state = [i \in Ids |-> "notstarted"]
        /\ started = {}
        /\ cancelled = {}
        /\ offers = [i \in Ids |-> {}]
        /\ lockW = [k \in LockIds |-> "free"]
        /\ lockR = [k \in LockIds |-> {}]
        /\ acc = {}
        /\ nilcall = FALSE
        (* Process client *)
        /\ calls = [self \in Clients |-> 0]
        /\ op = [self \in Clients |-> ""]
        /\ id = [self \in Clients |-> ""]
        /\ found = [self \in Clients |-> FALSE]
        /\ st = [self \in Clients |-> ""]
        (* Process sess *)
        /\ err = [self \in Ids |-> FALSE]
        (* Process closer *)
        /\ todo = [self \in {"closer"} |-> {}]
        /\ tgt = [self \in {"closer"} |-> ""]
        /\ pc = [self \in ProcSet |-> CASE self \in Clients -> "c0"
                                        [] self \in Ids -> "w0"
                                        [] self \in {"closer"} -> "cl0"]

c0(self) == /\ pc[self] = "c0"
            /\ IF calls[self] < MaxCalls
                  THEN /\ calls' = [calls EXCEPT ![self] = calls[self] + 1]
                       /\ found' = [found EXCEPT ![self] = FALSE]
                       /\ st' = [st EXCEPT ![self] = ""]
                       /\ \/ /\ alloc # Ids
                             /\ op' = [op EXCEPT ![self] = "create"]
                             /\ id' = [id EXCEPT ![self] = ""]
                          \/ /\ \E o \in {"get", "step", "delete"}:
                                  \E i \in Ids:
                                    /\ op' = [op EXCEPT ![self] = o]
                                    /\ id' = [id EXCEPT ![self] = i]
                       /\ pc' = [pc EXCEPT ![self] = "c1"]
                  ELSE /\ pc' = [pc EXCEPT ![self] = "Done"]
                       /\ UNCHANGED << calls, op, id, found, st >>
            /\ UNCHANGED << alloc, ingesters, cancels, state, started, 
                            cancelled, offers, lockW, lockR, acc, nilcall, err, 
                            todo, tgt >>

c1(self) == /\ pc[self] = "c1"
            /\ IF op[self] = "create"
                  THEN /\ pc' = [pc EXCEPT ![self] = "cr_cas"]
                  ELSE /\ pc' = [pc EXCEPT ![self] = "lk"]
            /\ UNCHANGED << alloc, ingesters, cancels, state, started, 
                            cancelled, offers, lockW, lockR, acc, nilcall, 
                            calls, op, id, found, st, err, todo, tgt >>

cr_cas(self) == /\ pc[self] = "cr_cas"
                /\ \E i \in Ids \ alloc:
                     /\ id' = [id EXCEPT ![self] = i]
                     /\ alloc' = (alloc \cup {i})
                /\ pc' = [pc EXCEPT ![self] = "cr_iw"]
                /\ UNCHANGED << ingesters, cancels, state, started, cancelled, 
                                offers, lockW, lockR, acc, nilcall, calls, op, 
                                found, st, err, todo, tgt >>

cr_iw(self) == /\ pc[self] = "cr_iw"
               /\ ~MapsLocked \/ CanW(MU)
               /\ IF MapsLocked
                     THEN /\ lockW' = [lockW EXCEPT ![MU] = self]
                     ELSE /\ TRUE
                          /\ lockW' = lockW
               /\ acc' = (acc \cup {<<self, VING, "w", (L(MapsLocked, MU, "W"))>>})
               /\ pc' = [pc EXCEPT ![self] = "cr_iw2"]
               /\ UNCHANGED << alloc, ingesters, cancels, state, started, 
                               cancelled, offers, lockR, nilcall, calls, op, 
                               id, found, st, err, todo, tgt >>

cr_iw2(self) == /\ pc[self] = "cr_iw2"
                /\ acc' = {a \in acc : a[1] # self}
                /\ ingesters' = (ingesters \cup {id[self]})
                /\ IF MapsLocked
                      THEN /\ lockW' = [lockW EXCEPT ![MU] = "free"]
                      ELSE /\ TRUE
                           /\ lockW' = lockW
                /\ pc' = [pc EXCEPT ![self] = "cr_ir"]
                /\ UNCHANGED << alloc, cancels, state, started, cancelled, 
                                offers, lockR, nilcall, calls, op, id, found, 
                                st, err, todo, tgt >>

cr_ir(self) == /\ pc[self] = "cr_ir"
               /\ ~MapsLocked \/ CanR(MU)
               /\ IF MapsLocked
                     THEN /\ lockR' = [lockR EXCEPT ![MU] = lockR[MU] \cup {self}]
                     ELSE /\ TRUE
                          /\ lockR' = lockR
               /\ acc' = (acc \cup {<<self, VING, "r", (L(MapsLocked, MU, "R"))>>})
               /\ pc' = [pc EXCEPT ![self] = "cr_ir2"]
               /\ UNCHANGED << alloc, ingesters, cancels, state, started, 
                               cancelled, offers, lockW, nilcall, calls, op, 
                               id, found, st, err, todo, tgt >>

cr_ir2(self) == /\ pc[self] = "cr_ir2"
                /\ acc' = {a \in acc : a[1] # self}
                /\ IF MapsLocked
                      THEN /\ lockR' = [lockR EXCEPT ![MU] = lockR[MU] \ {self}]
                      ELSE /\ TRUE
                           /\ lockR' = lockR
                /\ pc' = [pc EXCEPT ![self] = "cr_cw"]
                /\ UNCHANGED << alloc, ingesters, cancels, state, started, 
                                cancelled, offers, lockW, nilcall, calls, op, 
                                id, found, st, err, todo, tgt >>

cr_cw(self) == /\ pc[self] = "cr_cw"
               /\ ~MapsLocked \/ CanW(MU)
               /\ IF MapsLocked
                     THEN /\ lockW' = [lockW EXCEPT ![MU] = self]
                     ELSE /\ TRUE
                          /\ lockW' = lockW
               /\ acc' = (acc \cup {<<self, VCAN, "w", (L(MapsLocked, MU, "W"))>>})
               /\ pc' = [pc EXCEPT ![self] = "cr_cw2"]
               /\ UNCHANGED << alloc, ingesters, cancels, state, started, 
                               cancelled, offers, lockR, nilcall, calls, op, 
                               id, found, st, err, todo, tgt >>

cr_cw2(self) == /\ pc[self] = "cr_cw2"
                /\ acc' = {a \in acc : a[1] # self}
                /\ cancels' = (cancels \cup {id[self]})
                /\ IF MapsLocked
                      THEN /\ lockW' = [lockW EXCEPT ![MU] = "free"]
                      ELSE /\ TRUE
                           /\ lockW' = lockW
                /\ pc' = [pc EXCEPT ![self] = "cr_go"]
                /\ UNCHANGED << alloc, ingesters, state, started, cancelled, 
                                offers, lockR, nilcall, calls, op, id, found, 
                                st, err, todo, tgt >>

cr_go(self) == /\ pc[self] = "cr_go"
               /\ started' = (started \cup {id[self]})
               /\ pc' = [pc EXCEPT ![self] = "c0"]
               /\ UNCHANGED << alloc, ingesters, cancels, state, cancelled, 
                               offers, lockW, lockR, acc, nilcall, calls, op, 
                               id, found, st, err, todo, tgt >>

lk(self) == /\ pc[self] = "lk"
            /\ ~MapsLocked \/ CanR(MU)
            /\ IF MapsLocked
                  THEN /\ lockR' = [lockR EXCEPT ![MU] = lockR[MU] \cup {self}]
                  ELSE /\ TRUE
                       /\ lockR' = lockR
            /\ acc' = (acc \cup {<<self, VING, "r", (L(MapsLocked, MU, "R"))>>})
            /\ pc' = [pc EXCEPT ![self] = "lk2"]
            /\ UNCHANGED << alloc, ingesters, cancels, state, started, 
                            cancelled, offers, lockW, nilcall, calls, op, id, 
                            found, st, err, todo, tgt >>

lk2(self) == /\ pc[self] = "lk2"
             /\ acc' = {a \in acc : a[1] # self}
             /\ found' = [found EXCEPT ![self] = id[self] \in ingesters]
             /\ IF MapsLocked
                   THEN /\ lockR' = [lockR EXCEPT ![MU] = lockR[MU] \ {self}]
                   ELSE /\ TRUE
                        /\ lockR' = lockR
             /\ pc' = [pc EXCEPT ![self] = "disp"]
             /\ UNCHANGED << alloc, ingesters, cancels, state, started, 
                             cancelled, offers, lockW, nilcall, calls, op, id, 
                             st, err, todo, tgt >>

disp(self) == /\ pc[self] = "disp"
              /\ IF found[self] /\ op[self] = "get"
                    THEN /\ pc' = [pc EXCEPT ![self] = "g_r"]
                    ELSE /\ IF found[self] /\ op[self] = "step"
                               THEN /\ pc' = [pc EXCEPT ![self] = "s_send"]
                               ELSE /\ IF found[self] /\ op[self] = "delete"
                                          THEN /\ IF OldDelete
                                                     THEN /\ pc' = [pc EXCEPT ![self] = "d_sr"]
                                                     ELSE /\ pc' = [pc EXCEPT ![self] = "d_c"]
                                          ELSE /\ pc' = [pc EXCEPT ![self] = "c0"]
              /\ UNCHANGED << alloc, ingesters, cancels, state, started, 
                              cancelled, offers, lockW, lockR, acc, nilcall, 
                              calls, op, id, found, st, err, todo, tgt >>

g_r(self) == /\ pc[self] = "g_r"
             /\ ~SessLocked \/ CanW(id[self])
             /\ IF SessLocked
                   THEN /\ lockW' = [lockW EXCEPT ![id[self]] = self]
                   ELSE /\ TRUE
                        /\ lockW' = lockW
             /\ acc' = (acc \cup {<<self, (VREP(id[self])), "r", (L(SessLocked, id[self], "W"))>>})
             /\ pc' = [pc EXCEPT ![self] = "g_r2"]
             /\ UNCHANGED << alloc, ingesters, cancels, state, started, 
                             cancelled, offers, lockR, nilcall, calls, op, id, 
                             found, st, err, todo, tgt >>

g_r2(self) == /\ pc[self] = "g_r2"
              /\ acc' = {a \in acc : a[1] # self}
              /\ IF SessLocked
                    THEN /\ lockW' = [lockW EXCEPT ![id[self]] = "free"]
                    ELSE /\ TRUE
                         /\ lockW' = lockW
              /\ pc' = [pc EXCEPT ![self] = "c0"]
              /\ UNCHANGED << alloc, ingesters, cancels, state, started, 
                              cancelled, offers, lockR, nilcall, calls, op, id, 
                              found, st, err, todo, tgt >>

s_send(self) == /\ pc[self] = "s_send"
                /\ offers' = [offers EXCEPT ![id[self]] = offers[id[self]] \cup {self}]
                /\ pc' = [pc EXCEPT ![self] = "s_wait"]
                /\ UNCHANGED << alloc, ingesters, cancels, state, started, 
                                cancelled, lockW, lockR, acc, nilcall, calls, 
                                op, id, found, st, err, todo, tgt >>

s_wait(self) == /\ pc[self] = "s_wait"
                /\ self \notin offers[id[self]] \/ (StepGuard /\ pc[id[self]] = "Done")
                /\ offers' = [offers EXCEPT ![id[self]] = offers[id[self]] \ {self}]
                /\ pc' = [pc EXCEPT ![self] = "c0"]
                /\ UNCHANGED << alloc, ingesters, cancels, state, started, 
                                cancelled, lockW, lockR, acc, nilcall, calls, 
                                op, id, found, st, err, todo, tgt >>

d_c(self) == /\ pc[self] = "d_c"
             /\ ~MapsLocked \/ CanR(MU)
             /\ IF MapsLocked
                   THEN /\ lockR' = [lockR EXCEPT ![MU] = lockR[MU] \cup {self}]
                   ELSE /\ TRUE
                        /\ lockR' = lockR
             /\ acc' = (acc \cup {<<self, VCAN, "r", (L(MapsLocked, MU, "R"))>>})
             /\ pc' = [pc EXCEPT ![self] = "d_c2"]
             /\ UNCHANGED << alloc, ingesters, cancels, state, started, 
                             cancelled, offers, lockW, nilcall, calls, op, id, 
                             found, st, err, todo, tgt >>

d_c2(self) == /\ pc[self] = "d_c2"
              /\ acc' = {a \in acc : a[1] # self}
              /\ IF MapsLocked
                    THEN /\ lockR' = [lockR EXCEPT ![MU] = lockR[MU] \ {self}]
                    ELSE /\ TRUE
                         /\ lockR' = lockR
              /\ IF id[self] \in cancels
                    THEN /\ cancelled' = (cancelled \cup {id[self]})
                         /\ UNCHANGED nilcall
                    ELSE /\ IF ~NilGuard
                               THEN /\ nilcall' = TRUE
                               ELSE /\ TRUE
                                    /\ UNCHANGED nilcall
                         /\ UNCHANGED cancelled
              /\ pc' = [pc EXCEPT ![self] = "c0"]
              /\ UNCHANGED << alloc, ingesters, cancels, state, started, 
                              offers, lockW, calls, op, id, found, st, err, 
                              todo, tgt >>

d_sr(self) == /\ pc[self] = "d_sr"
              /\ ~SessLocked \/ CanW(id[self])
              /\ IF SessLocked
                    THEN /\ lockW' = [lockW EXCEPT ![id[self]] = self]
                    ELSE /\ TRUE
                         /\ lockW' = lockW
              /\ acc' = (acc \cup {<<self, (VSTATE(id[self])), "r", (L(SessLocked, id[self], "W"))>>})
              /\ pc' = [pc EXCEPT ![self] = "d_sr2"]
              /\ UNCHANGED << alloc, ingesters, cancels, state, started, 
                              cancelled, offers, lockR, nilcall, calls, op, id, 
                              found, st, err, todo, tgt >>

d_sr2(self) == /\ pc[self] = "d_sr2"
               /\ acc' = {a \in acc : a[1] # self}
               /\ st' = [st EXCEPT ![self] = state[id[self]]]
               /\ IF SessLocked
                     THEN /\ lockW' = [lockW EXCEPT ![id[self]] = "free"]
                     ELSE /\ TRUE
                          /\ lockW' = lockW
               /\ pc' = [pc EXCEPT ![self] = "d_c"]
               /\ UNCHANGED << alloc, ingesters, cancels, state, started, 
                               cancelled, offers, lockR, nilcall, calls, op, 
                               id, found, err, todo, tgt >>

client(self) == c0(self) \/ c1(self) \/ cr_cas(self) \/ cr_iw(self)
                   \/ cr_iw2(self) \/ cr_ir(self) \/ cr_ir2(self)
                   \/ cr_cw(self) \/ cr_cw2(self) \/ cr_go(self)
                   \/ lk(self) \/ lk2(self) \/ disp(self) \/ g_r(self)
                   \/ g_r2(self) \/ s_send(self) \/ s_wait(self)
                   \/ d_c(self) \/ d_c2(self) \/ d_sr(self) \/ d_sr2(self)

w0(self) == /\ pc[self] = "w0"
            /\ self \in started
            /\ pc' = [pc EXCEPT ![self] = "i_rw"]
            /\ UNCHANGED << alloc, ingesters, cancels, state, started, 
                            cancelled, offers, lockW, lockR, acc, nilcall, 
                            calls, op, id, found, st, err, todo, tgt >>

i_rw(self) == /\ pc[self] = "i_rw"
              /\ ~SessLocked \/ CanW(self)
              /\ IF SessLocked
                    THEN /\ lockW' = [lockW EXCEPT ![self] = self]
                    ELSE /\ TRUE
                         /\ lockW' = lockW
              /\ acc' = (acc \cup {<<self, (VREP(self)), "w", (L(SessLocked, self, "W"))>>})
              /\ pc' = [pc EXCEPT ![self] = "i_rw2"]
              /\ UNCHANGED << alloc, ingesters, cancels, state, started, 
                              cancelled, offers, lockR, nilcall, calls, op, id, 
                              found, st, err, todo, tgt >>

i_rw2(self) == /\ pc[self] = "i_rw2"
               /\ acc' = {a \in acc : a[1] # self}
               /\ IF SessLocked
                     THEN /\ lockW' = [lockW EXCEPT ![self] = "free"]
                     ELSE /\ TRUE
                          /\ lockW' = lockW
               /\ \/ /\ TRUE
                     /\ pc' = [pc EXCEPT ![self] = "run_w"]
                  \/ /\ pc' = [pc EXCEPT ![self] = "stop"]
               /\ UNCHANGED << alloc, ingesters, cancels, state, started, 
                               cancelled, offers, lockR, nilcall, calls, op, 
                               id, found, st, err, todo, tgt >>

run_w(self) == /\ pc[self] = "run_w"
               /\ ~SessLocked \/ CanW(self)
               /\ IF SessLocked
                     THEN /\ lockW' = [lockW EXCEPT ![self] = self]
                     ELSE /\ TRUE
                          /\ lockW' = lockW
               /\ acc' = (acc \cup {<<self, (VSTATE(self)), "w", (L(SessLocked, self, "W"))>>})
               /\ pc' = [pc EXCEPT ![self] = "run_w2"]
               /\ UNCHANGED << alloc, ingesters, cancels, state, started, 
                               cancelled, offers, lockR, nilcall, calls, op, 
                               id, found, st, err, todo, tgt >>

run_w2(self) == /\ pc[self] = "run_w2"
                /\ acc' = {a \in acc : a[1] # self}
                /\ state' = [state EXCEPT ![self] = "running"]
                /\ IF SessLocked
                      THEN /\ lockW' = [lockW EXCEPT ![self] = "free"]
                      ELSE /\ TRUE
                           /\ lockW' = lockW
                /\ pc' = [pc EXCEPT ![self] = "loop"]
                /\ UNCHANGED << alloc, ingesters, cancels, started, cancelled, 
                                offers, lockR, nilcall, calls, op, id, found, 
                                st, err, todo, tgt >>

loop(self) == /\ pc[self] = "loop"
              /\ \/ /\ offers[self] # {}
                    /\ \E c \in offers[self]:
                         offers' = [offers EXCEPT ![self] = offers[self] \ {c}]
                    /\ \/ /\ err' = [err EXCEPT ![self] = FALSE]
                       \/ /\ err' = [err EXCEPT ![self] = TRUE]
                    /\ pc' = [pc EXCEPT ![self] = "sent"]
                 \/ /\ self \in cancelled
                    /\ pc' = [pc EXCEPT ![self] = "stop"]
                    /\ UNCHANGED <<offers, err>>
              /\ UNCHANGED << alloc, ingesters, cancels, state, started, 
                              cancelled, lockW, lockR, acc, nilcall, calls, op, 
                              id, found, st, todo, tgt >>

sent(self) == /\ pc[self] = "sent"
              /\ IF ~err[self]
                    THEN /\ pc' = [pc EXCEPT ![self] = "loop"]
                    ELSE /\ pc' = [pc EXCEPT ![self] = "e_rw"]
              /\ UNCHANGED << alloc, ingesters, cancels, state, started, 
                              cancelled, offers, lockW, lockR, acc, nilcall, 
                              calls, op, id, found, st, err, todo, tgt >>

e_rw(self) == /\ pc[self] = "e_rw"
              /\ ~SessLocked \/ CanW(self)
              /\ IF SessLocked
                    THEN /\ lockW' = [lockW EXCEPT ![self] = self]
                    ELSE /\ TRUE
                         /\ lockW' = lockW
              /\ acc' = (acc \cup {<<self, (VREP(self)), "w", (L(SessLocked, self, "W"))>>})
              /\ pc' = [pc EXCEPT ![self] = "e_rw2"]
              /\ UNCHANGED << alloc, ingesters, cancels, state, started, 
                              cancelled, offers, lockR, nilcall, calls, op, id, 
                              found, st, err, todo, tgt >>

e_rw2(self) == /\ pc[self] = "e_rw2"
               /\ acc' = {a \in acc : a[1] # self}
               /\ IF SessLocked
                     THEN /\ lockW' = [lockW EXCEPT ![self] = "free"]
                     ELSE /\ TRUE
                          /\ lockW' = lockW
               /\ pc' = [pc EXCEPT ![self] = "stop"]
               /\ UNCHANGED << alloc, ingesters, cancels, state, started, 
                               cancelled, offers, lockR, nilcall, calls, op, 
                               id, found, st, err, todo, tgt >>

stop(self) == /\ pc[self] = "stop"
              /\ ~SessLocked \/ CanW(self)
              /\ IF SessLocked
                    THEN /\ lockW' = [lockW EXCEPT ![self] = self]
                    ELSE /\ TRUE
                         /\ lockW' = lockW
              /\ acc' = (acc \cup {<<self, (VSTATE(self)), "w", (L(SessLocked, self, "W"))>>})
              /\ pc' = [pc EXCEPT ![self] = "stop2"]
              /\ UNCHANGED << alloc, ingesters, cancels, state, started, 
                              cancelled, offers, lockR, nilcall, calls, op, id, 
                              found, st, err, todo, tgt >>

stop2(self) == /\ pc[self] = "stop2"
               /\ acc' = {a \in acc : a[1] # self}
               /\ state' = [state EXCEPT ![self] = "stopped"]
               /\ IF SessLocked
                     THEN /\ lockW' = [lockW EXCEPT ![self] = "free"]
                     ELSE /\ TRUE
                          /\ lockW' = lockW
               /\ pc' = [pc EXCEPT ![self] = "Done"]
               /\ UNCHANGED << alloc, ingesters, cancels, started, cancelled, 
                               offers, lockR, nilcall, calls, op, id, found, 
                               st, err, todo, tgt >>

sess(self) == w0(self) \/ i_rw(self) \/ i_rw2(self) \/ run_w(self)
                 \/ run_w2(self) \/ loop(self) \/ sent(self) \/ e_rw(self)
                 \/ e_rw2(self) \/ stop(self) \/ stop2(self)

cl0(self) == /\ pc[self] = "cl0"
             /\ WithClose
             /\ pc' = [pc EXCEPT ![self] = "cl_c"]
             /\ UNCHANGED << alloc, ingesters, cancels, state, started, 
                             cancelled, offers, lockW, lockR, acc, nilcall, 
                             calls, op, id, found, st, err, todo, tgt >>

cl_c(self) == /\ pc[self] = "cl_c"
              /\ ~MapsLocked \/ CanR(MU)
              /\ IF MapsLocked
                    THEN /\ lockR' = [lockR EXCEPT ![MU] = lockR[MU] \cup {self}]
                    ELSE /\ TRUE
                         /\ lockR' = lockR
              /\ acc' = (acc \cup {<<self, VCAN, "r", (L(MapsLocked, MU, "R"))>>})
              /\ pc' = [pc EXCEPT ![self] = "cl_c2"]
              /\ UNCHANGED << alloc, ingesters, cancels, state, started, 
                              cancelled, offers, lockW, nilcall, calls, op, id, 
                              found, st, err, todo, tgt >>

cl_c2(self) == /\ pc[self] = "cl_c2"
               /\ acc' = {a \in acc : a[1] # self}
               /\ todo' = [todo EXCEPT ![self] = cancels]
               /\ pc' = [pc EXCEPT ![self] = "cl_l"]
               /\ UNCHANGED << alloc, ingesters, cancels, state, started, 
                               cancelled, offers, lockW, lockR, nilcall, calls, 
                               op, id, found, st, err, tgt >>

cl_l(self) == /\ pc[self] = "cl_l"
              /\ IF todo[self] # {}
                    THEN /\ \E i \in todo[self]:
                              /\ tgt' = [tgt EXCEPT ![self] = i]
                              /\ todo' = [todo EXCEPT ![self] = todo[self] \ {i}]
                         /\ pc' = [pc EXCEPT ![self] = "cl_i"]
                    ELSE /\ pc' = [pc EXCEPT ![self] = "cl_u"]
                         /\ UNCHANGED << todo, tgt >>
              /\ UNCHANGED << alloc, ingesters, cancels, state, started, 
                              cancelled, offers, lockW, lockR, acc, nilcall, 
                              calls, op, id, found, st, err >>

cl_i(self) == /\ pc[self] = "cl_i"
              /\ acc' = (acc \cup {<<self, VING, "r", (L(MapsLocked, MU, "R"))>>})
              /\ pc' = [pc EXCEPT ![self] = "cl_i2"]
              /\ UNCHANGED << alloc, ingesters, cancels, state, started, 
                              cancelled, offers, lockW, lockR, nilcall, calls, 
                              op, id, found, st, err, todo, tgt >>

cl_i2(self) == /\ pc[self] = "cl_i2"
               /\ acc' = {a \in acc : a[1] # self}
               /\ pc' = [pc EXCEPT ![self] = "cl_s"]
               /\ UNCHANGED << alloc, ingesters, cancels, state, started, 
                               cancelled, offers, lockW, lockR, nilcall, calls, 
                               op, id, found, st, err, todo, tgt >>

cl_s(self) == /\ pc[self] = "cl_s"
              /\ ~SessLocked \/ CanW(tgt[self])
              /\ IF SessLocked
                    THEN /\ lockW' = [lockW EXCEPT ![tgt[self]] = self]
                    ELSE /\ TRUE
                         /\ lockW' = lockW
              /\ acc' = (acc \cup {<<self, (VSTATE(tgt[self])), "r", (L(MapsLocked, MU, "R") \cup L(SessLocked, tgt[self], "W"))>>})
              /\ pc' = [pc EXCEPT ![self] = "cl_s2"]
              /\ UNCHANGED << alloc, ingesters, cancels, state, started, 
                              cancelled, offers, lockR, nilcall, calls, op, id, 
                              found, st, err, todo, tgt >>

cl_s2(self) == /\ pc[self] = "cl_s2"
               /\ acc' = {a \in acc : a[1] # self}
               /\ IF SessLocked
                     THEN /\ lockW' = [lockW EXCEPT ![tgt[self]] = "free"]
                     ELSE /\ TRUE
                          /\ lockW' = lockW
               /\ IF state[tgt[self]] = "running"
                     THEN /\ cancelled' = (cancelled \cup {tgt[self]})
                     ELSE /\ TRUE
                          /\ UNCHANGED cancelled
               /\ pc' = [pc EXCEPT ![self] = "cl_l"]
               /\ UNCHANGED << alloc, ingesters, cancels, state, started, 
                               offers, lockR, nilcall, calls, op, id, found, 
                               st, err, todo, tgt >>

cl_u(self) == /\ pc[self] = "cl_u"
              /\ IF MapsLocked
                    THEN /\ lockR' = [lockR EXCEPT ![MU] = lockR[MU] \ {self}]
                    ELSE /\ TRUE
                         /\ lockR' = lockR
              /\ pc' = [pc EXCEPT ![self] = "Done"]
              /\ UNCHANGED << alloc, ingesters, cancels, state, started, 
                              cancelled, offers, lockW, acc, nilcall, calls, 
                              op, id, found, st, err, todo, tgt >>

closer(self) == cl0(self) \/ cl_c(self) \/ cl_c2(self) \/ cl_l(self)
                   \/ cl_i(self) \/ cl_i2(self) \/ cl_s(self)
                   \/ cl_s2(self) \/ cl_u(self)

(* Allow infinite stuttering to prevent deadlock on termination. *)
Terminating == /\ \A self \in ProcSet: pc[self] = "Done"
               /\ UNCHANGED vars

Next == (\E self \in Clients: client(self))
           \/ (\E self \in Ids: sess(self))
           \/ (\E self \in {"closer"}: closer(self))
           \/ Terminating

Spec == Init /\ [][Next]_vars

Termination == <>(\A self \in ProcSet: pc[self] = "Done")

\* END TRANSLATION

\* A Step call blocked on the trigger channel of a session whose goroutine has returned never returns
\* (C16 / C08 hazard, not a clause of C07).
StepNotStuck == \A c \in Clients : (pc[c] = "s_wait" /\ c \in offers[id[c]] /\ pc[id[c]] = "Done") => StepGuard
=============================================================================

---------------------------- MODULE IngestMgrImpl ----------------------------
(* Explorer for the race clause of C07 (C07.norace) on the CMAF-ingest session manager, shaped like
   cmd/livesim2/app/cmaf-ingester.go (cmafIngesterMgr, cmafIngester.start) and api.go (the four REST
   handlers).  API client processes issue Create / Get / Step / Delete calls; every session has its
   own goroutine (process sess).  Shared variables of the Go code:

       cm.ingesters   map id -> *cmafIngester   written by Create (NewCmafIngester), read by
                                                startIngester, Get, Step, Delete
       cm.cancels     map id -> CancelFunc      written by Create (startIngester), read by Delete
       ing.state      per session               written by the session goroutine (running, stopped),
                                                read by Delete
       ing.report     per session               appended by the session goroutine, read by Get
       cm.nr          atomic counter            (atomic: never part of a conflict; abstracted to alloc)

   Every access is TWO steps (begin / end) so that "two goroutines are inside accesses to the same
   variable" is a reachable STATE; `acc` holds the accesses in progress with the set of locks held.

       NoConflict == no two processes inside accesses to the same variable, one of them a write,
                     without a common lock

   Locked = FALSE is the code as it is (no mutex anywhere): NoConflict is violated - the EXPECTED design
   counterexample; the NoConflict_<variable> invariants give one counterexample per variable, they are
   the overlaps the -race child process of harness/drive/c07 provokes.
   Locked = TRUE is the design with a mutex `mu` around the two maps (proposed_fixes/C16-ingester-mgr-
   map-race.diff) and a per-session mutex around state/report (proposed_fixes/C07-ingester-state-report-
   lock.diff): NoConflict holds.

   Two further hazards of the same code are visible in the model and reported as expected counterexamples,
   they belong to C16 / C08 (not clauses of C07): a Step call on a session whose goroutine has returned
   blocks for ever on the unbuffered nextSegTrigger channel (StepNotStuck; StepGuard = TRUE models
   proposed_fixes/C16-step-after-stop.diff), and a Delete call that finds the id in `ingesters` but not
   yet in `cancels` (between NewCmafIngester and startIngester of a concurrent Create) calls a nil
   function (NoNilCancel; NilGuard = TRUE models the nil check of the C16 fix). *)
EXTENDS Integers, Sequences, FiniteSets, TLC
CONSTANTS Clients,    \* API client goroutines (strings)
          Ids,        \* session ids (strings, disjoint from Clients); also the session goroutines
          MaxCalls,   \* calls per client
          Locked, StepGuard, NilGuard

ING == <<"ingesters", "">>
CAN == <<"cancels", "">>
STATE(i) == <<"state", i>>
REP(i) == <<"report", i>>
MU == "mu"
LockIds == {MU} \cup Ids          \* the per-session mutex is named by the session id

(* --algorithm ingestmgr {
  variables
    alloc = {},                        \* ids handed out by the atomic counter
    ingesters = {}, cancels = {},      \* domains of the two maps
    state = [i \in Ids |-> "notstarted"],
    started = {},                      \* go c.start(ctx) executed
    cancelled = {},                    \* contexts cancelled
    offers = [i \in Ids |-> {}],       \* clients blocked in `nextSegTrigger <- struct{}{}`
    lock = [k \in LockIds |-> "free"],
    acc = {},                          \* accesses in progress: <<process, variable, "r"|"w", locks held>>
    nilcall = FALSE;                   \* a nil CancelFunc was called (panic in the handler)
  define {
    Held(p) == {k \in LockIds : lock[k] = p}
    ConflictOn(V) == \E x, y \in acc : /\ x[1] # y[1] /\ x[2] = y[2] /\ x[2][1] \in V
                                       /\ (x[3] = "w" \/ y[3] = "w")
                                       /\ x[4] \cap y[4] = {}
    NoConflict == ~ConflictOn({"ingesters", "cancels", "state", "report"})
    NoConflict_ingesters == ~ConflictOn({"ingesters"})
    NoConflict_cancels == ~ConflictOn({"cancels"})
    NoConflict_state == ~ConflictOn({"state"})
    NoConflict_report == ~ConflictOn({"report"})
    NoNilCancel == ~nilcall
    MutexOK == \A x, y \in acc : (x[1] # y[1]) => TRUE
  }
  macro Lock(k)   { if (Locked) { await lock[k] = "free"; lock[k] := self } }
  macro Unlock(k) { if (Locked) { lock[k] := "free" } }
  macro Begin(v, kind) { acc := acc \cup {<<self, v, kind, IF Locked THEN Held(self) \cup {k_} ELSE {}>>} }

  process (client \in Clients)
    variables calls = 0, op = "", id = "", found = FALSE, st = "";
  {
   c0: while (calls < MaxCalls) {
         calls := calls + 1;
         either { await alloc # Ids; op := "create" }
         or { with (o \in {"get", "step", "delete"}, i \in Ids) { op := o; id := i } };
   c1:   if (op = "create") {
   cr_cas:  with (i \in Ids \ alloc) { id := i; alloc := alloc \cup {i} };          \* cm.nr CAS loop
   cr_iw:   await (~Locked \/ lock[MU] = "free");                                   \* NewCmafIngester: cm.ingesters[nr] = &c
            lock := IF Locked THEN [lock EXCEPT ![MU] = self] ELSE lock;
            acc := acc \cup {<<self, ING, "w", IF Locked THEN {MU} ELSE {}>>};
   cr_iw2:  acc := {a \in acc : a[1] # self}; ingesters := ingesters \cup {id};
            lock := IF Locked THEN [lock EXCEPT ![MU] = "free"] ELSE lock;
   cr_ir:   await (~Locked \/ lock[MU] = "free");                                   \* startIngester: c, ok := cm.ingesters[nr]
            lock := IF Locked THEN [lock EXCEPT ![MU] = self] ELSE lock;
            acc := acc \cup {<<self, ING, "r", IF Locked THEN {MU} ELSE {}>>};
   cr_ir2:  acc := {a \in acc : a[1] # self};
            lock := IF Locked THEN [lock EXCEPT ![MU] = "free"] ELSE lock;
   cr_cw:   await (~Locked \/ lock[MU] = "free");                                   \* cm.cancels[nr] = cancel
            lock := IF Locked THEN [lock EXCEPT ![MU] = self] ELSE lock;
            acc := acc \cup {<<self, CAN, "w", IF Locked THEN {MU} ELSE {}>>};
   cr_cw2:  acc := {a \in acc : a[1] # self}; cancels := cancels \cup {id};
            lock := IF Locked THEN [lock EXCEPT ![MU] = "free"] ELSE lock;
   cr_go:   started := started \cup {id};                                           \* go c.start(ctx)
         } else {
   lk:      await (~Locked \/ lock[MU] = "free");                                   \* ing, ok := s.cmafMgr.ingesters[id]
            lock := IF Locked THEN [lock EXCEPT ![MU] = self] ELSE lock;
            acc := acc \cup {<<self, ING, "r", IF Locked THEN {MU} ELSE {}>>};
   lk2:     acc := {a \in acc : a[1] # self}; found := id \in ingesters;
            lock := IF Locked THEN [lock EXCEPT ![MU] = "free"] ELSE lock;
   disp:    if (found /\ op = "get") {
   g_r:        await (~Locked \/ lock[id] = "free");                                \* strings.Join(ing.report, "\n")
               lock := IF Locked THEN [lock EXCEPT ![id] = self] ELSE lock;
               acc := acc \cup {<<self, REP(id), "r", IF Locked THEN {id} ELSE {}>>};
   g_r2:       acc := {a \in acc : a[1] # self};
               lock := IF Locked THEN [lock EXCEPT ![id] = "free"] ELSE lock;
            } else if (found /\ op = "step") {
   s_send:     offers[id] := offers[id] \cup {self};                                \* c.nextSegTrigger <- struct{}{}
   s_wait:     await self \notin offers[id] \/ (StepGuard /\ pc[id] = "Done");
               offers[id] := offers[id] \ {self};
            } else if (found /\ op = "delete") {
   d_sr:       await (~Locked \/ lock[id] = "free");                                \* if ci.state == ingesterStateRunning
               lock := IF Locked THEN [lock EXCEPT ![id] = self] ELSE lock;
               acc := acc \cup {<<self, STATE(id), "r", IF Locked THEN {id} ELSE {}>>};
   d_sr2:      acc := {a \in acc : a[1] # self}; st := state[id];
               lock := IF Locked THEN [lock EXCEPT ![id] = "free"] ELSE lock;
   d_c:        await (~Locked \/ lock[MU] = "free");                                \* s.cmafMgr.cancels[id]()
               lock := IF Locked THEN [lock EXCEPT ![MU] = self] ELSE lock;
               acc := acc \cup {<<self, CAN, "r", IF Locked THEN {MU} ELSE {}>>};
   d_c2:       acc := {a \in acc : a[1] # self};
               lock := IF Locked THEN [lock EXCEPT ![MU] = "free"] ELSE lock;
               if (id \in cancels) { cancelled := cancelled \cup {id} }
               else if (~NilGuard) { nilcall := TRUE };
            }
         }
       }
  }

  process (sess \in Ids)
    variables err = FALSE;
  {
   w0:    await self \in started;
   i_rw:  await (~Locked \/ lock[self] = "free");                                   \* c.report = append(c.report, "Sent init segment ..")
          lock := IF Locked THEN [lock EXCEPT ![self] = self] ELSE lock;
          acc := acc \cup {<<self, REP(self), "w", IF Locked THEN {self} ELSE {}>>};
   i_rw2: acc := {a \in acc : a[1] # self};
          lock := IF Locked THEN [lock EXCEPT ![self] = "free"] ELSE lock;
          either { skip } or { goto stop };                                         \* init upload failed: return
   run_w: await (~Locked \/ lock[self] = "free");                                   \* c.state = ingesterStateRunning
          lock := IF Locked THEN [lock EXCEPT ![self] = self] ELSE lock;
          acc := acc \cup {<<self, STATE(self), "w", IF Locked THEN {self} ELSE {}>>};
   run_w2: acc := {a \in acc : a[1] # self}; state[self] := "running";
          lock := IF Locked THEN [lock EXCEPT ![self] = "free"] ELSE lock;
   loop:  either { await offers[self] # {};                                         \* case <-c.nextSegTrigger
                   with (c \in offers[self]) { offers[self] := offers[self] \ {c} };
                   either { err := FALSE } or { err := TRUE } }                     \* sendMediaSegments error?
          or { await self \in cancelled; goto stop };                               \* case <-ctx.Done()
   sent:  if (~err) { goto loop };
   e_rw:  await (~Locked \/ lock[self] = "free");                                   \* c.report = append(c.report, "Error sending ..")
          lock := IF Locked THEN [lock EXCEPT ![self] = self] ELSE lock;
          acc := acc \cup {<<self, REP(self), "w", IF Locked THEN {self} ELSE {}>>};
   e_rw2: acc := {a \in acc : a[1] # self};
          lock := IF Locked THEN [lock EXCEPT ![self] = "free"] ELSE lock;
   stop:  await (~Locked \/ lock[self] = "free");                                   \* defer: c.state = ingesterStateStopped
          lock := IF Locked THEN [lock EXCEPT ![self] = self] ELSE lock;
          acc := acc \cup {<<self, STATE(self), "w", IF Locked THEN {self} ELSE {}>>};
   stop2: acc := {a \in acc : a[1] # self}; state[self] := "stopped";
          lock := IF Locked THEN [lock EXCEPT ![self] = "free"] ELSE lock;
  }
} *)
=============================================================================

---------------------------- MODULE IngestMgrImpl ----------------------------
(* Explorer for the race clause of C07 (C07.norace) on the CMAF-ingest session manager, shaped like
   cmd/livesim2/app/cmaf-ingester.go (cmafIngesterMgr, cmafIngester.start) and api.go (the four REST
   handlers).  API client processes issue Create / Get / Step / Delete calls; every session has its
   own goroutine (process sess).  Shared variables of the Go code:

       cm.ingesters   map id -> *cmafIngester   written by Create (NewCmafIngester), read by
                                                startIngester, Get, Step, Delete
       cm.cancels     map id -> CancelFunc      written by Create (startIngester), read by Delete
       ing.state      per session               written by the session goroutine (running, stopped),
                                                read by Delete
       ing.report     per session               appended by the session goroutine, read by Get
       cm.nr          atomic counter            (atomic: never part of a conflict; abstracted to alloc)

   Every access is TWO steps (begin / end) so that "two goroutines are inside accesses to the same
   variable" is a reachable STATE; `acc` holds the accesses in progress with the set of locks held.

       NoConflict == no two processes inside accesses to the same variable, one of them a write,
                     without a common lock

   Locked = FALSE is the code as it is (no mutex anywhere): NoConflict is violated - the EXPECTED design
   counterexample; the NoConflict_<variable> invariants give one counterexample per variable, they are
   the overlaps the -race child process of harness/drive/c07 provokes.
   Locked = TRUE is the design with a mutex `mu` around the two maps (proposed_fixes/C16-ingester-mgr-
   map-race.diff) and a per-session mutex around state/report (proposed_fixes/C07-ingester-state-report-
   lock.diff): NoConflict holds.

   Two further hazards of the same code are visible in the model and reported as expected counterexamples,
   they belong to C16 / C08 (not clauses of C07): a Step call on a session whose goroutine has returned
   blocks for ever on the unbuffered nextSegTrigger channel (StepNotStuck; StepGuard = TRUE models
   proposed_fixes/C16-step-after-stop.diff), and a Delete call that finds the id in `ingesters` but not
   yet in `cancels` (between NewCmafIngester and startIngester of a concurrent Create) calls a nil
   function (NoNilCancel; NilGuard = TRUE models the nil check of the C16 fix). *)
EXTENDS Integers, Sequences, FiniteSets, TLC
CONSTANTS Clients,    \* API client goroutines (strings)
          Ids,        \* session ids (strings, disjoint from Clients); also the session goroutines
          MaxCalls,   \* calls per client
          Locked, StepGuard, NilGuard

VING == <<"ingesters", "">>
VCAN == <<"cancels", "">>
VSTATE(i) == <<"state", i>>
VREP(i) == <<"report", i>>
MU == "mu"
LockIds == {MU} \cup Ids          \* the per-session mutex is named by the session id

(* --algorithm ingestmgr {
  variables
    alloc = {},                        \* ids handed out by the atomic counter
    ingesters = {}, cancels = {},      \* domains of the two maps
    state = [i \in Ids |-> "notstarted"],
    started = {},                      \* go c.start(ctx) executed
    cancelled = {},                    \* contexts cancelled
    offers = [i \in Ids |-> {}],       \* clients blocked in `nextSegTrigger <- struct{}{}`
    lock = [k \in LockIds |-> "free"],
    acc = {},                          \* accesses in progress: <<process, variable, "r"|"w", locks held>>
    nilcall = FALSE;                   \* a nil CancelFunc was called (panic in the handler)
  define {
    Held(p) == {k \in LockIds : lock[k] = p}
    ConflictOn(V) == \E x, y \in acc : /\ x[1] # y[1] /\ x[2] = y[2] /\ x[2][1] \in V
                                       /\ (x[3] = "w" \/ y[3] = "w")
                                       /\ x[4] \cap y[4] = {}
    NoConflict == ~ConflictOn({"ingesters", "cancels", "state", "report"})
    NoConflict_ingesters == ~ConflictOn({"ingesters"})
    NoConflict_cancels == ~ConflictOn({"cancels"})
    NoConflict_state == ~ConflictOn({"state"})
    NoConflict_report == ~ConflictOn({"report"})
    NoNilCancel == ~nilcall
    \* sanity of the model itself: a lock has one owner, accesses made under Locked carry their lock
    LockDiscipline == Locked => \A x \in acc : x[4] # {} /\ \A k \in x[4] : lock[k] = x[1]
  }

  process (client \in Clients)
    variables calls = 0, op = "", id = "", found = FALSE, st = "";
  {
   c0: while (calls < MaxCalls) {
         calls := calls + 1; found := FALSE; st := "";
         either { await alloc # Ids; op := "create"; id := "" }
         or { with (o \in {"get", "step", "delete"}, i \in Ids) { op := o; id := i } };
   c1:   if (op = "create") {
   cr_cas:  with (i \in Ids \ alloc) { id := i; alloc := alloc \cup {i} };          \* cm.nr CAS loop
   cr_iw:   await (~Locked \/ lock[MU] = "free");                                   \* NewCmafIngester: cm.ingesters[nr] = &c
            lock := IF Locked THEN [lock EXCEPT ![MU] = self] ELSE lock;
            acc := acc \cup {<<self, VING, "w", IF Locked THEN {MU} ELSE {}>>};
   cr_iw2:  acc := {a \in acc : a[1] # self}; ingesters := ingesters \cup {id};
            lock := IF Locked THEN [lock EXCEPT ![MU] = "free"] ELSE lock;
   cr_ir:   await (~Locked \/ lock[MU] = "free");                                   \* startIngester: c, ok := cm.ingesters[nr]
            lock := IF Locked THEN [lock EXCEPT ![MU] = self] ELSE lock;
            acc := acc \cup {<<self, VING, "r", IF Locked THEN {MU} ELSE {}>>};
   cr_ir2:  acc := {a \in acc : a[1] # self};
            lock := IF Locked THEN [lock EXCEPT ![MU] = "free"] ELSE lock;
   cr_cw:   await (~Locked \/ lock[MU] = "free");                                   \* cm.cancels[nr] = cancel
            lock := IF Locked THEN [lock EXCEPT ![MU] = self] ELSE lock;
            acc := acc \cup {<<self, VCAN, "w", IF Locked THEN {MU} ELSE {}>>};
   cr_cw2:  acc := {a \in acc : a[1] # self}; cancels := cancels \cup {id};
            lock := IF Locked THEN [lock EXCEPT ![MU] = "free"] ELSE lock;
   cr_go:   started := started \cup {id};                                           \* go c.start(ctx)
         } else {
   lk:      await (~Locked \/ lock[MU] = "free");                                   \* ing, ok := s.cmafMgr.ingesters[id]
            lock := IF Locked THEN [lock EXCEPT ![MU] = self] ELSE lock;
            acc := acc \cup {<<self, VING, "r", IF Locked THEN {MU} ELSE {}>>};
   lk2:     acc := {a \in acc : a[1] # self}; found := id \in ingesters;
            lock := IF Locked THEN [lock EXCEPT ![MU] = "free"] ELSE lock;
   disp:    if (found /\ op = "get") {
   g_r:        await (~Locked \/ lock[id] = "free");                                \* strings.Join(ing.report, "\n")
               lock := IF Locked THEN [lock EXCEPT ![id] = self] ELSE lock;
               acc := acc \cup {<<self, VREP(id), "r", IF Locked THEN {id} ELSE {}>>};
   g_r2:       acc := {a \in acc : a[1] # self};
               lock := IF Locked THEN [lock EXCEPT ![id] = "free"] ELSE lock;
            } else if (found /\ op = "step") {
   s_send:     offers[id] := offers[id] \cup {self};                                \* c.nextSegTrigger <- struct{}{}
   s_wait:     await self \notin offers[id] \/ (StepGuard /\ pc[id] = "Done");
               offers[id] := offers[id] \ {self};
            } else if (found /\ op = "delete") {
   d_sr:       await (~Locked \/ lock[id] = "free");                                \* if ci.state == ingesterStateRunning
               lock := IF Locked THEN [lock EXCEPT ![id] = self] ELSE lock;
               acc := acc \cup {<<self, VSTATE(id), "r", IF Locked THEN {id} ELSE {}>>};
   d_sr2:      acc := {a \in acc : a[1] # self}; st := state[id];
               lock := IF Locked THEN [lock EXCEPT ![id] = "free"] ELSE lock;
   d_c:        await (~Locked \/ lock[MU] = "free");                                \* s.cmafMgr.cancels[id]()
               lock := IF Locked THEN [lock EXCEPT ![MU] = self] ELSE lock;
               acc := acc \cup {<<self, VCAN, "r", IF Locked THEN {MU} ELSE {}>>};
   d_c2:       acc := {a \in acc : a[1] # self};
               lock := IF Locked THEN [lock EXCEPT ![MU] = "free"] ELSE lock;
               if (id \in cancels) { cancelled := cancelled \cup {id} }
               else if (~NilGuard) { nilcall := TRUE };
            }
         }
       }
  }

  process (sess \in Ids)
    variables err = FALSE;
  {
   w0:    await self \in started;
   i_rw:  await (~Locked \/ lock[self] = "free");                                   \* c.report = append(c.report, "Sent init segment ..")
          lock := IF Locked THEN [lock EXCEPT ![self] = self] ELSE lock;
          acc := acc \cup {<<self, VREP(self), "w", IF Locked THEN {self} ELSE {}>>};
   i_rw2: acc := {a \in acc : a[1] # self};
          lock := IF Locked THEN [lock EXCEPT ![self] = "free"] ELSE lock;
          either { skip } or { goto stop };                                         \* init upload failed: return
   run_w: await (~Locked \/ lock[self] = "free");                                   \* c.state = ingesterStateRunning
          lock := IF Locked THEN [lock EXCEPT ![self] = self] ELSE lock;
          acc := acc \cup {<<self, VSTATE(self), "w", IF Locked THEN {self} ELSE {}>>};
   run_w2: acc := {a \in acc : a[1] # self}; state[self] := "running";
          lock := IF Locked THEN [lock EXCEPT ![self] = "free"] ELSE lock;
   loop:  either { await offers[self] # {};                                         \* case <-c.nextSegTrigger
                   with (c \in offers[self]) { offers[self] := offers[self] \ {c} };
                   either { err := FALSE } or { err := TRUE } }                     \* sendMediaSegments error?
          or { await self \in cancelled; goto stop };                               \* case <-ctx.Done()
   sent:  if (~err) { goto loop };
   e_rw:  await (~Locked \/ lock[self] = "free");                                   \* c.report = append(c.report, "Error sending ..")
          lock := IF Locked THEN [lock EXCEPT ![self] = self] ELSE lock;
          acc := acc \cup {<<self, VREP(self), "w", IF Locked THEN {self} ELSE {}>>};
   e_rw2: acc := {a \in acc : a[1] # self};
          lock := IF Locked THEN [lock EXCEPT ![self] = "free"] ELSE lock;
   stop:  await (~Locked \/ lock[self] = "free");                                   \* defer: c.state = ingesterStateStopped
          lock := IF Locked THEN [lock EXCEPT ![self] = self] ELSE lock;
          acc := acc \cup {<<self, VSTATE(self), "w", IF Locked THEN {self} ELSE {}>>};
   stop2: acc := {a \in acc : a[1] # self}; state[self] := "stopped";
          lock := IF Locked THEN [lock EXCEPT ![self] = "free"] ELSE lock;
  }
} *)
\* BEGIN TRANSLATION
VARIABLES pc, alloc, ingesters, cancels, state, started, cancelled, offers, 
          lock, acc, nilcall

(* define statement *)
Held(p) == {k \in LockIds : lock[k] = p}
ConflictOn(V) == \E x, y \in acc : /\ x[1] # y[1] /\ x[2] = y[2] /\ x[2][1] \in V
                                   /\ (x[3] = "w" \/ y[3] = "w")
                                   /\ x[4] \cap y[4] = {}
NoConflict == ~ConflictOn({"ingesters", "cancels", "state", "report"})
NoConflict_ingesters == ~ConflictOn({"ingesters"})
NoConflict_cancels == ~ConflictOn({"cancels"})
NoConflict_state == ~ConflictOn({"state"})
NoConflict_report == ~ConflictOn({"report"})
NoNilCancel == ~nilcall

LockDiscipline == Locked => \A x \in acc : x[4] # {} /\ \A k \in x[4] : lock[k] = x[1]

VARIABLES calls, op, id, found, st, err

vars == << pc, alloc, ingesters, cancels, state, started, cancelled, offers, 
           lock, acc, nilcall, calls, op, id, found, st, err >>

ProcSet == (Clients) \cup (Ids)

Init == (* Global variables *)
        /\ alloc = {}
        /\ ingesters = {}
        /\ cancels = {}
        /\ state = [i \in Ids |-> "notstarted"]
        /\ started = {}
        /\ cancelled = {}
        /\ offers = [i \in Ids |-> {}]
        /\ lock = [k \in LockIds |-> "free"]
        /\ acc = {}
        /\ nilcall = FALSE
        (* Process client *)
        /\ calls = [self \in Clients |-> 0]
        /\ op = [self \in Clients |-> ""]
        /\ id = [self \in Clients |-> ""]
        /\ found = [self \in Clients |-> FALSE]
        /\ st = [self \in Clients |-> ""]
        (* Process sess *)
        /\ err = [self \in Ids |-> FALSE]
        /\ pc = [self \in ProcSet |-> CASE self \in Clients -> "c0"
                                        [] self \in Ids -> "w0"]

c0(self) == /\ pc[self] = "c0"
            /\ IF calls[self] < MaxCalls
                  THEN /\ calls' = [calls EXCEPT ![self] = calls[self] + 1]
                       /\ found' = [found EXCEPT ![self] = FALSE]
                       /\ st' = [st EXCEPT ![self] = ""]
                       /\ \/ /\ alloc # Ids
                             /\ op' = [op EXCEPT ![self] = "create"]
                             /\ id' = [id EXCEPT ![self] = ""]
                          \/ /\ \E o \in {"get", "step", "delete"}:
                                  \E i \in Ids:
                                    /\ op' = [op EXCEPT ![self] = o]
                                    /\ id' = [id EXCEPT ![self] = i]
                       /\ pc' = [pc EXCEPT ![self] = "c1"]
                  ELSE /\ pc' = [pc EXCEPT ![self] = "Done"]
                       /\ UNCHANGED << calls, op, id, found, st >>
            /\ UNCHANGED << alloc, ingesters, cancels, state, started, 
                            cancelled, offers, lock, acc, nilcall, err >>

c1(self) == /\ pc[self] = "c1"
            /\ IF op[self] = "create"
                  THEN /\ pc' = [pc EXCEPT ![self] = "cr_cas"]
                  ELSE /\ pc' = [pc EXCEPT ![self] = "lk"]
            /\ UNCHANGED << alloc, ingesters, cancels, state, started, 
                            cancelled, offers, lock, acc, nilcall, calls, op, 
                            id, found, st, err >>

cr_cas(self) == /\ pc[self] = "cr_cas"
                /\ \E i \in Ids \ alloc:
                     /\ id' = [id EXCEPT ![self] = i]
                     /\ alloc' = (alloc \cup {i})
                /\ pc' = [pc EXCEPT ![self] = "cr_iw"]
                /\ UNCHANGED << ingesters, cancels, state, started, cancelled, 
                                offers, lock, acc, nilcall, calls, op, found, 
                                st, err >>

cr_iw(self) == /\ pc[self] = "cr_iw"
               /\ (~Locked \/ lock[MU] = "free")
               /\ lock' = IF Locked THEN [lock EXCEPT ![MU] = self] ELSE lock
               /\ acc' = (acc \cup {<<self, VING, "w", IF Locked THEN {MU} ELSE {}>>})
               /\ pc' = [pc EXCEPT ![self] = "cr_iw2"]
               /\ UNCHANGED << alloc, ingesters, cancels, state, started, 
                               cancelled, offers, nilcall, calls, op, id, 
                               found, st, err >>

cr_iw2(self) == /\ pc[self] = "cr_iw2"
                /\ acc' = {a \in acc : a[1] # self}
                /\ ingesters' = (ingesters \cup {id[self]})
                /\ lock' = IF Locked THEN [lock EXCEPT ![MU] = "free"] ELSE lock
                /\ pc' = [pc EXCEPT ![self] = "cr_ir"]
                /\ UNCHANGED << alloc, cancels, state, started, cancelled, 
                                offers, nilcall, calls, op, id, found, st, err >>

cr_ir(self) == /\ pc[self] = "cr_ir"
               /\ (~Locked \/ lock[MU] = "free")
               /\ lock' = IF Locked THEN [lock EXCEPT ![MU] = self] ELSE lock
               /\ acc' = (acc \cup {<<self, VING, "r", IF Locked THEN {MU} ELSE {}>>})
               /\ pc' = [pc EXCEPT ![self] = "cr_ir2"]
               /\ UNCHANGED << alloc, ingesters, cancels, state, started, 
                               cancelled, offers, nilcall, calls, op, id, 
                               found, st, err >>

cr_ir2(self) == /\ pc[self] = "cr_ir2"
                /\ acc' = {a \in acc : a[1] # self}
                /\ lock' = IF Locked THEN [lock EXCEPT ![MU] = "free"] ELSE lock
                /\ pc' = [pc EXCEPT ![self] = "cr_cw"]
                /\ UNCHANGED << alloc, ingesters, cancels, state, started, 
                                cancelled, offers, nilcall, calls, op, id, 
                                found, st, err >>

cr_cw(self) == /\ pc[self] = "cr_cw"
               /\ (~Locked \/ lock[MU] = "free")
               /\ lock' = IF Locked THEN [lock EXCEPT ![MU] = self] ELSE lock
               /\ acc' = (acc \cup {<<self, VCAN, "w", IF Locked THEN {MU} ELSE {}>>})
               /\ pc' = [pc EXCEPT ![self] = "cr_cw2"]
               /\ UNCHANGED << alloc, ingesters, cancels, state, started, 
                               cancelled, offers, nilcall, calls, op, id, 
                               found, st, err >>

cr_cw2(self) == /\ pc[self] = "cr_cw2"
                /\ acc' = {a \in acc : a[1] # self}
                /\ cancels' = (cancels \cup {id[self]})
                /\ lock' = IF Locked THEN [lock EXCEPT ![MU] = "free"] ELSE lock
                /\ pc' = [pc EXCEPT ![self] = "cr_go"]
                /\ UNCHANGED << alloc, ingesters, state, started, cancelled, 
                                offers, nilcall, calls, op, id, found, st, err >>

cr_go(self) == /\ pc[self] = "cr_go"
               /\ started' = (started \cup {id[self]})
               /\ pc' = [pc EXCEPT ![self] = "c0"]
               /\ UNCHANGED << alloc, ingesters, cancels, state, cancelled, 
                               offers, lock, acc, nilcall, calls, op, id, 
                               found, st, err >>

lk(self) == /\ pc[self] = "lk"
            /\ (~Locked \/ lock[MU] = "free")
            /\ lock' = IF Locked THEN [lock EXCEPT ![MU] = self] ELSE lock
            /\ acc' = (acc \cup {<<self, VING, "r", IF Locked THEN {MU} ELSE {}>>})
            /\ pc' = [pc EXCEPT ![self] = "lk2"]
            /\ UNCHANGED << alloc, ingesters, cancels, state, started, 
                            cancelled, offers, nilcall, calls, op, id, found, 
                            st, err >>

lk2(self) == /\ pc[self] = "lk2"
             /\ acc' = {a \in acc : a[1] # self}
             /\ found' = [found EXCEPT ![self] = id[self] \in ingesters]
             /\ lock' = IF Locked THEN [lock EXCEPT ![MU] = "free"] ELSE lock
             /\ pc' = [pc EXCEPT ![self] = "disp"]
             /\ UNCHANGED << alloc, ingesters, cancels, state, started, 
                             cancelled, offers, nilcall, calls, op, id, st, 
                             err >>

disp(self) == /\ pc[self] = "disp"
              /\ IF found[self] /\ op[self] = "get"
                    THEN /\ pc' = [pc EXCEPT ![self] = "g_r"]
                    ELSE /\ IF found[self] /\ op[self] = "step"
                               THEN /\ pc' = [pc EXCEPT ![self] = "s_send"]
                               ELSE /\ IF found[self] /\ op[self] = "delete"
                                          THEN /\ pc' = [pc EXCEPT ![self] = "d_sr"]
                                          ELSE /\ pc' = [pc EXCEPT ![self] = "c0"]
              /\ UNCHANGED << alloc, ingesters, cancels, state, started, 
                              cancelled, offers, lock, acc, nilcall, calls, op, 
                              id, found, st, err >>

g_r(self) == /\ pc[self] = "g_r"
             /\ (~Locked \/ lock[id[self]] = "free")
             /\ lock' = IF Locked THEN [lock EXCEPT ![id[self]] = self] ELSE lock
             /\ acc' = (acc \cup {<<self, VREP(id[self]), "r", IF Locked THEN {id[self]} ELSE {}>>})
             /\ pc' = [pc EXCEPT ![self] = "g_r2"]
             /\ UNCHANGED << alloc, ingesters, cancels, state, started, 
                             cancelled, offers, nilcall, calls, op, id, found, 
                             st, err >>

g_r2(self) == /\ pc[self] = "g_r2"
              /\ acc' = {a \in acc : a[1] # self}
              /\ lock' = IF Locked THEN [lock EXCEPT ![id[self]] = "free"] ELSE lock
              /\ pc' = [pc EXCEPT ![self] = "c0"]
              /\ UNCHANGED << alloc, ingesters, cancels, state, started, 
                              cancelled, offers, nilcall, calls, op, id, found, 
                              st, err >>

s_send(self) == /\ pc[self] = "s_send"
                /\ offers' = [offers EXCEPT ![id[self]] = offers[id[self]] \cup {self}]
                /\ pc' = [pc EXCEPT ![self] = "s_wait"]
                /\ UNCHANGED << alloc, ingesters, cancels, state, started, 
                                cancelled, lock, acc, nilcall, calls, op, id, 
                                found, st, err >>

s_wait(self) == /\ pc[self] = "s_wait"
                /\ self \notin offers[id[self]] \/ (StepGuard /\ pc[id[self]] = "Done")
                /\ offers' = [offers EXCEPT ![id[self]] = offers[id[self]] \ {self}]
                /\ pc' = [pc EXCEPT ![self] = "c0"]
                /\ UNCHANGED << alloc, ingesters, cancels, state, started, 
                                cancelled, lock, acc, nilcall, calls, op, id, 
                                found, st, err >>

d_sr(self) == /\ pc[self] = "d_sr"
              /\ (~Locked \/ lock[id[self]] = "free")
              /\ lock' = IF Locked THEN [lock EXCEPT ![id[self]] = self] ELSE lock
              /\ acc' = (acc \cup {<<self, VSTATE(id[self]), "r", IF Locked THEN {id[self]} ELSE {}>>})
              /\ pc' = [pc EXCEPT ![self] = "d_sr2"]
              /\ UNCHANGED << alloc, ingesters, cancels, state, started, 
                              cancelled, offers, nilcall, calls, op, id, found, 
                              st, err >>

d_sr2(self) == /\ pc[self] = "d_sr2"
               /\ acc' = {a \in acc : a[1] # self}
               /\ st' = [st EXCEPT ![self] = state[id[self]]]
               /\ lock' = IF Locked THEN [lock EXCEPT ![id[self]] = "free"] ELSE lock
               /\ pc' = [pc EXCEPT ![self] = "d_c"]
               /\ UNCHANGED << alloc, ingesters, cancels, state, started, 
                               cancelled, offers, nilcall, calls, op, id, 
                               found, err >>

d_c(self) == /\ pc[self] = "d_c"
             /\ (~Locked \/ lock[MU] = "free")
             /\ lock' = IF Locked THEN [lock EXCEPT ![MU] = self] ELSE lock
             /\ acc' = (acc \cup {<<self, VCAN, "r", IF Locked THEN {MU} ELSE {}>>})
             /\ pc' = [pc EXCEPT ![self] = "d_c2"]
             /\ UNCHANGED << alloc, ingesters, cancels, state, started, 
                             cancelled, offers, nilcall, calls, op, id, found, 
                             st, err >>

d_c2(self) == /\ pc[self] = "d_c2"
              /\ acc' = {a \in acc : a[1] # self}
              /\ lock' = IF Locked THEN [lock EXCEPT ![MU] = "free"] ELSE lock
              /\ IF id[self] \in cancels
                    THEN /\ cancelled' = (cancelled \cup {id[self]})
                         /\ UNCHANGED nilcall
                    ELSE /\ IF ~NilGuard
                               THEN /\ nilcall' = TRUE
                               ELSE /\ TRUE
                                    /\ UNCHANGED nilcall
                         /\ UNCHANGED cancelled
              /\ pc' = [pc EXCEPT ![self] = "c0"]
              /\ UNCHANGED << alloc, ingesters, cancels, state, started, 
                              offers, calls, op, id, found, st, err >>

client(self) == c0(self) \/ c1(self) \/ cr_cas(self) \/ cr_iw(self)
                   \/ cr_iw2(self) \/ cr_ir(self) \/ cr_ir2(self)
                   \/ cr_cw(self) \/ cr_cw2(self) \/ cr_go(self)
                   \/ lk(self) \/ lk2(self) \/ disp(self) \/ g_r(self)
                   \/ g_r2(self) \/ s_send(self) \/ s_wait(self)
                   \/ d_sr(self) \/ d_sr2(self) \/ d_c(self) \/ d_c2(self)

w0(self) == /\ pc[self] = "w0"
            /\ self \in started
            /\ pc' = [pc EXCEPT ![self] = "i_rw"]
            /\ UNCHANGED << alloc, ingesters, cancels, state, started, 
                            cancelled, offers, lock, acc, nilcall, calls, op, 
                            id, found, st, err >>

i_rw(self) == /\ pc[self] = "i_rw"
              /\ (~Locked \/ lock[self] = "free")
              /\ lock' = IF Locked THEN [lock EXCEPT ![self] = self] ELSE lock
              /\ acc' = (acc \cup {<<self, VREP(self), "w", IF Locked THEN {self} ELSE {}>>})
              /\ pc' = [pc EXCEPT ![self] = "i_rw2"]
              /\ UNCHANGED << alloc, ingesters, cancels, state, started, 
                              cancelled, offers, nilcall, calls, op, id, found, 
                              st, err >>

i_rw2(self) == /\ pc[self] = "i_rw2"
               /\ acc' = {a \in acc : a[1] # self}
               /\ lock' = IF Locked THEN [lock EXCEPT ![self] = "free"] ELSE lock
               /\ \/ /\ TRUE
                     /\ pc' = [pc EXCEPT ![self] = "run_w"]
                  \/ /\ pc' = [pc EXCEPT ![self] = "stop"]
               /\ UNCHANGED << alloc, ingesters, cancels, state, started, 
                               cancelled, offers, nilcall, calls, op, id, 
                               found, st, err >>

run_w(self) == /\ pc[self] = "run_w"
               /\ (~Locked \/ lock[self] = "free")
               /\ lock' = IF Locked THEN [lock EXCEPT ![self] = self] ELSE lock
               /\ acc' = (acc \cup {<<self, VSTATE(self), "w", IF Locked THEN {self} ELSE {}>>})
               /\ pc' = [pc EXCEPT ![self] = "run_w2"]
               /\ UNCHANGED << alloc, ingesters, cancels, state, started, 
                               cancelled, offers, nilcall, calls, op, id, 
                               found, st, err >>

run_w2(self) == /\ pc[self] = "run_w2"
                /\ acc' = {a \in acc : a[1] # self}
                /\ state' = [state EXCEPT ![self] = "running"]
                /\ lock' = IF Locked THEN [lock EXCEPT ![self] = "free"] ELSE lock
                /\ pc' = [pc EXCEPT ![self] = "loop"]
                /\ UNCHANGED << alloc, ingesters, cancels, started, cancelled, 
                                offers, nilcall, calls, op, id, found, st, err >>

loop(self) == /\ pc[self] = "loop"
              /\ \/ /\ offers[self] # {}
                    /\ \E c \in offers[self]:
                         offers' = [offers EXCEPT ![self] = offers[self] \ {c}]
                    /\ \/ /\ err' = [err EXCEPT ![self] = FALSE]
                       \/ /\ err' = [err EXCEPT ![self] = TRUE]
                    /\ pc' = [pc EXCEPT ![self] = "sent"]
                 \/ /\ self \in cancelled
                    /\ pc' = [pc EXCEPT ![self] = "stop"]
                    /\ UNCHANGED <<offers, err>>
              /\ UNCHANGED << alloc, ingesters, cancels, state, started, 
                              cancelled, lock, acc, nilcall, calls, op, id, 
                              found, st >>

sent(self) == /\ pc[self] = "sent"
              /\ IF ~err[self]
                    THEN /\ pc' = [pc EXCEPT ![self] = "loop"]
                    ELSE /\ pc' = [pc EXCEPT ![self] = "e_rw"]
              /\ UNCHANGED << alloc, ingesters, cancels, state, started, 
                              cancelled, offers, lock, acc, nilcall, calls, op, 
                              id, found, st, err >>

e_rw(self) == /\ pc[self] = "e_rw"
              /\ (~Locked \/ lock[self] = "free")
              /\ lock' = IF Locked THEN [lock EXCEPT ![self] = self] ELSE lock
              /\ acc' = (acc \cup {<<self, VREP(self), "w", IF Locked THEN {self} ELSE {}>>})
              /\ pc' = [pc EXCEPT ![self] = "e_rw2"]
              /\ UNCHANGED << alloc, ingesters, cancels, state, started, 
                              cancelled, offers, nilcall, calls, op, id, found, 
                              st, err >>

e_rw2(self) == /\ pc[self] = "e_rw2"
               /\ acc' = {a \in acc : a[1] # self}
               /\ lock' = IF Locked THEN [lock EXCEPT ![self] = "free"] ELSE lock
               /\ pc' = [pc EXCEPT ![self] = "stop"]
               /\ UNCHANGED << alloc, ingesters, cancels, state, started, 
                               cancelled, offers, nilcall, calls, op, id, 
                               found, st, err >>

stop(self) == /\ pc[self] = "stop"
              /\ (~Locked \/ lock[self] = "free")
              /\ lock' = IF Locked THEN [lock EXCEPT ![self] = self] ELSE lock
              /\ acc' = (acc \cup {<<self, VSTATE(self), "w", IF Locked THEN {self} ELSE {}>>})
              /\ pc' = [pc EXCEPT ![self] = "stop2"]
              /\ UNCHANGED << alloc, ingesters, cancels, state, started, 
                              cancelled, offers, nilcall, calls, op, id, found, 
                              st, err >>

stop2(self) == /\ pc[self] = "stop2"
               /\ acc' = {a \in acc : a[1] # self}
               /\ state' = [state EXCEPT ![self] = "stopped"]
               /\ lock' = IF Locked THEN [lock EXCEPT ![self] = "free"] ELSE lock
               /\ pc' = [pc EXCEPT ![self] = "Done"]
               /\ UNCHANGED << alloc, ingesters, cancels, started, cancelled, 
                               offers, nilcall, calls, op, id, found, st, err >>

sess(self) == w0(self) \/ i_rw(self) \/ i_rw2(self) \/ run_w(self)
                 \/ run_w2(self) \/ loop(self) \/ sent(self) \/ e_rw(self)
                 \/ e_rw2(self) \/ stop(self) \/ stop2(self)

(* Allow infinite stuttering to prevent deadlock on termination. *)
Terminating == /\ \A self \in ProcSet: pc[self] = "Done"
               /\ UNCHANGED vars

Next == (\E self \in Clients: client(self))
           \/ (\E self \in Ids: sess(self))
           \/ Terminating

Spec == Init /\ [][Next]_vars

Termination == <>(\A self \in ProcSet: pc[self] = "Done")

\* END TRANSLATION

\* A Step call blocked on the trigger channel of a session whose goroutine has returned never returns
\* (C16 / C08 hazard, not a clause of C07).
StepNotStuck == \A c \in Clients : (pc[c] = "s_wait" /\ c \in offers[id[c]] /\ pc[id[c]] = "Done") => StepGuard
=============================================================================

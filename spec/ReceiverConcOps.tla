---------------------------- MODULE ReceiverConcOps ----------------------------
(* ORACLE for C19 ("the ingest receiver tolerates concurrent uploads"): pure operators shared by the
   trace specification (spec/trace/ReceiverConc_Trace.tla).  The design-level counterparts (OneChannel,
   Registered / MediaOK, NoConflict) are the invariants of the explorer spec/ReceiverConcImpl.tla.
   All uploads of a scenario are well-formed and correctly authenticated by construction of the driver. *)
EXTENDS Integers, Sequences, FiniteSets

Range(s) == {s[i] : i \in DOMAIN s}

\* C19.one_channel: "exactly one channel object per name is created": a chan_created event for a name
\* that already has an object in this scenario is a second object.
OneChannelOK(createdNames, ch) == ch \notin createdNames

\* C19.no_loss: "no upload is lost or attributed to the wrong track": an init upload is answered 200 and its
\* bytes are found under its own track directory; a media upload answered 200 is found there too.
InitNoLossOK(status, stored) == status = 200 /\ stored
MediaNoLossOK(status, stored) == status = 200 => stored

\* C19.registered: "every track is registered": the media uploads that follow an init upload answered 200
\* are accepted (200) ...
RegisteredOK(initOK, ch, trk, status) == <<ch, trk>> \in initOK => status = 200
\* ... and handed to a channel that knows the track (complete `process` event with a buffer for the track).
\* (counted per track: the channel goroutine reports the OUTGOING number, which differs from the upload's index
\* when the channel renumbers)
PerTrack(S, ch, trk) == Cardinality({x \in S : x[1] = ch /\ x[2] = trk})
ProcessedOK(mediaOK, processed) == \A m \in mediaOK : PerTrack(mediaOK, m[1], m[2]) <= PerTrack(processed, m[1], m[2])
Unprocessed(mediaOK, processed) == {<<m[1], m[2]>> : m \in {x \in mediaOK : PerTrack(mediaOK, x[1], x[2]) > PerTrack(processed, x[1], x[2])}}

\* C19.linearizable: final stored files and MPD equal those of SOME sequential order of the same uploads.
\* The MPD is compared modulo AdaptationSet ids and order and modulo the order of Representations:
\* an MPD is the SET of its adaptation sets, each with the SET of its representations.
NormAS(a) == [ct |-> a.ct, lang |-> a.lang, mime |-> a.mime, ts |-> a.ts, roles |-> Range(a.roles), reps |-> Range(a.reps)]
NormMPD(m) == {NormAS(m[i]) : i \in DOMAIN m}
\* duplicates must not get lost by the normalisation: the numbers of AdaptationSets and Representations are part
\* of the outcome.  The timeline MPD (manifest_timeline_nr.mpd) is part of the outcome too: per AdaptationSet the
\* set of Representation ids and the numbers its SegmentTimeline covers.
NormTL(tl) == {[reps |-> Range(tl[i].reps), sn |-> tl[i].sn, nseg |-> tl[i].nseg] : i \in DOMAIN tl}
\* The answers are part of the outcome as well: the set of (track, segment index, status) of all uploads of the
\* channel (an upload with wrong or no credentials is refused with 401 in every sequential order).
Outcome(files, hasmpd, m, hastl, tl, st) ==
   [files |-> Range(files), hasmpd |-> hasmpd, mpd |-> NormMPD(m),
    nas |-> Len(m), nreps |-> Cardinality(UNION {Range(m[i].reps) : i \in DOMAIN m}),
    nrepsRaw |-> LET RECURSIVE Sum(_) Sum(i) == IF i = 0 THEN 0 ELSE Len(m[i].reps) + Sum(i - 1) IN Sum(Len(m)),
    hastl |-> hastl, tl |-> NormTL(tl), ntl |-> Len(tl), st |-> Range(st)]
Linearizable(o, refs) == o \in refs
FilesEqualSome(o, refs) == \E r \in refs : r.files = o.files
MPDEqualSome(o, refs) == \E r \in refs : r.hasmpd = o.hasmpd /\ r.mpd = o.mpd /\ r.nas = o.nas /\ r.nrepsRaw = o.nrepsRaw
StatusEqualSome(o, refs) == \E r \in refs : r.st = o.st
TLEqualSome(o, refs) == \E r \in refs : r.hastl = o.hastl /\ r.tl = o.tl /\ r.ntl = o.ntl

\* C19.progress: every upload is answered within the driver's bound (a handler that never returns has lost the
\* upload and, holding the channel's lock or queue, every later upload of the channel).
ProgressOK(answered) == answered

\* C19.isolated: channels that share a storage directory do not disturb each other: a channel's manifest.mpd and
\* manifest_timeline_nr.mpd exist (once they are due), describe representations of that channel only, and the
\* timeline ends at the channel's newest complete number (newest < 0: not known by construction, not demanded).
IdsOfTL(tl) == UNION {Range(tl[i].reps) : i \in DOMAIN tl}
\* ids, own: SETS of representation ids
Isolated(needmpd, hasmpd, ids, needtl, hastl, tl, own, newest) ==
   /\ needmpd => hasmpd
   /\ hasmpd => (ids # {} /\ ids \subseteq own)
   /\ needtl => hastl
   /\ hastl => (IdsOfTL(tl) # {} /\ IdsOfTL(tl) \subseteq own)
   /\ (needtl /\ hastl /\ newest >= 0) => \A i \in DOMAIN tl : tl[i].end = newest
=============================================================================

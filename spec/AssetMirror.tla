---------------------------- MODULE AssetMirror ----------------------------
(* (M) + (R) for X05.
   Every INITIAL STATE is one abstract scenario (printed as a GEN line = the generator of the driver's inputs):
     kind "fetch": an abstract MPD shape, at most one origin fault (target file, kind) in the first run, a plan of one or two
                   runs (second run with or without --force, origin content changed or not in between);
     kind "load" : an abstract MPD shape, one abstract damage of the asset directory, nesting depth, number of MPDs.
   BEHAVIOURS: for "fetch" the mirroring state machine (fetch MPD, per Representation initialization, per segment; fault; the
   next run) over the abstract files {mpd} \cup Reps \X {init, first, mid, last}; Variant = "spec" is the mirror tool the property
   text describes (atomic downloads, --force overwrites, every failure reported, result error or warning), Variant = "code" is
   fetcher.go as it is now (after a355798, 2447055, fd3796b, 68706af: the same, but a failed segment never makes Fetch return an
   error - a refinement of "spec"), Variant = "orig" is fetcher.go as first written (a failed body leaves the partial file, an
   existing file is never overwritten, the failure of the last counted segment is not logged, startNumber other than 0/1 and
   32-bit overflow lose segments) - the invariants hold for "spec" and "code", and TLC finds the counterexamples for "orig"
   (expected-violation configurations AssetMirror_orig_*, kept as history).  For "load" one step chooses any outcome in
   AssetMirrorOps!Accepted.                                                                                                  *)
EXTENDS AssetMirrorOps, TLC, Json

CONSTANTS Tier,      \* "quick" | "thorough": size of the scenario space
          Variant    \* "spec" | "code" | "orig"

\* ------------------------------------------------------------------ shapes
Default == [v |-> "numdur", a |-> "numdur", sn |-> 1, sub |-> "id", lvl |-> "as", nv |-> 1, base |-> "none", big |-> "no",
            lay |-> "u90k", per |-> "start", typ |-> "static", adur |-> "same"]
Dims == <<"v", "a", "sn", "sub", "lvl", "nv", "base", "big", "lay", "per", "typ", "adur">>
Alt(dim) == CASE dim = "v"    -> {"timetl", "numnodur", "numtl"}
              [] dim = "a"    -> {"none", "timetl", "numnodur"}
              [] dim = "sn"   -> {-1, 0, 7}
              [] dim = "sub"  -> {"bw", "lit"}
              [] dim = "lvl"  -> {"rep"}
              [] dim = "nv"   -> {2}
              [] dim = "base" -> {"mpd", "period", "as"}
              [] dim = "big"  -> {"ts10m", "long90k"}
              [] dim = "lay"  -> {"last90k", "irr90k", "alt12800", "sub1k", "n1001", "nonint"}
              [] dim = "per"  -> {"dur", "none"}
              [] dim = "typ"  -> {"absent", "dynamic"}
              [] dim = "adur" -> {"shorter", "longer"}
With(sh, dim, val) == [sh EXCEPT ![dim] = val]
Single == UNION { { With(Default, Dims[i], x) : x \in Alt(Dims[i]) } : i \in DOMAIN Dims }
Pair   == UNION { UNION { { With(With(Default, Dims[i], x), Dims[j], y) : x \in Alt(Dims[i]), y \in Alt(Dims[j]) }
                          : j \in { jj \in DOMAIN Dims : jj > i } } : i \in DOMAIN Dims }
\* what can be built from the 8 s of source material: the generated layouts
Buildable(sh) ==
   /\ (sh.big # "no" => sh.a = "none" /\ sh.lay = "u90k")                \* no audio source for 60 s / re-timed video only
   /\ (sh.a = "none" => sh.adur = "same")
   /\ (sh.adur = "longer" => sh.lay = "u90k" /\ sh.big = "no")
   /\ (sh.nv = 2 => sh.sub # "lit")                                      \* two Representations cannot share literal names
   /\ (sh.v = "numdur" => sh.lay \in {"u90k", "last90k", "irr90k", "alt12800", "sub1k", "n1001", "nonint"})
   /\ (sh.lay = "sub1k" => sh.a = "none")                                \* 2.4 s of video
   /\ (sh.lay = "alt12800" => sh.a # "numdur")                           \* 9.6 s of video, 8 s of audio: @duration would promise a 5th audio segment
NoAudio == With(Default, "a", "none")
Extras == { With(NoAudio, "big", "ts10m"), With(NoAudio, "big", "long90k"), With(NoAudio, "lay", "sub1k"), With(NoAudio, "lay", "alt12800"),
            With(With(With(Default, "v", "timetl"), "a", "timetl"), "lay", "alt12800"),
            With(With(With(Default, "v", "timetl"), "a", "timetl"), "lay", "irr90k"),
            With(With(NoAudio, "big", "ts10m"), "v", "timetl"), With(With(NoAudio, "big", "long90k"), "v", "timetl") }
Shapes == { sh \in {Default} \cup Single \cup Extras \cup (IF Tier = "thorough" THEN Pair ELSE {}) : Buildable(sh) }
CoreShapes == { Default, With(With(Default, "v", "timetl"), "a", "timetl"), With(Default, "a", "none"),
                With(Default, "sub", "bw"), With(Default, "lvl", "rep") }

\* ------------------------------------------------------------------ abstract files of a shape
Reps(sh) == (IF sh.nv = 2 THEN {"v1", "v2"} ELSE {"v1"}) \cup (IF sh.a = "none" THEN {} ELSE {"a"})
Pos == {"init", "first", "mid", "last"}
Files(sh) == {<<"mpd", "-">>} \cup (Reps(sh) \X Pos)
FaultKinds == {"404", "500", "drop", "trunc", "stall"}
NoFault == [rep |-> "-", pos |-> "-", kind |-> "none"]
StallTargets == { <<"mpd", "-">>, <<"v1", "first">>, <<"v1", "last">> }      \* a stalled origin costs a second of wall-clock each
Faults(sh) == {NoFault} \cup { x \in { [rep |-> f[1], pos |-> f[2], kind |-> k] : f \in Files(sh), k \in FaultKinds } :
                                  x.kind = "stall" => <<x.rep, x.pos>> \in StallTargets }
Plans == { <<"plain">>, <<"plain", "plain">>, <<"plain", "force">>, <<"plain", "change", "plain">>, <<"plain", "change", "force">> }

FetchScenarios ==
   { [kind |-> "fetch", shape |-> sh, fault |-> NoFault, plan |-> p] : sh \in Shapes, p \in Plans }
   \cup UNION { { [kind |-> "fetch", shape |-> sh, fault |-> f, plan |-> p] :
                    f \in Faults(sh) \ {NoFault}, p \in { <<"plain">>, <<"plain", "plain">>, <<"plain", "force">> } }
                 : sh \in (IF Tier = "thorough" THEN CoreShapes ELSE {Default, With(With(Default, "v", "timetl"), "a", "timetl")}) }

\* ------------------------------------------------------------------ load scenarios
NoDefect == [kind |-> "none", rep |-> "-", pos |-> "-", how |-> "-"]
SegHow  == {"missing", "zero", "trunc", "garbage", "nofrag", "text"}
InitHow == {"missing", "zero", "trunc", "garbage", "text"}
MpdHow  == {"garbage", "empty", "twoperiods", "noperiod", "notemplate", "nodur"}
Defects(sh) ==
   {NoDefect}
   \cup { [kind |-> "seg", rep |-> r, pos |-> p, how |-> h] : r \in ({"v"} \cup IF sh.a = "none" THEN {} ELSE {"a"}), p \in {"first", "mid", "last"}, h \in SegHow }
   \cup { [kind |-> "init", rep |-> r, pos |-> "-", how |-> h] : r \in ({"v"} \cup IF sh.a = "none" THEN {} ELSE {"a"}), h \in InitHow }
   \cup { [kind |-> "extra", rep |-> "v", pos |-> "-", how |-> "-"], [kind |-> "nofiles", rep |-> "-", pos |-> "-", how |-> "-"] }
   \cup { [kind |-> "mpd", rep |-> "-", pos |-> "-", how |-> h] : h \in MpdHow }
LoadDefault == [Default EXCEPT !.v = "numnodur", !.a = "numnodur"]    \* the form of the bundled testpic assets
LoadShapes == { sh \in Shapes : sh.base \in {"none", "mpd"} } \cup { [sh EXCEPT !.v = "numnodur", !.a = IF sh.a = "none" THEN "none" ELSE "numnodur"] : sh \in { s \in Shapes : s.v = "numdur" /\ s.a \in {"none", "numdur"} /\ s.base = "none" } }
DamageShapes == { LoadDefault, [LoadDefault EXCEPT !.v = "timetl", !.a = "timetl"], Default }
              \cup (IF Tier = "thorough" THEN { [LoadDefault EXCEPT !.a = "none"], [LoadDefault EXCEPT !.sn = 0], [LoadDefault EXCEPT !.sub = "lit"] } ELSE {})
LoadScenarios ==
   { [kind |-> "load", shape |-> sh, defect |-> NoDefect, depth |-> dp, mpds |-> m] :
        sh \in LoadShapes, dp \in (IF Tier = "thorough" THEN {0, 1, 3} ELSE {1}), m \in (IF Tier = "thorough" THEN {"one", "two", "twobad"} ELSE {"one"}) }
   \cup { [kind |-> "load", shape |-> LoadDefault, defect |-> NoDefect, depth |-> dp, mpds |-> m] : dp \in {0, 1, 3}, m \in {"one", "two", "twobad"} }
   \cup UNION { { [kind |-> "load", shape |-> sh, defect |-> df, depth |-> 2, mpds |-> "one"] : df \in Defects(sh) \ {NoDefect} } : sh \in DamageShapes }

\* the abstract damage as AssetMirrorOps!Accepted sees it (n0 = 4 segments in the model; k from the position)
AbsD(sc) == [vmode |-> sc.shape.v, amode |-> sc.shape.a, typ |-> sc.shape.typ, lvl |-> sc.shape.lvl, base |-> sc.shape.base,
             lay |-> sc.shape.lay, kind |-> sc.defect.kind, rep |-> sc.defect.rep, pos |-> sc.defect.pos, how |-> sc.defect.how,
             k |-> (CASE sc.defect.pos = "first" -> 1 [] sc.defect.pos = "mid" -> 3 [] sc.defect.pos = "last" -> 4 [] OTHER -> 0), n0 |-> 4]

\* ------------------------------------------------------------------ the mirroring machine
VARIABLES sc,        \* the scenario (constant along a behaviour)
          pc,        \* "start" | "run" | "between" | "done"
          step,      \* index into sc.plan
          todo,      \* sequence of abstract files still to fetch in this run
          ver,       \* origin: file -> version (1, 2)
          mir,       \* mirror: file -> 0 absent | v complete copy of version v | -1 partial
          good,      \* files whose mirror copy was faithful when stored
          good0,     \* good at the start of the current run
          reqs,      \* files requested in this run (sequence)
          failed,    \* files whose request failed in this run
          rep,       \* files reported (named in the error or a warning) in this run
          res,       \* "-" | "ok" | "err"
          out        \* load scenarios: the chosen outcome
vars == <<sc, pc, step, todo, ver, mir, good, good0, reqs, failed, rep, res, out>>

Order(sh) == LET RS == Reps(sh)
                 seqOf(r) == << <<r, "init">>, <<r, "first">>, <<r, "mid">>, <<r, "last">> >>
                 a == IF "a" \in RS THEN seqOf("a") ELSE <<>>
                 v2 == IF "v2" \in RS THEN seqOf("v2") ELSE <<>>
             IN << <<"mpd", "-">> >> \o a \o seqOf("v1") \o v2
Force == sc.plan[step] = "force"
FaultOn(f) == step = 1 /\ sc.fault.kind # "none" /\ <<sc.fault.rep, sc.fault.pos>> = f
\* "orig": segments the arithmetic of fetcher.go never asked for (startNumber beyond the count, 32-bit overflow)
Lost(f) == /\ Variant = "orig" /\ f[2] \in {"mid", "last"}
           /\ \/ (sc.shape.sn = 7 /\ NumberMode(IF f[1] = "a" THEN sc.shape.a ELSE sc.shape.v))
              \/ (sc.shape.big # "no" /\ f[1] # "a" /\ sc.shape.v = "numdur")

Init == /\ sc \in FetchScenarios \cup LoadScenarios
        /\ pc = "start" /\ step = 1 /\ todo = <<>> /\ reqs = <<>> /\ failed = {} /\ rep = {} /\ res = "-" /\ out = <<"-", 0>>
        /\ ver = [f \in Files(Default) \cup Files(With(Default, "nv", 2)) |-> 1]
        /\ mir = [f \in Files(Default) \cup Files(With(Default, "nv", 2)) |-> 0]
        /\ good = {} /\ good0 = {}

Begin == /\ pc = "start" /\ sc.kind = "fetch" /\ FetchSupported(sc.shape)
         /\ pc' = "run" /\ todo' = Order(sc.shape) /\ reqs' = <<>> /\ failed' = {} /\ rep' = {}
         /\ good0' = good
         /\ UNCHANGED <<sc, step, ver, mir, good, res, out>>

\* one file of the run
FetchOne ==
   /\ pc = "run" /\ todo # <<>>
   /\ LET f == Head(todo)
          exists == mir[f] # 0
          skip == exists /\ (~Force \/ Variant = "orig")      \* orig: downloadToFile returned when the file existed, force or not
          isMpd == f[1] = "mpd"
      IN IF Lost(f) THEN /\ todo' = Tail(todo) /\ UNCHANGED <<mir, good, reqs, failed, rep, res, pc>>
         ELSE IF skip THEN /\ todo' = Tail(todo) /\ UNCHANGED <<mir, good, reqs, failed, rep, res, pc>>
         ELSE /\ reqs' = Append(reqs, f)
              /\ IF FaultOn(f)
                 THEN /\ failed' = failed \cup {f}
                      /\ mir' = IF Variant = "orig" /\ sc.fault.kind \in {"trunc", "stall"} THEN [mir EXCEPT ![f] = -1] ELSE mir
                      /\ good' = IF Variant = "orig" /\ sc.fault.kind \in {"trunc", "stall"} THEN good \ {f} ELSE good
                      /\ rep' = IF Variant = "orig" /\ f[2] = "last" /\ NumberMode(IF f[1] = "a" THEN sc.shape.a ELSE sc.shape.v)
                                THEN rep ELSE rep \cup {f}     \* orig: "if err != nil && i < nrSegments" skipped the last counted number
                      /\ IF isMpd THEN pc' = "between" /\ res' = "err" /\ todo' = <<>>
                         ELSE pc' = pc /\ res' = res /\ todo' = Tail(todo)
                 ELSE /\ mir' = [mir EXCEPT ![f] = ver[f]] /\ good' = good \cup {f}
                      /\ todo' = Tail(todo) /\ UNCHANGED <<failed, rep, res, pc>>
   /\ UNCHANGED <<sc, step, ver, out, good0>>

\* the run ends: with failures the result may be an error or a success with warnings (both readings of X05.report)
EndRun == /\ pc = "run" /\ todo = <<>>
          /\ res' \in (IF failed = {} \/ Variant = "code" THEN {"ok"} ELSE {"ok", "err"})   \* code: segment failures are only warned
          /\ pc' = "between"
          /\ UNCHANGED <<sc, step, todo, ver, mir, good, good0, reqs, failed, rep, out>>

\* between runs: optionally the origin's content changes, then the next run starts
NextRun == /\ pc = "between"
           /\ IF step = Len(sc.plan) THEN pc' = "done" /\ UNCHANGED <<step, todo, ver, reqs, failed, rep, res, good0>>
              ELSE IF sc.plan[step + 1] = "change"
                   THEN /\ ver' = [f \in DOMAIN ver |-> IF f[2] \in {"first", "last"} THEN 2 ELSE ver[f]]
                        /\ step' = step + 1 /\ UNCHANGED <<pc, todo, reqs, failed, rep, res, good0>>
                   ELSE /\ step' = step + 1 /\ pc' = "run" /\ todo' = Order(sc.shape) /\ reqs' = <<>> /\ failed' = {} /\ rep' = {} /\ res' = "-"
                        /\ good0' = good /\ UNCHANGED ver
           /\ UNCHANGED <<sc, mir, good, out>>

\* unsupported MPDs: the tool may do anything that is safe - modelled as doing nothing
Unsupported == /\ pc = "start" /\ sc.kind = "fetch" /\ ~FetchSupported(sc.shape)
               /\ pc' = "done" /\ res' \in {"ok", "err"} /\ UNCHANGED <<sc, step, todo, ver, mir, good, good0, reqs, failed, rep, out>>

Load == /\ pc = "start" /\ sc.kind = "load"
        /\ out' \in Accepted(AbsD(sc)) /\ pc' = "done"
        /\ UNCHANGED <<sc, step, todo, ver, mir, good, good0, reqs, failed, rep, res>>

Next == Begin \/ FetchOne \/ EndRun \/ NextRun \/ Unsupported \/ Load
Spec == Init /\ [][Next]_vars

\* ------------------------------------------------------------------ invariants (the clauses on the abstract machine)
AtEnd == pc = "between" /\ sc.kind = "fetch"
Mine == ToSet(Order(sc.shape))
\* X05.all
InvComplete == (AtEnd /\ failed = {} /\ res = "ok") => \A f \in Mine : mir[f] > 0
InvOkResult == (AtEnd /\ failed = {}) => res = "ok"
\* X05.ident (no complete-looking partial, no stale file after --force)
InvNoPartial == AtEnd => \A f \in Mine : mir[f] # -1
InvIdent == AtEnd => \A f \in Mine : mir[f] > 0 => (mir[f] = ver[f] \/ (~Force /\ f \in good))
\* X05.force
InvForce == (AtEnd /\ Force /\ failed = {}) => \A f \in Mine : mir[f] = ver[f]
\* X05.report
InvReported == AtEnd => (failed \subseteq rep /\ (<<"mpd", "-">> \in failed => res = "err"))
\* X05.once / X05.skip
InvOnce == \A i, j \in DOMAIN reqs : i # j => reqs[i] # reqs[j]
InvSkip == (sc.kind = "fetch" /\ pc \in {"run", "between"} /\ ~Force) => ToSet(reqs) \cap good0 = {}
\* load: the oracle is total and consistent
InvAccepted == sc.kind = "load" =>
                 LET d == AbsD(sc) IN /\ Accepted(d) # {}
                                      /\ (sc.defect.kind = "none" /\ ~ShapeRefused(d) => List(4) \in Accepted(d))
                                      /\ (sc.defect.kind \in {"init", "nofiles", "mpd"} => MustRefuse(d))
                                      /\ \A o \in Accepted(d) : o[1] = "list" => o[2] \in 1..5
                                      /\ ~(MustList(d) /\ MustRefuse(d))
TypeOK == /\ pc \in {"start", "run", "between", "done"} /\ res \in {"-", "ok", "err"}
          /\ sc.kind \in {"fetch", "load"} /\ Buildable(sc.shape)
Emit == pc = "start" => PrintT("GEN" \o ToJson(sc))
=============================================================================

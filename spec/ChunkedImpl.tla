---------------------------- MODULE ChunkedImpl ----------------------------
(* Explorer for C09: the pacing loop of writeChunkedSegment (cmd/livesim2/app/livesegment.go) as the Go code
   runs it, against a real-time clock.

   Time is counted in sub-ticks: R sub-ticks = 1 ms, media timescale = 1000*R ticks/s (1 tick = 1 sub-tick), so
   that sample and chunk ends fall between millisecond boundaries.  The clock process advances the real wall
   clock one sub-tick at a time; every step of the writer may be delayed arbitrarily (interleaving), which
   models scheduling.  The writer reads the clock only through unixMS() = clock \div R (millisecond truncation,
   as the code does), and the request's nowMS is the millisecond-truncated clock at its arrival.

   The writer follows the code:   chunkAvailTime += chunk.dur;  chunkAvailMS = chunkAvailTime*1000/timescale;
      if chunkAvailMS < nowMS { write; continue }
      nowUpdateMS = unixMS() - startUnixMS + nowMS
      if chunkAvailMS < nowUpdateMS { write; continue }
      sleep(chunkAvailMS - nowUpdateMS); write
   with chunks = Split(sample durations, chunkDur) (ChunkedOps: the algorithm of chunkSegment, including the
   pacing duration chunkDur of a trailing partial chunk).

   The clock is bounded by Horizon = end of the paced delivery + 2 ms (finiteness).  A writer that would wake up
   after the horizon is a dead end of the model; such writes happen after every chunk end + 1 ms at the observed
   time as well (observed >= real - 1 ms), so nothing relevant for NotEarly is cut off.  Liveness is not checked.

   (M) NotEarly: for ALL layouts (sample durations, chunk duration, sub-ms phase of the segment start), ALL request
   instants and ALL schedules, no chunk is written at an OBSERVED time (nowMS + monotonic elapsed since the request,
   what the trace validation measures) earlier than its end minus Res.  Res = 2 ms holds; Res = 1 ms and Res = 0 do
   not (design counterexamples: the two millisecond truncations) - this is where the resolution of C09.notearly in
   ChunkedOps comes from.  PaceOn = "start" (pacing on the chunk's start instead of its end) violates NotEarly.
   SplitOK: the splitting algorithm satisfies C09.size / C09.order / completeness for all layouts. *)
EXTENDS Integers, Sequences, FiniteSets, TLC, ChunkedOps
CONSTANTS R,          \* sub-ticks per millisecond
          DurSeqs,    \* set of sample-duration sequences (sub-ticks) = the segments
          ChunkMS,    \* set of chunk durations in ms (segment duration - availabilityTimeOffset)
          Phases,     \* set of segment start instants (sub-ticks)
          Res,        \* resolution of the NotEarly invariant in sub-ticks
          PaceOn      \* "end" (the code) | "start" (mutant)

Layouts == {[durs |-> d, cd |-> c * R, start |-> p] : d \in DurSeqs, c \in ChunkMS, p \in Phases}
RECURSIVE SumField(_, _, _)
SumField(s, n, f) == IF n = 0 THEN 0 ELSE SumField(s, n - 1, f) + s[n][f]

(* --algorithm chunked {
  variables lay \in Layouts,
            chunks = Split(lay.durs, lay.cd),   \* computed once (constant of the behaviour)
            clock = 0,                     \* real wall clock, sub-ticks
            w = [k |-> 0, at |-> 0];       \* the write that has just happened (k = 0: none)
  define {
    Chunks   == chunks
    NC       == Len(Chunks)
    EndOf(k) == lay.start + SumField(Chunks, k, "dur")          \* true end of chunk k
    Horizon  == lay.start + SumField(Chunks, NC, "pdur") + 2 * R
    MaxSamp  == MaxOf({lay.durs[j] : j \in 1..Len(lay.durs)})
    \* C09.size / C09.order / completeness of the splitting algorithm (state-independent)
    SplitOK  == /\ NC >= 1
                /\ \A k \in 1..NC : Chunks[k].ns > 0 /\ SizeWithin(Chunks[k].dur, lay.cd, 0, MaxSamp - 1)
                /\ SumField(Chunks, NC, "ns") = Len(lay.durs)
                /\ SumField(Chunks, NC, "dur") = SumSeq(lay.durs, Len(lay.durs))
                /\ \A k \in 1..NC : Chunks[k].pdur >= Chunks[k].dur       \* pacing never shorter than the media
  }
  fair process (clk = "clock") {
    tick:  while (clock < Horizon) { clock := clock + 1; }
  }
  fair process (wr = "writer")
    variables t0 = 0, nowMS = 0, startMS = 0, k = 1, availT = 0, availMS = 0, upd = 0, wake = 0;
  {
    req:   t0 := clock; nowMS := clock \div R;           \* the request arrives; nowMS = ms-truncated clock
           availT := lay.start;
    start: startMS := clock \div R;                       \* startUnixMS := unixMS()
    loop:  while (k <= NC) {
             if (PaceOn = "end") { availT := availT + Chunks[k].pdur; };
             availMS := availT \div R;
             if (availMS < nowMS) {
               w := [k |-> k, at |-> clock];
             } else {
    rd:        upd := (clock \div R) - startMS + nowMS;    \* nowUpdateMS
               if (availMS < upd) {
                 w := [k |-> k, at |-> clock];
               } else {
                 wake := clock + (availMS - upd) * R;     \* time.Sleep(sleepMS) returns no earlier than that
    slp:         await clock >= wake;
                 w := [k |-> k, at |-> clock];
               }
             };
    nxt:     if (PaceOn = "start") { availT := availT + Chunks[k].pdur; };
             w := [k |-> 0, at |-> 0];
             k := k + 1;
           }
  }
} *)
\* BEGIN TRANSLATION
VARIABLES pc, lay, chunks, clock, w

(* define statement *)
Chunks   == chunks
NC       == Len(Chunks)
EndOf(k) == lay.start + SumField(Chunks, k, "dur")
Horizon  == lay.start + SumField(Chunks, NC, "pdur") + 2 * R
MaxSamp  == MaxOf({lay.durs[j] : j \in 1..Len(lay.durs)})

SplitOK  == /\ NC >= 1
            /\ \A k \in 1..NC : Chunks[k].ns > 0 /\ SizeWithin(Chunks[k].dur, lay.cd, 0, MaxSamp - 1)
            /\ SumField(Chunks, NC, "ns") = Len(lay.durs)
            /\ SumField(Chunks, NC, "dur") = SumSeq(lay.durs, Len(lay.durs))
            /\ \A k \in 1..NC : Chunks[k].pdur >= Chunks[k].dur

VARIABLES t0, nowMS, startMS, k, availT, availMS, upd, wake

vars == << pc, lay, chunks, clock, w, t0, nowMS, startMS, k, availT, availMS, 
           upd, wake >>

ProcSet == {"clock"} \cup {"writer"}

Init == (* Global variables *)
        /\ lay \in Layouts
        /\ chunks = Split(lay.durs, lay.cd)
        /\ clock = 0
        /\ w = [k |-> 0, at |-> 0]
        (* Process wr *)
        /\ t0 = 0
        /\ nowMS = 0
        /\ startMS = 0
        /\ k = 1
        /\ availT = 0
        /\ availMS = 0
        /\ upd = 0
        /\ wake = 0
        /\ pc = [self \in ProcSet |-> CASE self = "clock" -> "tick"
                                        [] self = "writer" -> "req"]

tick == /\ pc["clock"] = "tick"
        /\ IF clock < Horizon
              THEN /\ clock' = clock + 1
                   /\ pc' = [pc EXCEPT !["clock"] = "tick"]
              ELSE /\ pc' = [pc EXCEPT !["clock"] = "Done"]
                   /\ clock' = clock
        /\ UNCHANGED << lay, chunks, w, t0, nowMS, startMS, k, availT, availMS, 
                        upd, wake >>

clk == tick

req == /\ pc["writer"] = "req"
       /\ t0' = clock
       /\ nowMS' = (clock \div R)
       /\ availT' = lay.start
       /\ pc' = [pc EXCEPT !["writer"] = "start"]
       /\ UNCHANGED << lay, chunks, clock, w, startMS, k, availMS, upd, wake >>

start == /\ pc["writer"] = "start"
         /\ startMS' = (clock \div R)
         /\ pc' = [pc EXCEPT !["writer"] = "loop"]
         /\ UNCHANGED << lay, chunks, clock, w, t0, nowMS, k, availT, availMS, 
                         upd, wake >>

loop == /\ pc["writer"] = "loop"
        /\ IF k <= NC
              THEN /\ IF PaceOn = "end"
                         THEN /\ availT' = availT + Chunks[k].pdur
                         ELSE /\ TRUE
                              /\ UNCHANGED availT
                   /\ availMS' = (availT' \div R)
                   /\ IF availMS' < nowMS
                         THEN /\ w' = [k |-> k, at |-> clock]
                              /\ pc' = [pc EXCEPT !["writer"] = "nxt"]
                         ELSE /\ pc' = [pc EXCEPT !["writer"] = "rd"]
                              /\ w' = w
              ELSE /\ pc' = [pc EXCEPT !["writer"] = "Done"]
                   /\ UNCHANGED << w, availT, availMS >>
        /\ UNCHANGED << lay, chunks, clock, t0, nowMS, startMS, k, upd, wake >>

nxt == /\ pc["writer"] = "nxt"
       /\ IF PaceOn = "start"
             THEN /\ availT' = availT + Chunks[k].pdur
             ELSE /\ TRUE
                  /\ UNCHANGED availT
       /\ w' = [k |-> 0, at |-> 0]
       /\ k' = k + 1
       /\ pc' = [pc EXCEPT !["writer"] = "loop"]
       /\ UNCHANGED << lay, chunks, clock, t0, nowMS, startMS, availMS, upd, 
                       wake >>

rd == /\ pc["writer"] = "rd"
      /\ upd' = (clock \div R) - startMS + nowMS
      /\ IF availMS < upd'
            THEN /\ w' = [k |-> k, at |-> clock]
                 /\ pc' = [pc EXCEPT !["writer"] = "nxt"]
                 /\ wake' = wake
            ELSE /\ wake' = clock + (availMS - upd') * R
                 /\ pc' = [pc EXCEPT !["writer"] = "slp"]
                 /\ w' = w
      /\ UNCHANGED << lay, chunks, clock, t0, nowMS, startMS, k, availT, 
                      availMS >>

slp == /\ pc["writer"] = "slp"
       /\ clock >= wake
       /\ w' = [k |-> k, at |-> clock]
       /\ pc' = [pc EXCEPT !["writer"] = "nxt"]
       /\ UNCHANGED << lay, chunks, clock, t0, nowMS, startMS, k, availT, 
                       availMS, upd, wake >>

wr == req \/ start \/ loop \/ nxt \/ rd \/ slp

(* Allow infinite stuttering to prevent deadlock on termination. *)
Terminating == /\ \A self \in ProcSet: pc[self] = "Done"
               /\ UNCHANGED vars

Next == clk \/ wr
           \/ Terminating

Spec == /\ Init /\ [][Next]_vars
        /\ WF_vars(clk)
        /\ WF_vars(wr)

Termination == <>(\A self \in ProcSet: pc[self] = "Done")

\* END TRANSLATION

\* what the observer of the trace validation sees for the write w: nowMS + monotonic elapsed since the request
Observed == nowMS * R + (w.at - t0)
\* C09.notearly in the model's units
NotEarly == w.k > 0 => NotEarlyAt(Observed, EndOf(w.k), Res)
\* against the real wall clock the write is at least as late as observed (t0 >= nowMS*R)
ObservedIsEarlier == w.k > 0 => Observed <= w.at
Split_OK == SplitOK
=============================================================================

---------------------------- MODULE AudioResegImpl ----------------------------
(* Implementation-shaped explorer for C03: calcAudioTimeFromRef, calcAudioSegRecipe and the sample-interval
   construction of createAudioSeg (cmd/livesim2/app/audiosegmentation.go) transcribed statement by statement,
   run on small layouts and judged by the oracle operators of AudioResegOps.
   FixEndIdx = FixPadding = TRUE is the current code (/repo commits 9a9819e and 9a9f787); FALSE restores the
   original statements (kept as documented design counterexamples, spec/mc/AudioResegImpl_orig_*.cfg).
   Absolute times are used (small constants, few loops): no pairs needed here.                                  *)
EXTENDS AudioResegOps, TLC
CONSTANTS Layouts,    \* set of <<sc, au, aseg>>, aseg = frames per VoD audio segment (sum = au.A)
          MaxLoops,
          FixEndIdx,  \* BOOLEAN: end index of an interval ending inside a VoD segment relative to the segment start (9a9819e)
          FixPadding  \* BOOLEAN: an interval at or after the end of the VoD audio yields only fill samples (9a9f787)
VARIABLES lay, k, i, out      \* out = what the transcribed code serves for segment (k, i)
vars == <<lay, k, i, out>>
sc == lay[1]
au == lay[2]
aseg == lay[3]

\* ---- the VoD audio representation as livesim2 sees it: rep.Segments[x] = [StartTime, EndTime), 0-based x
RECURSIVE SumTo(_, _)
SumTo(s, n) == IF n = 0 THEN 0 ELSE SumTo(s, n - 1) + s[n]
NSeg       == Len(aseg)
SegS(x)    == SumTo(aseg, x) * au.F
SegE(x)    == SumTo(aseg, x + 1) * au.F
SegFirst(x) == SumTo(aseg, x)           \* index of the first VoD frame of segment x
RepDur     == SegE(NSeg - 1)

\* ---- calcAudioTimeFromRef
ATime(refTime) == LET t0 == (((refTime * au.TSa) \div sc.TS) \div au.F) * au.F
                  IN IF t0 * sc.TS < refTime * au.TSa THEN t0 + au.F ELSE t0

\* ---- calcAudioSegRecipe(refStart, refEnd, refTotalDur)
Recipe(refStart, refEnd) ==
   LET tot == L(sc)
       aS  == ATime(refStart)
       aE  == ATime(refEnd)
       wS  == ATime((refStart \div tot) * tot)
       wE  == ATime((refEnd \div tot) * tot)
       inS == aS - wS
   IN IF wE > wS
      THEN IF aE < wE + au.F
           THEN [start |-> aS, end |-> aE, inStart |-> inS, inEnd |-> aE - wS, after |-> 0]
           ELSE [start |-> aS, end |-> aE, inStart |-> inS, inEnd |-> wE - wS, after |-> aE - wE]
      ELSE [start |-> aS, end |-> aE, inStart |-> inS, inEnd |-> inS + (aE - aS), after |-> 0]

\* ---- createAudioSeg: interval construction.  st = [it, next, coll, bad]; bad: "" | "panic" | "underflow"
Itvl(sg, s, e, f) == [seg |-> sg, s |-> s, e |-> e, fill |-> f]
RECURSIVE StartNr(_, _)
StartNr(r, x) == IF x < 0 \/ x >= NSeg THEN -1 ELSE IF SegS(x) > r.inStart THEN StartNr(r, x - 1) ELSE x
RECURSIVE Walk(_, _, _)
Walk(r, x, st) ==
   IF x > NSeg - 1 THEN st
   ELSE IF SegE(x) <= r.inStart
        THEN IF FixPadding /\ x = NSeg - 1
             THEN LET n == (SegE(x) - SegS(x)) \div au.F
                      fillTime == r.inEnd - r.inStart
                  IN Walk(r, x + 1, [st EXCEPT !.it = Append(st.it, Itvl(x, n, n, fillTime \div au.F)), !.coll = st.coll + fillTime])
             ELSE Walk(r, x + 1, st)
   ELSE LET it1 == IF st.next < SegE(x) /\ Len(st.it) = 0
                   THEN <<Itvl(x, (st.next - SegS(x)) \div au.F, 0, 0)>> ELSE st.it
            n   == Len(it1)
        IN IF n = 0 THEN [st EXCEPT !.bad = "panic"]
           ELSE IF r.inEnd >= SegE(x)
           THEN LET it2   == [it1 EXCEPT ![n].e = (SegE(x) - SegS(x)) \div au.F]
                    coll2 == st.coll + (it2[n].e - it2[n].s) * au.F
                    bad2  == IF it2[n].e < it2[n].s THEN "underflow" ELSE st.bad
                IN IF SegE(x) = r.inEnd THEN [it |-> it2, next |-> SegE(x), coll |-> coll2, bad |-> bad2]
                   ELSE IF x < NSeg - 1 THEN Walk(r, x + 1, [it |-> Append(it2, Itvl(x + 1, 0, 0, 0)), next |-> SegE(x), coll |-> coll2, bad |-> bad2])
                   ELSE LET fillTime == r.inEnd - SegE(x)      \* last VoD segment and time missing: repeat the last frame
                        IN [it |-> [it2 EXCEPT ![n].fill = fillTime \div au.F], next |-> SegE(x), coll |-> coll2 + fillTime, bad |-> bad2]
           ELSE LET endIdx == IF FixEndIdx THEN (r.inEnd - SegS(x)) \div au.F ELSE (r.inEnd - st.next) \div au.F
                    it2    == [it1 EXCEPT ![n].e = endIdx]
                IN [it |-> it2, next |-> st.next, coll |-> st.coll + (it2[n].e - it2[n].s) * au.F,
                    bad |-> IF it2[n].e < it2[n].s THEN "underflow" ELSE st.bad]
RECURSIVE After(_, _, _)
After(r, x, it) ==
   IF x > NSeg - 1 THEN it
   ELSE IF r.after < SegE(x) THEN [it EXCEPT ![Len(it)].e = (r.after - SegS(x)) \div au.F]
   ELSE After(r, x + 1, Append([it EXCEPT ![Len(it)].e = (SegE(x) - SegS(x)) \div au.F], Itvl(x + 1, 0, 0, 0)))

RECURSIVE Emit(_, _)
Emit(it, n) ==   \* frames of intervals 1..n, or <<-1>> when a slice expression would panic
   IF n = 0 THEN <<>>
   ELSE LET v == it[n]
            pre == Emit(it, n - 1)
        IN IF pre = <<-1>> \/ v.seg > NSeg - 1 \/ v.e > aseg[v.seg + 1] \/ v.s > v.e THEN <<-1>>
           ELSE pre \o [j \in 1..(v.e - v.s) |-> SegFirst(v.seg) + v.s + j - 1]
                    \o [j \in 1..v.fill |-> SegFirst(v.seg) + aseg[v.seg + 1] - 1]

\* result: [st |-> "ok" | "err" | "panic", start, frames]
Serve(refStart, refEnd) ==
   LET r   == Recipe(refStart, refEnd)
       sn00 == r.inStart \div RepDur
       sn0 == IF FixPadding /\ sn00 > NSeg - 1 THEN NSeg - 1 ELSE sn00
       sn  == StartNr(r, sn0)
   IN IF sn < 0 THEN [st |-> "panic", start |-> r.start, frames |-> <<>>]
      ELSE LET w == Walk(r, sn, [it |-> <<>>, next |-> r.inStart, coll |-> 0, bad |-> ""])
           IN IF w.bad = "panic" THEN [st |-> "panic", start |-> r.start, frames |-> <<>>]
              ELSE IF w.bad = "underflow" \/ r.end - r.start - w.coll # r.after THEN [st |-> "err", start |-> r.start, frames |-> <<>>]
              ELSE LET it == IF r.after > 0 THEN After(r, 0, Append(w.it, Itvl(0, 0, 0, 0))) ELSE w.it
                       fr == Emit(it, Len(it))
                   IN IF fr = <<-1>> THEN [st |-> "panic", start |-> r.start, frames |-> <<>>]
                      ELSE [st |-> "ok", start |-> r.start, frames |-> fr]

RefStartOf(kk, ii) == kk * L(sc) + sc.vod0 + PreSum(sc.dur, ii)
OutOf(kk, ii) == Serve(RefStartOf(kk, ii), RefStartOf(kk, ii) + Dur(sc, ii))
Out == out

Init == lay \in Layouts /\ k = 0 /\ i = 0 /\ out = OutOf(0, 0)
NextSeg == /\ k <= MaxLoops
           /\ LET s == Succ(sc, k, i) IN k' = s[1] /\ i' = s[2] /\ out' = OutOf(s[1], s[2])
           /\ UNCHANGED lay
Spec == Init /\ [][NextSeg]_vars

\* absolute oracle start (few loops: no overflow)
OStartAbs == (k \div au.M) * au.PA + AOffStart(sc, au, k, i)
Served       == Out.st = "ok"                                                      \* C03.served
StartOK      == Out.start = OStartAbs                                              \* C03.start
CountOK      == Out.st = "ok" => Len(Out.frames) = ACount(sc, au, k, i)            \* C03.count
FramesOK     == (Out.st = "ok" /\ sc.vod0 = 0) =>                                  \* C03.frames
                   \A j \in 1..Len(Out.frames) : j <= ACount(sc, au, k, i) => Out.frames[j] = Frame(sc, au, k, i, j - 1)
=============================================================================

---------------------------- MODULE TraceLib ----------------------------
(* Shared conventions of all *_Trace modules (DESIGN.md 3.2, 3.5).
   Trace: ndjson file "trace.ndjson" next to the module; l: next line to consume.
   Monitor acceptance: every line is consumed; a failing clause prints the string BAD{"l":..,"clause":..,"detail":..} (one line)
   and is counted in TLC register 1; the post-condition requires the count to be 0. *)
EXTENDS Integers, Sequences, TLC, Json
Trace == ndJsonDeserialize("trace.ndjson")
\* NB: must be IF/THEN/ELSE - written as a disjunction TLC evaluates both sides (DESIGN A.1)
ClauseAt(l, name, ok, detail) ==
   IF ok THEN TRUE
   ELSE PrintT("BAD" \o ToJson([l |-> l, clause |-> name, detail |-> detail])) /\ TLCSet(1, TLCGet(1) + 1)
MonitorInit == TLCSet(1, 0)
Has(r, f) == f \in DOMAIN r
Get(r, f, default) == IF f \in DOMAIN r THEN r[f] ELSE default
Consumed(n) == PrintT("CONSUMED" \o ToJson([n |-> n, bad |-> TLCGet(1)]))
NoBad == TLCGet(1) = 0
=============================================================================

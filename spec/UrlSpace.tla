---------------------------- MODULE UrlSpace ----------------------------
(* (M/R) for C08: the abstract request space. TLC enumerates it - every (key, class) singly with every tail shape,
   every pair of (key, class) x (key, class) over PairClasses with every tail of PairTails, plus the other
   endpoints - checks the sanity of the oracle on every element (invariant Sane) and prints each element as one
   JSON line (prefix GEN) that harness/drive/c08 turns into concrete requests.
   The families are written as predicates over the variable r (\E ... : r = Req(..)) so that TLC enumerates the
   initial states directly.                                                                                  *)
EXTENDS UrlSpaceOps, TLC, Json

CONSTANTS
   SingleClasses,   \* value classes used singly (all of Classes)
   PairClasses,     \* value classes used in pairs
   PairTails,       \* tail shapes used with pairs
   PatchClasses,    \* value classes used on /patch
   LLTails,         \* tail shapes used with the low-latency pair (chunkdur, ato)
   EarlyClasses,    \* value classes used singly at the instants around the stream start
   EarlyPairClasses,\* value classes used in pairs at the instants around the stream start
   EarlyTails,      \* tail shapes used at the instants around the stream start
   TripleClasses,   \* value classes used in the selected triples
   TripleTails,     \* tail shapes used with the selected triples
   SeqMethods       \* upload methods used for the receiver sequences

VARIABLE r

Req(srv, ep, method, parts, asset, tail, query, body) ==
   [srv |-> srv, ep |-> ep, method |-> method, parts |-> parts, asset |-> asset, tail |-> tail, query |-> query,
    body |-> body]

KeySeq == <<"start", "ast", "stop", "startrel", "stoprel", "dur", "init", "tsbd", "mup", "periods", "xlink", "etp",
            "etpDuration", "peroff", "scte35", "snr", "ltgt", "spd", "timesubsdur", "timesubsreg", "patch",
            "timeoffset", "chunkdur", "ato",
            "tfdt", "cont", "insertad", "continuous", "segtimeline", "segtimelinenr", "sidx", "segtimelineloss",
            "utc", "timesubsstpp", "timesubswvtt", "statuscode", "traffic", "annexI", "drm", "eccp", "modulo", "zzz">>
ASSUME SeqSet(KeySeq) = Keys /\ Len(KeySeq) = Cardinality(Keys)
NK == Len(KeySeq)

\* --- /livesim2, one parameter, every tail; unknown / missing asset with the tails that make sense there
LiveSingle ==
   \/ \E k \in Keys, c \in SingleClasses, t \in LiveTails :
         r = Req("plain", "livesim2", "GET", <<Part(k, c)>>, "known", t, "now_ok", "none")
   \/ \E k \in Keys, c \in SingleClasses, t \in {"mpd", "vnum"} :
         r = Req("plain", "livesim2", "GET", <<Part(k, c)>>, "unknown", t, "now_ok", "none")
   \/ \E k \in Keys, c \in SingleClasses :
         r = Req("plain", "livesim2", "GET", <<Part(k, c)>>, "none", "mpd", "now_ok", "none")

\* --- /livesim2, two parameters with different keys (URL order = KeySeq order)
LivePairs ==
   \E i \in 1..NK, j \in 1..NK, c1 \in PairClasses, c2 \in PairClasses, t \in PairTails :
      /\ i < j
      /\ r = Req("plain", "livesim2", "GET", <<Part(KeySeq[i], c1), Part(KeySeq[j], c2)>>, "known", t, "now_ok", "none")

\* --- low-latency mode: chunkdur x ato over ALL classes (chunk duration = segment duration - ato)
LiveLL ==
   \E c1 \in SingleClasses, c2 \in SingleClasses, t \in LLTails :
      r = Req("plain", "livesim2", "GET", <<Part("chunkdur", c1), Part("ato", c2)>>, "known", t, "now_ok", "none")

\* --- instants around the start of the stream (query = instant class): nothing / one segment / a few segments exist
Instants == {"t_start", "t_first", "t_early"}
LiveEarly ==
   \/ \E t \in EarlyTails, q \in Instants : r = Req("plain", "livesim2", "GET", <<>>, "known", t, q, "none")
   \/ \E k \in Keys, c \in EarlyClasses, t \in EarlyTails, q \in Instants :
         r = Req("plain", "livesim2", "GET", <<Part(k, c)>>, "known", t, q, "none")
   \/ \E i \in 1..NK, j \in 1..NK, c1 \in EarlyPairClasses, c2 \in EarlyPairClasses, t \in EarlyTails, q \in Instants :
         /\ i < j
         /\ r = Req("plain", "livesim2", "GET", <<Part(KeySeq[i], c1), Part(KeySeq[j], c2)>>, "known", t, q, "none")

\* --- selected triples: parameters that interact through the timeline (start/stop/periods, start number and
\*     status-code cycles, multi-period timelines), at a late and at an early instant
TripleKeys == {<<"start", "stop", "periods">>, <<"start", "snr", "statuscode">>, <<"start", "periods", "segtimelinenr">>,
               <<"start", "periods", "segtimeline">>, <<"stop", "periods", "segtimelinenr">>, <<"snr", "chunkdur", "ato">>}
LiveTriple ==
   \E ks \in TripleKeys, c1 \in TripleClasses, c2 \in TripleClasses, c3 \in TripleClasses, t \in TripleTails,
      q \in {"now_ok", "t_early"} :
         r = Req("plain", "livesim2", "GET", <<Part(ks[1], c1), Part(ks[2], c2), Part(ks[3], c3)>>, "known", t, q, "none")

\* --- /livesim2 without parameters: every server configuration, method, query shape
LiveQueries == {"now_ok", "now_none", "now_bad", "now_neg", "now_huge", "now_zero", "nowdate_ok", "nowdate_bad",
                "pubtime_bad", "pt_ok", "extra"}
LiveBare ==
   \/ \E s \in {"plain", "drm", "limit"}, m \in {"GET", "HEAD", "POST", "OPTIONS", "PUT", "DELETE"}, t \in LiveTails :
         r = Req(s, "livesim2", m, <<>>, "known", t, "now_ok", "none")
   \/ \E a \in {"known", "unknown", "none"}, t \in LiveTails, q \in LiveQueries :
         r = Req("plain", "livesim2", "GET", <<>>, a, t, q, "none")
   \/ \E k \in Keys, c \in {"nonnum", "zero", "typical"}, t \in {"mpd", "vnum", "unk_rep"} :
         r = Req("plain", "livesim2", "HEAD", <<Part(k, c)>>, "known", t, "now_ok", "none")
   \* DRM-related keys on the server with a DRM configuration
   \/ \E k \in {"drm", "eccp", "chunkdur"}, c \in SingleClasses, t \in LiveTails :
         r = Req("drm", "livesim2", "GET", <<Part(k, c)>>, "known", t, "now_ok", "none")

\* --- /patch
PatchQueries == {"pt_ok", "pt_none", "pt_bad", "pt_future", "pt_same", "pt_only"}
PatchReqs ==
   \/ \E a \in {"known", "unknown", "none"}, t \in {"mpp", "mpd", "vnum"}, q \in PatchQueries :
         r = Req("plain", "patch", "GET", <<>>, a, t, q, "none")
   \/ \E k \in Keys, c \in PatchClasses, q \in {"pt_ok", "pt_none"} :
         r = Req("plain", "patch", "GET", <<Part(k, c)>>, "known", "mpp", q, "none")

\* --- /urlgen
UrlgenKeys == Keys \ {"ast", "dur", "init", "xlink", "etp", "etpDuration", "peroff", "modulo", "tfdt", "cont", "insertad",
                      "segtimeline", "segtimelinenr", "sidx", "segtimelineloss", "timeoffset", "eccp"}
UrlgenReqs ==
   \/ \E s \in {"plain", "drm"}, k \in UrlgenKeys, c \in SingleClasses, a \in {"known", "unknown", "none"} :
         r = Req(s, "urlgen_create", "GET", <<Part(k, c)>>, a, "create", "none", "none")
   \/ \E s \in {"plain", "drm"}, a \in {"known", "unknown", "none"} :
         r = Req(s, "urlgen_create", "GET", <<>>, a, "create", "none", "none")
   \/ \E s \in {"plain", "drm"}, ep \in {"urlgen_mpds", "urlgen_drms"}, a \in {"known", "unknown", "none"} :
         r = Req(s, ep, "GET", <<>>, a, "list", "none", "none")

\* --- the remaining GET endpoints of livesim2
MiscTails == {"urlgen", "urlgen_other", "assets", "vod_root", "vod_file", "reqcount", "healthz", "config", "version",
              "metrics", "favicon.ico", "index", "static", "nopath", "redirect", "debug"}
MiscReqs ==
   \E s \in {"plain", "limit"}, m \in {"GET", "HEAD", "OPTIONS", "DELETE"}, a \in {"known", "unknown"}, t \in MiscTails,
      q \in {"none", "now_ok"} :
         r = Req(s, "misc", m, <<>>, a, t, q, "none")

\* --- POST license requests
LaurlBodies == {"empty", "notjson", "json_nokids", "kids_empty", "kid_ok", "kid_wronglen", "kid_noprefix", "kid_badb64",
                "kids_many", "kids_notarray"}
LaurlReqs ==
   \E s \in {"plain", "drm"}, t \in {"live_eccp", "root_eccp", "not_eccp"}, b \in LaurlBodies :
      r = Req(s, "laurl", "POST", <<>>, "none", t, "none", b)

\* --- /api/cmaf-ingests
ApiBodies == {"empty", "notjson", "json_empty", "valid_unreach", "url_empty", "url_noslash", "url_space",
              "url_unknown_asset", "url_badcfg", "url_segment", "url_unknown_mpd", "dur_neg", "dur_zero", "dur_huge",
              "nowms_neg", "wrong_types"}
ApiIds == {"id_nonnum", "id_neg", "id_huge", "id_long", "id_unknown", "id_known"}
ApiReqs ==
   \/ \E b \in ApiBodies : r = Req("plain", "api", "POST", <<>>, "none", "create", "none", b)
   \/ \E t \in {"get", "step"}, q \in ApiIds : r = Req("plain", "api", "GET", <<>>, "none", t, q, "none")
   \/ \E q \in ApiIds : r = Req("plain", "api", "DELETE", <<>>, "none", "delete", q, "none")
   \/ \E m \in {"GET", "POST"} : r = Req("plain", "api", m, <<>>, "none", "docs", "none", "none")

\* --- CMAF-ingest receiver: method x path shape x body shape x Content-Length shape
RcvTails  == {"seg", "streams", "mpd", "badext", "nochan", "deep", "prefix_only", "outside", "emptytrack", "audio", "text",
              "meta", "weird"}
RcvBodies == {"empty", "size0", "size1", "size2", "size3", "size4", "size5", "size6", "size7", "size_gt", "size_wrap",
              "junk", "moof_no_traf", "moof_empty", "moov_empty", "moov_junk", "ftyp_only", "mdat_only", "media_valid",
              "init_then_media", "init_valid", "init_truncated", "media_truncated", "two_media", "init_plus_media"}
\* text bodies only where the receiver does not parse boxes (MPD upload): a text body sent to a segment path is read
\* as a box of ~1.7 GB ("<?xm", "hell") and makes the parser allocate that much - excluded here on purpose
RcvTextBodies == {"mpd_xml", "text"}
RcvCls    == {"cl_ok", "cl_none", "cl_small", "cl_big", "cl_neg", "cl_nonnum", "cl_huge"}
RcvReqs ==
   \/ \E m \in {"PUT", "POST"}, t \in RcvTails, b \in RcvBodies : r = Req("rcv", "rcv", m, <<>>, "none", t, "cl_ok", b)
   \/ \E t \in {"seg", "streams", "mpd"}, c \in RcvCls, b \in RcvBodies : r = Req("rcv", "rcv", "PUT", <<>>, "none", t, c, b)
   \/ \E m \in {"DELETE", "GET", "HEAD", "OPTIONS"}, t \in RcvTails : r = Req("rcv", "rcv", m, <<>>, "none", t, "cl_none", "empty")
   \/ \E s \in {"rcv", "rcvraw"}, m \in {"PUT", "POST"}, c \in RcvCls, b \in RcvTextBodies :
         r = Req(s, "rcv", m, <<>>, "none", "mpd", c, b)
   \/ \E m \in {"PUT", "GET"}, t \in {"seg", "streams", "mpd", "badext"}, c \in {"cl_ok", "cl_none", "cl_huge"}, b \in RcvBodies :
         r = Req("rcvraw", "rcv", m, <<>>, "none", t, c, b)

\* --- receiver upload SEQUENCES on one channel: a malformed / refused init segment followed by well-formed media of the
\*     same and of other tracks, before and after the channel start, on shifted and unshifted channels
BadInits == {"init_valid", "moov_empty", "moov_junk", "ftyp_only", "init_truncated", "no_stsd", "no_stbl", "no_minf", "no_mdia",
             "no_mdhd", "no_hdlr", "no_tkhd", "no_trak", "no_mvhd", "no_mvex", "no_trex", "zero_mdhd_ts", "zero_mvhd_ts",
             "stsd_empty"}
SeqShapes == {"bad_media", "vinit_bad_vmedia", "started_bad_media", "bad_good_media", "badvideo_other"}
RcvSeqReqs ==
   \E m \in SeqMethods, t \in SeqShapes, k \in {"shifted", "unshifted"}, b \in BadInits :
      r = Req("rcv", "rcvseq", m, <<>>, "none", t, k, b)

WithCtx(q) == q @@ [ctx |-> CtxOf(q.ep, q.tail, q.parts)]

Init == LiveSingle \/ LivePairs \/ LiveLL \/ LiveEarly \/ LiveTriple \/ LiveBare \/ PatchReqs \/ UrlgenReqs \/ MiscReqs \/ LaurlReqs \/ ApiReqs \/ RcvReqs \/ RcvSeqReqs
Next == UNCHANGED r
Spec == Init /\ [][Next]_r

TypeOK == /\ Len(r.parts) <= 3
          /\ \A i \in DOMAIN r.parts : r.parts[i].k \in Keys /\ r.parts[i].c \in Classes
          /\ r.method \in {"GET", "HEAD", "POST", "PUT", "DELETE", "OPTIONS"}
          /\ r.asset \in {"known", "unknown", "none"}
          /\ (r.ep = "livesim2" /\ r.asset = "known") => r.tail \in LiveTails
Sane == OracleSane(WithCtx(r))
Emit == PrintT("GEN" \o ToJson(r))
=============================================================================

---------------------------- MODULE UrlSpace ----------------------------
(* (M/R) for C08: the abstract request space. TLC enumerates it - every (key, class) singly with every tail shape,
   every pair of (key, class) x (key, class) over PairClasses with every tail of PairTails, plus the other
   endpoints - checks the sanity of the oracle on every element (invariant Sane) and prints each element as one
   JSON line (prefix GEN) that harness/drive/c08 turns into concrete requests.                              *)
EXTENDS UrlSpaceOps, TLC, Json

CONSTANTS
   SingleClasses,   \* value classes used singly (all of Classes)
   PairClasses,     \* value classes used in pairs
   PairTails,       \* tail shapes used with pairs
   PatchClasses     \* value classes used on /patch

VARIABLE r

Req(srv, ep, method, parts, asset, tail, query, body) ==
   [srv |-> srv, ep |-> ep, method |-> method, parts |-> parts, asset |-> asset, tail |-> tail, query |-> query,
    body |-> body]

KeySeq == <<"start", "ast", "stop", "startrel", "stoprel", "dur", "init", "tsbd", "mup", "periods", "xlink", "etp",
            "etpDuration", "peroff", "scte35", "snr", "ltgt", "spd", "timesubsdur", "timesubsreg", "patch",
            "timeoffset", "chunkdur", "ato",
            "tfdt", "cont", "insertad", "continuous", "segtimeline", "segtimelinenr", "sidx", "segtimelineloss",
            "utc", "timesubsstpp", "timesubswvtt", "statuscode", "traffic", "annexI", "drm", "eccp", "modulo", "zzz">>
ASSUME SeqSet(KeySeq) = Keys /\ Len(KeySeq) = Cardinality(Keys)

Parts(cls) == {Part(k, c) : k \in Keys, c \in cls}

\* --- /livesim2, one parameter, every tail; unknown / missing asset with the tails that make sense there
LiveSingle ==
   {Req("plain", "livesim2", "GET", <<p>>, "known", t, "now_ok", "none") : p \in Parts(SingleClasses), t \in LiveTails}
   \cup {Req("plain", "livesim2", "GET", <<p>>, "unknown", t, "now_ok", "none") : p \in Parts(SingleClasses), t \in {"mpd", "vnum"}}
   \cup {Req("plain", "livesim2", "GET", <<p>>, "none", "mpd", "now_ok", "none") : p \in Parts(SingleClasses)}

\* --- /livesim2, two parameters with different keys (URL order = KeySeq order)
IdxPairs == {ij \in (1..Len(KeySeq)) \X (1..Len(KeySeq)) : ij[1] < ij[2]}
LivePairs ==
   {Req("plain", "livesim2", "GET", <<Part(KeySeq[ij[1]], c1), Part(KeySeq[ij[2]], c2)>>, "known", t, "now_ok", "none") :
       ij \in IdxPairs, c1 \in PairClasses, c2 \in PairClasses, t \in PairTails}

\* --- /livesim2 without parameters: every server configuration, method, query shape
LiveQueries == {"now_ok", "now_none", "now_bad", "now_neg", "now_huge", "now_zero", "nowdate_ok", "nowdate_bad",
                "pubtime_bad", "pt_ok", "extra"}
LiveBare ==
   {Req(s, "livesim2", m, <<>>, "known", t, "now_ok", "none") :
        s \in {"plain", "drm", "limit"}, m \in {"GET", "HEAD", "POST", "OPTIONS", "PUT", "DELETE"}, t \in LiveTails}
   \cup {Req("plain", "livesim2", "GET", <<>>, a, t, q, "none") : a \in {"known", "unknown", "none"}, t \in LiveTails, q \in LiveQueries}
   \cup {Req("plain", "livesim2", "HEAD", <<p>>, "known", t, "now_ok", "none") :
             p \in Parts({"nonnum", "zero", "typical"}), t \in {"mpd", "vnum", "unk_rep"}}
   \* DRM-related keys on the server with a DRM configuration
   \cup {Req("drm", "livesim2", "GET", <<p>>, "known", t, "now_ok", "none") :
             p \in {Part(k, c) : k \in {"drm", "eccp", "chunkdur"}, c \in SingleClasses}, t \in LiveTails}

\* --- /patch
PatchQueries == {"pt_ok", "pt_none", "pt_bad", "pt_future", "pt_same", "pt_only"}
PatchReqs ==
   {Req("plain", "patch", "GET", <<>>, a, t, q, "none") : a \in {"known", "unknown", "none"}, t \in {"mpp", "mpd", "vnum"}, q \in PatchQueries}
   \cup {Req("plain", "patch", "GET", <<p>>, "known", "mpp", q, "none") : p \in Parts(PatchClasses), q \in {"pt_ok", "pt_none"}}

\* --- /urlgen
UrlgenKeys == Keys \ {"ast", "dur", "init", "xlink", "etp", "etpDuration", "peroff", "modulo", "tfdt", "cont", "insertad",
                      "segtimeline", "segtimelinenr", "sidx", "segtimelineloss", "timeoffset", "eccp"}
UrlgenReqs ==
   {Req(s, "urlgen_create", "GET", <<p>>, a, "create", "none", "none") :
        s \in {"plain", "drm"}, p \in {Part(k, c) : k \in UrlgenKeys, c \in SingleClasses}, a \in {"known", "unknown", "none"}}
   \cup {Req(s, "urlgen_create", "GET", <<>>, a, "create", "none", "none") : s \in {"plain", "drm"}, a \in {"known", "unknown", "none"}}
   \cup {Req(s, e, "GET", <<>>, a, "list", "none", "none") :
             s \in {"plain", "drm"}, e \in {"urlgen_mpds", "urlgen_drms"}, a \in {"known", "unknown", "none"}}

\* --- the remaining GET endpoints of livesim2
MiscTails == {"urlgen", "urlgen_other", "assets", "vod_root", "vod_file", "reqcount", "healthz", "config", "version",
              "metrics", "favicon.ico", "index", "static", "nopath", "redirect", "debug"}
MiscReqs ==
   {Req(s, "misc", m, <<>>, a, t, q, "none") :
        s \in {"plain", "limit"}, m \in {"GET", "HEAD", "OPTIONS", "DELETE"}, a \in {"known", "unknown"}, t \in MiscTails,
        q \in {"none", "now_ok"}}

\* --- POST license requests
LaurlBodies == {"empty", "notjson", "json_nokids", "kids_empty", "kid_ok", "kid_wronglen", "kid_noprefix", "kid_badb64",
                "kids_many", "kids_notarray"}
LaurlReqs == {Req(s, "laurl", "POST", <<>>, "none", t, "none", b) :
                  s \in {"plain", "drm"}, t \in {"live_eccp", "root_eccp", "not_eccp"}, b \in LaurlBodies}

\* --- /api/cmaf-ingests
ApiBodies == {"empty", "notjson", "json_empty", "valid_unreach", "url_empty", "url_noslash", "url_space",
              "url_unknown_asset", "url_badcfg", "url_segment", "url_unknown_mpd", "dur_neg", "dur_zero", "dur_huge",
              "nowms_neg", "wrong_types"}
ApiIds == {"id_nonnum", "id_neg", "id_huge", "id_long", "id_unknown", "id_known"}
ApiReqs ==
   {Req("plain", "api", "POST", <<>>, "none", "create", "none", b) : b \in ApiBodies}
   \cup {Req("plain", "api", "GET", <<>>, "none", t, q, "none") : t \in {"get", "step"}, q \in ApiIds}
   \cup {Req("plain", "api", "DELETE", <<>>, "none", "delete", q, "none") : q \in ApiIds}
   \cup {Req("plain", "api", m, <<>>, "none", "docs", "none", "none") : m \in {"GET", "POST"}}

\* --- CMAF-ingest receiver: method x path shape x body shape x Content-Length shape
RcvTails  == {"seg", "streams", "mpd", "badext", "nochan", "deep", "prefix_only", "outside", "emptytrack", "audio", "text",
              "meta", "weird"}
RcvBodies == {"empty", "size0", "size1", "size2", "size3", "size4", "size5", "size6", "size7", "size_gt", "size_wrap",
              "junk", "moof_no_traf", "moof_empty", "moov_empty", "moov_junk", "ftyp_only", "mdat_only", "media_valid",
              "init_then_media", "init_valid", "init_truncated", "media_truncated", "two_media", "init_plus_media",
              "mpd_xml", "text"}
RcvCls    == {"cl_ok", "cl_none", "cl_small", "cl_big", "cl_neg", "cl_nonnum", "cl_huge"}
RcvReqs ==
   {Req("rcv", "rcv", m, <<>>, "none", t, "cl_ok", b) : m \in {"PUT", "POST"}, t \in RcvTails, b \in RcvBodies}
   \cup {Req("rcv", "rcv", "PUT", <<>>, "none", t, c, b) : t \in {"seg", "streams", "mpd"}, c \in RcvCls, b \in RcvBodies}
   \cup {Req("rcv", "rcv", m, <<>>, "none", t, "cl_none", "empty") : m \in {"DELETE", "GET", "HEAD", "OPTIONS"}, t \in RcvTails}
   \cup {Req("rcvraw", "rcv", m, <<>>, "none", t, c, b) :
             m \in {"PUT", "GET"}, t \in {"seg", "streams", "mpd", "badext"}, c \in {"cl_ok", "cl_none", "cl_huge"}, b \in RcvBodies}

Secondary == PatchReqs \cup UrlgenReqs \cup MiscReqs \cup LaurlReqs \cup ApiReqs \cup RcvReqs
Requests == LiveSingle \cup LivePairs \cup LiveBare \cup Secondary

WithCtx(q) == [q EXCEPT !.parts = q.parts] @@ [ctx |-> CtxOf(q.ep, q.tail, q.parts)]

Init == r \in Requests
Next == UNCHANGED r
Spec == Init /\ [][Next]_r

TypeOK == /\ r.parts \in Seq([k : Keys, c : Classes]) /\ Len(r.parts) <= 2
          /\ r.method \in {"GET", "HEAD", "POST", "PUT", "DELETE", "OPTIONS"}
          /\ r.asset \in {"known", "unknown", "none"}
          /\ (r.ep = "livesim2" /\ r.asset = "known") => r.tail \in LiveTails
Sane == OracleSane(WithCtx(r))
Emit == PrintT("GEN" \o ToJson(r))
=============================================================================

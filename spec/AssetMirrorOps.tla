-------------------------- MODULE AssetMirrorOps --------------------------
(* ORACLE of the extra specification X05 - asset mirroring (dashfetcher) and asset loading (livesim2).

   PROPERTY TEXT (what the check is held to; written from README.md "Content", "dashfetcher tool", the dashfetcher usage text
   "downloads a DASH VoD asset and stores all files in an output directory", the flag help "-f/--force  force overwrite of
   existing files", and the comments / log messages of cmd/dashfetcher/app/fetcher.go and cmd/livesim2/app/asset.go; never stronger):

   (A) dashfetcher.  "That tool can be used to download the MPD and all segments of a DASH VoD asset."  "Currently it supports
       MPDs with SegmentTimeline with $Time$ and SegmentTemplate with $Number$.  The assets must have no explicit <BaseURL>
       elements to work properly."  "Files already downloaded will not be downloaded again, unless -f/--force is used."  The
       result is "a locally stored DASH VoD asset ... with an MPD ... and the segments stored in subdirectories named after their
       relative URLs.  The download URL is added to a file mpdlist.json".  main() exits 1 when Fetch returns an error.
       For an MPD URL on an HTTP origin and an output directory:
       X05.nocrash  Fetch returns (a result or an error); it does not panic.
       X05.all      supported MPD (static or no @type, no BaseURL, every Representation addressed by SegmentTemplate $Number$ with
                    @duration or by SegmentTimeline with $Time$), origin answering every request correctly: Fetch returns no error and
                    the MPD, the initialization segment and every media segment the MPD references (numbers startNumber ..
                    startNumber+ceil(PeriodDuration/@duration)-1, resp. the times of the timeline; $RepresentationID$ / $Bandwidth$
                    substituted; SegmentTemplate on AdaptationSet or Representation level) are in the output directory under the
                    same relative paths.
       X05.ident    every file in the output directory that has a counterpart on the origin is byte-identical to it - or, without
                    --force, is the unchanged faithful copy an earlier run downloaded ("will not be downloaded again").  In
                    particular a failed or interrupted download never leaves a file that differs from the origin's (a later run
                    would skip it as "already downloaded").
       X05.only     nothing else is stored: every file is the MPD, mpdlist.json, a referenced file, or the one segment number
                    beyond the computed count that fetcher.go tries deliberately ("Try one more to avoid rounding problems").
       X05.report   an origin failure (status >= 400, connection dropped, body shorter than announced, no answer within the time
                    limit) for the MPD makes Fetch return an error naming the URL; for a referenced file it is reported: the returned
                    error or a log record of level WARN or higher names the URL.  (The weakest reading of "slog.Warn(download
                    file, error)"; whether Fetch should also return an error is left open - counted, not judged.)
       X05.skip     without --force a file that an earlier run downloaded faithfully is not requested again.
       X05.once     without --force no URL is downloaded successfully twice in one run.
       X05.force    with --force every referenced file that exists in the output directory is requested again (and, by X05.ident,
                    ends up identical to the origin's current file).
       X05.mpdlist  after a successful download of the MPD, mpdlist.json holds {name: MPD name, originURI: the download URL}.
       Unsupported MPDs (BaseURL, SegmentTimeline with $Number$, $Number$ without @duration, dynamic): only X05.nocrash, X05.ident,
       X05.only, X05.skip are demanded.

   (B) loading.  "The content must be a DASH VoD asset in isoff-live format (individual segment files) with either
       SegmentTimeline with $Time$ or SegmentTemplate with $Number$. ... The total duration must be an integral number of
       milliseconds. ... The input audio segment do not need to follow the duration of the video segments."  "One can have multiple
       MPDs in the same asset directory and they may share some representations."  "livesim2 will scan all the segments of all
       representations" ; asset.go: "discoverAssets walks the file tree and finds all directories containing MPD files",
       "Asset loading problem. Skipping", "Asset consolidation problem. Skipping", "Loop until we cannot find more files",
       "This is not an integral number of milliseconds, so we should drop this asset", "SegmentTimeline with $Number$ not yet
       supported", "segmentTemplate on Representation level. Only supported on AdaptationSet level"; handler_vod.go: "handles static
       files in tree starting at vodRoot".
       For every directory tree with at least one loadable asset:
       X05.survive  SetupServer returns a server (no error, no panic) whatever else lies in the tree.
       X05.accept   an (asset, MPD) that fulfils the Content requirements is listed (GET /assets).
       X05.refuse   an (asset, MPD) whose files cannot be served as the MPD describes (missing / empty / corrupt initialization or
                    media file, no files at all, unreadable or unsupported MPD, non-integral loop duration) is not listed, or - where
                    asset.go documents it ("until we cannot find more files") - is listed with the shorter run of intact $Number$ files.
       X05.meta     what is listed agrees with the files: loop duration = total video duration (ms); the live MPD is served;
                    its $Number$ SegmentTemplate announces the exact average video segment duration; the video initialization
                    segment has the files' timescale; consecutive live video segments carry the payload and the duration of the VoD
                    files 1..N cyclically and their decode times advance by exactly those durations; audio segments are served.
       X05.logged   an (asset, MPD) that was damaged and is not listed is named in a WARN (or higher) log record of the start.
       X05.vod      /vod/<path> returns the file's bytes for every file below vodRoot and 404 for paths that do not exist.
       A mirror produced by (A) from a supported MPD on a correct origin is an asset like any other: it must load with the
       metadata of its origin (same clauses, role "mirror").                                                                    *)
EXTENDS Integers, Sequences, FiniteSets

ToSet(s) == { s[i] : i \in DOMAIN s }
Max(a, b) == IF a > b THEN a ELSE b

\* ------------------------------------------------------------------ shapes (abstract MPDs)
VModes == {"numdur", "numnodur", "timetl", "numtl"}
AModes == {"none", "numdur", "numnodur", "timetl"}
NumberMode(m) == m \in {"numdur", "numnodur"}

\* README "dashfetcher tool": what the tool claims to support
FetchSupported(sh) == /\ sh.v \in {"numdur", "timetl"} /\ sh.a \in {"none", "numdur", "timetl"}
                      /\ sh.base = "none" /\ sh.typ # "dynamic"

\* ------------------------------------------------------------------ (A) clauses over one run
\* refs, onemore: sets of relative paths; origin, files, prev: sets of <<path, digest>>; good: set of paths;
\* reqs: sequence of <<path, status, fault, complete>> (complete = 1 when the whole body was sent)
Paths(pairs) == { x[1] : x \in pairs }
DigOf(pairs, p) == LET S == { x \in pairs : x[1] = p } IN IF S = {} THEN "" ELSE (CHOOSE x \in S : TRUE)[2]
Requested(reqs) == { reqs[i][1] : i \in DOMAIN reqs }
Healthy(rq) == rq[2] = 200 /\ rq[4] = 1
\* a path failed in a run when a request for it failed and no request for it succeeded (net/http transparently repeats a GET
\* whose connection was closed before any response byte: the repetition is the client's business)
FailedPaths(reqs) == { reqs[i][1] : i \in { j \in DOMAIN reqs : ~Healthy(reqs[j]) } } \ { reqs[i][1] : i \in { j \in DOMAIN reqs : Healthy(reqs[j]) } }

AllowedFiles(mpd, refs, onemore) == refs \cup onemore \cup {mpd, "mpdlist.json"}

\* X05.only
OnlyBad(files, prev, mpd, refs, onemore) == { f \in files : f[1] \notin AllowedFiles(mpd, refs, onemore) /\ f \notin prev }
\* X05.ident
IdentBad(files, origin, prev, good, force) ==
   { f \in files : /\ f[1] \in Paths(origin)
                   /\ f[2] # DigOf(origin, f[1])
                   /\ ~(~force /\ f[1] \in good /\ f \in prev) }
\* X05.all
Missing(files, mpd, refs) == (refs \cup {mpd}) \ Paths(files)
\* X05.report: failures on the MPD or on referenced files that are neither named in the error nor in a warning
Unreported(reqs, mpd, refs, named, warned) ==
   { p \in FailedPaths(reqs) \cap (refs \cup {mpd}) : IF p = mpd THEN p \notin named ELSE p \notin (named \cup warned) }
\* X05.skip
Refetched(reqs, good) == Requested(reqs) \cap good
\* X05.once
Twice(reqs) == { p \in Requested(reqs) : Cardinality({ i \in DOMAIN reqs : reqs[i][1] = p /\ Healthy(reqs[i]) }) > 1 }
\* X05.force
NotRefetched(reqs, refs, prev) == (refs \cap Paths(prev)) \ Requested(reqs)
\* the files of this run that are faithful copies (state carried to the next run)
GoodAfter(files, origin, prev, good, force) ==
   { f[1] : f \in { g \in files : g[1] \in Paths(origin) /\ (g[2] = DigOf(origin, g[1]) \/ (~force /\ g[1] \in good /\ g \in prev)) } }

\* ------------------------------------------------------------------ (B) accepted outcomes of loading one (asset, MPD)
\* d = [vmode, amode, typ, lvl, base, lay, kind, rep, pos, how, k, n0, nfiles, vts, durs, pay, audio]
\*   kind: none | seg | init | extra | nofiles | mpd | norep ; k: 1-based index of the damaged segment (0: none)
\*   n0: number of video segments the MPD declares; nfiles: number of consecutive intact video files; durs/pay: per video file
Refuse == <<"refuse", 0>>
List(n) == <<"list", n>>
ShapeRefused(d) == d.typ = "dynamic" \/ d.lvl = "rep" \/ d.vmode = "numtl" \/ d.lay = "nonint"
ShapeEither(d)  == d.typ = "absent" \/ d.base # "none"   \* DASH default for @type is static; BaseURL is not mentioned for loading
Accepted(d) ==
   IF ShapeRefused(d) THEN {Refuse}
   ELSE LET byFiles ==
              CASE d.kind = "none"    -> {List(d.n0)}
                [] d.kind = "extra"   -> IF NumberMode(d.vmode) THEN {List(d.n0), List(d.n0 + 1)} ELSE {List(d.n0)}
                [] d.kind = "seg"     -> LET mode == IF d.rep = "v" THEN d.vmode ELSE d.amode
                                         IN {Refuse} \cup (IF NumberMode(mode) /\ d.k > 1 /\ d.how = "missing"
                                                           THEN {List(IF d.rep = "v" THEN d.k - 1 ELSE d.n0)} ELSE {})
                [] OTHER              -> {Refuse}          \* init, nofiles, mpd, norep
        IN IF ShapeEither(d) THEN byFiles \cup {Refuse} ELSE byFiles
MustList(d)   == Refuse \notin Accepted(d)
MustRefuse(d) == Accepted(d) = {Refuse}
ListNs(d) == { o[2] : o \in { x \in Accepted(d) : x[1] = "list" } }

RECURSIVE SumTo(_, _)
SumTo(s, n) == IF n = 0 THEN 0 ELSE s[n] + SumTo(s, n - 1)
RECURSIVE GCD(_, _)
GCD(a, b) == IF b = 0 THEN a ELSE GCD(b, a % b)
\* total/ts seconds as integral milliseconds, -1 if not integral (32-bit safe for ts a multiple of 1000 or ts < 2*10^6)
MsOf(total, ts) == IF ts % 1000 = 0
                   THEN (IF total % (ts \div 1000) = 0 THEN total \div (ts \div 1000) ELSE -1)
                   ELSE LET q == total \div ts  r == total % ts
                        IN IF (1000 * r) % ts = 0 THEN 1000 * q + (1000 * r) \div ts ELSE -1
\* average duration of the first n segments in seconds as a reduced fraction <<num, den>>
AvgOf(durs, n, ts) == LET s == SumTo(durs, n)  den == n * ts  g == GCD(s, den) IN <<s \div g, den \div g>>
Cyc(s, n, num) == s[(num % n) + 1]

\* X05.meta for an outcome "list n": obs = [loop, mpdst, vdur, initst, initts, nums, st, dig, sdur, dt, aud]
MetaBad(d, n, obs) ==
   LET idx == DOMAIN obs.nums IN
   (IF obs.loop # MsOf(SumTo(d.durs, n), d.vts) THEN {"loop"} ELSE {})
   \cup (IF obs.mpdst # 200 THEN {"mpd"} ELSE {})
   \cup (IF obs.mpdst = 200 /\ obs.vdur # AvgOf(d.durs, n, d.vts) THEN {"segdur"} ELSE {})
   \cup (IF obs.mpdst = 200 /\ (obs.initst # 200 \/ obs.initts # d.vts) THEN {"init"} ELSE {})
   \cup (IF obs.mpdst = 200 /\ (Len(obs.nums) < n + 1 \/ \E i \in idx : obs.st[i] # 200) THEN {"segstatus"} ELSE {})
   \cup (IF \E i \in idx : obs.st[i] = 200 /\ obs.dig[i] # Cyc(d.pay, n, obs.nums[i]) THEN {"payload"} ELSE {})
   \cup (IF \E i \in idx : obs.st[i] = 200 /\ obs.dig[i] = Cyc(d.pay, n, obs.nums[i]) /\ obs.sdur[i] # Cyc(d.durs, n, obs.nums[i]) THEN {"duration"} ELSE {})
   \cup (IF \E i \in DOMAIN obs.dt : obs.dt[i] >= 0 /\ obs.dt[i] # Cyc(d.durs, n, obs.nums[i]) THEN {"decodetime"} ELSE {})
   \cup (IF \E i \in DOMAIN obs.aud : obs.aud[i] # 200 THEN {"audio"} ELSE {})
\* the listed outcome that fits best (fewest failing aspects); {} = some accepted outcome fits
BestMetaBad(d, obs) ==
   LET C == { MetaBad(d, n, obs) : n \in ListNs(d) }
   IN IF {} \in C THEN {} ELSE CHOOSE b \in C : \A c \in C : Cardinality(b) <= Cardinality(c)
=============================================================================

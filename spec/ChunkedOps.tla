---------------------------- MODULE ChunkedOps ----------------------------
(* ORACLE for C09 - "low-latency chunked delivery is the same media, never delivered early".

   One observation = one HTTP response of livesim2 in chunked mode (URL keys ato_<s> + chunkdur_<s>):
     calls   the list of Write/Flush calls on the ResponseWriter, each  [c |-> "w"|"f", us, pos, n]
             us  = monotonic offset from the request start in microseconds (rounded DOWN),
             pos = body bytes written before the call, n = bytes of the Write;
     chunks  the parse of the concatenated body: one record per moof/mdat pair
             [nstyp, seq, tfdtOff, dur, ns, off, end]  (styp boxes in front of the moof, mfhd sequence
             number, tfdt minus the first tfdt, sum of sample durations, number of samples, byte range);
     samples the sample sequence of the body  <<decode time - first tfdt, duration, flags, size, digest>>;
   plus the same URL fetched in whole-segment mode (the same keys without chunkdur_).

   Time.  The request's wall time is  nowMS + elapsed  (nowMS = the server's clock reading for the request,
   elapsed = monotonic time since the request start).  Both the server's clock readings and nowMS are
   truncated to milliseconds, so an observer cannot place a write more precisely than RESOLUTION = 2 ms
   relative to media time: C09.notearly accepts a write iff  nowMS + elapsed + 2 ms >= AST + chunkEnd.
   The tolerance is one-sided: a chunk written more than 2 ms before its end is always rejected; nothing is
   tolerated in the other direction because lateness is not restricted by the property (except C09.immediate,
   whose bound is deliberately loose: 250 ms + the "up to one sample" of the property text).

   Units.  rc = [TS, loopMS] (timescale of the requested representation, loop duration in ms).
   u = 1/(1000*TS) s: 1 tick = 1000 u, 1 ms = TS u.  Instants are pairs [w, r] over PR = loopMS*TS u.   *)
EXTENDS Integers, Sequences, LiveTimelineOps

\* ------------------------------------------------------------------ generic (unit-free) forms, shared with ChunkedImpl
\* C09.notearly: a write at observed time t of a chunk ending at e, resolution res
NotEarlyAt(t, e, res) == t + res >= e
\* C09.size: no chunk spans more than (segment duration - offset) + slack (slack = the "up to one sample")
SizeWithin(cdur, segdur, ato, slack) == cdur <= (segdur - ato) + slack
\* C09.immediate: answered within `bound` of the request
ImmediateWithin(elapsed, bound) == elapsed <= bound

RECURSIVE SumSeq(_, _)
SumSeq(s, n) == IF n = 0 THEN 0 ELSE SumSeq(s, n - 1) + s[n]
MaxOf(S) == CHOOSE x \in S : \A y \in S : y <= x
MinOf(S) == CHOOSE x \in S : \A y \in S : y >= x

\* ------------------------------------------------------------------ body structure
\* C09.styp: the first chunk carries the segment type box (when the whole segment has one), no other chunk does
StypOK(chunks, wholeHasStyp) ==
   /\ Len(chunks) >= 1
   /\ chunks[1].nstyp <= 1
   /\ (wholeHasStyp => chunks[1].nstyp = 1)
   /\ \A j \in 2..Len(chunks) : chunks[j].nstyp = 0
\* C09.order: chunk j+1 starts where chunk j ends; every chunk carries the segment's number and is not empty
OrderOK(chunks, seq) ==
   /\ Len(chunks) >= 1
   /\ chunks[1].tfdtOff = 0
   /\ \A j \in 1..(Len(chunks) - 1) : chunks[j + 1].tfdtOff = chunks[j].tfdtOff + chunks[j].dur
   /\ \A j \in 1..Len(chunks) : chunks[j].seq = seq /\ chunks[j].ns > 0
\* the byte ranges of the chunks tile the body (a box that is not styp/moof/mdat counts to the chunk that follows it)
RECURSIVE SumNs(_, _)
SumNs(chunks, n) == IF n = 0 THEN 0 ELSE SumNs(chunks, n - 1) + chunks[n].ns
TilesOK(chunks, blen, nsamples) ==
   /\ chunks[1].off = 0
   /\ \A j \in 1..(Len(chunks) - 1) : chunks[j + 1].off = chunks[j].end
   /\ chunks[Len(chunks)].end = blen
   /\ SumNs(chunks, Len(chunks)) = nsamples
\* C09.same: same first decode time and the same sequence of samples (offset, duration, flags, size, digest)
SameOK(tfdtC, samplesC, tfdtW, samplesW) == tfdtC = tfdtW /\ samplesC = samplesW
\* C09.size in ticks * 1000 (atoMS * TS = offset in ticks * 1000): slack = nslack samples of the longest duration
SizeOK(ch, segdur, atoMS, TS, maxSamp, nslack) ==
   SizeWithin(ch.dur * 1000, segdur * 1000, atoMS * TS, nslack * maxSamp * 1000)

\* ------------------------------------------------------------------ calls -> per-chunk instants
\* the Write call that delivered the first byte of the chunk (writes tile the body: exactly one)
FirstWriteUS(calls, ch) ==
   LET S == {j \in 1..Len(calls) : calls[j].c = "w" /\ calls[j].pos <= ch.off /\ ch.off < calls[j].pos + calls[j].n}
   IN IF S = {} THEN -1 ELSE calls[MinOf(S)].us
\* the first Flush after the last byte of the chunk was written; the return of the handler flushes as well
FlushUS(calls, ch, doneUS) ==
   LET S == {j \in 1..Len(calls) : calls[j].c = "f" /\ calls[j].pos >= ch.end}
   IN IF S = {} THEN doneUS ELSE calls[MinOf(S)].us
CallsTile(calls, blen) ==
   LET W == SelectSeq(calls, LAMBDA c : c.c = "w")
   IN /\ \A j \in 1..Len(W) : W[j].pos = (IF j = 1 THEN 0 ELSE W[j - 1].pos + W[j - 1].n)
      /\ (IF Len(W) = 0 THEN 0 ELSE W[Len(W)].pos + W[Len(W)].n) = blen
      /\ \A j \in 1..(Len(calls) - 1) : calls[j].us <= calls[j + 1].us

\* ------------------------------------------------------------------ wall clock versus media time (pairs over PR)
(* rc = [TS, loopMS].  Unit: 1/UPS s with UPS = lcm(TS, 10^6), so that ticks, microseconds and milliseconds are all
   whole numbers of units (no rounding anywhere); instants are pairs [w, r] over PR = one loop. *)
RECURSIVE GCD(_, _)
GCD(a, b) == IF b = 0 THEN a ELSE GCD(b, a % b)
UPS(rc)     == (rc.TS \div GCD(rc.TS, 1000000)) * 1000000
PerTick(rc) == UPS(rc) \div rc.TS
PerUS(rc)   == UPS(rc) \div 1000000
PerMS(rc)   == UPS(rc) \div 1000
PR(rc)      == rc.loopMS * PerMS(rc)
\* every intermediate value of the operators below stays below 2^31 (checked on each scenario header)
UnitsOK(rc) == rc.TS \div GCD(rc.TS, 1000000) < 2000 /\ PR(rc) < 1000000000
\* a chunk whose extent lies within one loop length (lticks = loop in ticks): its products cannot overflow
SaneChunk(ch, lticks) == ch.tfdtOff >= 0 /\ ch.dur >= 0 /\ ch.tfdtOff <= lticks /\ ch.dur <= lticks
MsU(rc, ms) == [w |-> ms \div rc.loopMS, r |-> (ms % rc.loopMS) * PerMS(rc)]          \* ms >= 0
UsU(rc, us) == TAdd(PR(rc), MsU(rc, us \div 1000), [w |-> 0, r |-> (us % 1000) * PerUS(rc)])   \* us >= 0
\* request instant now = <<w, r>>: ms relative to AST as pair over loopMS
NowU(rc, now) == [w |-> now[1], r |-> now[2] * PerMS(rc)]
\* observed instant of an event `us` microseconds after the request
ObsAtU(rc, now, us) == TAdd(PR(rc), NowU(rc, now), UsU(rc, us))
\* tick pair <<w, r>> over loopMS*TS/1000 ticks -> units
TickPairU(rc, tp) == [w |-> tp[1], r |-> tp[2] * PerTick(rc)]
\* end of a chunk relative to AST (media time 0 is availabilityStartTime); tfdt = first decode time of the body
ChunkEndU(rc, tfdt, ch) == TAdd(PR(rc), TickPairU(rc, tfdt), TNorm(PR(rc), 0, (ch.tfdtOff + ch.dur) * PerTick(rc)))
\* C09.notearly with pairs: chunkEnd <= observed + resolution
NotEarlyOK(rc, now, us, resUS, tfdt, ch) ==
   TLeq(ChunkEndU(rc, tfdt, ch), TAdd(PR(rc), ObsAtU(rc, now, us), UsU(rc, resUS)))
\* how long after its end the chunk was written (a pair; for statistics only)
LateU(rc, now, us, tfdt, ch) == TSub(PR(rc), ObsAtU(rc, now, us), ChunkEndU(rc, tfdt, ch))
\* C09.immediate: first chunk flushed within slack + nslack sample durations (rounded up to ms) of the request
SampleUSUp(maxSamp, TS) == ((maxSamp * 1000 + TS - 1) \div TS) * 1000
ImmediateOK(flushUS, slackUS, nslack, maxSamp, TS) == ImmediateWithin(flushUS, slackUS + nslack * SampleUSUp(maxSamp, TS))

\* ------------------------------------------------------------------ availability (C09.early / C09.served): the reference timeline
(* sc = LiveTimelineOps scenario of the asset's reference representation (its segment timeline is the asset's) with
   sc.ato = the ADVERTISED offset in ms; rcr = [TS |-> sc.TS, loopMS |-> sc.loopMS].  A segment is advertised as
   available from AST + End - ato.  Before: 425.  From then on and within the time-shift buffer: 200. *)
AvailRefU(sc, rcr, k, i) == TSub(PR(rcr), [w |-> End(sc, k, i).w, r |-> End(sc, k, i).r * PerTick(rcr)], MsU(rcr, sc.ato))
AllowedStatus(sc, rcr, k, i, now) ==
   LET n == NowU(rcr, now)
       a == AvailRefU(sc, rcr, k, i)
   IN IF n.w < 0 \/ TLt(n, a) THEN {425}
      ELSE IF TLeq(TSub(PR(rcr), n, a), MsU(rcr, sc.tsbd * 1000)) THEN {200}
      ELSE {200, 410}

\* ------------------------------------------------------------------ the splitting algorithm (explorer side, used by ChunkedImpl)
(* chunkSegment of livesegment.go: samples are appended to the current chunk; the chunk is closed as soon as the
   total duration reaches chunkDur * (number of the chunk).  Result: sequence of [ns, dur, pdur] where dur is the
   media duration of the chunk and pdur the duration the pacing loop adds for it (the code uses chunkDur for a
   trailing partial chunk). *)
RECURSIVE SplitFrom(_, _, _, _, _, _, _)
SplitFrom(durs, cd, j, nr, tot, cur, acc) ==
   \* j: next sample, nr: number of the open chunk, tot: total so far, cur = [ns, dur] of the open chunk
   IF j > Len(durs)
   THEN IF cur.ns > 0 THEN Append(acc, [ns |-> cur.ns, dur |-> cur.dur, pdur |-> cd]) ELSE acc
   ELSE LET t == tot + durs[j]
            c == [ns |-> cur.ns + 1, dur |-> cur.dur + durs[j]]
        IN IF t >= cd * nr
           THEN SplitFrom(durs, cd, j + 1, nr + 1, t, [ns |-> 0, dur |-> 0], Append(acc, [ns |-> c.ns, dur |-> c.dur, pdur |-> c.dur]))
           ELSE SplitFrom(durs, cd, j + 1, nr, t, c, acc)
Split(durs, cd) == SplitFrom(durs, cd, 1, 1, 0, [ns |-> 0, dur |-> 0], <<>>)
=============================================================================

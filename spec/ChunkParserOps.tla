---------------------------- MODULE ChunkParserOps ----------------------------
(* Oracle for C18, as pure operators over a stream description:
     boxes : sequence of [t |-> type, s |-> declared size] found by walking the stream from
             offset 0 (each s >= 8; the walk stops at the first header that is not complete
             or whose size is impossible),
     len   : number of bytes the reader delivers before end of input.
   The expected callbacks are a function of the stream only (C18.cuts). *)
EXTENDS Integers, Sequences, FiniteSets

RECURSIVE BoxStart(_, _)
BoxStart(boxes, i) == IF i = 1 THEN 0 ELSE BoxStart(boxes, i - 1) + boxes[i - 1].s
BoxEnd(boxes, i) == BoxStart(boxes, i) + boxes[i].s

\* ends of complete media-data boxes
MdatEnds(boxes, len) == { BoxEnd(boxes, i) : i \in { j \in 1..Len(boxes) : boxes[j].t = "mdat" /\ BoxEnd(boxes, j) <= len } }
\* all declared mdat ends, complete or not (for C18.prompt)
MdatEndsDeclared(boxes) == { BoxEnd(boxes, i) : i \in { j \in 1..Len(boxes) : boxes[j].t = "mdat" } }
SetMax(S) == CHOOSE x \in S : \A y \in S : y <= x
SetMin(S) == CHOOSE x \in S : \A y \in S : x <= y
\* C18.cuts: a callback ends at every complete mdat; trailing bytes are delivered once at end of input
CutSet(boxes, len) == LET m == MdatEnds(boxes, len) IN
                      IF len > 0 /\ (m = {} \/ SetMax(m) < len) THEN m \cup {len} ELSE m
\* the k-th cut (1-based) in increasing order
RECURSIVE NthMin(_, _)
NthMin(S, k) == IF k = 1 THEN SetMin(S) ELSE NthMin(S \ {SetMin(S)}, k - 1)
NCuts(boxes, len) == Cardinality(CutSet(boxes, len))
\* C18.init: positions at which a movie-box header is complete
MoovHdrEnds(boxes) == { BoxStart(boxes, i) + 8 : i \in { j \in 1..Len(boxes) : boxes[j].t = "moov" } }
InitExpected(boxes, cbEnd) == \E h \in MoovHdrEnds(boxes) : h <= cbEnd
\* C18.prompt: while the chunk starting at `base` is being read, no byte beyond the end of the
\* first media-data box that ends after `base` may be requested
PromptLimit(boxes, base) == LET later == { x \in MdatEndsDeclared(boxes) : x > base } IN
                            IF later = {} THEN -1 ELSE SetMin(later)
=============================================================================

---------------------------- MODULE ReceiverImpl ----------------------------
(* Explorer model of cmd/cmaf-ingest-receiver: segDataBuffer, seqCounters,
   segmentTimelineGenerator and the start-up logic of channel.receivedSegData, for an unshifted
   channel with equal master segment durations, driven sequentially (the (R) driver waits for the
   `process` event of every upload before it sends the next one).
   Go slice / uint32 behaviour is modelled explicitly (DESIGN A.6): arrays are sequences with a
   separate fill count, copy() is memmove over min(len) elements, an index or slice bound outside
   the array moves the model to the absorbing state panic = TRUE (the channel goroutine dies).
   Uniform result tuples <<"ok", x>>, <<"err">>, <<"PANIC">> (TLC cannot compare a record with a string).
   The properties are the C17 clauses on the explorer's abstraction (ReceiverOps); violations are
   DESIGN results - a verdict needs the replay of the history against the real handler.
   SHIFTED channels (encoder numbers != time / duration, off-grid times, startNr): the model stays unshifted.  For the
   buffers, counters and the timeline the shift is a RENAMING of the numbers (stored number = time / duration - startNr);
   the (R) driver replays the same histories on shifted channels, derives the renumbered name / time of every upload by
   its own arithmetic (harness/drive/c17/shift.go, the mapping of spec/ReceiverShiftOps.tla) and the trace spec
   evaluates every C17 clause on the renumbered values.  What the renaming does not cover (the segments stored before
   tune-in are forgotten by removeUnshifted) only makes the published range shorter; for those histories only
   "no panic / started" of the explorer's prediction is compared with the real outcome.
   The Fix* constants select the algorithm: all TRUE = the CURRENT code (after the fix commits named at
   the constants), all FALSE = the algorithm as originally written, kept for the documented design
   counterexamples (the ReceiverImpl_cex_... configs). *)
EXTENDS Integers, Sequences, FiniteSets, TLC, Json, ReceiverOps
CONSTANTS Tracks,        \* set of track names (strings)
          Master,        \* the first video track
          InitOrder,     \* sequence of the tracks whose init segment is uploaded before any media;
                         \* the other tracks are LATE: their init arrives at an arbitrary point
          ASOf,          \* [Tracks -> Nat] AdaptationSet of each track
          UploadSets,    \* set of [Tracks -> Seq(Int)]: what each track uploads, in upload order: n > 0 the segment with
                         \* number n in full; -n an ABORTED upload of n whose body breaks inside the first fragment
                         \* (refused, nothing taken); -(AbortLate + n) an aborted upload that breaks inside a later fragment
                         \* of a chunked segment (refused, but the first fragment has been written to <track>/<n>).
                         \* A later n in the sequence is the encoder's RETRY in full.
          Windows,       \* set of windowSize values computed at start (tsbd*timescale/dur + 1)
          InitWindow,    \* initialSegmentsWindow (8 in the code)
          Video,         \* the video tracks (deriveAndSetFrameRates looks at their buffers)
          NoBtrt,        \* tracks whose init segment has no btrt box (deriveAndSetBitrates looks at their buffers)
          RecordHist,    \* TRUE: keep the upload order in the state (generator configs)
          FixBufResize,    \* c525f77: segDataBuffer.resize to a smaller window also updates size
          FixCtrResize,    \* 058c844: seqCounters.resize to a smaller window keeps the newest counters and updates the fill
          FixDropBound,    \* 34c3a50: seqCounters.add bounds nrToDrop by the fill
          FixDeriveGuards, \* 3d9bf84: deriveAndSetBitrates / deriveAndSetFrameRates skip tracks without segments
          FixLateTrack,    \* cdab72e: a buffer created after start bumps _nrTracks; every Representation is checked
          FixStoreOnAccept, \* b759c7a: a media segment is written to a temporary file and renamed to <n> when the upload has been
                           \* accepted; a refused upload leaves nothing (before, it had created / truncated <track>/<n> when its
                           \* first fragment arrived)
          FixDeleteOnAccept \* 59900e3: the handler removes <n - maxNrBufSegs> only when the upload has been accepted, not when its
                           \* first fragment arrives (a refused upload deleted a segment that was listed afterwards)
VARIABLES upl,      \* the chosen element of UploadSets
          sw,       \* the chosen element of Windows
          pos,      \* [Tracks -> Nat] uploads sent so far per track
          reg,      \* sequence of registered tracks (init processed), in registration order
          bufs,     \* [Tracks -> buffer record; made = FALSE until the first stored media segment]
          ctr,      \* the counter array
          started, nrTracks, latest, genWindow, masterDur,
          mpd,      \* <<>> or <<first, last>> of the published timeline MPD
          mpdReps,  \* Representations in the published MPD
          panic,    \* the channel goroutine died
          why,      \* "" or the site of the panic: "buf.add" | "ctr.add" | "start.nil" | "start.div0"
          files,    \* [Tracks -> set of numbers on disk]
          listedBad,\* a publication listed a number some Representation has no file for (sticky)
          post,     \* tracks that stored a segment while the window was known
          hist      \* upload order (only when RecordHist)
vars == <<upl, sw, pos, reg, bufs, ctr, started, nrTracks, latest, genWindow, masterDur, mpd, mpdReps,
          panic, why, files, listedBad, post, hist>>

Late == Tracks \ Range(InitOrder)
AbortLate == 1000
IsAbort(s) == s < 0
IsLateAbort(s) == s < -AbortLate
NrOf(s) == IF s > 0 THEN s ELSE IF s < -AbortLate THEN -s - AbortLate ELSE -s
AbortKind(s) == IF s > 0 THEN 0 ELSE IF s < -AbortLate THEN 2 ELSE 1
Zeros(n) == [j \in 1..n |-> 0]
NewBuf(size) == [items |-> Zeros(size), size |-> size, n |-> 0, made |-> TRUE]
NoBuf == [items |-> <<>>, size |-> 0, n |-> 0, made |-> FALSE]
Ok(x) == <<"ok", x>>
Panic == <<"PANIC">>
Err == <<"err">>
NewCtr(ws) == [seq |-> Zeros(ws), cnt |-> Zeros(ws), n |-> 0, ws |-> ws]
\* Go: copy(s[0:], s[k:]) on the same backing array (memmove), as a new sequence
CopyDown(s, k) == [j \in 1..Len(s) |-> IF j + k <= Len(s) THEN s[j + k] ELSE s[j]]
\* Go: copy(s[lo+1 : hi+1], s[lo : hi]) - 1-based positions lo+1..hi receive the old lo..hi-1 ... written for
\* the two shifts of seqCounters.add: positions a..b (1-based, inclusive) receive the old a-1..b-1
ShiftUp(s, a, b) == [j \in 1..Len(s) |-> IF j >= a /\ j <= b THEN s[j - 1] ELSE s[j]]

(* ---- segDataBuffer.add: result is a buffer, "err" or "PANIC" ---- *)
BufAdd(b, s) ==
  IF b.n = 0 THEN IF Len(b.items) = 0 THEN Panic ELSE Ok([b EXCEPT !.items[1] = s, !.n = 1])
  ELSE IF b.n > Len(b.items) THEN Panic                                  \* c.items[c._nrItems-1]
  ELSE IF s <= b.items[b.n] THEN Err                                     \* "sequence number not increasing"
  ELSE IF b.n < b.size
       THEN IF b.n + 1 > Len(b.items) THEN Panic                         \* c.items[c._nrItems] = item
            ELSE Ok([b EXCEPT !.items[b.n + 1] = s, !.n = b.n + 1])
       ELSE IF b.size > Len(b.items) THEN Panic                          \* loop reads c.items[i], i < c.size
            ELSE LET disc == IF s < b.size THEN b.size                   \* uint32 underflow: every item qualifies
                             ELSE Cardinality({j \in 1..b.size : b.items[j] <= s - b.size})
                     n2   == IF disc = 0 THEN b.n + 1 ELSE b.n - (disc - 1)
                 IN IF n2 > Len(b.items) \/ n2 < 1 THEN Panic
                    ELSE Ok([b EXCEPT !.items = [CopyDown(b.items, disc) EXCEPT ![n2] = s], !.n = n2])
(* ---- segDataBuffer.resize: as written the shrinking branch does NOT update size ---- *)
BufResize(b, ns) ==
  IF ns = b.size THEN b
  ELSE IF ns < b.n THEN [b EXCEPT !.items = SubSeq(CopyDown(b.items, b.n - ns), 1, ns), !.n = ns,
                                  !.size = IF FixBufResize THEN ns ELSE b.size]
  ELSE [b EXCEPT !.items = [j \in 1..ns |-> IF j <= Len(b.items) THEN b.items[j] ELSE 0], !.size = ns]
BufHas(b, s) == b.made /\ \E j \in 1..b.n : j <= Len(b.items) /\ b.items[j] = s
BufDrop(b, s) ==
  IF ~BufHas(b, s) THEN b
  ELSE LET j0 == CHOOSE j \in 1..b.n : b.items[j] = s /\ \A k \in 1..(j - 1) : b.items[k] # s
       IN [b EXCEPT !.items = [j \in 1..Len(b.items) |-> IF j >= j0 /\ j < Len(b.items) THEN b.items[j + 1] ELSE b.items[j]],
                    !.n = b.n - 1]

(* ---- seqCounters ---- *)
MinFromMax(c, m) == IF m < c.ws THEN 0 ELSE m - c.ws + 1
CtrAdd(c, s) ==
  IF c.n = 0 THEN IF Len(c.seq) = 0 THEN Panic ELSE Ok([c EXCEPT !.seq[1] = s, !.cnt[1] = 1, !.n = 1])
  ELSE IF c.n > Len(c.seq) THEN Panic                                    \* s.counters[s._nrCounters-1]
  ELSE LET mx == c.seq[c.n]
           mn == MinFromMax(c, mx) IN
   IF s < mn THEN Ok(c)
   ELSE IF s > mx THEN
        LET mn2  == MinFromMax(c, s)
            drop0 == Cardinality({j \in 1..c.n : c.seq[j] < mn2}) + (IF c.n = c.ws THEN 1 ELSE 0)
            drop == IF FixDropBound /\ drop0 > c.n THEN c.n ELSE drop0
        IN IF drop > Len(c.seq) THEN Panic                               \* s.counters[nrToDrop:]
           ELSE LET n2 == c.n - drop IN
                IF n2 < 0 \/ n2 + 1 > Len(c.seq) THEN Panic              \* uint32 wrap / s.counters[s._nrCounters]
                ELSE Ok([c EXCEPT !.seq = [CopyDown(c.seq, drop) EXCEPT ![n2 + 1] = s],
                                  !.cnt = [CopyDown(c.cnt, drop) EXCEPT ![n2 + 1] = 1], !.n = n2 + 1])
   ELSE IF \E j \in 1..c.n : c.seq[j] = s
        THEN LET j0 == CHOOSE j \in 1..c.n : c.seq[j] = s /\ \A k \in 1..(j - 1) : c.seq[k] # s
             IN Ok([c EXCEPT !.cnt[j0] = c.cnt[j0] + 1])
        ELSE \* in-window insertion AS WRITTEN.  Go: for i := n-1; i >= 1; i-- { if seqNr > counters[i-1].seqNr {...} }
             \* counters[i-1] (0-based) is seq[i] (1-based), so the Go index i ranges over 1..n-1 here as well.
             LET cand == {i \in 1..(c.n - 1) : s > c.seq[i]} IN
             IF cand = {} THEN Ok(c)
             ELSE LET i == SetMax(cand)
                      \* n < windowSize: copy(counters[i+1:n], counters[i:n-1])  (1-based i+2..n receive i+1..n-1)
                      \* else:           copy(counters[1:i],   counters[:i-1])   (1-based 2..i   receive 1..i-1)
                      sq == IF c.n < c.ws THEN ShiftUp(c.seq, i + 2, c.n) ELSE ShiftUp(c.seq, 2, i)
                      cn == IF c.n < c.ws THEN ShiftUp(c.cnt, i + 2, c.n) ELSE ShiftUp(c.cnt, 2, i)
                  IN \* counters[i-1] = {seqNr, 1}: the smaller neighbour is overwritten, n unchanged
                     Ok([c EXCEPT !.seq = [sq EXCEPT ![i] = s], !.cnt = [cn EXCEPT ![i] = 1]])
\* seqCounters.resize: as written the shrinking branch does NOT update _nrCounters
CtrResize(c, ns) ==
  IF ns > c.ws THEN [c EXCEPT !.seq = [j \in 1..ns |-> IF j <= Len(c.seq) THEN c.seq[j] ELSE 0],
                              !.cnt = [j \in 1..ns |-> IF j <= Len(c.cnt) THEN c.cnt[j] ELSE 0], !.ws = ns]
  ELSE IF ns < c.ws THEN
       IF FixCtrResize /\ c.n > ns /\ c.n <= Len(c.seq)
       THEN [c EXCEPT !.seq = SubSeq(c.seq, c.n - ns + 1, c.n), !.cnt = SubSeq(c.cnt, c.n - ns + 1, c.n), !.n = ns, !.ws = ns]
       ELSE [c EXCEPT !.seq = SubSeq(c.seq, 1, ns), !.cnt = SubSeq(c.cnt, 1, ns), !.ws = ns]
  ELSE c
CtrDrop(c, s) ==
  IF \E j \in 1..c.n : j <= Len(c.seq) /\ c.seq[j] = s
  THEN LET j0 == CHOOSE j \in 1..c.n : c.seq[j] = s /\ \A k \in 1..(j - 1) : c.seq[k] # s
           sh(q) == [j \in 1..Len(q) |-> IF j >= j0 /\ j < Len(q) THEN q[j + 1] ELSE q[j]]
       IN IF j0 - 1 < c.ws - 1 THEN [c EXCEPT !.seq = sh(c.seq), !.cnt = sh(c.cnt), !.n = c.n - 1]
          ELSE [c EXCEPT !.n = c.n - 1]
  ELSE c
\* newFullCounter: scanning down, the first number > mx with count = nt; stop at a number <= mx
NewFull(c, nt, mx) ==
  IF c.n = 0 \/ c.n > Len(c.seq) THEN 0
  ELSE LET ok == {j \in 1..c.n : c.cnt[j] = nt /\ c.seq[j] > mx /\ \A k \in (j + 1)..c.n : c.seq[k] > mx} IN
       IF ok = {} THEN 0 ELSE c.seq[SetMax(ok)]
\* fullRange: <<first, last>> (0,0 if none)
FullRange(c, nt) ==
  IF c.n = 0 \/ c.n > Len(c.seq) THEN <<0, 0>>
  ELSE LET full == {j \in 1..c.n : c.cnt[j] >= nt} IN
       IF full = {} THEN <<0, 0>>
       ELSE LET lj  == SetMax(full)
                run == {j \in 1..lj : \A k \in j..lj : c.cnt[k] >= nt /\ c.seq[k] = c.seq[lj] - (lj - k)}
                fj  == CHOOSE j \in run : \A k \in run : j <= k
            IN <<c.seq[fj], c.seq[lj]>>

\* the instance (upload sequences, window) is chosen by the first step (Choose), not in Init, so that there is one
\* initial state whatever the size of UploadSets
Init == /\ upl = [t \in Tracks |-> <<>>] /\ sw = 0
        /\ pos = [t \in Tracks |-> 0] /\ reg = InitOrder /\ bufs = [t \in Tracks |-> NoBuf]
        /\ ctr = NewCtr(InitWindow) /\ started = FALSE /\ nrTracks = 0 /\ latest = 0
        /\ genWindow = InitWindow /\ masterDur = 0 /\ mpd = <<>> /\ mpdReps = {} /\ panic = FALSE /\ why = ""
        /\ files = [t \in Tracks |-> {}] /\ listedBad = FALSE /\ post = {} /\ hist = <<>>

MaxBufSegs == sw + 1
Registered == Range(reg)
\* Representations[0] of every AdaptationSet: the first registered track of the set
FirstReps == { reg[i] : i \in { j \in DOMAIN reg : \A k \in 1..(j - 1) : ASOf[reg[k]] # ASOf[reg[j]] } }
Rec(t, s) == IF RecordHist THEN Append(hist, [t |-> t, n |-> NrOf(s), a |-> AbortKind(s)]) ELSE hist

Choose == /\ sw = 0 /\ upl' \in UploadSets /\ sw' \in Windows
          /\ UNCHANGED <<pos, reg, bufs, ctr, started, nrTracks, latest, genWindow, masterDur, mpd, mpdReps,
                         panic, why, files, listedBad, post, hist>>

\* the init segment of a late track arrives (addInitDataAndUpdateTimescale: a Representation is appended)
Register(t) ==
  /\ sw # 0 /\ ~panic /\ t \in Late /\ t \notin Registered
  /\ reg' = Append(reg, t) /\ hist' = (IF RecordHist THEN Append(hist, [t |-> t, n |-> 0, a |-> 0]) ELSE hist)
  /\ UNCHANGED <<upl, sw, pos, bufs, ctr, started, nrTracks, latest, genWindow, masterDur, mpd, mpdReps,
                 panic, why, files, listedBad, post>>

\* one media segment of track t: handler (store, delete number s - maxNrBufSegs) + receivedSegData of the complete record
Process(t) ==
  /\ sw # 0 /\ ~panic /\ pos[t] < Len(upl[t])
  /\ LET s == upl[t][pos[t] + 1] IN
     /\ pos' = [pos EXCEPT ![t] = @ + 1] /\ hist' = Rec(t, s)
     /\ UNCHANGED <<upl, sw, reg>>
     /\ IF t \notin Registered
        THEN \* "failed to find track data": answered 500, nothing stored, nothing queued
             UNCHANGED <<bufs, ctr, started, nrTracks, latest, genWindow, masterDur, mpd, mpdReps, panic, why, files, listedBad, post>>
        ELSE IF IsAbort(s)
        THEN \* Abort(t, n): the body breaks inside a box, the chunk parser fails, the upload is answered 500 and NO complete
             \* record reaches the channel goroutine: a no-op on buffers, counters and the MPD.  If a first fragment had been
             \* taken, the handler has created <track>/<n> (and made room for it) - storage only.
             /\ UNCHANGED <<bufs, ctr, started, nrTracks, latest, genWindow, masterDur, mpd, mpdReps, panic, why, listedBad>>
             /\ files' = IF ~IsLateAbort(s) \/ FixStoreOnAccept THEN files
                          ELSE [files EXCEPT ![t] = IF masterDur # 0 /\ ~FixDeleteOnAccept
                                                    THEN (@ \cup {NrOf(s)}) \ {NrOf(s) - MaxBufSegs} ELSE @ \cup {NrOf(s)}]
             /\ post' = IF IsLateAbort(s) /\ masterDur # 0 /\ ~FixStoreOnAccept THEN post \cup {t} ELSE post
        ELSE
        LET files1 == [files EXCEPT ![t] = IF masterDur # 0 THEN (@ \cup {s}) \ {s - MaxBufSegs} ELSE @ \cup {s}]
            b0 == IF ~bufs[t].made THEN NewBuf(genWindow) ELSE bufs[t]
            r1 == BufAdd(b0, s)
            b1 == IF r1[1] = "ok" THEN r1[2] ELSE b0
            rc == IF r1[1] = "ok" THEN CtrAdd(ctr, s) ELSE Ok(ctr)      \* counters.add only after a successful buffer add
            c1 == IF rc[1] = "ok" THEN rc[2] ELSE ctr
            bs1 == [bufs EXCEPT ![t] = b1]
            \* addSegmentData: a buffer created after start bumps _nrTracks (FixLateTrack)
            nt1 == IF FixLateTrack /\ started /\ ~bufs[t].made THEN Cardinality({u \in Tracks : bufs[u].made}) + 1 ELSE nrTracks
            newSeq == IF started /\ r1[1] = "ok" THEN NewFull(c1, nt1, latest) ELSE 0
            fr == FullRange(c1, nt1)
            \* modifySegmentTemplate: as written only Representations[0] of every AdaptationSet is looked at
            tmplOK == \A u \in (IF FixLateTrack THEN Registered ELSE FirstReps) :
                         bs1[u].made /\ \A k \in fr[1]..fr[2] : BufHas(bs1[u], k)
            wrote == newSeq # 0 /\ newSeq > latest /\ newSeq <= fr[2] /\ tmplOK
            lat1 == IF wrote THEN fr[2] ELSE latest
            \* the master has two consecutive numbers: masterSegDuration is set, then deriveAndSetBitrates and
            \* deriveAndSetFrameRates read segDataBuffers[name] of EVERY registered track (nil for a track without
            \* segments; bitrate = size*8*timescale / totDur divides by 0 for an emptied buffer), then start()
            starting == masterDur = 0 /\ t = Master /\ r1[1] # "PANIC" /\ b1.n >= 2 /\ b1.items[2] = b1.items[1] + 1
            nilDeref == ~FixDeriveGuards /\ \E u \in Registered : u \in (NoBtrt \cup Video) /\ ~bs1[u].made
            divZero  == ~FixDeriveGuards /\ \E u \in Registered \cap NoBtrt : bs1[u].made /\ bs1[u].n = 0
        IN /\ files' = files1
           /\ post' = IF masterDur # 0 THEN post \cup {t} ELSE post
           /\ IF r1[1] = "PANIC" \/ rc[1] = "PANIC" \/ (starting /\ (nilDeref \/ divZero))
              THEN /\ panic' = TRUE
                   /\ why' = IF r1[1] = "PANIC" THEN "buf.add" ELSE IF rc[1] = "PANIC" THEN "ctr.add"
                              ELSE IF nilDeref THEN "start.nil" ELSE "start.div0"
                   /\ UNCHANGED <<bufs, ctr, started, nrTracks, latest, genWindow, masterDur, mpd, mpdReps, listedBad>>
              ELSE /\ UNCHANGED <<panic, why>>
                   /\ latest' = lat1
                   /\ mpd' = IF wrote THEN fr ELSE mpd
                   /\ mpdReps' = IF wrote THEN Registered ELSE mpdReps
                   /\ listedBad' = (listedBad \/ (wrote /\ ~ListedModelOK(fr, Registered, files1)))
                   /\ IF masterDur = 0 /\ t = Master /\ b1.n >= 2
                      THEN IF b1.items[2] # b1.items[1] + 1
                           THEN \* not consecutive: drop the oldest number everywhere and keep waiting
                                /\ bufs' = [u \in Tracks |-> BufDrop(bs1[u], b1.items[1])]
                                /\ ctr' = CtrDrop(c1, b1.items[1])
                                /\ UNCHANGED <<started, nrTracks, genWindow, masterDur>>
                           ELSE \* segmentTimelineGenerator.start(windowSize, unshifted)
                                /\ masterDur' = 1 /\ started' = TRUE /\ genWindow' = sw
                                /\ bufs' = [u \in Tracks |-> IF ~bs1[u].made THEN bs1[u] ELSE BufResize(bs1[u], sw)]
                                /\ ctr' = CtrResize(c1, sw)
                                /\ nrTracks' = Cardinality({u \in Tracks : bs1[u].made})   \* frozen here
                      ELSE /\ bufs' = bs1 /\ ctr' = c1 /\ nrTracks' = nt1
                           /\ UNCHANGED <<started, genWindow, masterDur>>
Next == Choose \/ \E t \in Tracks : Process(t) \/ Register(t)
Spec == Init /\ [][Next]_vars

Terminal == sw # 0 /\ (panic \/ (\A t \in Tracks : pos[t] = Len(upl[t]) /\ t \in Registered))

(* ---- the C17 clauses on the explorer ---- *)
NoPanic == ~panic                                                        \* C17.progress
NoPanicBufAdd == why # "buf.add"        \* one invariant per site, so that TLC shows a shortest history for each
NoPanicCtrAdd == why # "ctr.add"
NoPanicStartNil == why # "start.nil"
NoPanicStartDiv0 == why # "start.div0"
\* the usual arrival order: every track has delivered its first segment before the master's second (state constraint)
FirstBeforeSecond == pos[Master] >= 2 => \A t \in Tracks : pos[t] >= 1 /\ t \in Registered
\* (TLC evaluates invariants also on states that fail the constraint, hence the guards)
SyncNoPanic == (pos[Master] >= 2 => \A t \in Tracks : pos[t] >= 1 /\ t \in Range(reg)) => ~panic
Listed == ~listedBad                                                     \* C17.listed (files of every Representation at publication)
NewestMono == [][latest' >= latest /\ (mpd # <<>> /\ mpd' # <<>> => mpd'[2] >= mpd[2])]_vars      \* C17.newest
BoundedBuf == /\ \A t \in Tracks : bufs[t].made => bufs[t].n <= Len(bufs[t].items) /\ BufBounded(bufs[t].n, Len(bufs[t].items), genWindow)
              /\ ctr.n <= Len(ctr.seq) /\ BufBounded(ctr.n, Len(ctr.seq), genWindow)          \* C17.bounded (buffers)
BoundedFiles == \A t \in post : FilesBounded(Cardinality(files[t]), MaxBufSegs)                \* C17.bounded (storage)
Bounded == BoundedBuf /\ BoundedFiles
SyncBounded == (pos[Master] >= 2 => \A t \in Tracks : pos[t] >= 1 /\ t \in Range(reg)) => Bounded
\* sanity of the model itself (never expected to fail): the published range is well formed and ends at latestSeqNr
TypeOK == /\ latest >= 0 /\ (mpd # <<>> => mpd[1] <= mpd[2] /\ mpd[2] = latest)

(* ---- (R): every terminal behaviour as one JSON line ---- *)
Emit == Terminal => PrintT("GEN" \o ToJson([w |-> sw, order |-> hist, panic |-> panic, why |-> why,
                                             mpd |-> mpd, latest |-> latest, started |-> started, nrTracks |-> nrTracks,
                                             listedBad |-> listedBad, tracks |-> reg]))
=============================================================================

---------------------------- MODULE LiveTimeline ----------------------------
(* (M) for C01/C04 (+ base of C02/C05): model-checks the oracle's own theorems on small layouts.
   One state per millisecond; `now` is a pair over P. *)
EXTENDS LiveTimelineOps, FiniteSets, TLC
CONSTANTS Layouts,   \* set of scenario records
          MaxLoops   \* how many loop periods the clock runs
VARIABLES sc, now, prevStatus
vars == <<sc, now, prevStatus>>

Segs(s) == (0..MaxLoops + 10) \X (0..(s.N - 1))
StatusOf(s, t) == [x \in Segs(s) |-> Status(s, x[1], x[2], t)]
Init == /\ sc \in Layouts /\ now = TNorm(P(sc), -1, P(sc) - 2 * sc.TS)     \* 2 ms before AST
        /\ prevStatus = StatusOf(sc, now)
Tick == /\ now.w <= MaxLoops
        /\ now' = TAdd(P(sc), now, MsPair(sc, 1))
        /\ prevStatus' = StatusOf(sc, now')
        /\ UNCHANGED sc
Spec == Init /\ [][Tick]_vars

\* C01: segment n+1 begins exactly where segment n ends, also across the loop wrap
C01_Contiguous == \A x \in Segs(sc) : LET s == Succ(sc, x[1], x[2]) IN TEq(Start(sc, s[1], s[2]), End(sc, x[1], x[2]))
C01_StartIncreasing == \A x \in Segs(sc) : TLt(Start(sc, x[1], x[2]), End(sc, x[1], x[2]))
\* C04: availability instants are non-decreasing in n
C04_AvailMonotoneInN == \A x \in Segs(sc) : LET s == Succ(sc, x[1], x[2]) IN TLeq(Avail(sc, x[1], x[2]), Avail(sc, s[1], s[2]))
\* C04.monotone: as time passes the set of allowed phases of a fixed URL never moves back
MinPhase(S) == CHOOSE p \in {Phase(c) : c \in S} : \A q \in {Phase(c) : c \in S} : p <= q
C04_Monotone == [][\A x \in Segs(sc) : MinPhase(prevStatus'[x]) >= MinPhase(prevStatus[x])]_vars
\* C02/C05: exactly one newest segment once anything is available, and it never moves back
LastSet(s, t) == {x \in Segs(s) : IsLast(s, x[1], x[2], t)}
C05_UniqueLast == sc.ato < 0 \/ NoneAvail(sc, now) \/ Cardinality(LastSet(sc, now)) = 1
C05_LastForward == [][sc.ato < 0 \/ \A a \in LastSet(sc, now), b \in LastSet(sc, now') : ~Newer(a, b)]_vars
=============================================================================

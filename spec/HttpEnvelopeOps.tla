-------------------------- MODULE HttpEnvelopeOps --------------------------
(* ORACLE of the extra specification X07: THE HTTP ENVELOPE OF livesim2.

   PROPERTY TEXT (what the check is held to; every sentence is taken from README.md, CHANGELOG.md, the route table
   cmd/livesim2/app/routes.go + start.go, or a comment / literal in the named source file - never stronger):

   (a) X07.cors   CHANGELOG: "livesim2 version header inserted in every HTTP response", "Timing-Allow-Origin header",
       "Add extra CORS headers", "Added Access-Control-Expose-Header"; middleware.go addVersionAndCORSHeaders is installed on
       the top router before any route (start.go).  EVERY response - any route, method, status (errors, 429 of the request
       limiter, redirects, /vod files, chunked responses, mounted handlers) - carries each of  DASH-IF-livesim2,
       Access-Control-Allow-Origin, Access-Control-Allow-Methods, Access-Control-Expose-Headers,
       Access-Control-Allow-Headers, Timing-Allow-Origin  EXACTLY ONCE; Access-Control-Allow-Origin is "*", the version is
       not empty, and a request that was answered with a status below 400 used a method that Access-Control-Allow-Methods names.
   (b) ENTITY
       X07.ctype  the Content-Type of a 200 response is the type the code names for the resource kind: live MPD (dynamic or
                  static) application/dash+xml (writeLiveMPD), MPD patch application/dash-patch+xml (patchHandlerFunc), media and
                  init segments by the representation's content type as RepData.SegmentType documents (video/mp4, audio/mp4,
                  application/mp4 for text/subtitle, image/jpeg), generated subtitles init + media application/mp4 (timesubs.go),
                  healthz / version / config / laurl answers application/json, index / assets / vod list / urlgen pages text/html,
                  favicon image/x-icon.  Parameters (charset) are not judged.  Files below /vod are served by http.FileServer:
                  no type is stated for them, none is demanded.
       X07.length         a Content-Length on the wire is a single well-formed number equal to the number of body bytes received
                          (HEAD: no body bytes at all).
       X07.length.handler server.go jsonResponse: "Don't add any more content after this since Content-Length is set": a handler
                          that has set Content-Length when the status line is written writes exactly that many bytes (HEAD: that
                          many or none).
       X07.length.present every place that writes a whole MPD / patch / segment / init segment sets Content-Length first: 200
                          responses of those kinds, outside the chunked mode, have a Content-Length; so have /vod files
                          (http.ServeContent) and the favicon.
       X07.chunked        writeChunkedSegment: "splits a segment into chunks and send them as they become available": with
                          chunkdur_ (low-latency mode) and a chunk duration of at most half the segment, a 200 answer to GET of
                          a video/audio media segment has NO Content-Length, uses chunked transfer coding and is produced by
                          more than one write with at least two flushes (HEAD: no Content-Length).
       X07.lowlat.image   writeChunkedSegment's isImage branch sets Content-Length and writes the image whole: in low-latency
                          mode an available thumbnail is answered 200 with Content-Length (and image/jpeg by X07.ctype).
   (c) X07.head   routes.go registers the same handler for GET and HEAD on /livesim2/.. and /vod/.. (README: "/vod/..." explore and
       play): HEAD returns the same status, the same Content-Type and - at handler level - the same Content-Length as GET of the
       same URL at the same ?nowMS=, and no body.
   (d) README "Backwards compatibility with livesim": /livesim/.. and /dash/vod/.. "are redirected by the server with an HTTP 302
       response" to /livesim2/.. and /vod/..; routes.go adds /livesim-chunked/.. -> /livesim2/.. and /urlgen -> /urlgen/; redirect():
       "returns an HTTP redirect with from replaced by to in URL" (once; the query is kept).
       X07.status (302), X07.redirect.location (Location = new prefix + rest of the path + query),
       X07.redirect.follow (the request for the Location gives what the direct request gives: status, Content-Type,
       Content-Length, body).
   (e) X07.expires  CHANGELOG: "MPD Patch has Expires header equal to publishTime + ttl + 10s" (pkg/patch
       PatchExpirationMargin): a 200 patch response has Expires = publishTime of the MPD it patches + ttl of its PatchLocation + 10 s.
   (f) SERVICE
       X07.status    /healthz answers 200; /version and /config answer 200; NewLimiterMiddleware: "An HTTP response 429 Too Many
                     Requests is generated if there are too many requests"; optionsHandlerFunc answers 204; a path outside the
                     route table is answered 404 or 405 (chi answers 405 because of the POST / OPTIONS catch-alls: both accepted).
       X07.limit     NewLimiterMiddleware: "An HTTP header named hdrName is return the number of requests and the maximum number":
                     on a server with maxrequests every /livesim2 and /vod response carries Livesim2-Requests.
       X07.options   handler_index.go: "optionsHandlerFunc provides the allowed methods"; CHANGELOG "limited methods in OPTIONS
                     response", "Make HTTP OPTIONS method work for all URLs": the 204 answer has an Allow list that names OPTIONS
                     and nothing outside OPTIONS, GET, HEAD, POST, and no body.
       X07.allow     ... and the list tells the truth: a method that the Allow list of OPTIONS <path> names is not answered 405
                     (Method Not Allowed) on <path>.
       X07.version   /version is the JSON {Version: <the version of the DASH-IF-livesim2 header>}.
       X07.config    /config: "returns the global config parameters": the JSON carries, under the json tags of ServerConfig, the
                     values the server was started with (vodroot, timeoutS, maxrequests, reqlimitint, port, livewindowS, host,
                     playurl, whitelistblocks, repdataroot, writerepdata, loglevel, logformat).
       X07.assets    /assets: "returns information about assets" - "a list of assets and MPDs of these assets. They can be streamed
                     with URLs like <host>/livesim2/<asset>/<mpd>": the listed (asset, MPD) pairs are exactly the .mpd files of
                     the VoD root that /livesim2/<asset>/<mpd> serves.
       X07.metrics   prometheus.go: "Number segment / MPD / other requests processed, partitioned by status code": between two
                     scrapes of /metrics every request the server answered is counted exactly once, in <family>_requests_total and
                     in <family>_request_duration_milliseconds_count, family by the lower-cased extension of the path after its
                     last dot (.mpd -> mpd; .cmfv .cmfa .cmft .mp4 .m4s .m4a .m4t .m4v .jpg -> segment; else other), label code
                     = the status the client received.  (/metrics itself is mounted below the same middleware: it counts as "other".)

   NOT judged here (other properties): WHICH status an available / unavailable segment or a malformed URL gets (C01, C04, C08),
   the limiter's arithmetic (C20), bodies.  The intended outcome class of a generated request only selects inputs.

   An abstract request is  r = [route, method, outcome, kind, srv, v]  (v: variant index; the driver draws concrete inputs).
   An observation o is the record harness/drive/x07 writes for one response (spec/trace/HttpEnvelope_Trace.tla).            *)
EXTENDS Integers, Sequences, FiniteSets

Methods == {"GET", "HEAD", "OPTIONS", "POST"}
EnvNames == <<"DASH-IF-livesim2", "Access-Control-Allow-Origin", "Access-Control-Allow-Methods",
              "Access-Control-Expose-Headers", "Access-Control-Allow-Headers", "Timing-Allow-Origin">>
ToSet(s) == { s[i] : i \in DOMAIN s }

-----------------------------------------------------------------------------
(* The route table (routes.go Routes, start.go mounts). grp: "live" / "vod" = the two sub-routers behind the request
   limiter; "main" = top router (with the catch-alls OPTIONS and POST on every path); "mounted" = foreign handlers mounted on the
   top router; "none" = no route.  reg = methods registered for the pattern itself.  to = redirect target route or "". *)
RT(pfx, reg, grp, to) == [pfx |-> pfx, reg |-> reg, grp |-> grp, to |-> to]
RouteTable ==
   [ live     |-> RT("/livesim2",        {"GET", "HEAD", "POST", "OPTIONS"}, "live", ""),
     vod      |-> RT("/vod",             {"GET", "HEAD", "OPTIONS"},         "vod",  ""),
     patch    |-> RT("/patch",           {"GET"},                            "main", ""),
     rlivesim |-> RT("/livesim",         {"GET"},                            "main", "live"),
     rchunked |-> RT("/livesim-chunked", {"GET"},                            "main", "live"),
     rdashvod |-> RT("/dash/vod",        {"GET", "HEAD"},                    "main", "vod"),
     rurlgen  |-> RT("/urlgen",          {"GET"},                            "main", "urlgen"),
     healthz  |-> RT("/healthz",         {"GET"},                            "main", ""),
     version  |-> RT("/version",         {"GET"},                            "main", ""),
     config   |-> RT("/config",          {"GET"},                            "main", ""),
     assets   |-> RT("/assets",          {"GET"},                            "main", ""),
     vodlist  |-> RT("/vod",             {"GET"},                            "main", ""),
     index    |-> RT("/",                {"GET"},                            "main", ""),
     favicon  |-> RT("/favicon.ico",     {"GET"},                            "main", ""),
     urlgen   |-> RT("/urlgen/",         {"GET"},                            "main", ""),
     static   |-> RT("/static",          {"GET", "HEAD"},                    "main", ""),
     reqcount |-> RT("/reqcount",        {"GET"},                            "main", ""),
     loglevel |-> RT("/loglevel",        {"GET", "POST"},                    "main", ""),
     metrics  |-> RT("/metrics",         Methods,                            "mounted", ""),
     api      |-> RT("/api",             {"GET"},                            "mounted", ""),
     unknown  |-> RT("/x07-no-such",     {},                                 "none", "") ]
Routes == DOMAIN RouteTable
Grp(route) == RouteTable[route].grp
IsRedirect(route) == RouteTable[route].to # ""
\* methods that reach a handler: the pattern's own plus the catch-alls of the top router
Served(route) == RouteTable[route].reg \cup (IF Grp(route) \in {"main", "none"} THEN {"OPTIONS", "POST"} ELSE {})

LiveKinds == {"mpd", "mpdstatic", "video", "audio", "text", "image", "initv", "inita", "initt", "tsinit", "tsmedia",
              "llmpd", "llvideo", "llaudio", "llimage", "llinit", "laurl"}
VodKinds  == {"fmpd", "fseg", "finit", "fjpg", "dir"}
Kinds == LiveKinds \cup VodKinds \cup {"patch", "none"}
KindsOf(route) ==
   CASE route = "live" -> LiveKinds
     [] route = "vod" -> VodKinds
     [] route = "patch" -> {"patch"}
     [] route \in {"rlivesim", "rchunked"} -> {"mpd", "video", "initv"}
     [] route = "rdashvod" -> {"fmpd", "fseg"}
     [] OTHER -> {"none"}

Outcomes == {"ok", "bad", "notfound", "gone", "early", "code", "err", "limited", "redirect", "nometh"}
\* status a faithful server gives the intended class (selects inputs; judged only where StatusOK says so)
Intended(outcome, method) ==
   CASE outcome = "ok" -> IF method = "OPTIONS" THEN 204 ELSE 200
     [] outcome = "bad" -> 400 [] outcome = "notfound" -> 404 [] outcome = "gone" -> 410 [] outcome = "early" -> 425
     [] outcome = "code" -> 503 [] outcome = "err" -> 500 [] outcome = "limited" -> 429 [] outcome = "redirect" -> 302
     [] outcome = "nometh" -> 405

MediaKinds == {"video", "audio", "text", "image", "tsmedia", "llvideo", "llaudio"}
\* the outcome classes the space holds for (route, method, kind)
OutcomesOf(route, method, kind) ==
   IF method \notin Served(route) THEN (IF route = "unknown" THEN {"notfound"} ELSE {"nometh"})
   ELSE IF method = "OPTIONS" THEN (IF route \in {"live", "vod"} THEN {"ok", "limited"} ELSE {"ok"})
   ELSE IF route = "live" THEN
           IF method = "POST" THEN (IF kind = "laurl" THEN {"ok", "bad", "err"} ELSE IF kind \in {"mpd", "video"} THEN {"bad"} ELSE {})
           ELSE IF kind = "laurl" THEN {}
           ELSE IF kind = "mpd" THEN {"ok", "bad", "notfound", "early", "limited"}
           ELSE IF kind \in {"video", "audio"} THEN {"ok", "gone", "early", "notfound", "code", "limited"}
           ELSE IF kind \in MediaKinds THEN {"ok", "gone", "early"}
           ELSE {"ok"}
   ELSE IF route = "vod" THEN (IF kind = "dir" THEN {"ok"} ELSE {"ok", "notfound", "limited"})
   ELSE IF IsRedirect(route) THEN (IF method = "POST" THEN {"bad"} ELSE {"redirect"})
   ELSE IF route = "patch" THEN (IF method = "POST" THEN {"bad"} ELSE {"ok", "early", "gone", "bad", "err"})
   ELSE IF route = "metrics" THEN {"ok"}
   ELSE IF route = "api" THEN {"ok", "notfound"}
   ELSE IF route = "unknown" THEN {"bad"}                       \* the catch-all POST is the license endpoint: not .../eccp.json
   ELSE IF method = "POST" THEN {"bad"}                          \* catch-all POST (loglevel: no form data)
   ELSE IF route = "static" THEN {"ok", "notfound"}
   ELSE {"ok"}
SrvsOf(route, outcome) ==
   IF outcome = "limited" THEN {"lim"}
   ELSE IF route \in {"live", "vod", "config", "reqcount"} /\ outcome = "ok" THEN {"main", "lim"}
   ELSE {"main"}

Req(route, method, outcome, kind, srv, v) ==
   [route |-> route, method |-> method, outcome |-> outcome, kind |-> kind, srv |-> srv, v |-> v]
ValidReq(r) == /\ r.route \in Routes /\ r.method \in Methods /\ r.kind \in KindsOf(r.route)
               /\ r.outcome \in OutcomesOf(r.route, r.method, r.kind) /\ r.srv \in SrvsOf(r.route, r.outcome)

-----------------------------------------------------------------------------
(* (b) Content types *)
CTofKind(kind) ==
   CASE kind \in {"mpd", "mpdstatic", "llmpd"} -> {"application/dash+xml"}
     [] kind \in {"video", "llvideo", "initv", "llinit"} -> {"video/mp4"}
     [] kind \in {"audio", "llaudio", "inita"} -> {"audio/mp4"}
     [] kind \in {"text", "initt", "tsinit", "tsmedia"} -> {"application/mp4"}
     [] kind \in {"image", "llimage"} -> {"image/jpeg"}
     [] kind = "laurl" -> {"application/json"}
     [] kind = "patch" -> {"application/dash-patch+xml"}
     [] OTHER -> {}
\* X07.ctype: the set of media types allowed for a 200 answer of r ({} = none demanded)
ExpectedCT(r) ==
   CASE r.route \in {"live", "patch"} -> CTofKind(r.kind)
     [] r.route \in {"healthz", "version", "config"} -> {"application/json"}
     [] r.route \in {"assets", "vodlist", "index", "urlgen"} -> {"text/html"}
     [] r.route = "favicon" -> {"image/x-icon"}
     [] OTHER -> {}
\* classes that are entities with a type of their own: exactly one expected type (invariant of HttpEnvelope.tla)
EntityClass(r) == r.outcome = "ok" /\ r.method \in {"GET", "HEAD", "POST"} /\ r.method \in Served(r.route)
                  /\ (r.route \in {"patch", "healthz", "version", "config", "assets", "vodlist", "index", "urlgen", "favicon"}
                      \/ (r.route = "live" /\ (r.method = "POST" <=> r.kind = "laurl")))

Chunked(r) == r.route = "live" /\ r.kind \in {"llvideo", "llaudio"} /\ r.method \in {"GET", "HEAD"}
NeedCL(r) == /\ r.method \in {"GET", "HEAD"}
             /\ \/ r.route = "live" /\ r.kind \in LiveKinds \ {"llvideo", "llaudio", "laurl"}
                \/ r.route = "patch" /\ r.method = "GET"
                \/ r.route = "vod" /\ r.kind # "dir"
                \/ r.route = "favicon" /\ r.method = "GET"

(* (f) statuses the text states; everything else is open *)
StatusOK(r, st) ==
   IF r.outcome = "limited" THEN st = 429
   ELSE IF r.outcome = "redirect" THEN st = 302
   ELSE IF r.route \in {"healthz", "version", "config"} /\ r.method = "GET" THEN st = 200
   ELSE IF r.method = "OPTIONS" /\ Grp(r.route) \in {"live", "vod", "main", "none"} THEN st = 204
   ELSE IF r.route = "unknown" /\ r.method \in {"GET", "HEAD"} THEN st \in {404, 405}
   ELSE st \in 100..599

\* prometheus.go
Family(ext) == IF ext = ".mpd" THEN "mpd"
               ELSE IF ext \in {".cmfv", ".cmfa", ".cmft", ".mp4", ".m4s", ".m4a", ".m4t", ".m4v", ".jpg"} THEN "segment"
               ELSE "other"
Families == {"mpd", "segment", "other"}

ConfigKeys == {"vodroot", "timeoutS", "maxrequests", "reqlimitint", "port", "livewindowS", "host", "playurl",
               "whitelistblocks", "repdataroot", "writerepdata", "loglevel", "logformat"}

-----------------------------------------------------------------------------
(* Clauses over ONE response.  in = inputs of the request known to the driver by construction:
     [tail, q (rest of the path after the route prefix and "?query" or ""), ttl, code (configured statuscode or 0)]      *)
EnvCount(o, n) == LET S == { i \in DOMAIN o.env : o.env[i][1] = n } IN IF S = {} THEN 0 ELSE o.env[CHOOSE i \in S : TRUE][2]
EnvVal(o, n)   == LET S == { i \in DOMAIN o.env : o.env[i][1] = n } IN IF S = {} THEN "" ELSE o.env[CHOOSE i \in S : TRUE][3]

Cors(r, o) == /\ \A i \in DOMAIN EnvNames : EnvCount(o, EnvNames[i]) = 1
              /\ EnvVal(o, "Access-Control-Allow-Origin") = "*"
              /\ EnvVal(o, "DASH-IF-livesim2") # ""
              /\ o.st < 400 => r.method \in ToSet(o.acam)

\* the entity is what GET / HEAD / POST of a pattern that registers the method returns (not an OPTIONS answer, not a catch-all)
Entity(r) == r.method \in RouteTable[r.route].reg \ {"OPTIONS"}
CType(r, o) == (o.st = 200 /\ Entity(r) /\ ExpectedCT(r) # {}) => o.ct \in ExpectedCT(r)

LengthWire(r, o) == /\ o.berr = ""
                    /\ o.cl >= -1
                    /\ o.cl >= 0 => (IF r.method = "HEAD" THEN o.blen = 0 ELSE o.blen = o.cl)
                    /\ r.method = "HEAD" => o.blen = 0
LengthHandler(r, o) == o.hcl >= 0 => (o.hbytes = o.hcl \/ (r.method = "HEAD" /\ o.hbytes = 0))
LengthPresent(r, o) == (NeedCL(r) /\ o.st = 200) => o.cl >= 0
ChunkedOK(r, o) == (Chunked(r) /\ o.st = 200) =>
                      /\ o.cl = -1 /\ o.hcl = -1
                      /\ r.method = "GET" => (o.te = "chunked" /\ o.writes > 1 /\ o.flushes >= 2)
LowLatImage(r, o) == (r.route = "live" /\ r.kind = "llimage" /\ r.outcome = "ok" /\ r.method \in {"GET", "HEAD"})
                        => (o.st = 200 /\ o.cl >= 0)
OptionsOK(r, o) == (r.method = "OPTIONS" /\ o.st = 204) =>
                      /\ "OPTIONS" \in ToSet(o.allow) /\ ToSet(o.allow) \subseteq Methods /\ o.blen = 0
RedirTarget(r, in) == RouteTable[RouteTable[r.route].to].pfx \o in.tail \o in.q
\* rurlgen: "/urlgen" -> "/urlgen/": the target route's prefix is the whole new path
RedirectLoc(r, in, o) == (r.outcome = "redirect" /\ o.st = 302) => o.loc = RedirTarget(r, in)
ExpiresOK(r, in, o) == (r.route = "patch" /\ r.method = "GET" /\ o.st = 200) => (o.hasexp /\ o.expoff = in.ttl + 10)
LimitHdr(r, o) == (r.srv = "lim" /\ Grp(r.route) \in {"live", "vod"} /\ r.route # "vodlist") => o.lreq # ""
FactsOK(o) == \A i \in DOMAIN o.facts : o.facts[i][2] = o.facts[i][3]
VersionOK(r, o) == (r.route = "version" /\ r.method = "GET" /\ o.st = 200) =>
                      (FactsOK(o) /\ { o.facts[i][1] : i \in DOMAIN o.facts } = {"Version"})
ConfigOK(r, o) == (r.route = "config" /\ r.method = "GET" /\ o.st = 200) =>
                      (FactsOK(o) /\ { o.facts[i][1] : i \in DOMAIN o.facts } = ConfigKeys)
AssetsOK(r, o) == (r.route = "assets" /\ r.method = "GET" /\ o.st = 200) =>
                      (ToSet(o.listed) = ToSet(o.servable) /\ o.listed # <<>>)

ClauseNames == <<"X07.cors", "X07.status", "X07.ctype", "X07.length", "X07.length.handler", "X07.length.present", "X07.chunked",
                 "X07.lowlat.image", "X07.options", "X07.redirect.location", "X07.expires", "X07.limit", "X07.version",
                 "X07.config", "X07.assets">>
Holds(c, r, in, o) ==
   CASE c = "X07.cors" -> Cors(r, o)
     [] c = "X07.status" -> StatusOK(r, o.st)
     [] c = "X07.ctype" -> CType(r, o)
     [] c = "X07.length" -> LengthWire(r, o)
     [] c = "X07.length.handler" -> LengthHandler(r, o)
     [] c = "X07.length.present" -> LengthPresent(r, o)
     [] c = "X07.chunked" -> ChunkedOK(r, o)
     [] c = "X07.lowlat.image" -> LowLatImage(r, o)
     [] c = "X07.options" -> OptionsOK(r, o)
     [] c = "X07.redirect.location" -> RedirectLoc(r, in, o)
     [] c = "X07.expires" -> ExpiresOK(r, in, o)
     [] c = "X07.limit" -> LimitHdr(r, o)
     [] c = "X07.version" -> VersionOK(r, o)
     [] c = "X07.config" -> ConfigOK(r, o)
     [] c = "X07.assets" -> AssetsOK(r, o)
Failing(r, in, o) == { c \in ToSet(ClauseNames) : ~Holds(c, r, in, o) }

-----------------------------------------------------------------------------
(* Relations between TWO responses. p = [st, ct, cl, hst, hct, hcl, blen, dig, method, allow] *)
\* (c) X07.head: a = GET, b = HEAD of the same URL
HeadPairOK(a, b) == /\ b.st = a.st /\ b.ct = a.ct /\ b.hst = a.hst /\ b.hct = a.hct /\ b.hcl = a.hcl /\ b.blen = 0
\* (d) X07.redirect.follow: a = request for the Location, b = direct request
FollowPairOK(a, b) == a.st = b.st /\ a.ct = b.ct /\ a.cl = b.cl /\ a.dig = b.dig
\* (f) X07.allow: a = a request answered 405, b = OPTIONS of the same path
AllowPairOK(a, b) == (a.st = 405 /\ b.st = 204) => a.method \notin ToSet(b.allow)

-----------------------------------------------------------------------------
(* (f) X07.metrics. cnt: requests answered since the previous scrape, as a function <<family, code>> -> number;
   prev / cur: the scraped values <<family, code>> -> [tot, hist]. *)
Bump(cnt, k) == IF k \in DOMAIN cnt THEN [cnt EXCEPT ![k] = @ + 1] ELSE [x \in DOMAIN cnt \cup {k} |-> IF x = k THEN 1 ELSE cnt[x]]
ValAt(f, k, fld) == IF k \in DOMAIN f THEN f[k][fld] ELSE 0
CntAt(cnt, k) == IF k \in DOMAIN cnt THEN cnt[k] ELSE 0
MetricsBad(prev, cur, cnt) ==
   { k \in DOMAIN prev \cup DOMAIN cur \cup DOMAIN cnt :
        \/ ValAt(cur, k, "tot") - ValAt(prev, k, "tot") # CntAt(cnt, k)
        \/ ValAt(cur, k, "hist") - ValAt(prev, k, "hist") # CntAt(cnt, k) }
=============================================================================

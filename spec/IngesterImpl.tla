---------------------------- MODULE IngesterImpl ----------------------------
(* EXPLORER for C16: the CMAF-ingest sender as the Go code runs it
   (cmd/livesim2/app/cmaf-ingester.go: start / sendMediaSegments / sendMediaSegment /
   triggerNextSegment, api.go: step and delete handlers), in step mode (testNowMS set: the timer
   never fires).  Judged by the oracle operators of IngesterOps.

   Processes
     loop  <<"loop", s, "">>   the session goroutine `start(ctx)`: init segments one representation
                                after the other, then `select` on trigger / ctx.Done, fan-out to one
                                sender per representation, WaitGroup, next number.
     snd   <<"snd", s, r>>      the per-representation goroutine `sendMediaSegment`.
     cl    <<"cl", c, "">>      an API client executing its script of REST calls sequentially:
                                step = send on the UNBUFFERED channel nextSegTrigger (offer[c] = s until
                                the loop receives), delete = cancel of the session context.
   Receiver: appends to log[s][r] at request arrival; answers the positions in `errs` with an
   error status (init error => the session stops; media error => logged, session goes on).
   Slow receivers are the interleavings in which `s1` is delayed.

   Knobs  Extra = 1: the code (lastSegNrToSend = next + nrSegsToSend with an inclusive loop => one
                     segment more than duration/segmentDuration); Extra = 0: proposed fix.
          StepGuard = FALSE: the code (Step blocks forever once the session goroutine has returned);
                      TRUE: proposed fix (Step also selects on a `done` channel).                 *)
EXTENDS Integers, Sequences, FiniteSets, TLC, Json, IngesterOps
CONSTANTS Sess, Reps, Clients, NSeg, Extra, First, Scripts, ErrSets, StepGuard

NLoM == IF NSeg = 0 THEN -1 ELSE NSeg
NHiM == NLoM

(* --algorithm ingester {
  variables script \in Scripts, errs \in ErrSets,
            ctxDone = [s \in Sess |-> FALSE],
            offer = [c \in Clients |-> 0],
            state = [s \in Sess |-> "notstarted"],
            log = [s \in Sess |-> [r \in Reps |-> <<>>]],
            ends = [s \in Sess |-> [r \in Reps |-> 0]],
            job = [s \in Sess |-> [r \in Reps |-> <<>>]],
            wg = [s \in Sess |-> 0],
            initErr = [s \in Sess |-> FALSE],
            stepCalls = [s \in Sess |-> 0],
            servedLive = [s \in Sess |-> 0],
            delCalled = [s \in Sess |-> FALSE],
            delRet = [s \in Sess |-> FALSE],
            callsAtDelRet = [s \in Sess |-> 0],
            rets = [c \in Clients |-> 0];       \* API calls of client c that have returned

  fair process (loop \in {<<"loop", z, "">> : z \in Sess})
    variables sid = self[2], todo = Reps, nInitErr = 0, next = First, last = -1, r0 = "";
  {
   ini: while (todo # {}) {
          r0 := CHOOSE x \in todo : TRUE;
          todo := todo \ {r0};
          if (ctxDone[sid]) {                       \* a request with a cancelled context never leaves
             nInitErr := nInitErr + 1;
          } else {
             log[sid][r0] := Append(log[sid][r0], [kind |-> "init", nr |-> 0, last |-> FALSE]);
             if (<<sid, r0, 0>> \in errs) { nInitErr := nInitErr + 1; initErr[sid] := TRUE; };
          };
        };
   chk: if (nInitErr > 0) { goto stop; };
   run: state[sid] := "running";
        last := IF NSeg = 0 THEN -1 ELSE First + NSeg - 1 + Extra;
   top: if (last >= 0 /\ next > last) { goto stop; };
   sel: either { with (c \in {x \in Clients : offer[x] = sid}) { offer[c] := 0; }; }    \* <-c.nextSegTrigger
        or     { await ctxDone[sid]; goto stop; };                                     \* <-ctx.Done()
   snd: job[sid] := [r \in Reps |-> <<next, next = last>>];
        wg[sid] := Cardinality(Reps);
   wt:  await wg[sid] = 0;
        next := next + 1;
        goto top;
   stop: state[sid] := "stopped";
  }

  fair process (snd \in {<<"snd", z, r>> : z \in Sess, r \in Reps})
    variables ss = self[2], rr = self[3];
  {
   s0: while (TRUE) {
         await job[ss][rr] # <<>>;
         if (ctxDone[ss]) {                        \* http.Client.Do fails at once: nothing reaches the receiver
            job[ss][rr] := <<>>;
            wg[ss] := wg[ss] - 1;
         } else {
            log[ss][rr] := Append(log[ss][rr], [kind |-> "media", nr |-> job[ss][rr][1], last |-> job[ss][rr][2]]);
   s1:      ends[ss][rr] := ends[ss][rr] + 1;      \* response read (any status): wg.Done
            job[ss][rr] := <<>>;
            wg[ss] := wg[ss] - 1;
         };
       }
  }

  fair process (cl \in {<<"cl", c, "">> : c \in Clients})
    variables me = self[2], i = 1, o = <<>>;
  {
   c0: while (i <= Len(script[me])) {
         o := script[me][i];
         if (o[1] = "step") {
            stepCalls[o[2]] := stepCalls[o[2]] + 1;
            offer[me] := o[2];
   c1:      await offer[me] = 0 \/ (StepGuard /\ state[o[2]] = "stopped");
            if (offer[me] = 0) {
               if (~delCalled[o[2]]) { servedLive[o[2]] := servedLive[o[2]] + 1; };
            } else {
               offer[me] := 0;
            };
         } else {
            delCalled[o[2]] := TRUE;
            ctxDone[o[2]] := TRUE;
   c2:      delRet[o[2]] := TRUE;
            callsAtDelRet[o[2]] := stepCalls[o[2]];
         };
   c3:   i := i + 1;
         rets[me] := rets[me] + 1;
       }
  }
} *)
\* BEGIN TRANSLATION
\* Label snd of process loop at line 65 col 9 changed to snd_
VARIABLES pc, script, errs, ctxDone, offer, state, log, ends, job, wg, 
          initErr, stepCalls, servedLive, delCalled, delRet, callsAtDelRet, 
          rets, sid, todo, nInitErr, next, last, r0, ss, rr, me, i, o

vars == << pc, script, errs, ctxDone, offer, state, log, ends, job, wg, 
           initErr, stepCalls, servedLive, delCalled, delRet, callsAtDelRet, 
           rets, sid, todo, nInitErr, next, last, r0, ss, rr, me, i, o >>

ProcSet == ({<<"loop", z, "">> : z \in Sess}) \cup ({<<"snd", z, r>> : z \in Sess, r \in Reps}) \cup ({<<"cl", c, "">> : c \in Clients})

Init == (* Global variables *)
        /\ script \in Scripts
        /\ errs \in ErrSets
        /\ ctxDone = [s \in Sess |-> FALSE]
        /\ offer = [c \in Clients |-> 0]
        /\ state = [s \in Sess |-> "notstarted"]
        /\ log = [s \in Sess |-> [r \in Reps |-> <<>>]]
        /\ ends = [s \in Sess |-> [r \in Reps |-> 0]]
        /\ job = [s \in Sess |-> [r \in Reps |-> <<>>]]
        /\ wg = [s \in Sess |-> 0]
        /\ initErr = [s \in Sess |-> FALSE]
        /\ stepCalls = [s \in Sess |-> 0]
        /\ servedLive = [s \in Sess |-> 0]
        /\ delCalled = [s \in Sess |-> FALSE]
        /\ delRet = [s \in Sess |-> FALSE]
        /\ callsAtDelRet = [s \in Sess |-> 0]
        /\ rets = [c \in Clients |-> 0]
        (* Process loop *)
        /\ sid = [self \in {<<"loop", z, "">> : z \in Sess} |-> self[2]]
        /\ todo = [self \in {<<"loop", z, "">> : z \in Sess} |-> Reps]
        /\ nInitErr = [self \in {<<"loop", z, "">> : z \in Sess} |-> 0]
        /\ next = [self \in {<<"loop", z, "">> : z \in Sess} |-> First]
        /\ last = [self \in {<<"loop", z, "">> : z \in Sess} |-> -1]
        /\ r0 = [self \in {<<"loop", z, "">> : z \in Sess} |-> ""]
        (* Process snd *)
        /\ ss = [self \in {<<"snd", z, r>> : z \in Sess, r \in Reps} |-> self[2]]
        /\ rr = [self \in {<<"snd", z, r>> : z \in Sess, r \in Reps} |-> self[3]]
        (* Process cl *)
        /\ me = [self \in {<<"cl", c, "">> : c \in Clients} |-> self[2]]
        /\ i = [self \in {<<"cl", c, "">> : c \in Clients} |-> 1]
        /\ o = [self \in {<<"cl", c, "">> : c \in Clients} |-> <<>>]
        /\ pc = [self \in ProcSet |-> CASE self \in {<<"loop", z, "">> : z \in Sess} -> "ini"
                                        [] self \in {<<"snd", z, r>> : z \in Sess, r \in Reps} -> "s0"
                                        [] self \in {<<"cl", c, "">> : c \in Clients} -> "c0"]

ini(self) == /\ pc[self] = "ini"
             /\ IF todo[self] # {}
                   THEN /\ r0' = [r0 EXCEPT ![self] = CHOOSE x \in todo[self] : TRUE]
                        /\ todo' = [todo EXCEPT ![self] = todo[self] \ {r0'[self]}]
                        /\ IF ctxDone[sid[self]]
                              THEN /\ nInitErr' = [nInitErr EXCEPT ![self] = nInitErr[self] + 1]
                                   /\ UNCHANGED << log, initErr >>
                              ELSE /\ log' = [log EXCEPT ![sid[self]][r0'[self]] = Append(log[sid[self]][r0'[self]], [kind |-> "init", nr |-> 0, last |-> FALSE])]
                                   /\ IF <<sid[self], r0'[self], 0>> \in errs
                                         THEN /\ nInitErr' = [nInitErr EXCEPT ![self] = nInitErr[self] + 1]
                                              /\ initErr' = [initErr EXCEPT ![sid[self]] = TRUE]
                                         ELSE /\ TRUE
                                              /\ UNCHANGED << initErr, 
                                                              nInitErr >>
                        /\ pc' = [pc EXCEPT ![self] = "ini"]
                   ELSE /\ pc' = [pc EXCEPT ![self] = "chk"]
                        /\ UNCHANGED << log, initErr, todo, nInitErr, r0 >>
             /\ UNCHANGED << script, errs, ctxDone, offer, state, ends, job, 
                             wg, stepCalls, servedLive, delCalled, delRet, 
                             callsAtDelRet, rets, sid, next, last, ss, rr, me, 
                             i, o >>

chk(self) == /\ pc[self] = "chk"
             /\ IF nInitErr[self] > 0
                   THEN /\ pc' = [pc EXCEPT ![self] = "stop"]
                   ELSE /\ pc' = [pc EXCEPT ![self] = "run"]
             /\ UNCHANGED << script, errs, ctxDone, offer, state, log, ends, 
                             job, wg, initErr, stepCalls, servedLive, 
                             delCalled, delRet, callsAtDelRet, rets, sid, todo, 
                             nInitErr, next, last, r0, ss, rr, me, i, o >>

run(self) == /\ pc[self] = "run"
             /\ state' = [state EXCEPT ![sid[self]] = "running"]
             /\ last' = [last EXCEPT ![self] = IF NSeg = 0 THEN -1 ELSE First + NSeg - 1 + Extra]
             /\ pc' = [pc EXCEPT ![self] = "top"]
             /\ UNCHANGED << script, errs, ctxDone, offer, log, ends, job, wg, 
                             initErr, stepCalls, servedLive, delCalled, delRet, 
                             callsAtDelRet, rets, sid, todo, nInitErr, next, 
                             r0, ss, rr, me, i, o >>

top(self) == /\ pc[self] = "top"
             /\ IF last[self] >= 0 /\ next[self] > last[self]
                   THEN /\ pc' = [pc EXCEPT ![self] = "stop"]
                   ELSE /\ pc' = [pc EXCEPT ![self] = "sel"]
             /\ UNCHANGED << script, errs, ctxDone, offer, state, log, ends, 
                             job, wg, initErr, stepCalls, servedLive, 
                             delCalled, delRet, callsAtDelRet, rets, sid, todo, 
                             nInitErr, next, last, r0, ss, rr, me, i, o >>

sel(self) == /\ pc[self] = "sel"
             /\ \/ /\ \E c \in {x \in Clients : offer[x] = sid[self]}:
                        offer' = [offer EXCEPT ![c] = 0]
                   /\ pc' = [pc EXCEPT ![self] = "snd_"]
                \/ /\ ctxDone[sid[self]]
                   /\ pc' = [pc EXCEPT ![self] = "stop"]
                   /\ offer' = offer
             /\ UNCHANGED << script, errs, ctxDone, state, log, ends, job, wg, 
                             initErr, stepCalls, servedLive, delCalled, delRet, 
                             callsAtDelRet, rets, sid, todo, nInitErr, next, 
                             last, r0, ss, rr, me, i, o >>

snd_(self) == /\ pc[self] = "snd_"
              /\ job' = [job EXCEPT ![sid[self]] = [r \in Reps |-> <<next[self], next[self] = last[self]>>]]
              /\ wg' = [wg EXCEPT ![sid[self]] = Cardinality(Reps)]
              /\ pc' = [pc EXCEPT ![self] = "wt"]
              /\ UNCHANGED << script, errs, ctxDone, offer, state, log, ends, 
                              initErr, stepCalls, servedLive, delCalled, 
                              delRet, callsAtDelRet, rets, sid, todo, nInitErr, 
                              next, last, r0, ss, rr, me, i, o >>

wt(self) == /\ pc[self] = "wt"
            /\ wg[sid[self]] = 0
            /\ next' = [next EXCEPT ![self] = next[self] + 1]
            /\ pc' = [pc EXCEPT ![self] = "top"]
            /\ UNCHANGED << script, errs, ctxDone, offer, state, log, ends, 
                            job, wg, initErr, stepCalls, servedLive, delCalled, 
                            delRet, callsAtDelRet, rets, sid, todo, nInitErr, 
                            last, r0, ss, rr, me, i, o >>

stop(self) == /\ pc[self] = "stop"
              /\ state' = [state EXCEPT ![sid[self]] = "stopped"]
              /\ pc' = [pc EXCEPT ![self] = "Done"]
              /\ UNCHANGED << script, errs, ctxDone, offer, log, ends, job, wg, 
                              initErr, stepCalls, servedLive, delCalled, 
                              delRet, callsAtDelRet, rets, sid, todo, nInitErr, 
                              next, last, r0, ss, rr, me, i, o >>

loop(self) == ini(self) \/ chk(self) \/ run(self) \/ top(self) \/ sel(self)
                 \/ snd_(self) \/ wt(self) \/ stop(self)

s0(self) == /\ pc[self] = "s0"
            /\ job[ss[self]][rr[self]] # <<>>
            /\ IF ctxDone[ss[self]]
                  THEN /\ job' = [job EXCEPT ![ss[self]][rr[self]] = <<>>]
                       /\ wg' = [wg EXCEPT ![ss[self]] = wg[ss[self]] - 1]
                       /\ pc' = [pc EXCEPT ![self] = "s0"]
                       /\ log' = log
                  ELSE /\ log' = [log EXCEPT ![ss[self]][rr[self]] = Append(log[ss[self]][rr[self]], [kind |-> "media", nr |-> job[ss[self]][rr[self]][1], last |-> job[ss[self]][rr[self]][2]])]
                       /\ pc' = [pc EXCEPT ![self] = "s1"]
                       /\ UNCHANGED << job, wg >>
            /\ UNCHANGED << script, errs, ctxDone, offer, state, ends, initErr, 
                            stepCalls, servedLive, delCalled, delRet, 
                            callsAtDelRet, rets, sid, todo, nInitErr, next, 
                            last, r0, ss, rr, me, i, o >>

s1(self) == /\ pc[self] = "s1"
            /\ ends' = [ends EXCEPT ![ss[self]][rr[self]] = ends[ss[self]][rr[self]] + 1]
            /\ job' = [job EXCEPT ![ss[self]][rr[self]] = <<>>]
            /\ wg' = [wg EXCEPT ![ss[self]] = wg[ss[self]] - 1]
            /\ pc' = [pc EXCEPT ![self] = "s0"]
            /\ UNCHANGED << script, errs, ctxDone, offer, state, log, initErr, 
                            stepCalls, servedLive, delCalled, delRet, 
                            callsAtDelRet, rets, sid, todo, nInitErr, next, 
                            last, r0, ss, rr, me, i, o >>

snd(self) == s0(self) \/ s1(self)

c0(self) == /\ pc[self] = "c0"
            /\ IF i[self] <= Len(script[me[self]])
                  THEN /\ o' = [o EXCEPT ![self] = script[me[self]][i[self]]]
                       /\ IF o'[self][1] = "step"
                             THEN /\ stepCalls' = [stepCalls EXCEPT ![o'[self][2]] = stepCalls[o'[self][2]] + 1]
                                  /\ offer' = [offer EXCEPT ![me[self]] = o'[self][2]]
                                  /\ pc' = [pc EXCEPT ![self] = "c1"]
                                  /\ UNCHANGED << ctxDone, delCalled >>
                             ELSE /\ delCalled' = [delCalled EXCEPT ![o'[self][2]] = TRUE]
                                  /\ ctxDone' = [ctxDone EXCEPT ![o'[self][2]] = TRUE]
                                  /\ pc' = [pc EXCEPT ![self] = "c2"]
                                  /\ UNCHANGED << offer, stepCalls >>
                  ELSE /\ pc' = [pc EXCEPT ![self] = "Done"]
                       /\ UNCHANGED << ctxDone, offer, stepCalls, delCalled, o >>
            /\ UNCHANGED << script, errs, state, log, ends, job, wg, initErr, 
                            servedLive, delRet, callsAtDelRet, rets, sid, todo, 
                            nInitErr, next, last, r0, ss, rr, me, i >>

c3(self) == /\ pc[self] = "c3"
            /\ i' = [i EXCEPT ![self] = i[self] + 1]
            /\ rets' = [rets EXCEPT ![me[self]] = rets[me[self]] + 1]
            /\ pc' = [pc EXCEPT ![self] = "c0"]
            /\ UNCHANGED << script, errs, ctxDone, offer, state, log, ends, 
                            job, wg, initErr, stepCalls, servedLive, delCalled, 
                            delRet, callsAtDelRet, sid, todo, nInitErr, next, 
                            last, r0, ss, rr, me, o >>

c1(self) == /\ pc[self] = "c1"
            /\ offer[me[self]] = 0 \/ (StepGuard /\ state[o[self][2]] = "stopped")
            /\ IF offer[me[self]] = 0
                  THEN /\ IF ~delCalled[o[self][2]]
                             THEN /\ servedLive' = [servedLive EXCEPT ![o[self][2]] = servedLive[o[self][2]] + 1]
                             ELSE /\ TRUE
                                  /\ UNCHANGED servedLive
                       /\ offer' = offer
                  ELSE /\ offer' = [offer EXCEPT ![me[self]] = 0]
                       /\ UNCHANGED servedLive
            /\ pc' = [pc EXCEPT ![self] = "c3"]
            /\ UNCHANGED << script, errs, ctxDone, state, log, ends, job, wg, 
                            initErr, stepCalls, delCalled, delRet, 
                            callsAtDelRet, rets, sid, todo, nInitErr, next, 
                            last, r0, ss, rr, me, i, o >>

c2(self) == /\ pc[self] = "c2"
            /\ delRet' = [delRet EXCEPT ![o[self][2]] = TRUE]
            /\ callsAtDelRet' = [callsAtDelRet EXCEPT ![o[self][2]] = stepCalls[o[self][2]]]
            /\ pc' = [pc EXCEPT ![self] = "c3"]
            /\ UNCHANGED << script, errs, ctxDone, offer, state, log, ends, 
                            job, wg, initErr, stepCalls, servedLive, delCalled, 
                            rets, sid, todo, nInitErr, next, last, r0, ss, rr, 
                            me, i, o >>

cl(self) == c0(self) \/ c3(self) \/ c1(self) \/ c2(self)

Next == (\E self \in {<<"loop", z, "">> : z \in Sess}: loop(self))
           \/ (\E self \in {<<"snd", z, r>> : z \in Sess, r \in Reps}: snd(self))
           \/ (\E self \in {<<"cl", c, "">> : c \in Clients}: cl(self))

Spec == /\ Init /\ [][Next]_vars
        /\ \A self \in {<<"loop", z, "">> : z \in Sess} : WF_vars(loop(self))
        /\ \A self \in {<<"snd", z, r>> : z \in Sess, r \in Reps} : WF_vars(snd(self))
        /\ \A self \in {<<"cl", c, "">> : c \in Clients} : WF_vars(cl(self))

\* END TRANSLATION

(* ------------------------------------------------------------------ properties (oracle) *)
Kinds(sq) == [k \in 1..Len(sq) |-> sq[k].kind]
MediaStarts(s_, r_) == Len(SelectSeq(log[s_][r_], LAMBDA e : e.kind = "media"))
MaxStarts(s_) == CHOOSE m \in {MediaStarts(s_, r_) : r_ \in Reps} : \A r_ \in Reps : MediaStarts(s_, r_) <= m

InitFirst   == \A s_ \in Sess, r_ \in Reps : InitFirstOK(Kinds(log[s_][r_]))                       \* C16.init_first
Consecutive == \A s_ \in Sess, r_ \in Reps : \A k \in 2..Len(log[s_][r_]) :                        \* C16.consecutive
                  log[s_][r_][k].nr = ExpectedNr(First, k - 1)
StepLower   == \A s_ \in Sess, r_ \in Reps : StepLowerOK(servedLive[s_], ends[s_][r_])             \* C16.step
StepUpper   == \A s_ \in Sess, r_ \in Reps : StepUpperOK(stepCalls[s_], MediaStarts(s_, r_))       \* C16.step
DeleteStops == \A s_ \in Sess, r_ \in Reps : DeleteOK(delRet[s_], callsAtDelRet[s_], MediaStarts(s_, r_))   \* C16.delete
DurationCount == \A s_ \in Sess, r_ \in Reps : CountOK(NHiM, MediaStarts(s_, r_))                  \* C16.duration
DurationLmsg  == \A s_ \in Sess, r_ \in Reps : \A k \in 2..Len(log[s_][r_]) :                      \* C16.duration
                    LmsgOK(NLoM, NHiM, k - 1, log[s_][r_][k].last)

\* nothing can move any more (explicit form of ~ENABLED Next, checked equivalent by QuiescentDef in IngesterImpl_quiesc.cfg)
Quiescent ==
   /\ \A z \in Sess : \/ pc[<<"loop", z, "">>] = "Done"
                       \/ (pc[<<"loop", z, "">>] = "sel" /\ ~ctxDone[z] /\ \A c \in Clients : offer[c] # z)
   /\ \A z \in Sess, r \in Reps : pc[<<"snd", z, r>>] = "s0" /\ job[z][r] = <<>>
   /\ \A c \in Clients : \/ pc[<<"cl", c, "">>] = "Done"
                          \/ (pc[<<"cl", c, "">>] = "c1" /\ offer[c] # 0 /\ ~(StepGuard /\ state[offer[c]] = "stopped"))
QuiescentDef == Quiescent <=> ~ENABLED Next
Delivered == Quiescent => \A s_ \in Sess : (~delCalled[s_] /\ ~initErr[s_]) =>                     \* C16.step
                \A r_ \in Reps : StepDeliveredOK(servedLive[s_], ends[s_][r_], IF NSeg = 0 THEN -1 ELSE NSeg + Extra)
\* a client blocked for ever is blocked in a step on a session that may legitimately have stopped
StuckOnlyAfterStop == Quiescent => \A c \in Clients : offer[c] # 0 =>
                         MayStop(delCalled[offer[c]], initErr[offer[c]], NLoM, MaxStarts(offer[c]))
\* no API call blocks for ever (EXPECTED to fail with StepGuard = FALSE: Step on a stopped session)
ApiReturns == \A c \in Clients : <>(pc[<<"cl", c, "">>] = "Done")
SessionsEnd == \A s_ \in Sess : delCalled[s_] ~> (state[s_] = "stopped")                           \* C16.delete: stops

(* ------------------------------------------------------------------ (R) emit explored scripts *)
Outcome == [media |-> [s_ \in Sess |-> [r_ \in Reps |-> MediaStarts(s_, r_)]],
            rets |-> rets,
            stopped |-> [s_ \in Sess |-> state[s_] = "stopped"]]
Emit == Quiescent => PrintT("GEN" \o ToJson([script |-> script, errs |-> errs, nseg |-> NSeg, out |-> Outcome]))
=============================================================================

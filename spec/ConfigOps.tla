----------------------------- MODULE ConfigOps -----------------------------
(* X08 (extra specification) - server configuration layering: cmd/livesim2/app/config.go, LoadConfig(args, cwd).

   PROPERTY TEXT (from the doc comment of LoadConfig "loads defaults, config file, command line, and finally applies
   environment variables", the flag help texts, the comments in LoadConfig and checkTLSParams' messages):
   The effective server configuration is decided per key by four layers of increasing precedence
        built-in defaults  <  JSON file given with --cfg  <  command-line flags  <  environment LIVESIM_<KEY>
   (the environment is applied LAST and therefore wins over the command line - unusual, but it is what the comment says).
   A key is named by its JSON name in the file (and in /config), by the flag of the same name on the command line (the key
   livewindowS has the flag --livewindow) and by LIVESIM_ + upper-cased name in the environment.
     X08.precedence   a key set in some layer has the value of the highest layer that sets it;
     X08.independence a key set in no layer has its default, whatever other keys are set;
     X08.derive       the documented derivations, applied to the layered values: vodroot and a repdataroot path are made absolute
                      against cwd; repdataroot "+" copies the (absolute) vodroot; repdataroot "-" gives "" and writerepdata false;
                      non-empty domains force port 443.  ("Make drmconfig absolute": both the verbatim and the absolute
                      drmcfgfile are accepted - the comment names a key that does not exist.)
     X08.reject       domains together with certpath/keypath, exactly one of certpath/keypath, or an effective value outside the
                      key's type (non-integer, non-boolean) is answered with an error (not demanded for a port / writerepdata
                      value that a derivation replaces);
     X08.accept       nothing else is rejected (an ill-typed value shadowed by a higher layer may or may not be rejected; an
                      ill-typed flag is always rejected by the flag parser);
     X08.order        the same flags / variables in another order give the same result;
     X08.pure         the same (args, file, environment) again gives the same result;
     X08.noleak       afterwards, a call with no file, flags or variables gives exactly the defaults.
   A layer is a function from the keys it sets to values; all values are strings (integers and booleans in their decimal /
   true-false spelling).  L = [file |-> .., flag |-> .., env |-> ..].                                                     *)
EXTENDS Integers, Sequences, FiniteSets

Keys == {"port", "logformat", "loglevel", "livewindowS", "timeoutS", "maxrequests", "reqlimitlog", "reqlimitint", "whitelistblocks",
         "vodroot", "repdataroot", "writerepdata", "domains", "certpath", "keypath", "host", "playurl", "drmcfgfile"}
IntKeys == {"port", "livewindowS", "timeoutS", "maxrequests", "reqlimitint"}
BoolKeys == {"writerepdata"}
IllTyped == {"abc", "maybe"}      \* the tokens the driver uses for values outside an integer / boolean key's type

\* defaults as documented by the flag help / README (NOT read from app.DefaultConfig)
Default(k) == CASE k = "port" -> "8888" [] k = "logformat" -> "text" [] k = "loglevel" -> "INFO" [] k = "livewindowS" -> "300"
                [] k = "timeoutS" -> "60" [] k = "maxrequests" -> "0" [] k = "reqlimitint" -> "86400" [] k = "vodroot" -> "./vod"
                [] k = "repdataroot" -> "+" [] k = "writerepdata" -> "false"
                [] k = "playurl" -> "https://reference.dashif.org/dash.js/latest/samples/dash-if-reference-player/index.html?mpd=%s&autoLoad=true&muted=true"
                [] OTHER -> ""

LayerNames == <<"file", "flag", "env">>        \* increasing precedence
Sets(L, ln, k) == k \in DOMAIN L[ln]
SetAnywhere(L, k) == \E i \in 1..3 : Sets(L, LayerNames[i], k)
TopLayer(L, k) == IF Sets(L, "env", k) THEN "env" ELSE IF Sets(L, "flag", k) THEN "flag" ELSE IF Sets(L, "file", k) THEN "file" ELSE "default"
\* the layered value before derivations
Raw(L, k) == LET t == TopLayer(L, k) IN IF t = "default" THEN Default(k) ELSE L[t][k]

\* abs: function from path tokens to their absolute form (computed by the driver / the model, not by livesim2)
Abs(abs, v) == IF v = "" THEN "" ELSE IF v \in DOMAIN abs THEN abs[v] ELSE v

TlsBad(L) == LET d == Raw(L, "domains")  c == Raw(L, "certpath")  p == Raw(L, "keypath")
             IN IF d # "" THEN c # "" \/ p # "" ELSE (c = "") # (p = "")
TypedKeys == IntKeys \cup BoolKeys
\* a derivation that replaces the key's value (port by 443, writerepdata by false) also replaces an ill-typed one: not demanded then
Replaced(L, k) == (k = "port" /\ Raw(L, "domains") # "") \/ (k = "writerepdata" /\ Raw(L, "repdataroot") = "-")
MustReject(L) == TlsBad(L) \/ (\E k \in TypedKeys : Raw(L, k) \in IllTyped /\ ~Replaced(L, k)) \/ (\E k \in DOMAIN L.flag : L.flag[k] \in IllTyped)
MayReject(L) == MustReject(L) \/ \E i \in 1..3 : \E k \in DOMAIN L[LayerNames[i]] : L[LayerNames[i]][k] \in IllTyped

\* the set of admissible effective values of key k (a singleton except for drmcfgfile)
Expected(L, abs, k) ==
   CASE k = "vodroot" -> {Abs(abs, Raw(L, k))}
     [] k = "repdataroot" -> LET r == Raw(L, k) IN IF r = "+" THEN {Abs(abs, Raw(L, "vodroot"))} ELSE IF r = "-" THEN {""} ELSE {Abs(abs, r)}
     [] k = "writerepdata" -> IF Raw(L, "repdataroot") = "-" THEN {"false"} ELSE {Raw(L, k)}
     [] k = "port" -> IF Raw(L, "domains") # "" THEN {"443"} ELSE {Raw(L, k)}
     [] k = "drmcfgfile" -> {Raw(L, k), Abs(abs, Raw(L, k))}
     [] OTHER -> {Raw(L, k)}
\* keys whose value is decided by a derivation in this scenario (judged under X08.derive)
Derived(L, abs, k) == Expected(L, abs, k) # {Raw(L, k)}
\* the keys that may influence key k (documented derivations)
Governs(k) == CASE k = "port" -> {"port", "domains"} [] k = "repdataroot" -> {"repdataroot", "vodroot"}
                [] k = "writerepdata" -> {"writerepdata", "repdataroot"} [] OTHER -> {k}
ClauseOf(L, abs, k) == IF Derived(L, abs, k) THEN "X08.derive" ELSE IF SetAnywhere(L, k) THEN "X08.precedence" ELSE "X08.independence"
NoLayers == [file |-> <<>>, flag |-> <<>>, env |-> <<>>]
=============================================================================

------------------------ MODULE MpdSignal_Trace ------------------------
(* (V) for X01: validates what harness/drive/x01 recorded from the real livesim2 server against MpdSignalOps.
   Events:
     hdr  {id, asset, mode, parts ([k, c] as enumerated by MpdSignal.tla),
           c     the concrete configuration record as constructed by the driver (MpdSignalOps.NoCfg fields),
           e     [mode, segMin, segMax, vas, vodId, vodUtc, host, url, drmScheme] - ground truth: request host and path parts, the
                 driver's own reading of the VoD MPD and of the VoD segments}
     sig  {id, t, now = <<s, ms>>, st (HTTP status), perr (projection error or ""), nf,
           facts  the facts <<per, scope, cls, as, inst, v>> of the served MPD whose cls is in MpdSignalOps.SigClasses}
     ind  {id, t, key, st, perr (of the MPD requested without `key` at the same instant), modper,
           diff   the facts that are in exactly one of the two MPDs (for key = periods: Period by Period against the
                  single Period, per-stripped; otherwise outside the Periods and in the Periods both MPDs list), at
                  most 2 per (scope, cls) - X01.indep depends on scope and cls of a differing fact only;
           ndiff  the number of differing facts, common}
   Clauses: X01.served, the value clauses X01.<group> of MpdSignalOps (every one on every served MPD), X01.indep.   *)
EXTENDS TraceLib, MpdSignalOps
VARIABLES l, h
vars == <<l, h>>
Clause(name, ok, detail) == ClauseAt(l, name, ok, detail)
ev == Trace[l]
H  == Trace[h]
ToSet(s) == { s[i] : i \in DOMAIN s }

Init == l = 1 /\ h = 1 /\ MonitorInit /\ TLCSet(2, 0) /\ TLCSet(3, 0) /\ TLCSet(4, 0)

Cfg == /\ ev.ev = "hdr"
       /\ Clause("hdr.admissible",
                 /\ ValidCfg(ev.c, ev.mode) /\ ev.e.mode = ev.mode
                 /\ KeysOf(ev.c) = { ev.parts[i].k : i \in DOMAIN ev.parts }
                 /\ ev.e.segMin > 0 /\ ev.e.segMin <= ev.e.segMax /\ Len(ev.e.vas) >= 1
                 /\ (ev.c.drm # "" <=> ev.e.drmScheme # "")
                 /\ \A i \in DOMAIN ev.e.vas : ev.e.vas[i][2] \in {"video", "audio", "text", "image", "other"}
                 /\ \A i, j \in DOMAIN ev.e.vas : i # j => ev.e.vas[i][1] # ev.e.vas[j][1],
                 "configuration header")
       /\ h' = l

Sig == /\ ev.ev = "sig" /\ ev.id = H.id
       /\ Clause("X01.served", ev.st = 200 /\ ev.perr = "", [status |-> ev.st, perr |-> ev.perr, why |-> "documented configuration not served / MPD unreadable"])
       /\ IF ev.st = 200 /\ ev.perr = ""
          THEN LET F == ToSet(ev.facts)
                   bad == Failing(H.c, H.e, ev.now, F)
               IN /\ \A i \in DOMAIN ClauseNames :
                        Clause(ClauseNames[i], ClauseNames[i] \notin bad, [t |-> ev.t, cfg |-> H.parts])
                  /\ TLCSet(2, TLCGet(2) + 1)
          ELSE TRUE
       /\ UNCHANGED h

Ind == /\ ev.ev = "ind" /\ ev.id = H.id
       /\ IF ~ValidCfg(Remove(H.c, ev.key), H.mode)
          THEN TLCSet(4, TLCGet(4) + 1)       \* the configuration without the key is not one the documentation offers
          ELSE /\ Clause("X01.served", ev.st = 200 /\ ev.perr = "", [status |-> ev.st, perr |-> ev.perr, key |-> ev.key, why |-> "configuration without the key not served"])
               /\ IF ev.st = 200 /\ ev.perr = ""
                  THEN LET U == Ungoverned(ev.key, ToSet(ev.diff))
                       IN /\ Clause("X01.indep", U = {},
                                    [key |-> ev.key, t |-> ev.t, n |-> Cardinality(U),
                                     first |-> IF U = {} THEN <<>> ELSE CHOOSE f \in U : TRUE,
                                     classes |-> { <<f[2], f[3]>> : f \in U }])
                          /\ TLCSet(3, TLCGet(3) + 1)
                  ELSE TRUE
       /\ UNCHANGED h

Step == l <= Len(Trace) /\ (Cfg \/ Sig \/ Ind) /\ l' = l + 1
Done == /\ l = Len(Trace) + 1 /\ Consumed(Len(Trace))
        /\ PrintT("X01STATS" \o ToJson([sig |-> TLCGet(2), ind |-> TLCGet(3), ind_skipped |-> TLCGet(4)]))
        /\ UNCHANGED vars
Spec == Init /\ [][Step \/ Done]_vars
Accepted == NoBad
=============================================================================

---------------------------- MODULE Limiter_Trace ----------------------------
(* (V) for C20: validates recorded executions of the real IPRequestLimiter / limiter
   middleware against the oracle machine of Limiter.tla (shared operators: LimiterOps).
   Events (one per line):
     hdr  {max, interval}                 new scenario: fresh limiter, resetTime = 0
     inc  {a, t, nr, maxnr, ok, wl, rt}   emitted by the hook inside the critical section
                                          (t, rt in ms since the limiter's start time)
     http {a, nr, maxhdr, status}         the HTTP response of the request counted as (a, nr)
     rc   {a, count, max}                 answer of GET /reqcount for address a (sequential phases only)
     end  {}                              end of scenario: every counted request was answered
     race {site}                          Go race detector report (no action allows it)      *)
EXTENDS TraceLib, LimiterOps, FiniteSets
VARIABLES l, rt, cnt, max, interval, pending
vars == <<l, rt, cnt, max, interval, pending>>
Clause(name, ok, detail) == ClauseAt(l, name, ok, detail)
e == Trace[l]
Cnt(a) == IF a \in DOMAIN cnt THEN cnt[a] ELSE 0

Init == /\ l = 1 /\ rt = 0 /\ cnt = <<>> /\ max = 0 /\ interval = 0 /\ pending = {}
        /\ MonitorInit

Hdr == /\ e.ev = "hdr"
       /\ rt' = 0 /\ cnt' = <<>> /\ max' = e.max /\ interval' = e.interval /\ pending' = {}

Inc == /\ e.ev = "inc"
       /\ LET must   == MustReset(rt, e.t, interval)
              may    == MayReset(rt, e.t, interval)
              didRst == e.rt # rt                       \* observed: the reset time changed
              reset  == IF must THEN TRUE ELSE IF may THEN didRst ELSE FALSE
              nr     == IF reset THEN 1 ELSE Cnt(e.a) + 1
          IN /\ Clause("C20.reset", (must => e.rt = e.t) /\ (~may => e.rt = rt) /\ (didRst => e.rt = e.t),
                       <<"rt_before", rt, "t", e.t, "rt_after", e.rt>>)
             /\ Clause("C20.counter", e.nr = nr, <<"expected", nr, "got", e.nr>>)
             /\ Clause("C20.quota", e.ok = Passes(nr, max, e.wl), <<"nr", nr, "max", max, "wl", e.wl, "ok", e.ok>>)
             /\ Clause("C20.white", e.maxnr = MaxReported(max, e.wl), <<"maxnr", e.maxnr>>)
             /\ rt' = IF reset THEN e.t ELSE rt
             /\ cnt' = IF reset THEN (e.a :> 1) ELSE (e.a :> nr) @@ cnt
             /\ pending' = pending \cup {<<e.a, e.nr, e.ok, e.maxnr>>}
       /\ UNCHANGED <<max, interval>>

Http == /\ e.ev = "http"
        /\ LET m == {p \in pending : p[1] = e.a /\ p[2] = e.nr} IN
           /\ Clause("C20.http.matches_inc", m # {}, <<e.a, e.nr>>)
           /\ IF m # {} THEN LET p == CHOOSE p \in m : TRUE IN
                 /\ Clause("C20.http.status", (e.status = 429) <=> ~p[3], <<"status", e.status, "ok", p[3]>>)
                 /\ Clause("C20.http.header", e.maxhdr = p[4], <<"hdr", e.maxhdr, "inc", p[4]>>)
              ELSE TRUE
           /\ pending' = pending \ m
        /\ UNCHANGED <<rt, cnt, max, interval>>

\* GET /reqcount reads the counter of the current interval without counting itself
Rc == /\ e.ev = "rc"
      /\ Clause("C20.reqcount", e.status = 200 /\ e.count = Cnt(e.a) /\ e.max = max, <<"a", e.a, "count", e.count, "expected", Cnt(e.a), "max", e.max>>)
      /\ UNCHANGED <<rt, cnt, max, interval, pending>>

End == /\ e.ev = "end"
       /\ Clause("C20.http.answered", Get(e, "http", FALSE) => pending = {}, <<"unanswered", Cardinality(pending)>>)
       /\ pending' = {}
       /\ UNCHANGED <<rt, cnt, max, interval>>

Race == /\ e.ev = "race"
        /\ Clause("C20.norace", FALSE, e.site)
        /\ UNCHANGED <<rt, cnt, max, interval, pending>>

Step == /\ l <= Len(Trace)
        /\ (Hdr \/ Inc \/ Http \/ Rc \/ End \/ Race)
        /\ l' = l + 1
Done == l = Len(Trace) + 1 /\ Consumed(Len(Trace)) /\ UNCHANGED vars
Spec == Init /\ [][Step \/ Done]_vars
Accepted == NoBad
=============================================================================

---------------------------- MODULE Scte35_Trace ----------------------------
(* (V) for C13: validates what the real livesim2 server serves under scte35_<N> against the oracle Scte35Ops.
   One scenario = one asset x N x start time x addressing mode x epoch: the MPD, a contiguous run of video segments,
   the audio / text segments of the same run, rejected values of N.  Events (harness/drive/c13):
     hdr  {sc, asset, TS, pm, ast, astmod, ...}   scenario constants: TS = media timescale of the video representation
          (ground truth of the asset generator / independent parse), pm = N of scte35_<N>, astmod = start_ % 60
     hdr  also {opts, chunked}: the other URL options combined with scte35_<N> in this scenario (label), chunked delivery
     mpd  {st, as, inband}                        as = one record per AdaptationSet of every Period: p (period index), kind (contentType or
          the mimeType prefix), nscte = number of InbandEventStream elements (AdaptationSet or Representation level) with the SCTE-35
          binary scheme; inband = <<schemeIdUri, value>> of every InbandEventStream of the video AdaptationSets
     seg  {st, st0, perr, run, s, e, ntop, emsgs} one served video segment: [s, e) = first tfdt .. + sum of sample durations,
          as pairs <<seconds, ticks>> over TS; run = the driver asked for the successor of the previous seg;
          st0 = status of the same URL without scte35_<N> (fetched only when st # 200, else -1);
          emsgs = every emsg box: ver, ets (timescale), pt = presentation time as <<seconds, ticks>> over ets, id, dur,
          scheme, value, and the splice_info_section decoded by the driver's own decoder (ok, tid, lenok, crcok, cmd, eid,
          cancel, out, imm, haspts, hasdur, auto, pts16, bd16) and by gots (gok, gcmd, geid, gpts16, gbd16);
          33-bit values v are pairs <<v \div 16, v % 16>>; uint32 values are logged as int32 (two's complement)
     oseg {kind, st, nemsg, ntop}                 one served audio / text / generated-subtitle segment of the same run
     rej  {what, val, st}                         request with scte35_<val>, val outside {1,2,3}
     end  {}                                      end of the scenario
   Clauses that depend on the minute grid (C13.once missing, C13.none off-schedule) are evaluated for every reading
   ph in {0, astmod} (Scte35Ops); a scenario is accepted if SOME reading has no failure; otherwise the failures of the
   reading with the fewest failures are reported at `end` (with the line numbers of the segments concerned).
   Clauses named M.* are sanity conditions of the recorder, not of the property (machinery errors). *)
EXTENDS TraceLib, Scte35Ops
VARIABLES l, h, inband, rs, ps, pe, carried, fails
vars == <<l, h, inband, rs, ps, pe, carried, fails>>
Clause(name, ok, detail) == ClauseAt(l, name, ok, detail)
e == Trace[l]
H == Trace[h]
None == [w |-> -1, r |-> 0]
Min(S) == CHOOSE x \in S : \A y \in S : x <= y
RECURSIVE SeqOf(_)
SeqOf(S) == IF S = {} THEN <<>> ELSE LET m == Min(S) IN <<m>> \o SeqOf(S \ {m})
NoFails(ast) == [ph \in {0, ast} |-> [n |-> 0, q |-> <<>>]]

Init == l = 1 /\ h = 1 /\ inband = {} /\ rs = None /\ ps = None /\ pe = None /\ carried = {} /\ fails = NoFails(0) /\ MonitorInit

Hdr == /\ e.ev = "hdr"
       /\ Clause("M.hdr", e.TS > 0 /\ e.astmod \in 0..59 /\ ValidN(e.pm), "scenario header")
       /\ h' = l /\ inband' = {} /\ rs' = None /\ ps' = None /\ pe' = None /\ carried' = {} /\ fails' = NoFails(e.astmod)

\* ---------------------------------------------------------------- C13.mpd
\* whenever scte35_<N> is set (alone or together with any other option): every video AdaptationSet of every Period
\* announces the SCTE-35 in-band event stream exactly once, no other AdaptationSet announces it
Mpd == /\ e.ev = "mpd"
       /\ Clause("C13.mpd", /\ e.st = 200
                            /\ \E j \in 1..Len(e.as) : e.as[j].kind = "video"
                            /\ \A j \in 1..Len(e.as) : e.as[j].nscte = (IF e.as[j].kind = "video" THEN 1 ELSE 0),
                 [status |-> e.st, adaptation_sets |-> e.as, video_inband |-> e.inband])
       /\ inband' = {e.inband[j] : j \in 1..Len(e.inband)}
       /\ UNCHANGED <<h, rs, ps, pe, carried, fails>>

\* ---------------------------------------------------------------- C13.fields (one emsg box x of the segment [s, en))
Fields(x, j, car) ==
   LET T == x.pt[1] IN
   /\ Clause("C13.fields.time", x.ver \in {0, 1} /\ x.ets > 0 /\ T >= 0 /\ x.pt[2] = 0,
             <<"presentation_time (seconds, ticks)", x.pt, "timescale", x.ets, "version", x.ver>>)
   /\ Clause("C13.fields.dur", x.ets <= 100000000 /\ x.dur = BreakS(H.pm) * x.ets,
             <<"event_duration", x.dur, "timescale", x.ets, "expected seconds", BreakS(H.pm)>>)
   /\ Clause("C13.fields.scheme", x.scheme = SchemeBin, <<"scheme_id_uri", x.scheme>>)
   /\ Clause("C13.mpd.announced", <<x.scheme, x.value>> \in inband, <<"emsg", <<x.scheme, x.value>>, "MPD", inband>>)
   /\ Clause("C13.fields.section", x.ok /\ x.tid = 252 /\ x.lenok /\ x.cmd = 5 /\ ~x.cancel /\ x.gok /\ x.gcmd = 5,
             <<"parsed", x.ok, "table_id", x.tid, "section_length ok", x.lenok, "command", x.cmd, "cancel", x.cancel, "gots", x.gok, x.gcmd>>)
   /\ Clause("C13.fields.crc", x.crcok, "CRC-32 of the splice_info_section")
   \* the pts_time field of splice_time()
   /\ Clause("C13.fields.pts", x.haspts /\ ~x.imm /\ x.ptsraw16 = Pts16(T) /\ x.gptsraw16 = Pts16(T),
             <<"pts_time/16", x.ptsraw16, "gots", x.gptsraw16, "expected (90000*T mod 2^33)/16", Pts16(T), "T", T>>)
   \* the splice time the section conveys to a SCTE 35 decoder (SCTE 35 9.6: pts_adjustment "shall be added to the pts_time";
   \* gots SCTE35.PTS()) is the same instant
   /\ Clause("C13.fields.pts_adjusted", (x.haspts /\ ~x.imm) => (x.pts16 = Pts16(T) /\ x.gpts16 = Pts16(T)),
             [adjusted_pts16 |-> x.pts16, gots_pts16 |-> x.gpts16, pts_adjustment16 |-> x.adj16, expected16 |-> Pts16(T), T |-> T,
              pts_time_field_ok |-> (x.ptsraw16 = Pts16(T)), adjusted_pts_is_zero |-> (x.pts16 = <<0, 0>> /\ x.gpts16 = <<0, 0>>)])
   /\ Clause("C13.fields.break", x.hasdur /\ x.bd16 = Break16(H.pm) /\ x.gbd16 = Break16(H.pm),
             <<"break_duration/16", x.bd16, "gots", x.gbd16, "expected", Break16(H.pm)>>)
   \* id: the emsg id and the splice_event_id name the same event; different events have different ids
   /\ Clause("C13.fields.id", x.id = x.eid /\ x.geid = x.eid /\ \A c \in car : c.T # T => c.id # x.id,
             <<"emsg id", x.id, "splice_event_id", x.eid, "gots", x.geid, "T", T>>)

Seg == /\ e.ev = "seg"
       /\ Clause("M.served", e.st = 200 \/ e.st0 = 200, <<"video segment not served with or without scte35", e.st, e.st0>>)
       /\ Clause("C13.served", ~(e.st # 200 /\ e.st0 = 200) /\ ~(e.st = 200 /\ e.perr # ""),
                 <<"status with scte35", e.st, "without", e.st0, "parse error", e.perr>>)
       /\ IF e.st # 200 \/ e.perr # "" THEN rs' = None /\ ps' = None /\ pe' = None /\ carried' = {} /\ UNCHANGED fails
          ELSE LET s    == TFrom(e.s)
                   en   == TFrom(e.e)
                   cont == e.run /\ pe # None /\ TEq(pe, s)
                   rs1  == IF cont THEN rs ELSE s
                   car  == IF cont THEN carried ELSE {}
                   K    == Len(e.emsgs)
                   Ts   == {e.emsgs[j].pt[1] : j \in 1..K}
                   have == {c.T : c \in car} \cup Ts
                   \* a segment of the run whose closed interval contains the announce instant of T (this one, or the previous
                   \* one when the instant is the common boundary) started before the minute that contains the instant
                   PrevMin(ph, T) == StartedInPrevMinute(ph, s, T) \/ (cont /\ TEq(s, Announce(T)) /\ StartedInPrevMinute(ph, ps, T))
                   rec(c, ph, T) == [l |-> l, c |-> c, d |-> [T |-> T, offset |-> (T + ph) % 60, reading |-> ph,
                                                              announce_in_prev_minute_segment |-> PrevMin(ph, T)]]
                   add(f, ph) == LET off  == SeqOf(OffSchedule(H.pm, ph, Ts))
                                     miss == SeqOf(Missing(H.pm, ph, s, en, rs1, have))
                                     new  == [j \in 1..Len(off) |-> rec("C13.none", ph, off[j])] \o
                                             [j \in 1..Len(miss) |-> rec("C13.once", ph, miss[j])]
                                 IN [n |-> f.n + Len(new), q |-> f.q \o new]
               IN
               /\ Clause("M.contig", e.run => (pe = None \/ TEq(pe, s)), <<"previous end", pe, "start", e.s>>)
               /\ Clause("M.interval", TLt(s, en) /\ TIsNorm(H.TS, s) /\ TIsNorm(H.TS, en), <<e.s, e.e>>)
               /\ Clause("M.emsgcount", e.ntop = K, <<"top-level emsg boxes", e.ntop, "decoded", K>>)
               /\ \A j \in 1..K : Fields(e.emsgs[j], j, car \cup {[T |-> e.emsgs[i].pt[1], id |-> e.emsgs[i].id] : i \in 1..(j - 1)})
               \* C13.once: the carrying segment contains the instant 7 s before the splice (either interval end)
               /\ \A j \in 1..K : Clause("C13.once.window", MayCarry(s, en, e.emsgs[j].pt[1]),
                                         <<"T", e.emsgs[j].pt[1], "announce", e.emsgs[j].pt[1] - Ahead, "segment", e.s, e.e>>)
               \* C13.once: carried by exactly one segment
               /\ \A j \in 1..K : Clause("C13.once.dup", e.emsgs[j].pt[1] \notin {c.T : c \in car}
                                                          /\ \A i \in 1..(j - 1) : e.emsgs[i].pt[1] # e.emsgs[j].pt[1],
                                         <<"T", e.emsgs[j].pt[1], "already carried by an earlier segment of the run; segment", e.s, e.e>>)
               /\ fails' = [ph \in DOMAIN fails |-> add(fails[ph], ph)]
               \* only neighbours can carry the same event again: forget events older than 40 s
               /\ carried' = {c \in car \cup {[T |-> e.emsgs[j].pt[1], id |-> e.emsgs[j].id] : j \in 1..K} : c.T >= en.w - 40}
               /\ rs' = rs1 /\ ps' = s /\ pe' = en
       /\ UNCHANGED <<h, inband>>

\* ---------------------------------------------------------------- C13.none: no other representation
Oseg == /\ e.ev = "oseg"
        /\ Clause("M.oserved", e.st = 200 /\ e.perr = "", <<e.kind, e.st, e.perr>>)
        /\ Clause("C13.none.other", (e.st = 200 /\ e.perr = "") => (e.nemsg = 0 /\ e.ntop = 0), <<e.kind, "emsg boxes", e.nemsg, e.ntop>>)
        /\ UNCHANGED <<h, inband, rs, ps, pe, carried, fails>>

\* ---------------------------------------------------------------- other N rejected
Rej == /\ e.ev = "rej"
       /\ Clause("C13.reject", e.st >= 400 /\ e.st < 500, <<e.what, e.val, e.st>>)
       /\ UNCHANGED <<h, inband, rs, ps, pe, carried, fails>>

End == /\ e.ev = "end"
       /\ LET good == {ph \in DOMAIN fails : fails[ph].n = 0} IN
          IF good # {}
          THEN PrintT("NOTE" \o ToJson([sc |-> H.sc, astmod |-> H.astmod, accepted |-> SeqOf(good), readings |-> SeqOf(DOMAIN fails)]))
          ELSE LET best == CHOOSE ph \in DOMAIN fails : \A o \in DOMAIN fails : fails[ph].n < fails[o].n \/ (fails[ph].n = fails[o].n /\ ph <= o)
                   q == fails[best].q
               IN /\ PrintT("NOTE" \o ToJson([sc |-> H.sc, astmod |-> H.astmod, accepted |-> <<>>, readings |-> SeqOf(DOMAIN fails)]))
                  /\ \A j \in 1..Len(q) : ClauseAt(q[j].l, q[j].c, FALSE, q[j].d)
       /\ rs' = None /\ ps' = None /\ pe' = None /\ carried' = {} /\ fails' = NoFails(0)
       /\ UNCHANGED <<h, inband>>

Step == l <= Len(Trace) /\ (Hdr \/ Mpd \/ Seg \/ Oseg \/ Rej \/ End) /\ l' = l + 1
Done == l = Len(Trace) + 1 /\ Consumed(Len(Trace)) /\ UNCHANGED vars
Spec == Init /\ [][Step \/ Done]_vars
Accepted == NoBad
=============================================================================

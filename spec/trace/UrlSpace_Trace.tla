---------------------------- MODULE UrlSpace_Trace ----------------------------
(* (V) for C08: every request sent to the real routers is judged against Allowed(r) of UrlSpaceOps, re-computed here
   from the ABSTRACT classes logged with the request (the concrete URL is carried along for the report only).
   Events (two lines per request):
     req {id, srv, ep, method, parts:[{k,c}], ctx:[{k,c}], asset, tail, query, body, url, rep}
     out {id, kind: status|panic|fatal|timeout|slow, status, blen, site, top, chain, msg, ms}
         site = innermost frame inside the repository (file.go:Func); chain = repository frames of a handler that
         did not return (innermost first)
   kind "slow": a first-stage timeout that could not be re-run alone with the long bound (confirmation budget
   exhausted) - not judged, counted by the check.
   Clauses: C08.no_panic, C08.terminates, C08.4xx_on_malformed, C08.404_unknown, C08.deliberate;
            C08.meta.* = consistency of the trace itself (a failure there is a machinery problem).          *)
EXTENDS TraceLib, UrlSpaceOps
VARIABLES l, h, pending
vars == <<l, h, pending>>
Clause(name, ok, detail) == ClauseAt(l, name, ok, detail)
e == Trace[l]
R == Trace[h]

\* TLC registers 2..5: how often the antecedent of a clause held (non-vacuity, printed by Done)
Init == l = 1 /\ h = 1 /\ pending = FALSE /\ MonitorInit /\ TLCSet(2, 0) /\ TLCSet(3, 0) /\ TLCSet(4, 0) /\ TLCSet(5, 0)
Count(reg, cond) == IF cond THEN TLCSet(reg, TLCGet(reg) + 1) ELSE TRUE

WellFormed(q) ==
   /\ \A i \in DOMAIN q.parts : q.parts[i].k \in Keys /\ q.parts[i].c \in Classes
   /\ Len(q.parts) <= 3
   /\ q.ctx = CtxOf(q.ep, q.tail, q.parts)
   /\ (q.ep = "livesim2" /\ q.asset = "known") => q.tail \in LiveTails

Req == /\ e.ev = "req"
       /\ Clause("C08.meta.answered", ~pending, <<"request without outcome", R.id>>)
       /\ Clause("C08.meta.ctx", WellFormed(e), <<"abstract request not in the space", e.id>>)
       /\ h' = l /\ pending' = TRUE

Out == /\ e.ev = "out"
       /\ Clause("C08.meta.pairing", pending /\ e.id = R.id, <<"outcome without request", e.id>>)
       /\ IF e.kind = "slow" THEN TRUE
          ELSE LET cls == OutClass(e.kind, e.status)
                   al  == Allowed(R)
                   isStatus == e.kind = "status"
               IN /\ Clause("C08.no_panic", cls \notin {"panic", "fatal"}, <<cls, e.site, e.msg>>)
                  /\ Clause("C08.terminates", (cls = "timeout") => ("timeout" \in al), <<e.site, e.msg>>)
                  /\ Clause("C08.4xx_on_malformed",
                            (isStatus /\ Must4xx(R)) => (cls \in al /\ (R.method = "GET" => e.blen > 0)),
                            <<"status", e.status, "blen", e.blen>>)
                  /\ Clause("C08.404_unknown", (isStatus /\ ~Must4xx(R) /\ Must404(R)) => cls \in al, <<"status", e.status>>)
                  /\ Clause("C08.deliberate", (isStatus /\ ~Must4xx(R) /\ ~Must404(R)) => cls \in al, <<"status", e.status>>)
       /\ Count(2, Must4xx(R)) /\ Count(3, ~Must4xx(R) /\ Must404(R)) /\ Count(4, MayWait(R)) /\ Count(5, e.kind = "status")
       /\ pending' = FALSE /\ UNCHANGED h

Step == l <= Len(Trace) /\ (Req \/ Out) /\ l' = l + 1
Done == /\ l = Len(Trace) + 1 /\ Consumed(Len(Trace))
        /\ PrintT("C08STATS" \o ToJson([must4xx |-> TLCGet(2), must404 |-> TLCGet(3), maywait |-> TLCGet(4), status |-> TLCGet(5)]))
        /\ UNCHANGED vars
Spec == Init /\ [][Step \/ Done]_vars
Accepted == NoBad
=============================================================================

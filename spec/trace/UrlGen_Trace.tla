-------------------------- MODULE UrlGen_Trace --------------------------
(* (V) for X04: validates what harness/drive/x04 recorded from the real livesim2 server against UrlGenOps (and, for the
   configuration the server derived from a generated URL, against the value clauses of X01's oracle MpdSignalOps).
   Events:
     hdr   {id, stl, acls (asset class), aseg (asset path parts), mpd, hv, style,
            form   the set fields as constructed by the driver: [f, c, v, vs, n] (UrlGenOps),
            req    [scheme, host, fproto, fhost, cfghost] of the /urlgen/create request (UrlGenOps.HostReadings),
            m      the semantic reading of the form as X01's configuration record (MpdSignalOps.NoCfg fields),
            e      X01's ground truth about the asset: [mode, segMin, segMax, vas, vodId, vodUtc, host, url (filled from
                   the play event), drmScheme] - the driver's own reading of the VoD MPD and segments}
     gen   {id, st, perr, nurl, url, prefix, path, query, msgs, nplay, plaympd} - what the returned page shows
           (tolerant HTML tokenizer): number of "URL=" lines, the first one split at /livesim2/ into prefix, path parts
           and query, the message lines, the number of Play links and the URL the first one carries
     play  {id, st, perr, now = <<s, ms>>, facts (<<per, scope, cls, as, inst, v>> of MpdSignalOps.SigClasses), eurl
            ([k, raw] path parts of the request)} - the answer to the shown URL's path + query + nowMS
     stab  {id, kind (order | style | feedback | form), st, perr, nurl, url, fb ([f, v] for kind feedback)}
   Clauses: every clause of UrlGenOps.GenClauseNames on every gen event, of PlayClauseNames on every play event,
   X04.stable.<kind> on every stab event.  hdr.* clauses check the driver's own header for consistency (machinery). *)
EXTENDS TraceLib, UrlGenOps
M == INSTANCE MpdSignalOps
VARIABLES l, h, g
vars == <<l, h, g>>
Clause(name, ok, detail) == ClauseAt(l, name, ok, detail)
ev == Trace[l]
H  == Trace[h]
G  == Trace[g]
ToSet(s) == { s[i] : i \in DOMAIN s }

Init == l = 1 /\ h = 1 /\ g = 1 /\ MonitorInit /\ TLCSet(2, 0) /\ TLCSet(3, 0) /\ TLCSet(4, 0) /\ TLCSet(5, 0)

IntFields == {"tsbd", "mup", "spd", "snr", "periods", "ltgt", "patch-ttl", "start", "stop", "startrel", "stoprel", "timesubsdur"}
ListClasses == {"multi", "keepmix", "one", "two", "three"}
ListFields == {"utc", "timesubsstpp", "timesubswvtt", "annexI", "traffic"}
EntryOk(p) ==
   /\ p.f \in Fields /\ p.c \in ClassesOf(p.f) /\ p.v # ""
   /\ IF p.f \in ListFields /\ p.c \in ListClasses THEN p.v = Join(p.vs, ",") /\ Len(p.vs) >= 1 ELSE p.vs = <<p.v>>
   /\ (p.f \in IntFields /\ p.c \notin {"nonint", "frac"}) => ToString(p.n) = p.v
\* the semantic record agrees with the form's integers
MAgrees(F, m) ==
   /\ (HasF(F, "tsbd") => m.tsbd = Entry(F, "tsbd").n)         /\ (HasF(F, "mup") => m.mup = Entry(F, "mup").n)
   /\ (HasF(F, "spd") => m.spd = Entry(F, "spd").n)            /\ (HasF(F, "snr") => m.snr = Entry(F, "snr").n)
   /\ (HasF(F, "periods") => m.periods = Entry(F, "periods").n) /\ (HasF(F, "ltgt") => m.ltgt = Entry(F, "ltgt").n)
   /\ (HasF(F, "patch-ttl") => m.patch = Entry(F, "patch-ttl").n)
   /\ (HasF(F, "start") => m.start = Entry(F, "start").n)      /\ (HasF(F, "startrel") => m.startrel = Entry(F, "startrel").n)
   /\ (HasF(F, "stoprel") => m.stoprel = Entry(F, "stoprel").n)
   /\ (HasF(F, "utc") /\ Entry(F, "utc").c \in Req("utc") => m.utc = Entry(F, "utc").vs)
   /\ (HasF(F, "timesubsstpp") => m.stpp = Entry(F, "timesubsstpp").vs) /\ (HasF(F, "timesubswvtt") => m.wvtt = Entry(F, "timesubswvtt").vs)
   /\ (HasF(F, "annexI") /\ Entry(F, "annexI").c \in Req("annexI") => m.annexI = Len(Entry(F, "annexI").vs))
   /\ (HasF(F, "traffic") /\ Entry(F, "traffic").c \in Req("traffic") => m.traffic = Len(Entry(F, "traffic").vs))
   /\ (HasF(F, "scte35") => ToString(m.scte35) = Entry(F, "scte35").v)
   /\ (HasF(F, "continuous") <=> m.continuous)

Adm == Admissible(H.stl, H.acls, H.form)

Hdr == /\ ev.ev = "hdr"
       /\ Clause("hdr.admissible",
                 /\ ev.stl \in Stls /\ ev.acls \in {"plain", "thumbs", "s8", "none"} /\ ev.style \in {"browser", "sparse"}
                 /\ \A i \in DOMAIN ev.form : EntryOk(ev.form[i])
                 /\ \A i, j \in DOMAIN ev.form : i # j => ev.form[i].f # ev.form[j].f
                 /\ Len(ev.aseg) >= 1 /\ ev.mpd # ""
                 /\ ev.req.scheme \in {"http", "https"} /\ ev.req.host # ""
                 /\ (Admissible(ev.stl, ev.acls, ev.form) =>
                        /\ M!ValidCfg(ev.m, ModeOf(ev.stl)) /\ ev.e.mode = ModeOf(ev.stl)
                        /\ M!KeysOf(ev.m) = XKeys(ev.form) /\ MAgrees(ev.form, ev.m)
                        /\ ev.e.segMin > 0 /\ ev.e.segMin <= ev.e.segMax /\ Len(ev.e.vas) >= 1
                        /\ (ev.m.drm # "" <=> ev.e.drmScheme # "")),
                 "form header")
       /\ h' = l /\ g' = l

Gen == /\ ev.ev = "gen" /\ ev.id = H.id
       /\ LET bad == GenFailing(H, ev)
          IN \A i \in DOMAIN GenClauseNames :
                Clause(GenClauseNames[i], GenClauseNames[i] \notin bad,
                       [form |-> H.classes, stl |-> H.stl, adm |-> Adm, nurl |-> ev.nurl, url |-> ev.url, msgs |-> ev.msgs, st |-> ev.st])
       /\ TLCSet(2, TLCGet(2) + 1)
       /\ g' = l /\ UNCHANGED h

Play == /\ ev.ev = "play" /\ ev.id = H.id /\ G.ev = "gen"
        /\ LET judged == Adm /\ ev.st = 200 /\ ev.perr = ""
               x01bad == IF judged THEN M!Failing(H.m, [H.e EXCEPT !.url = ev.eurl], ev.now, ToSet(ev.facts)) ELSE {}
               bad == PlayFailing(H, ev.st, ev.perr, x01bad)
           IN /\ \A i \in DOMAIN PlayClauseNames :
                    Clause(PlayClauseNames[i], PlayClauseNames[i] \notin bad,
                           [form |-> H.classes, stl |-> H.stl, adm |-> Adm, st |-> ev.st, perr |-> ev.perr, x01 |-> x01bad,
                            conflicts |-> Conflicts(H.stl, H.form), badcls |-> BadClasses(H.form), url |-> G.url])
              /\ IF judged THEN TLCSet(3, TLCGet(3) + 1) ELSE TRUE
        /\ UNCHANGED <<h, g>>

Stab == /\ ev.ev = "stab" /\ ev.id = H.id /\ G.ev = "gen"
        /\ ev.kind \in {"order", "style", "feedback", "form"}
        \* (kind form: only for an admissible form that got its URL - a rejected form is shown with the offending field reset)
        /\ Clause("X04.stable." \o ev.kind, (ev.kind = "form" /\ ~(Adm /\ G.nurl = 1)) \/ SameUrl(G, ev),
                  [form |-> H.classes, stl |-> H.stl, first |-> G.url, again |-> ev.url, nurl |-> <<G.nurl, ev.nurl>>, st |-> ev.st])
        \* the driver's inverse reading of the URL is the one UrlGenOps defines (checked where the URL is the expected one;
        \* anything else is X04.gen.parts's finding, not the driver's)
        /\ IF ev.kind = "feedback" /\ Adm /\ PathOk(H.stl, H.form, H.aseg, H.mpd, G.path)
           THEN Clause("hdr.feedback", FeedbackOk(ev.fb, Mid(G.path, Len(H.aseg))), [fb |-> ev.fb, path |-> G.path])
           ELSE TRUE
        /\ TLCSet(4, TLCGet(4) + 1)
        /\ UNCHANGED <<h, g>>

Step == l <= Len(Trace) /\ (Hdr \/ Gen \/ Play \/ Stab) /\ l' = l + 1
Done == /\ l = Len(Trace) + 1 /\ Consumed(Len(Trace))
        /\ PrintT("X04STATS" \o ToJson([gen |-> TLCGet(2), play_judged |-> TLCGet(3), stab |-> TLCGet(4)]))
        /\ UNCHANGED vars
Spec == Init /\ [][Step \/ Done]_vars
Accepted == NoBad
=============================================================================

--------------------------- MODULE Config_Trace ---------------------------
(* (V) for X08: validates what harness/drive/x08 recorded from the real app.LoadConfig against ConfigOps.
   Events:
     hdr {seed, cwd, keys (the keys the driver projects), abs (<<path token, absolute form>> computed by the driver)}
     sc  {id, kind, hasfile, file / flag / env (<<key, value>> pairs of the layer, all values strings),
          o, o2, op, ob = [err ("" | parse | file | tls | value | panic), msg, cfg (<<key, value>> for every key; empty on error)]
          o: the scenario; o2: the same inputs again; op: flags and variables in reverse order; ob: afterwards, no layers}
   Clauses: X08.precedence / X08.independence / X08.derive per key (detail names the key), X08.reject, X08.accept,
   X08.order, X08.pure, X08.noleak per scenario.                                                                        *)
EXTENDS TraceLib, ConfigOps
VARIABLES l, abs
vars == <<l, abs>>
Clause(name, ok, detail) == ClauseAt(l, name, ok, detail)
ev == Trace[l]
Fn(ps) == [k \in {ps[i][1] : i \in DOMAIN ps} |-> ps[CHOOSE i \in DOMAIN ps : ps[i][1] = k][2]]
Init == l = 1 /\ abs = <<>> /\ MonitorInit /\ TLCSet(2, 0) /\ TLCSet(3, 0) /\ TLCSet(4, 0)
Hdr == /\ ev.ev = "hdr"
       /\ Clause("hdr.keys", {ev.keys[i] : i \in DOMAIN ev.keys} = Keys, "driver and oracle disagree on the keys")
       /\ abs' = Fn(ev.abs)
Same(a, b) == a.err = b.err /\ a.cfg = b.cfg
\* keys on which two accepted results differ ("(err)" when the outcomes differ)
Diff(a, b) == IF a.err # b.err THEN {"(err)"} ELSE IF a.err # "" THEN {} ELSE {k \in Keys : Fn(a.cfg)[k] # Fn(b.cfg)[k]}
Sc == /\ ev.ev = "sc"
      /\ \E L \in {[file |-> Fn(ev.file), flag |-> Fn(ev.flag), env |-> Fn(ev.env)]} :
           /\ Clause("hdr.shape", \A ln \in {"file", "flag", "env"} : DOMAIN L[ln] \subseteq Keys, ev.id)
           /\ Clause("X08.reject", MustReject(L) => ev.o.err # "",
                     [key |-> IF TlsBad(L) THEN "(tls)" ELSE CHOOSE k \in TypedKeys : Raw(L, k) \in IllTyped /\ ~Replaced(L, k), got |-> "accepted", want |-> "error"])
           /\ Clause("X08.accept", ev.o.err # "" => MayReject(L), [key |-> "(err)", got |-> ev.o.err, want |-> ev.o.msg])
           /\ Clause("X08.errclass", (ev.o.err = "tls" => TlsBad(L)) /\ (ev.o.err = "parse" => \E k \in DOMAIN L.flag : L.flag[k] \in IllTyped)
                                     /\ ev.o.err \notin {"panic", "file"},
                     [key |-> "(err)", got |-> ev.o.err, want |-> ev.o.msg])
           /\ IF ev.o.err = "" /\ ~MustReject(L)
              THEN /\ \E got \in {Fn(ev.o.cfg)} : \A k \in Keys :
                        Clause(ClauseOf(L, abs, k), got[k] \in Expected(L, abs, k),
                               [key |-> k, got |-> got[k], want |-> Expected(L, abs, k), top |-> TopLayer(L, k)])
                   /\ TLCSet(2, TLCGet(2) + 1)
                   /\ TLCSet(4, TLCGet(4) + Cardinality({k \in Keys : Derived(L, abs, k)}))
              ELSE TLCSet(3, TLCGet(3) + 1)
           /\ \A k \in Diff(ev.o, ev.o2) : Clause("X08.pure", FALSE, [key |-> k, got |-> ev.o2.err, want |-> ev.o.err])
           /\ \A k \in Diff(ev.o, ev.op) : Clause("X08.order", FALSE, [key |-> k, got |-> ev.op.err, want |-> ev.o.err])
           /\ IF ev.ob.err # "" THEN Clause("X08.noleak", FALSE, [key |-> "(err)", got |-> ev.ob.err, want |-> ""])
              ELSE \E got \in {Fn(ev.ob.cfg)} : \A k \in Keys :
                      Clause("X08.noleak", got[k] \in Expected(NoLayers, abs, k), [key |-> k, got |-> got[k], want |-> Expected(NoLayers, abs, k)])
      /\ UNCHANGED abs
Step == l <= Len(Trace) /\ (Hdr \/ Sc) /\ l' = l + 1
Done == /\ l = Len(Trace) + 1 /\ Consumed(Len(Trace))
        /\ PrintT("X08STATS" \o ToJson([judged |-> TLCGet(2), rejected |-> TLCGet(3), derived |-> TLCGet(4)]))
        /\ UNCHANGED vars
Spec == Init /\ [][Step \/ Done]_vars
Accepted == NoBad
=============================================================================

SPECIFICATION Spec
POSTCONDITION Accepted
CHECK_DEADLOCK FALSE

---------------------------- MODULE TimeSubs_Trace ----------------------------
(* (V) for C12: validates generated time-subtitle segments (stpp / wvtt), their init segments and the
   text AdaptationSets of the MPD served by the real livesim2 against the oracle TimeSubsOps.
   One scenario = one (asset, URL configuration, format, language, cue duration, region).  Events:
     hdr   {N, dur, vod0, TS, loopMS, snr, ast, mode, ... (ground truth of the reference VIDEO representation, see
            LiveTimeline_Trace) + fmt "stpp"|"wvtt", lang, langs <<..>>, c (cue duration ms), reg 0|1}
     init  {st, ts, codec, lang, ilang, mdhd, elng}   init segment of a subtitle representation (lang = its language)
     lset  {reps <<[lang, rep, ist, mst, idig, mdig, nc]>>}  init/media status and body digests of every Representation one MPD announces
     sub   {k, i, st, lang, doclangs, nrp, tfdt, dur, cues, samples, regdefs}   one served subtitle segment, index n = k*N+i chosen by
            the driver; nrp = (mfhd - snr) as pair over N; tfdt = decode time (ms) as pair over loopMS; dur = sum of the
            sample durations (ms); cues = <<[b, e, so, ok, nts, toks, nrs, reg]>>: begin/end in ms MINUS tfdt, so = (UTC second
            parsed from the cue text) - floor((tfdt + 1000*ast)/1000), ok = times parsed, nts = number of RFC 3339 stamps
            in the text, toks = other words of the text, nrs = numbers of the text minus snr as pairs over N, reg = region
            reference (stpp) / cue settings (wvtt); samples = <<[t, d]>> (wvtt; t = "c" one vttc cue, "e" one empty
            vtte, "x" other; d = duration as signed 32-bit); regdefs = region ids defined in the TTML head
     regpair {d0, d1, q0, q1}              the same segment requested with region 0 and 1: region designation, cue digest
     mpd   {st, vid, txt}                  video SegmentTemplate and the generated text AdaptationSets of one MPD:
            [ts, snr (string), media "time"|"number"|.., timeline, dur, segs <<<<tpair, d>>>>, lang, codecs, rep]
            (video t as pair over L ticks, text t as pair over loopMS)                                            *)
EXTENDS TraceLib, TimeSubsOps, FiniteSets
VARIABLES l, h
vars == <<l, h>>
Clause(name, ok, detail) == ClauseAt(l, name, ok, detail)
e == Trace[l]
H == Trace[h]
SC == [N |-> H.N, dur |-> H.dur, vod0 |-> H.vod0, TS |-> H.TS, loopMS |-> H.loopMS,
       tsbd |-> H.tsbd, ato |-> H.ato, snr |-> H.snr]
Range(s) == {s[x] : x \in 1..Len(s)}

Init == l = 1 /\ h = 1 /\ MonitorInit

Hdr == /\ e.ev = "hdr"
       /\ Clause("hdr.admissible", Admissible([N |-> e.N, dur |-> e.dur, vod0 |-> e.vod0, TS |-> e.TS, loopMS |-> e.loopMS,
                                               tsbd |-> e.tsbd, ato |-> e.ato, snr |-> e.snr]) /\ Len(e.dur) = e.N
                                   /\ e.c >= 1 /\ e.fmt \in {"stpp", "wvtt"} /\ e.reg \in {0, 1}, "scenario header")
       /\ h' = l

\* every event of a Representation carries the language of that Representation (e.lang): the requested one, or - in the
\* sweep over the Representations announced by an MPD - the @lang of the announcing AdaptationSet
InitSeg == /\ e.ev = "init"
           /\ Clause("C12.served", e.st = 200, <<"init: status", e.st, "language", e.lang>>)
           /\ IF e.st # 200 THEN TRUE ELSE
              /\ Clause("C12.meta", e.ts = 1000 /\ e.codec = H.fmt, <<"init: timescale", e.ts, "sample entry", e.codec>>)
              \* C12.lang: the track language (elng, or mdhd for a three-letter tag) is the Representation's language, exactly
              /\ Clause("C12.lang", e.ilang = e.lang, <<"init: language", e.ilang, "mdhd", e.mdhd, "elng", e.elng, "representation language", e.lang>>)
           /\ UNCHANGED h

\* observed cue list in the oracle's shape
Obs(ev) == [x \in 1..Len(ev.cues) |-> TSCue(ev.cues[x].b, ev.cues[x].e, ev.cues[x].so)]

Sub == /\ e.ev = "sub"
       /\ Clause("C12.served", e.st = 200, <<"status", e.st>>)
       /\ IF e.st # 200 THEN TRUE ELSE
          LET S   == TFrom(e.tfdt)
              D   == e.dur
              ph  == TSPhaseOfPair(SC, S)
              obs == Obs(e)
          IN
          \* number, decode time and duration (ms) of the reference video segment
          /\ Clause("C12.meta", e.nrp = <<e.k, e.i>>, <<"mfhd_minus_snr", e.nrp, "expected", <<e.k, e.i>>>>)
          /\ Clause("C12.meta", TSMsIsTicks(SC, S, Start(SC, e.k, e.i)), <<"tfdt_ms", e.tfdt, "video_start_ticks", Start(SC, e.k, e.i)>>)
          /\ Clause("C12.meta", TSDurMsIsTicks(SC, D, Dur(SC, e.i)), <<"dur_ms", D, "video_dur_ticks", Dur(SC, e.i)>>)
          \* exactly one cue per intersecting UTC second, at the specified times, showing that second
          /\ Clause("C12.cues", D >= 1 => /\ \A x \in 1..Len(e.cues) : e.cues[x].ok /\ e.cues[x].nts = 1
                                          /\ obs \in TSAccepted(1000, ph, D, H.c),
                    <<"cues", obs, "phase", ph, "D", D, "c", H.c, "accepted", IF D >= 1 THEN TSAccepted(1000, ph, D, H.c) ELSE {}>>)
          \* ... the language and the segment number
          /\ Clause("C12.text", \A x \in 1..Len(e.cues) : e.lang \in Range(e.cues[x].toks) /\ <<e.k, e.i>> \in Range(e.cues[x].nrs),
                    <<"lang", e.lang, "nr_minus_snr", <<e.k, e.i>>, "cue words", [x \in 1..Len(e.cues) |-> e.cues[x].toks],
                      "cue numbers", [x \in 1..Len(e.cues) |-> e.cues[x].nrs]>>)
          \* C12.lang: a TTML document declares the Representation's language, exactly
          /\ Clause("C12.lang", H.fmt = "stpp" => Len(e.doclangs) >= 1 /\ \A x \in 1..Len(e.doclangs) : e.doclangs[x] = e.lang,
                    <<"xml:lang", e.doclangs, "representation language", e.lang>>)
          \* ordered, non-overlapping, inside the segment
          /\ Clause("C12.order", TSWellFormed(obs, D), <<"cues", obs, "D", D, "phase", ph, "c", H.c>>)
          \* wvtt samples tile the segment exactly
          /\ Clause("C12.wvtt_tile", H.fmt = "wvtt" => TSTiles(e.samples, obs, D), <<"samples", e.samples, "D", D, "phase", ph, "c", H.c>>)
          \* stpp: the region referenced by the cues exists in the document
          /\ Clause("C12.region", H.fmt = "stpp" => \A x \in 1..Len(e.cues) : e.cues[x].reg \in Range(e.regdefs),
                    <<"regions defined", e.regdefs>>)
       /\ UNCHANGED h

\* the region setting selects the region and nothing else
RegPair == /\ e.ev = "regpair"
           /\ Clause("C12.region", e.d0 # e.d1 /\ e.q0 = e.q1, <<"region 0", e.d0, "region 1", e.d1, "cue digests", e.q0, e.q1>>)
           /\ UNCHANGED h

\* C12.tracks: the Representations announced by one MPD for distinct languages are distinct tracks (init and media differ)
LSet == /\ e.ev = "lset"
        /\ Clause("C12.tracks", \A x, y \in 1..Len(e.reps) :
                       (x < y /\ e.reps[x].ist = 200 /\ e.reps[y].ist = 200 /\ e.reps[x].mst = 200 /\ e.reps[y].mst = 200) =>
                          /\ e.reps[x].lang # e.reps[y].lang
                          /\ e.reps[x].idig # e.reps[y].idig
                          \* (a wvtt segment without any cue - only empty samples - carries no language)
                          /\ (H.fmt = "stpp" \/ (e.reps[x].nc > 0 /\ e.reps[y].nc > 0)) => e.reps[x].mdig # e.reps[y].mdig,
                   <<"representations", e.reps>>)
        /\ UNCHANGED h

\* the generated text AdaptationSets mirror the video timeline in milliseconds
TxtOK(t, v) ==
   /\ t.codecs = H.fmt
   /\ t.rep = "time" \o H.fmt \o "-" \o t.lang
   /\ t.ts = 1000
   /\ t.snr = v.snr /\ t.media = v.media /\ t.timeline = v.timeline
   /\ IF t.timeline
      THEN /\ Len(t.segs) = Len(v.segs)
           /\ \A j \in 1..Len(t.segs) : j <= Len(v.segs) =>
                 /\ TSMsIsTicks(SC, TFrom(t.segs[j][1]), TFrom(v.segs[j][1]))
                 /\ TSDurMsIsTicks(SC, t.segs[j][2], v.segs[j][2])
      ELSE /\ v.ts >= 1 /\ t.dur >= 0 /\ t.dur <= 2000000000 \div v.ts /\ v.dur >= 0 /\ v.dur <= 2000000
           /\ LET x == t.dur * v.ts - v.dur * 1000 IN x < v.ts /\ -x < v.ts   \* @duration in the MPD's own video timescale
Mpd == /\ e.ev = "mpd"
       /\ Clause("C12.mpd", e.st = 200, <<"status", e.st>>)
       /\ IF e.st # 200 THEN TRUE ELSE
          /\ Clause("C12.mpd", Len(e.txt) = Len(H.langs) /\ {e.txt[x].lang : x \in 1..Len(e.txt)} = Range(H.langs),
                    <<"languages", [x \in 1..Len(e.txt) |-> e.txt[x].lang], "configured", H.langs>>)
          /\ \A x \in 1..Len(e.txt) :
                Clause("C12.mpd", TxtOK(e.txt[x], e.vid), <<"text", [e.txt[x] EXCEPT !.segs = <<>>], "video", [e.vid EXCEPT !.segs = <<>>],
                                                            "text_segs", e.txt[x].segs, "video_segs", e.vid.segs>>)
       /\ UNCHANGED h

Step == l <= Len(Trace) /\ (Hdr \/ InitSeg \/ Sub \/ RegPair \/ Mpd \/ LSet) /\ l' = l + 1
Done == l = Len(Trace) + 1 /\ Consumed(Len(Trace)) /\ UNCHANGED vars
Spec == Init /\ [][Step \/ Done]_vars
Accepted == NoBad
=============================================================================

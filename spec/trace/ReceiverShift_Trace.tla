------------------------ MODULE ReceiverShift_Trace ------------------------
(* (V) for X02: validates what the real CMAF-ingest receiver stored for the uploads of harness/drive/x02
   against the oracle ReceiverShiftOps.  Monitor style: every line is consumed, every clause is decided here.
   Clauses: X02.accept, X02.init.timescale, X02.store.one, X02.store.readable, X02.name.keep, X02.grid, X02.number,
   X02.time.keep, X02.time.shift, X02.mfhd, X02.chunk.count, X02.chunk.tfdt, X02.dur.scaled, X02.payload,
   X02.hook.matches, X02.tune.when, X02.shift.duration, X02.shift.time, X02.shift.seq, X02.mpd.written, X02.mpd.ast,
   X02.mpd.tracks, X02.mpd.template, X02.mpd.timescale, X02.mpd.duration, X02.mpd.number, X02.listed
   (X02.machinery.*: the scenario itself is malformed - a machinery error, never a verdict).
   Events (one per line; numbers relative to the scenario bases, see ReceiverShiftOps):
     hdr  {id, cls, Tm, D, c, far, startNr, creation, tracks[{name,kind,master,tsIn,tsOut,stored,Uin,Uout,V,S,gsOut,ext}]}
          c = NB - startNr - G (Big if far): outgoing "at start" number nb corresponds to grid-relative number nb + c
     init {track, status, resend}
     up   {track, k, status, nin, q, rem, dur, frs[{q,rem,sum,ns}],           the driver's reading of the upload
           tsIn, nfr, defdur, wide, rescaled, wideOut, durWide, fracDur,     input class (classification of findings only)
           hook{have, ng, nb, nin, q, rem, dur, D, Tm, ssd, ts},             `process` hook of the channel goroutine
           file{found, nchanged, ownDir, readable, verbatim, ng, nb,         the file that appeared / changed, read back
                frs[{mng, mnb, q, rem, sum, ns, nsIn, same, traw, pairs[{di,do,n}]}]}}
     mpd  {astOK, ast0, astc, nperiods, reps[], as[{ct, reps[], hasST, ts, dur, sn, pto, media, init, timeline}]}
     tl   {as[{track, ts, segs[{ng, nb, q, rem, d}]}]}                      manifest_timeline_nr.mpd
     end  {tuned, mpd}                                                                                  *)
EXTENDS TraceLib, ReceiverShiftOps, FiniteSets
VARIABLES l, sc, reg, mprev, st, mpd
vars == <<l, sc, reg, mprev, st, mpd>>
Clause(name, ok, detail) == ClauseAt(l, name, ok, detail)
e == Trace[l]

NoSeg == [n |-> Big, q |-> Big, rem |-> 0, dur |-> 0]
NoMpd == [have |-> FALSE]
St0 == [tuned |-> FALSE, D |-> 0, ts |-> 0, ssd |-> 0, mode |-> "none"]
Range(s) == {s[i] : i \in DOMAIN s}
Trk(name) == CHOOSE t \in Range(sc.tracks) : t.name = name
Master == CHOOSE t \in Range(sc.tracks) : t.master
\* adaptation set of the manifest that lists the track
AsOf(name) == {a \in Range(mpd.as) : name \in Range(a.reps)}
Count(seq, x) == Cardinality({i \in DOMAIN seq : seq[i] = x})

Init == /\ l = 1 /\ sc = [id |-> "none"] /\ reg = {} /\ mprev = NoSeg /\ st = St0 /\ mpd = NoMpd
        /\ MonitorInit

Hdr == /\ e.ev = "hdr"
       /\ Clause("X02.machinery.master", Cardinality({t \in Range(e.tracks) : t.master}) = 1, e.id)
       /\ sc' = e /\ reg' = {} /\ mprev' = NoSeg /\ st' = St0 /\ mpd' = NoMpd

InitEv ==
   /\ e.ev = "init"
   /\ LET t == Trk(e.track) IN
      /\ Clause("X02.accept", e.status = 200, <<"init", e.track, e.status>>)
      \* X02.init.timescale: the stored init keeps the timescale, or (text) counts in ms
      /\ Clause("X02.init.timescale", t.stored /\ (t.tsOut = t.tsIn \/ (t.kind = "text" /\ t.tsOut = 1000)),
                <<e.track, t.tsIn, t.tsOut>>)
   /\ reg' = reg \cup {e.track}
   /\ UNCHANGED <<sc, mprev, st, mpd>>

(* ------------------------------------------------------------------ one media upload *)
Up ==
   /\ e.ev = "up"
   /\ LET t      == Trk(e.track)
          S      == t.S
          f      == e.file
          h      == e.hook
          keep   == ~st.tuned \/ st.mode = "keep"      \* state when the upload STARTED
          tin    == <<e.q, e.rem>>
          okfile == e.status = 200 /\ f.found /\ f.readable /\ Len(f.frs) >= 1
          got    == <<f.frs[1].q, f.frs[1].rem>>
          exp    == IF keep THEN tin ELSE ExpTime(tin, st.ts, t.V, S)
          exact  == IF keep THEN ExactKeep(tin, t.Uout, t.gsOut, S)
                            ELSE ExactShift(tin, st.ts, t.V, t.Uin, t.Uout, t.gsOut, S)
          tol    == IF keep THEN t.Uout ELSE t.V + t.Uin + t.Uout
          \* tune-in decision of the oracle (master uploads before tune-in only)
          cur    == [n |-> e.nin, q |-> e.q, rem |-> e.rem, dur |-> e.dur]
          tunes  == t.master /\ ~st.tuned /\ e.status = 200 /\ mprev.n # Big /\ EqualPair(mprev, cur)
          nts    == TimeShiftOf(cur.dur, mprev.rem)
          nssd   == SeqShiftOf(mprev.q, mprev.rem, mprev.n)       \* relative: seqShift + c
          nmode  == IF sc.far \/ nssd - sc.c # 0 \/ nts # 0 THEN "shift" ELSE "keep"
          nst    == IF tunes THEN [tuned |-> TRUE, D |-> cur.dur, ts |-> nts, ssd |-> nssd, mode |-> nmode] ELSE st
      IN
      /\ Clause("X02.accept", e.status = 200, <<"media", e.track, e.k, e.status>>)
      /\ IF e.status # 200 THEN TRUE ELSE
         \* X02.store.one: the upload creates (or replaces) exactly one media file, in the directory of its track
         /\ Clause("X02.store.one", f.found /\ f.ownDir /\ f.nchanged = 1, <<e.track, e.k, f.nchanged>>)
         /\ IF ~okfile THEN Clause("X02.store.readable", FALSE, <<e.track, e.k>>) ELSE
            \* ---- file name
            /\ IF keep
               THEN Clause("X02.name.keep", Small(f.nb) /\ f.nb = e.nin, <<"nb", f.nb, "nin", e.nin>>)
               ELSE IF ~StartTimeZero(sc.creation) THEN TRUE
               ELSE IF t.master
               THEN Clause("X02.grid", Small(f.ng) /\ Small(got[1]) /\ GridEither(f.ng, sc.startNr, got), <<"ng", f.ng, "startNr", sc.startNr, "t", got, "mode", st.mode>>)
               ELSE Clause("X02.number", Small(f.ng) /\ Small(got[1]) /\ NumberEither(f.ng, sc.startNr, got, S), <<"ng", f.ng, "startNr", sc.startNr, "t", got, "mode", st.mode>>)
            \* ---- stored time of the first fragment
            /\ Clause("X02.machinery.base", Small(e.q), <<e.track, e.k>>)
            /\ Clause(IF keep THEN "X02.time.keep" ELSE "X02.time.shift", Small(got[1]) /\ TimeOK(exp, got, exact, tol, S),
                      <<"in", tin, "ts", st.ts, "exp", exp, "got", got, "mode", st.mode>>)
            \* ---- mfhd of every fragment carries the outgoing number (= the file name)
            /\ Clause("X02.mfhd", \A i \in DOMAIN f.frs : f.frs[i].mng = f.ng /\ f.frs[i].mnb = f.nb,
                      <<"name", f.ng, f.nb, "mfhd", f.frs[1].mng, f.frs[1].mnb>>)
            \* ---- chunks: same number of fragments; every later fragment's tfdt is mapped like the first one's
            /\ Clause("X02.chunk.count", Len(f.frs) = Len(e.frs), <<Len(e.frs), Len(f.frs)>>)
            /\ IF Len(f.frs) # Len(e.frs) THEN TRUE ELSE
               Clause("X02.chunk.tfdt",
                      \A i \in 2..Len(f.frs) :
                         LET ti == <<e.frs[i].q, e.frs[i].rem>>
                             gi == <<f.frs[i].q, f.frs[i].rem>>
                             xi == IF keep THEN ti ELSE ExpTime(ti, st.ts, t.V, S)
                             ei == IF keep THEN ExactKeep(ti, t.Uout, t.gsOut, S)
                                           ELSE ExactShift(ti, st.ts, t.V, t.Uin, t.Uout, t.gsOut, S)
                         IN Small(ti[1]) /\ Small(gi[1]) /\ TimeOK(xi, gi, ei, tol, S),
                      <<"in", [i \in DOMAIN e.frs |-> <<e.frs[i].q, e.frs[i].rem>>], "ts", st.ts,
                        "got", [i \in DOMAIN f.frs |-> <<f.frs[i].q, f.frs[i].rem>>], "mode", st.mode>>)
            \* ---- sample durations scaled to the stored timescale; payload untouched
            /\ Clause("X02.dur.scaled",
                      \A i \in DOMAIN f.frs : f.frs[i].ns = f.frs[i].nsIn /\
                          \A j \in DOMAIN f.frs[i].pairs : ScaledOK(f.frs[i].pairs[j].di, f.frs[i].pairs[j].do, t.Uin, t.Uout),
                      <<"Uin", t.Uin, "Uout", t.Uout, "pairs", f.frs[1].pairs>>)
            /\ Clause("X02.payload", \A i \in DOMAIN f.frs : f.frs[i].same, <<e.track, e.k>>)
            \* ---- the channel goroutine was told the same number and time
            /\ Clause("X02.hook.matches", h.have /\ h.ng = f.ng /\ h.nb = f.nb /\ <<h.q, h.rem>> = got /\ h.nin = e.nin,
                      <<"hook", h.ng, h.nb, h.q, h.rem, "file", f.ng, f.nb, got>>)
            \* ---- $Number$ manifest: number -> media time (segments stored after tune-in)
            /\ IF ~(st.tuned /\ mpd.have) THEN TRUE ELSE
               LET as == AsOf(e.track) IN
               IF as = {} THEN TRUE ELSE
               LET a == CHOOSE a \in as : TRUE IN
               IF ~(a.hasST /\ Small(a.dur) /\ MpdDurExact(a.dur, t.Uout, S) /\ Small(a.sn) /\ Small(a.pto) /\ Small(f.ng) /\ Small(got[1])) THEN TRUE ELSE
               Clause("X02.mpd.number",
                      IF t.master THEN MpdExact(f.ng, got, a.sn, a.pto, t.Uout, S) ELSE MpdNear(f.ng, got, a.sn, a.pto, t.Uout, S),
                      <<"n", f.ng, "startNumber", a.sn, "pto", a.pto, "t", got, "mode", st.mode, "startNr", sc.startNr>>)
      \* ---- tune-in: when, and the scalars of the channel
      /\ IF ~(e.status = 200 /\ h.have) THEN TRUE ELSE
         /\ Clause("X02.tune.when", (h.D # 0) = nst.tuned, <<"hookD", h.D, "oracle", nst.tuned, "prev", mprev, "cur", cur>>)
         /\ IF ~nst.tuned THEN TRUE ELSE
            /\ Clause("X02.machinery.D", nst.D = sc.D, <<nst.D, sc.D>>)
            /\ Clause("X02.shift.duration", h.D = nst.D /\ h.Tm = sc.Tm, <<"hook", h.D, h.Tm, "oracle", nst.D, sc.Tm>>)
            /\ Clause("X02.shift.time", h.ts = nst.ts, <<"hook", h.ts, "oracle", nst.ts>>)
            /\ Clause("X02.shift.seq", h.ssd = nst.ssd, <<"hook", h.ssd, "oracle", nst.ssd>>)
      /\ st' = nst
      /\ mprev' = IF t.master /\ ~st.tuned /\ e.status = 200 THEN cur ELSE mprev
   /\ UNCHANGED <<sc, reg, mpd>>

(* ------------------------------------------------------------------ manifest.mpd *)
Mpd ==
   /\ e.ev = "mpd"
   /\ LET want == {n \in reg : Trk(n).kind # "meta"} IN
      /\ Clause("X02.mpd.ast", e.astOK /\ AstOK(sc.creation, e.ast0, e.astc), <<sc.creation, e.ast0, e.astc>>)
      /\ Clause("X02.mpd.tracks", e.nperiods = 1 /\ Range(e.reps) = want /\ \A n \in want : Count(e.reps, n) = 1,
                <<"listed", e.reps, "registered", want>>)
      /\ \A i \in DOMAIN e.as : LET a == e.as[i] IN
           \A j \in DOMAIN a.reps :
              IF a.reps[j] \notin reg THEN TRUE ELSE
              LET t == Trk(a.reps[j]) IN
              /\ Clause("X02.mpd.template", a.hasST /\ ~a.timeline /\ a.media = "$RepresentationID$/$Number$" \o t.ext
                                            /\ a.init = "$RepresentationID$/init" \o t.ext, <<a.reps[j], a.media, a.init>>)
              /\ Clause("X02.mpd.timescale", a.ts = t.tsOut, <<a.reps[j], a.ts, t.tsOut>>)
              /\ Clause("X02.mpd.duration", Small(a.dur) /\ MpdDurOK(a.dur, t.Uout, t.S), <<a.reps[j], a.dur, t.Uout, t.S>>)
   /\ mpd' = [have |-> TRUE, as |-> e.as]
   /\ UNCHANGED <<sc, reg, mprev, st>>

(* ------------------------------------------------------------------ listed (number, time) pairs *)
Tl ==
   /\ e.ev = "tl"
   /\ IF ~(st.tuned /\ StartTimeZero(sc.creation)) THEN TRUE ELSE
      \A i \in DOMAIN e.as : LET a == e.as[i] t == Trk(a.track) IN
         Clause("X02.listed",
                \A j \in DOMAIN a.segs : LET s == a.segs[j] IN
                    Small(s.ng) /\ Small(s.q) /\
                    (IF t.master THEN GridEither(s.ng, sc.startNr, <<s.q, s.rem>>)
                                 ELSE NumberEither(s.ng, sc.startNr, <<s.q, s.rem>>, t.S)),
                <<a.track, a.segs>>)
   /\ UNCHANGED <<sc, reg, mprev, st, mpd>>

End == /\ e.ev = "end"
       /\ Clause("X02.machinery.tuned", e.tuned = st.tuned, <<e.tuned, st.tuned>>)
       /\ Clause("X02.mpd.written", st.tuned => mpd.have, e.id)
       /\ UNCHANGED <<sc, reg, mprev, st, mpd>>

Step == /\ l <= Len(Trace)
        /\ (Hdr \/ InitEv \/ Up \/ Mpd \/ Tl \/ End)
        /\ l' = l + 1
Done == l = Len(Trace) + 1 /\ Consumed(Len(Trace)) /\ UNCHANGED vars
Spec == Init /\ [][Step \/ Done]_vars
Accepted == NoBad
=============================================================================

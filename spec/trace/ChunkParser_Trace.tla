---------------------------- MODULE ChunkParser_Trace ----------------------------
(* (V) for C18: one scenario = one Parse() call of the real pkg/chunkparser on a scripted reader.
   Events:
     hdr  {len, boxes:[{t,s}], wf, errAt, cbErrAt}  wf: the stream walk found only possible sizes
     read {pos, req, n, eof, err}    one Read call: pos = bytes handed out before, req = len(p); err: a non-EOF error was returned
                                     (an injected one or io.ErrUnexpectedEOF, alone or with n > 0 bytes, once or on every later call)
     cb   {start, len, init, eq}     one callback; eq: the data equal input[start:start+len]
     ret  {err}                      Parse returned: "" | "reader" | "callback" | "other"
     hang {why}                      Parse did not return (time or read-count bound)          *)
EXTENDS TraceLib, ChunkParserOps
VARIABLES l, h, delivered, ncb, readerFailed, cbFailed, returned
vars == <<l, h, delivered, ncb, readerFailed, cbFailed, returned>>
Clause(name, ok, detail) == ClauseAt(l, name, ok, detail)
e == Trace[l]
H == Trace[h]

Init == l = 1 /\ h = 1 /\ delivered = 0 /\ ncb = 0 /\ readerFailed = FALSE /\ cbFailed = FALSE
        /\ returned = TRUE /\ MonitorInit

Hdr == /\ e.ev = "hdr"
       /\ Clause("C18.term", returned, "previous scenario never returned")
       /\ h' = l /\ delivered' = 0 /\ ncb' = 0 /\ readerFailed' = FALSE /\ cbFailed' = FALSE /\ returned' = FALSE

Read == /\ e.ev = "read"
        /\ LET lim == PromptLimit(H.boxes, delivered) IN
           Clause("C18.prompt", (H.wf /\ lim >= 0) => e.pos + e.req <= lim,
                  <<"chunk_start", delivered, "requested_up_to", e.pos + e.req, "mdat_end", lim>>)
        /\ Clause("C18.errors.read_after_error", ~readerFailed, "Read called after the reader failed")
        /\ readerFailed' = (readerFailed \/ e.err)
        /\ UNCHANGED <<h, delivered, ncb, cbFailed, returned>>

Cb == /\ e.ev = "cb"
      /\ Clause("C18.concat", e.start = delivered /\ e.eq, <<"start", e.start, "delivered", delivered, "eq", e.eq>>)
      \* (a reader error that arrived together with data: delivering what had arrived before returning the error is a fair reading)
      /\ Clause("C18.errors.no_callback_after_error", ~cbFailed /\ (readerFailed => Get(H, "errWithData", FALSE)), "callback after an error")
      /\ IF H.wf /\ ~readerFailed
         THEN /\ Clause("C18.cuts", ncb + 1 <= NCuts(H.boxes, H.len)
                                     /\ e.start + e.len = NthMin(CutSet(H.boxes, H.len), ncb + 1),
                        <<"callback", ncb + 1, "end", e.start + e.len, "cuts", CutSet(H.boxes, H.len)>>)
              /\ Clause("C18.init", e.init <=> InitExpected(H.boxes, e.start + e.len),
                        <<"init", e.init, "moov_hdr_ends", MoovHdrEnds(H.boxes), "cb_end", e.start + e.len>>)
         ELSE TRUE
      /\ delivered' = delivered + e.len /\ ncb' = ncb + 1
      /\ cbFailed' = (cbFailed \/ (H.cbErrAt = ncb + 1))
      /\ UNCHANGED <<h, readerFailed, returned>>

Ret == /\ e.ev = "ret"
       /\ Clause("C18.errors.returned", (readerFailed => e.err = "reader") /\ (cbFailed => e.err = "callback"),
                 <<"readerFailed", readerFailed, "cbFailed", cbFailed, "returned", e.err>>)
       /\ Clause("C18.concat.total", (e.err = "" /\ H.wf) => (delivered = H.len /\ ncb = NCuts(H.boxes, H.len)),
                 <<"delivered", delivered, "len", H.len, "callbacks", ncb>>)
       /\ Clause("C18.errors.spurious", (H.wf /\ ~readerFailed /\ ~cbFailed) => e.err = "", <<"err", e.err>>)
       /\ Clause("C18.concat.total_malformed", (e.err = "" /\ ~H.wf) => delivered = H.len,
                 <<"delivered", delivered, "len", H.len>>)
       /\ returned' = TRUE
       /\ UNCHANGED <<h, delivered, ncb, readerFailed, cbFailed>>

Hang == /\ e.ev = "hang"
        /\ Clause("C18.term", FALSE, e.why)
        /\ returned' = TRUE
        /\ UNCHANGED <<h, delivered, ncb, readerFailed, cbFailed>>

Step == l <= Len(Trace) /\ (Hdr \/ Read \/ Cb \/ Ret \/ Hang) /\ l' = l + 1
Done == l = Len(Trace) + 1 /\ Consumed(Len(Trace)) /\ UNCHANGED vars
Spec == Init /\ [][Step \/ Done]_vars
Accepted == NoBad
=============================================================================

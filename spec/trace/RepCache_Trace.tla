---------------------------- MODULE RepCache_Trace ----------------------------
(* (R)/(V) for C15: one trace = one VoD root (a private copy per driver worker) on which TLC-generated behaviours of
   RepCache are replayed with real livesim2 server instances (harness/drive/c15). Events:
     ref    {asset, adm, open, reps, listed, cls}       answers of the scanning server (no metadata root) of this VoD root;
                                                   adm: admissible by construction of the asset; reps: "<asset>/<rep>" of
                                                   every Representation of every MPD of the asset
     hdr    {beh, root, map, desc}                 a behaviour starts: every metadata file has been deleted
     damage {rep, kind, variant, off, precond}     the file of rep was replaced (kind as in RepCacheOps)
     remove {rep}                                  the file of rep was deleted
     start  {inst, write, ok, err}                 a server was started on the current files (ok = FALSE: it did not start;
                                                   the asset events then say "nothing served")
     asset  {inst, asset, listed, cls, diff}       answers of that server for the request pool of one asset
     tl     {inst, asset, rep, N, n0, t0, tfdt, dur, ovf}  read-mode instance with a metadata root: segments n0, n0+1, ... as
                                                   served; tfdt relative to the first one (t0); ovf: some value is more than
                                                   2^31 ticks away (cannot be contiguous for the assets used: all true times
                                                   of a window are far closer)
     mtl    {inst, asset, rep, N, t, d, st, tfdt}  the scanning server (inst -1) and the same instances: first N+2 entries (t, d)
                                                   declared by the SegmentTimeline MPD; st / tfdt: status and first decode time
                                                   of the segment served for $Time$ = t; t and tfdt relative to t0 = the
                                                   first declared t; st = -200: status 200 without a parseable segment; ovf as above
     far    {inst, asset, rep, N, L, TS, k, st, w, r, exp}  generated admissible assets: video segments k*N, k*N+1 far from the
                                                   epoch: status and decode time as a pair over the loop L (ticks); exp: starts
                                                   of segments 0, 1 by construction
     files  {inst, write, files}                   metadata files after the start ([[path, digest], ...], sorted)
   The file kinds are tracked with the oracle's own operators; a damage / remove event that is impossible on the tracked
   files blocks the trace (=> machinery error, never a verdict). *)
EXTENDS TraceLib, RepCacheOps
VARIABLES l, ref, file, root, write, wsnap, wvalid
vars == <<l, ref, file, root, write, wsnap, wvalid>>
Clause(name, ok, detail) == ClauseAt(l, name, ok, detail)
e == Trace[l]
ToSet(s) == { s[i] : i \in 1..Len(s) }
Empty == [x \in {} |-> "absent"]

Init == /\ l = 1 /\ ref = Empty /\ file = Empty /\ root = "disabled" /\ write = FALSE
        /\ wsnap = <<>> /\ wvalid = FALSE /\ MonitorInit

FsOf(a) == [r \in ToSet(ref[a].reps) |-> file[r]]

\* the decision for one asset of one started server
\* open = TRUE: neither the property text nor the documentation decides whether the asset is served (video and audio of
\* clearly different total duration): it is judged like an admissible asset whose "Scan" is "exactly what the scanning
\* server does with it" - served identically, or left out if the scanning server leaves it out
Judge(asset, rt, wr, cls, listed, refcls, reflisted, adm0, open, fs, diff) ==
   LET adm == adm0 \/ open
       oc0 == Outcome(cls, listed, refcls, reflisted)
       oc == IF open /\ listed = reflisted /\ cls = refcls THEN "Scan" ELSE oc0
       al == Allowed(rt, wr, fs, adm) IN
   Clause(ClauseOf(rt, wr, fs, adm), oc \in al,
          [asset |-> asset, outcome |-> oc, allowed |-> al, root |-> rt, write |-> wr, adm |-> adm,
           corrupt |-> \E r \in DOMAIN fs : Corrupt(fs[r]), kinds |-> fs, diff |-> diff])

Ref == /\ e.ev = "ref"
       /\ LET fs == [r \in ToSet(e.reps) |-> "absent"] IN
          \* C15.admit holds for the scanning server too ("absent in every mode")
          /\ Judge(e.asset, "disabled", FALSE, e.cls, e.listed, e.cls, e.listed, e.adm, e.open, fs, <<>>)
          /\ file' = fs @@ file
       /\ ref' = (e.asset :> [adm |-> e.adm, open |-> e.open, reps |-> e.reps, cls |-> e.cls, listed |-> e.listed]) @@ ref
       /\ UNCHANGED <<root, write, wsnap, wvalid>>

Hdr == /\ e.ev = "hdr"
       /\ e.root \in Roots
       /\ root' = e.root /\ write' = FALSE
       /\ file' = [r \in DOMAIN file |-> "absent"]
       /\ wsnap' = <<>> /\ wvalid' = FALSE
       /\ UNCHANGED ref

Damage == /\ e.ev = "damage"
          /\ e.rep \in DOMAIN file
          /\ root # "disabled" /\ e.kind \in DamageKinds
          /\ (e.precond /\ e.kind \in {"truncated", "plainjson"}) => file[e.rep] = "good"
          \* precond = FALSE: the bytes found were not the good file the machine assumes (a write-mode start left no
          \* usable file - judged at that start); what results is of unknown content: the lenient kind
          /\ file' = [file EXCEPT ![e.rep] = IF e.precond THEN e.kind ELSE "garbage"]
          /\ wvalid' = FALSE
          /\ UNCHANGED <<ref, root, write, wsnap>>

Remove == /\ e.ev = "remove"
          /\ e.rep \in DOMAIN file
          /\ CanRemove(root, file[e.rep])
          /\ file' = [file EXCEPT ![e.rep] = "absent"]
          /\ wvalid' = FALSE
          /\ UNCHANGED <<ref, root, write, wsnap>>

\* asset events that follow are judged on the files the server found: unchanged in read mode, irrelevant in write mode
Start == /\ e.ev = "start"
         /\ write' = e.write
         /\ file' = AfterStart(root, e.write, file)
         /\ UNCHANGED <<ref, root, wsnap, wvalid>>

Asset == /\ e.ev = "asset"
         /\ e.asset \in DOMAIN ref
         /\ LET r == ref[e.asset] IN
            Judge(e.asset, root, write, e.cls, e.listed, r.cls, r.listed, r.adm, r.open, FsOf(e.asset), e.diff)
         /\ UNCHANGED <<ref, file, root, write, wsnap, wvalid>>

\* C15.contig on what the cache-loaded server serves (the length of the window is not part of the clause)
Tl == /\ e.ev = "tl"
      /\ Clause("C15.contig", ~e.ovf /\ Contig(e.tfdt, e.dur),
                [asset |-> e.asset, rep |-> e.rep, first_gap_after |-> FirstGap(e.tfdt, e.dur), root |-> root, write |-> write,
                 corrupt |-> \E r \in DOMAIN FsOf(e.asset) : Corrupt(FsOf(e.asset)[r])])
      /\ UNCHANGED <<ref, file, root, write, wsnap, wvalid>>

\* C15.contig on the loaded table as it is served: the SegmentTimeline the server declares is contiguous and every declared
\* entry is served (status 200) with the declared start as its decode time
Mtl == /\ e.ev = "mtl"
       /\ e.asset \in DOMAIN ref
       /\ Clause("C15.contig", ~e.ovf /\ DeclaredOK(e.t, e.d, e.st, e.tfdt),
                 [asset |-> e.asset, rep |-> e.rep, kind |-> "declared-timeline", first_bad |-> FirstBadDeclared(e.t, e.d, e.st, e.tfdt),
                  t |-> e.t, d |-> e.d, st |-> e.st, tfdt |-> e.tfdt, root |-> root, write |-> write,
                  corrupt |-> \E r \in DOMAIN FsOf(e.asset) : Corrupt(FsOf(e.asset)[r])])
       /\ UNCHANGED <<ref, file, root, write, wsnap, wvalid>>

\* C15.contig over many loops, against the construction of the asset (N segments, loop of L ticks, exp[j] = start of
\* segment j in the first loop): segment k*N + j is served with decode time k*L + exp[j] exactly (pairs [w, r] over L)
Far == /\ e.ev = "far"
       /\ e.asset \in DOMAIN ref
       /\ Clause("C15.contig", FarOK(e.k, e.st, e.w, e.r, e.exp),
                 [asset |-> e.asset, rep |-> e.rep, kind |-> "far-exact", k |-> e.k, L |-> e.L, st |-> e.st, w |-> e.w, r |-> e.r,
                  exp |-> e.exp, root |-> root, write |-> write,
                  corrupt |-> \E x \in DOMAIN FsOf(e.asset) : Corrupt(FsOf(e.asset)[x])])
       /\ UNCHANGED <<ref, file, root, write, wsnap, wvalid>>

\* C15.idem: a write-mode start that follows a write-mode start with no file action in between leaves the same bytes
Files == /\ e.ev = "files"
         /\ IF e.write
            THEN /\ Clause("C15.idem", wvalid => e.files = wsnap,
                           [root |-> root, write |-> TRUE, corrupt |-> FALSE, files_before |-> Len(wsnap), files_after |-> Len(e.files)])
                 /\ wsnap' = e.files /\ wvalid' = TRUE
            ELSE UNCHANGED <<wsnap, wvalid>>
         /\ UNCHANGED <<ref, file, root, write>>

Step == l <= Len(Trace) /\ (Ref \/ Hdr \/ Damage \/ Remove \/ Start \/ Asset \/ Tl \/ Mtl \/ Far \/ Files) /\ l' = l + 1
Done == l = Len(Trace) + 1 /\ Consumed(Len(Trace)) /\ UNCHANGED vars
Spec == Init /\ [][Step \/ Done]_vars
Accepted == NoBad
=============================================================================

---------------------------- MODULE AudioReseg_Trace ----------------------------
(* (V) for C03: validates audio segments and MPDs served by the real livesim2 against the oracle
   operators of AudioResegOps.  One scenario = one audio representation of one asset under one URL
   configuration.  Events:
     hdr  {N, dur, vod0, TS, loopMS, tsbd, ato, snr, ...  the reference (video) layout: ground truth of the asset
           generator / independent parse of the VoD files;
           F, TSa, A, ra, rv, M, PA   audio constants (see AudioResegOps); vcls[x+1] = class of VoD audio frame x,
           class = index of the first VoD frame with the same payload digest}
     hdr.ll = TRUE: the scenario requests low-latency chunked delivery (ato_ + chunkdur_); a seg event then describes the
           concatenation of all fragments of the chunked body, sdig / wdig = digest of (first decode time, per-sample duration, size,
           payload) of the chunked body / of the same segment delivered whole (wst = its status)
     seg  {k, i, st, nrp, tfdt, cnt, durs, cls, nfrag, contig, run}   answer to the request for audio segment
           n = k*N + i (by number, or by $Time$ with the value a client would compute): nrp = (mfhd - snr) as pair
           over N; tfdt pair over PA; cnt samples; durs = distinct sample durations; cls[j] = class of the j-th
           served frame's payload (-1: no VoD frame has this payload); run = the previous event of the scenario was
           the served segment n-1
     mpd  {st, k0, i0, vt, nv, at, ats, vsn, asn}   MPD at the instant of the previous seg event: the video
           SegmentTimeline has nv entries, the first is video segment (k0, i0) (vt = its t as pair over L);
           at = the audio SegmentTimeline expanded, entries <<w, r, d>> with t = pair [w, r] over PA                 *)
EXTENDS TraceLib, AudioResegOps, FiniteSets
VARIABLES l, h, prev
vars == <<l, h, prev>>
Clause(name, ok, detail) == ClauseAt(l, name, ok, detail)
e == Trace[l]
H == Trace[h]
SC == [N |-> H.N, dur |-> H.dur, vod0 |-> H.vod0, TS |-> H.TS, loopMS |-> H.loopMS,
       tsbd |-> H.tsbd, ato |-> H.ato, snr |-> H.snr]
AU == [F |-> H.F, TSa |-> H.TSa, A |-> H.A, ra |-> H.ra, rv |-> H.rv, M |-> H.M, PA |-> H.PA]
NoPrev == [k |-> -9, i |-> 0, tfdt |-> TZero, cnt |-> 0]

Init == l = 1 /\ h = 1 /\ prev = NoPrev /\ MonitorInit

\* header sanity (a failing hdr.* clause is a defect of the driver, reported as machinery error by checks/c03.py)
Hdr == /\ e.ev = "hdr"
       /\ LET s == [N |-> e.N, dur |-> e.dur, vod0 |-> e.vod0, TS |-> e.TS, loopMS |-> e.loopMS, tsbd |-> e.tsbd, ato |-> e.ato, snr |-> e.snr]
              a == [F |-> e.F, TSa |-> e.TSa, A |-> e.A, ra |-> e.ra, rv |-> e.rv, M |-> e.M, PA |-> e.PA]
          IN Clause("hdr.admissible", Len(e.dur) = e.N /\ e.N > 0 /\ AuAdmissible(s, a) /\ Len(e.vcls) = e.A /\ e.vod0 >= 0
                                       /\ \A x \in 1..e.A : e.vcls[x] >= 0 /\ e.vcls[x] < x /\ e.vcls[e.vcls[x] + 1] = e.vcls[x],
                    "scenario header")
       /\ h' = l /\ prev' = NoPrev

\* VoD frames whose payload has class c
ClsSet(c) == {x \in 0..(H.A - 1) : H.vcls[x + 1] = c}
\* slack of the reading-independent frame clause: the VoD audio position of the reference track's first decode time, + 1
RestartSlack == (H.vod0 * H.ra) \div (H.rv * H.F) + 1

Seg == /\ e.ev = "seg"
       \* an audio segment whose reference segment is available must be served
       /\ Clause("C03.served", e.st = 200, <<"status", e.st>>)
       /\ IF e.st # 200 THEN prev' = NoPrev
          ELSE
          /\ Clause("C03.nr", e.nrp = <<e.k, e.i>>, <<"mfhd_minus_snr", e.nrp, "expected", <<e.k, e.i>>>>)
          /\ Clause("C03.start", TEq(TFrom(e.tfdt), AStart(SC, AU, e.k, e.i)), <<"tfdt", e.tfdt, "expected", AStart(SC, AU, e.k, e.i)>>)
          /\ Clause("C03.count", e.cnt = ACount(SC, AU, e.k, e.i), <<"samples", e.cnt, "expected", ACount(SC, AU, e.k, e.i)>>)
          /\ Clause("C03.count", e.contig /\ (e.cnt > 0 => {e.durs[x] : x \in 1..Len(e.durs)} = {H.F}), <<"sample_durations", e.durs, "fragments_contiguous", e.contig>>)
          \* observed abutment with the previously served segment (also across loop wraps)
          /\ Clause("C03.abut", (e.run /\ prev.k # -9) => TEq(TFrom(e.tfdt), TAdd(H.PA, prev.tfdt, [w |-> 0, r |-> prev.cnt * H.F])),
                    <<"prev_tfdt", prev.tfdt, "prev_samples", prev.cnt, "tfdt", e.tfdt>>)
          /\ IF H.vod0 = 0
             THEN Clause("C03.frames", Len(e.cls) = e.cnt /\ \A j \in 1..Len(e.cls) : (j <= ACount(SC, AU, e.k, e.i)) => e.cls[j] = H.vcls[Frame(SC, AU, e.k, e.i, j - 1) + 1],
                         LET bad == {j \in 1..Len(e.cls) : j <= ACount(SC, AU, e.k, e.i) /\ e.cls[j] # H.vcls[Frame(SC, AU, e.k, e.i, j - 1) + 1]}
                             j0  == IF bad = {} THEN 0 ELSE CHOOSE j \in bad : \A y \in bad : j <= y
                         IN <<"mismatching_frames", Cardinality(bad), "first", j0, "served_class", IF j0 = 0 THEN -2 ELSE e.cls[j0],
                              "expected_vod_frame", IF j0 = 0 THEN -2 ELSE Frame(SC, AU, e.k, e.i, j0 - 1)>>)
             ELSE Clause("C03.frames", /\ Len(e.cls) = e.cnt
                                       /\ \A j \in 1..Len(e.cls) : e.cls[j] >= 0
                                       /\ \A j \in 2..Len(e.cls) : \E x \in ClsSet(e.cls[j - 1]), y \in ClsSet(e.cls[j]) : WeakNext(AU, x, y, RestartSlack),
                         <<"weak reading (vod0 # 0)", "classes", e.cls>>)
          \* every delivery variant is the same audio segment: the low-latency (chunked) body, all fragments concatenated, has the
          \* samples of the whole segment served for the same request without ato_/chunkdur_ (all clauses above are evaluated on the
          \* concatenation: first fragment's tfdt, all samples, fragments contiguous)
          /\ Clause("C03.variant", (H.ll /\ e.wst = 200) => e.sdig = e.wdig, <<"chunked", e.sdig, "whole", e.wdig, "fragments", e.nfrag>>)
          /\ prev' = [k |-> e.k, i |-> e.i, tfdt |-> TFrom(e.tfdt), cnt |-> e.cnt]
       /\ UNCHANGED h

\* (k, i) of the j-th (1-based) entry of a timeline whose first entry is (k0, i0)
KOf(j) == e.k0 + ((e.i0 + j - 1) \div H.N)
IOf(j) == (e.i0 + j - 1) % H.N
Mpd == /\ e.ev = "mpd"
       /\ Clause("C03.mpd", e.st = 200, <<"status", e.st>>)
       /\ IF e.st # 200 THEN TRUE ELSE
          /\ Clause("hdr.mpdbase", e.nv > 0 => TEq(TFrom(e.vt), Start(SC, e.k0, e.i0)), <<"video timeline start", e.vt, e.k0, e.i0>>)
          /\ Clause("C03.mpd", e.nv > 0 => e.ats = H.TSa, <<"audio timescale", e.ats>>)
          /\ Clause("C03.mpd", Len(e.at) = e.nv, <<"audio_entries", Len(e.at), "video_entries", e.nv>>)
          /\ Clause("C03.mpd", \A j \in 1..Len(e.at) : j <= e.nv =>
                                  /\ TEq([w |-> e.at[j][1], r |-> e.at[j][2]], AStart(SC, AU, KOf(j), IOf(j)))
                                  /\ e.at[j][3] = ADur(SC, AU, KOf(j), IOf(j)),
                    LET bad == {j \in 1..Len(e.at) : j <= e.nv /\ ~(TEq([w |-> e.at[j][1], r |-> e.at[j][2]], AStart(SC, AU, KOf(j), IOf(j)))
                                                                     /\ e.at[j][3] = ADur(SC, AU, KOf(j), IOf(j)))}
                        j0  == IF bad = {} THEN 0 ELSE CHOOSE j \in bad : \A y \in bad : j <= y
                    IN <<"wrong_entries", Cardinality(bad), "first", j0, "listed", IF j0 = 0 THEN <<>> ELSE e.at[j0],
                         "expected_start", IF j0 = 0 THEN TZero ELSE AStart(SC, AU, KOf(j0), IOf(j0)),
                         "expected_d", IF j0 = 0 THEN 0 ELSE ADur(SC, AU, KOf(j0), IOf(j0))>>)
          \* $Number$ addressing of the timeline: audio and video number their first entry alike
          /\ Clause("C03.mpd", e.asn = e.vsn, <<"audio_startNumber", e.asn, "video_startNumber", e.vsn>>)
       /\ UNCHANGED <<h, prev>>

Step == l <= Len(Trace) /\ (Hdr \/ Seg \/ Mpd) /\ l' = l + 1
Done == l = Len(Trace) + 1 /\ Consumed(Len(Trace)) /\ UNCHANGED vars
Spec == Init /\ [][Step \/ Done]_vars
Accepted == NoBad
=============================================================================

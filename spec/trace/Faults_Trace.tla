---------------------------- MODULE Faults_Trace ----------------------------
(* (V) for C14: validates responses of the real livesim2 server to segment requests under statuscode_ and
   traffic_ URL parameters against the oracle of FaultsOps.  One scenario = one asset (header = ground truth of
   its REFERENCE (video) representation, as in LiveTimeline_Trace) under one URL configuration.  Events:
     hdr   {N, dur, vod0, TS, loopMS, tsbd, ato, snr, ast, ..., pats, traffic}
           pats    = <<[c, q, code, reps]>>  the statuscode patterns put into the URL by the driver
           traffic = << <<[s, d]>> >>        the traffic patterns put into the URL by the driver
     sreq  {rep, k, i, now, st}   a media-segment request of representation rep whose reference segment is
           n = k*N+i (video: the segment itself; audio: the audio segment that follows video segment n), issued at
           instant now (ms relative to availabilityStartTime, pair over loopMS); st = status
     mpd   {st, periods, pids}    the MPD served under the scenario's traffic_ parameter at a request instant:
           periods = <<BaseURL list of every Period>>
     tnoreq {b, period, why}      the MPD offers no way to request through BaseURL b (no BaseURL / template in the Period)
     treq  {b, k, i, now, sec, rel, st, ms}   a media-segment request through BaseURL number b (0-based; the
           driver builds the URL from the MPD fetched at that instant: BaseURL b of the Period containing the segment +
           SegmentTemplate@media + Representation@id), sec = epoch second of the request instant, rel = sec - ast,
           ms = wall time the server took (minimum over up to 3 attempts when the first was slow)              *)
EXTENDS TraceLib, FaultsOps
VARIABLES l, h, anch, cnt
vars == <<l, h, anch, cnt>>
Clause(name, ok, detail) == ClauseAt(l, name, ok, detail)
e == Trace[l]
H == Trace[h]
SC == [N |-> H.N, dur |-> H.dur, vod0 |-> H.vod0, TS |-> H.TS, loopMS |-> H.loopMS,
       tsbd |-> H.tsbd, ato |-> H.ato, snr |-> H.snr]
\* The property text gives no figures for "slow" and "hanging" (the simulator documents 2 s and 10 s): a slow
\* answer is one that takes at least 1 s, a hanging one at least 5 s (longer than slow) and ends in 503.
SlowMinMS == 1000
HangMinMS == 5000
Anchors == {"epoch", "ast"}
Cnt0 == [hit |-> 0, miss |-> 0, either |-> 0, mpd |-> 0, noreq |-> 0, u |-> 0, d |-> 0, s |-> 0, h |-> 0, hdr |-> 0]
Inc(f) == cnt' = [cnt EXCEPT ![f] = @ + 1]

Init == l = 1 /\ h = 1 /\ anch = Anchors /\ cnt = Cnt0 /\ MonitorInit

Hdr == /\ e.ev = "hdr"
       /\ Clause("hdr.admissible", Admissible([N |-> e.N, dur |-> e.dur, vod0 |-> e.vod0, TS |-> e.TS, loopMS |-> e.loopMS,
                                               tsbd |-> e.tsbd, ato |-> e.ato, snr |-> e.snr]) /\ Len(e.dur) = e.N, "scenario header")
       /\ Clause("hdr.patterns", /\ \A j \in 1..Len(e.pats) : e.pats[j].c > 0 /\ e.pats[j].q >= 0 /\ e.pats[j].c * e.TS < 500000000
                                 /\ \A j \in 1..Len(e.traffic) : WellFormed(e.traffic[j]), "patterns of the scenario")
       /\ h' = l /\ anch' = Anchors /\ Inc("hdr")

\* ---------------------------------------------------------------- statuscode
SReq == /\ e.ev = "sreq"
        /\ LET now     == [w |-> e.now[1], r |-> e.now[2] * H.TS]      \* ms pair over loopMS -> u pair over P
               hit     == IsHit(SC, H.pats, e.rep, e.k, e.i)
               miss    == IsMiss(SC, H.pats, e.rep, e.k, e.i)
               allowed == Allowed(SC, H.pats, e.rep, e.k, e.i, now)
               name    == IF hit THEN "C14.hit" ELSE IF miss THEN "C14.miss" ELSE "C14.hit_or_miss"
           IN /\ Clause(name, e.st \in allowed,
                        <<"status", e.st, "allowed", allowed, "rsq_in_cycle",
                          [j \in 1..Len(H.pats) |-> Idx(SC, H.pats[j].c, e.k, e.i, 0)]>>)
              /\ Inc(IF hit THEN "hit" ELSE IF miss THEN "miss" ELSE "either")
        /\ UNCHANGED <<h, anch>>

\* ---------------------------------------------------------------- traffic
Distinct(s) == \A a, b \in 1..Len(s) : a # b => s[a] # s[b]
\* C14.baseurls: every Period of the served MPD (single- and multi-period) offers one BaseURL per traffic pattern; the
\* lists of all Periods are equal (BaseURL number b serves pattern number b in every Period: the driver builds each
\* request from the BaseURL of the Period that contains the requested segment).  The names of the BaseURLs are not fixed
\* by the property text and are not demanded.
Mpd == /\ e.ev = "mpd"
       /\ Clause("C14.baseurls", /\ e.st = 200 /\ Len(e.periods) >= 1
                                 /\ \A p \in 1..Len(e.periods) : /\ Len(e.periods[p]) = Len(H.traffic)
                                                                 /\ Distinct(e.periods[p])
                                                                 /\ e.periods[p] = e.periods[1],
                 <<"status", e.st, "baseurls_per_period", e.periods, "period_ids", e.pids, "patterns", Len(H.traffic)>>)
       /\ Inc("mpd")
       /\ UNCHANGED <<h, anch>>

\* C14.traffic.baseurl: a client that follows the MPD must be able to request the segment through the BaseURL of
\* pattern b in the Period that contains it; the driver reports when the MPD gives it nothing to request.
TNoReq == /\ e.ev = "tnoreq"
          /\ Clause("C14.traffic.baseurl", FALSE, <<e.why, "period", e.period, "pattern", e.b>>)
          /\ Inc("noreq")
          /\ UNCHANGED <<h, anch>>

TReq == /\ e.ev = "treq"
        /\ LET now    == [w |-> e.now[1], r |-> e.now[2] * H.TS]
               tp     == H.traffic[e.b + 1]
               normal == Status(SC, e.k, e.i, now)
               StateFor(a) == StateAt(tp, IF a = "epoch" THEN e.sec ELSE e.rel)
               Fits(s) == CASE s = "u" -> e.st \in normal /\ e.ms < SlowMinMS
                            [] s = "d" -> e.st = 404
                            [] s = "s" -> e.st \in normal /\ e.ms >= SlowMinMS
                            [] s = "h" -> e.st = 503 /\ e.ms >= HangMinMS
               good   == { a \in anch : Fits(StateFor(a)) }
               s0     == StateFor(IF "epoch" \in anch THEN "epoch" ELSE "ast")
               name   == CASE s0 = "u" -> "C14.up" [] s0 = "d" -> "C14.down" [] s0 = "s" -> "C14.slow" [] s0 = "h" -> "C14.hang"
           IN /\ Clause(name, good # {},
                        <<"status", e.st, "ms", e.ms, "prescribed", [a \in anch |-> StateFor(a)], "normal", normal>>)
              /\ anch' = IF good = {} THEN anch ELSE good
              /\ Inc(s0)
        /\ UNCHANGED h

Step == l <= Len(Trace) /\ (Hdr \/ SReq \/ Mpd \/ TNoReq \/ TReq) /\ l' = l + 1
Done == l = Len(Trace) + 1 /\ PrintT("STATS" \o ToJson(cnt)) /\ Consumed(Len(Trace)) /\ UNCHANGED vars
Spec == Init /\ [][Step \/ Done]_vars
Accepted == NoBad
=============================================================================

---------------------------- MODULE Stateless_Trace ----------------------------
(* (V) for C07: validates the recorded responses of the real livesim2 server (all instances, all
   phases, the sequential and the 32-way concurrent ones, both processes) against the oracle of
   StatelessOps: one memo  key -> digest  shared by ALL instances and phases.
   Events (one per line):
     hdr   {part, ...}                       start of a part of the trace: the memo is emptied.  The recorder
                                             partitions the responses by a hash of the KEY (all responses of one
                                             key are in one part, in recording order), so that parts can be
                                             validated by concurrent TLC processes; sound because the oracle
                                             never relates two different keys.
     resp  {inst, phase, kind, key, dig}     one response of instance `inst` (long / fresh / cached / writer /
                                             racelong / racefresh ...) in phase `phase`; key = URL "@" nowMS;
                                             dig = status "|" content type "|" sha256 of the body (strings)
     aux   {what, ...}                       a request that is NOT a function of (URL, time) by design (urlgen /
                                             assets pages, /reqcount, /metrics, ingest API): consumed, never
                                             entered into the memo (it takes part in the race clause only)
     race  {site} / fatal {site}             Go race detector report / runtime "concurrent map" fatal error of the
                                             -race child process: NO action of the oracle allows them            *)
EXTENDS TraceLib, StatelessOps
VARIABLES l, memo
vars == <<l, memo>>
Clause(name, ok, detail) == ClauseAt(l, name, ok, detail)
e == Trace[l]

Init == l = 1 /\ memo = EmptyMemo /\ MonitorInit

Hdr == /\ e.ev = "hdr"
       /\ memo' = EmptyMemo

Resp == /\ e.ev = "resp"
        /\ Clause("C07.functional", Functional(memo, e.key, e.dig),
                  [first |-> IF Known(memo, e.key) THEN memo[e.key] ELSE "", got |-> e.dig])
        /\ memo' = Learn(memo, e.key, e.dig)

Aux == /\ e.ev = "aux"
       /\ UNCHANGED memo

Race == /\ e.ev \in {"race", "fatal"}
        /\ Clause("C07.norace", RaceFree(e.ev), e.site)
        /\ UNCHANGED memo

Step == /\ l <= Len(Trace)
        /\ (Hdr \/ Resp \/ Aux \/ Race)
        /\ l' = l + 1
Done == l = Len(Trace) + 1 /\ Consumed(Len(Trace)) /\ UNCHANGED vars
Spec == Init /\ [][Step \/ Done]_vars
Accepted == NoBad
=============================================================================

SPECIFICATION Spec
POSTCONDITION Accepted_
CHECK_DEADLOCK FALSE

---------------------------- MODULE LiveTimeline_Trace ----------------------------
(* (V) for C01 and C04: validates responses of the real livesim2 segment server against the
   oracle operators of LiveTimelineOps.  One scenario = one representation under one URL
   configuration.  Events:
     hdr  {N, dur, vod0, TS, loopMS, tsbd, ato, snr, kind, mode, ...}   scenario constants (ground truth
          from the asset generator / an independent parse of the VoD files)
     seg  {k, i, st, nrp, tfdt, dur, frags, pidx, dig, sidx, hasSidx, ttml, run}   one served media segment
          (C01): index n = k*N+i chosen by the driver; nrp = (mfhd - snr) as pair over N; tfdt pair over L;
          pidx = VoD segment whose payload digest equals the served one (-1 none); run = TRUE if this
          request is for the successor of the previous seg event of the scenario
     req  {k, i, now, st, early, url}    one request of a sweep over increasing now (C04): now = instant
          relative to availabilityStartTime in ms as pair over loopMS; early = X of "too early by X ms"
     nf   {what, st}                      request that must be answered 404 (C04.notfound)                *)
EXTENDS TraceLib, LiveTimelineOps, FiniteSets
VARIABLES l, h, prev, digs, phase
vars == <<l, h, prev, digs, phase>>
Clause(name, ok, detail) == ClauseAt(l, name, ok, detail)
e == Trace[l]
H == Trace[h]
SC == [N |-> H.N, dur |-> H.dur, vod0 |-> H.vod0, TS |-> H.TS, loopMS |-> H.loopMS,
       tsbd |-> H.tsbd, ato |-> H.ato, snr |-> H.snr]
NoPrev == [k |-> -9, i |-> 0, tfdt |-> TZero, dur |-> 0]

Init == l = 1 /\ h = 1 /\ prev = NoPrev /\ digs = <<>> /\ phase = <<>> /\ MonitorInit

Hdr == /\ e.ev = "hdr"
       /\ Clause("hdr.admissible", Admissible([N |-> e.N, dur |-> e.dur, vod0 |-> e.vod0, TS |-> e.TS, loopMS |-> e.loopMS,
                                               tsbd |-> e.tsbd, ato |-> e.ato, snr |-> e.snr]) /\ Len(e.dur) = e.N, "scenario header")
       /\ h' = l /\ prev' = NoPrev /\ phase' = <<>>
       /\ digs' = IF e.keepdigs THEN digs ELSE <<>>

\* ---------------------------------------------------------------- C01
Seg == /\ e.ev = "seg"
       /\ Clause("C01.served", e.st = 200, <<"status", e.st>>)
       /\ IF e.st # 200 THEN prev' = NoPrev /\ UNCHANGED digs
          ELSE
          /\ IF H.kind = "image" THEN TRUE ELSE
             /\ Clause("C01.nr", e.nrp = <<e.k, e.i>>, <<"mfhd_minus_snr", e.nrp, "expected", <<e.k, e.i>>>>)
             /\ Clause("C01.time", TEq(TFrom(e.tfdt), Start(SC, e.k, e.i)), <<"tfdt", e.tfdt, "expected", Start(SC, e.k, e.i)>>)
             /\ Clause("C01.sidx", e.hasSidx => TEq(TFrom(e.sidx), Start(SC, e.k, e.i)), <<"sidx", e.sidx>>)
             /\ Clause("C01.dur", e.dur = Dur(SC, e.i), <<"dur", e.dur, "expected", Dur(SC, e.i)>>)
             \* fragments internally contiguous: offsets relative to the first tfdt
             /\ Clause("C01.frags", \A j \in 1..Len(e.frags) :
                                      e.frags[j][1] = (IF j = 1 THEN 0 ELSE e.frags[j-1][1] + e.frags[j-1][2]), e.frags)
             \* observed contiguity with the previous observed segment (also across the loop wrap)
             /\ Clause("C01.contig", (e.run /\ prev.k # -9) =>
                                       TEq(TFrom(e.tfdt), TAdd(L(SC), prev.tfdt, [w |-> 0, r |-> prev.dur])),
                       <<"prev_tfdt", prev.tfdt, "prev_dur", prev.dur, "tfdt", e.tfdt>>)
             \* TTML timestamps move by the same offset as the decode time: shift = k loops
             /\ Clause("C01.ttml", \A d \in 1..Len(e.ttml) : e.ttml[d] = <<e.k, 0>>, <<"ttml_shift_pairs", e.ttml, "loops", e.k>>)
          /\ Clause("C01.payload", e.pidx = e.i, <<"payload_of_vod_segment", e.pidx, "expected", e.i>>)
          \* C01.addr: the same segment under another addressing mode has the same body
          /\ LET key == <<H.asset, H.rep, H.snr, H.ast, e.k, e.i>> IN
             IF key \in DOMAIN digs
             THEN Clause("C01.addr", digs[key] = e.dig, <<"mode", H.mode, "digest", e.dig, "first_seen", digs[key]>>) /\ UNCHANGED digs
             ELSE digs' = (key :> e.dig) @@ digs
          /\ prev' = [k |-> e.k, i |-> e.i, tfdt |-> TFrom(e.tfdt), dur |-> e.dur]
       /\ UNCHANGED <<h, phase>>

\* ---------------------------------------------------------------- C04
Req == /\ e.ev = "req"
       /\ LET now  == [w |-> e.now[1], r |-> e.now[2] * H.TS]      \* ms pair over loopMS -> u pair over P
              ok0  == Status(SC, e.k, e.i, now)
              \* audio: the segment ends up to one frame (H.slack ms) after its reference video segment; the text's
              \* "segment end" may be read either way, so in that slack both 425 and 200 are accepted
              slackU == MsPair(SC, H.slack)
              ok   == IF H.slack > 0 /\ now.w >= 0 /\ TLeq(Avail(SC, e.k, e.i), now) /\ TLt(now, TAdd(P(SC), Avail(SC, e.k, e.i), slackU))
                      THEN ok0 \cup {425} ELSE ok0
              key  == e.url
              old  == IF key \in DOMAIN phase THEN phase[key] ELSE 0
          IN /\ Clause("C04.class", e.st \in {425, 200, 410}, <<"status", e.st>>)
             /\ Clause("C04.status", e.st \in ok, <<"status", e.st, "allowed", ok, "now", e.now, "avail", Avail(SC, e.k, e.i)>>)
             /\ Clause("C04.monotone", Phase(e.st) >= old, <<"phase_before", old, "status", e.st>>)
             \* the 425 body states the remaining milliseconds (rounding of a sub-ms remainder is free)
             /\ Clause("C04.body", (e.st = 425 /\ now.w >= 0 /\ 425 \in ok) =>
                                      LET rem == TooEarlyBy(SC, e.k, e.i, now)      \* u
                                          x   == [w |-> e.early[1], r |-> e.early[2] * H.TS]
                                      IN /\ e.early[1] >= 0
                                         /\ TLt(TSub(P(SC), rem, x), MsPair(SC, 1))                 \* rem - x < 1 ms
                                         /\ TLt(TSub(P(SC), x, rem), MsPair(SC, 1 + H.slack)),      \* x - rem < 1 ms (+ audio slack)
                       <<"too_early_by_ms", e.early, "remaining_u", TooEarlyBy(SC, e.k, e.i, now)>>)
             \* before availabilityStartTime: the figure is the time to AST or the time to the segment's availability
             /\ Clause("C04.body_before_ast", (e.st = 425 /\ now.w < 0) =>
                                      LET x    == [w |-> e.early[1], r |-> e.early[2] * H.TS]
                                          toAv == TooEarlyBy(SC, e.k, e.i, now)
                                          toA0 == TSub(P(SC), TZero, now)
                                          near(a, b) == TLt(TSub(P(SC), a, b), MsPair(SC, 1)) /\ TLt(TSub(P(SC), b, a), MsPair(SC, 1))
                                      IN e.early[1] >= 0 /\ (near(x, toAv) \/ near(x, toA0)),
                       <<"too_early_by_ms", e.early, "to_ast_u", TSub(P(SC), TZero, now)>>)
             /\ phase' = (key :> (IF Phase(e.st) > old THEN Phase(e.st) ELSE old)) @@ phase
       /\ UNCHANGED <<h, prev, digs>>

Nf == /\ e.ev = "nf"
      /\ Clause("C04.notfound", e.st = 404, <<e.what, e.st>>)
      /\ UNCHANGED <<h, prev, digs, phase>>

Step == l <= Len(Trace) /\ (Hdr \/ Seg \/ Req \/ Nf) /\ l' = l + 1
Done == l = Len(Trace) + 1 /\ Consumed(Len(Trace)) /\ UNCHANGED vars
Spec == Init /\ [][Step \/ Done]_vars
Accepted == NoBad
=============================================================================

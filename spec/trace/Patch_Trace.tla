---------------------------- MODULE Patch_Trace ----------------------------
(* (V)/(R) for C11: one event = one pair of MPD documents and what the real code answered.
     pair {src, cls, desc, old, new, status, err, panic, site, ops, hdr:{mpdId, opt, pt}, ttl, margin, dt, dpt, ...}
       src    "gen"  (TLC-generated pair -> patch.MPDDiff), "seed" (driver-generated pair -> patch.MPDDiff),
              "live" (MPD(t1), its PatchLocation requested at t2, MPD(t2) through the real router)
       old,new  trees read by the recorder's own XML reader from the bytes given to / served by the code
       status   HTTP status of the patch request; for gen/seed the status the handler derives from MPDDiff's error
                (200 patch, 425 ErrPatchSamePublishTime, 410 ErrPatchTooLate, 500 any other error or a panic)
       ops      tokenised operations of the patch document, in document order
       dt, dpt  t2 - t1 and publishTime(new) - publishTime(old) in ms; ttl, margin in s
   Clauses:
     C11.apply   no panic; with status 200: Fold(Apply, old, ops) = new
     C11.unique  with status 200: every selector resolves to exactly one node (detail: first failing operation)
     C11.header  with status 200: originalPublishTime = old@publishTime, publishTime = new@publishTime, mpdId = old@id = new@id
     C11.status  PatchOps!StatusOK *)
EXTENDS TraceLib, PatchOps
VARIABLES l
vars == <<l>>
Clause(name, ok, detail) == ClauseAt(l, name, ok, detail)
e == Trace[l]

AttrOr(node, a, d) == IF a \in DOMAIN node.attrs THEN node.attrs[a] ELSE d

RECURSIVE FirstDiff(_, _)
\* where two trees differ first (for the failure detail only)
FirstDiff(a, b) ==
   IF a.tag # b.tag THEN "/" \o a.tag \o " tag " \o b.tag
   ELSE IF a.attrs # b.attrs THEN "/" \o a.tag \o " attributes"
   ELSE IF a.text # b.text THEN "/" \o a.tag \o " text"
   ELSE IF Len(a.kids) # Len(b.kids) THEN "/" \o a.tag \o " number of children " \o ToString(Len(a.kids)) \o " vs " \o ToString(Len(b.kids))
   ELSE LET ds == {i \in 1..Len(a.kids) : a.kids[i] # b.kids[i]} IN
        IF ds = {} THEN "" ELSE LET i == CHOOSE x \in ds : \A y \in ds : x <= y IN
                                "/" \o a.tag \o "[child " \o ToString(i) \o "]" \o FirstDiff(a.kids[i], b.kids[i])

Init == l = 1 /\ MonitorInit

Pair == /\ e.ev = "pair"
        /\ Clause("C11.apply", ~e.panic, <<"panic", e.site, e.err>>)
        /\ IF e.panic THEN TRUE
           ELSE Clause("C11.status", StatusOK(e.status, e.old = e.new, e.dt, e.dpt, e.ttl, e.margin),
                       <<"status", e.status, "same", e.old = e.new, "dt", e.dt, "dpt", e.dpt, "ttl", e.ttl, e.err>>)
        /\ IF e.status # 200 THEN TRUE
           ELSE LET r == Fold(e.old, e.ops) IN
                /\ Clause("C11.header", /\ e.hdr.opt = AttrOr(e.old, "publishTime", "#none")
                                        /\ e.hdr.pt = AttrOr(e.new, "publishTime", "#none")
                                        /\ e.hdr.mpdId = AttrOr(e.old, "id", "#none")
                                        /\ e.hdr.mpdId = AttrOr(e.new, "id", "#none"),
                          <<e.hdr, AttrOr(e.old, "publishTime", "#none"), AttrOr(e.new, "publishTime", "#none")>>)
                /\ Clause("C11.unique", r.bad = 0,
                          <<"operation", r.bad, IF r.bad > 0 THEN e.ops[r.bad].op ELSE "", IF r.bad > 0 THEN e.ops[r.bad].raw ELSE "">>)
                /\ IF r.bad # 0 THEN TRUE
                   ELSE Clause("C11.apply", r.tree = e.new, <<"first difference", FirstDiff(r.tree, e.new), "ops", Len(e.ops)>>)

Step == l <= Len(Trace) /\ Pair /\ l' = l + 1
Done == l = Len(Trace) + 1 /\ Consumed(Len(Trace)) /\ UNCHANGED vars
Spec == Init /\ [][Step \/ Done]_vars
Accepted == NoBad
=============================================================================

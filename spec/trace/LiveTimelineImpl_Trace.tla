---------------------------- MODULE LiveTimelineImpl_Trace ----------------------------
(* (R)/(V) for X03: every replayed case of the real livesim2 server is compared with the transcription
   (LiveTimelineImplOps, re-evaluated here from the scenario header) AND judged by the oracle operators of
   C01/C02/C04/C05 (LiveTimelineOps / LiveMpdOps).  Events:
     hdr  {N, dur, vod0, TS, loopMS, tsbd, ato, snr, ast, fix, asset, src}     ground truth of the generated VoD layout
                                                                           (assetgen) + the URL configuration
     seg  {by, mode, q, now, hasp, p, o}   one media segment request at ?nowMS=now (absolute ms):
          by = "nr": number q ($Number$ / SegmentTimeline-$Number$ URL), by = "tm": time q (SegmentTimeline-$Time$ URL)
          p = the explorer's prediction printed by TLC (GEN line; hasp = FALSE for seeded cases)
          o = observation {st, early, idx, t, d, nr}: status, ms figure of the 425 body, VoD segment with the same
              payload (-1 none), tfdt, sum of sample durations, mfhd sequence number
     mpd  {mode, now, hasp, p, o}          one MPD request: o = {st, S, hasSn, sn, hasPt, pt, astOk}; S = raw entries
          <<hasT, t, d, r>> of the video AdaptationSet, sn = @startNumber - snr, pt = publishTime in ms
   Clauses  X03.fidelity.*  prediction = observation, exact (gen: the replayed GEN prediction is what the transcription
                            yields for the header's configuration)
            X03.oracle.*    the observation satisfies the oracle (clause names follow C01/C02/C04/C05) *)
EXTENDS TraceLib, LiveTimelineImplOps, LiveMpdOps
VARIABLES l, h
vars == <<l, h>>
Clause(name, ok, detail) == ClauseAt(l, name, ok, detail)
e == Trace[l]
H == Trace[h]
C  == [N |-> H.N, dur |-> H.dur, vod0 |-> H.vod0, TS |-> H.TS, loopMS |-> H.loopMS,
       tsbd |-> H.tsbd, ato |-> H.ato, snr |-> H.snr, ast |-> H.ast, fix |-> H.fix]
SC == [N |-> H.N, dur |-> H.dur, vod0 |-> H.vod0, TS |-> H.TS, loopMS |-> H.loopMS,
       tsbd |-> H.tsbd, ato |-> H.ato, snr |-> H.snr]
NowP(t) == TNorm(P(SC), 0, (t - H.ast * 1000) * H.TS)       \* instant relative to AST, pair over P in u
Near(a, b) == TLt(TSub(P(SC), a, b), MsPair(SC, 1)) /\ TLt(TSub(P(SC), b, a), MsPair(SC, 1))

Init == l = 1 /\ h = 1 /\ MonitorInit
Hdr == /\ e.ev = "hdr"
       /\ Clause("hdr.admissible", Admissible([N |-> e.N, dur |-> e.dur, vod0 |-> e.vod0, TS |-> e.TS, loopMS |-> e.loopMS,
                                               tsbd |-> e.tsbd, ato |-> e.ato, snr |-> e.snr]) /\ Len(e.dur) = e.N
                                   /\ e.vod0 < PreSum(e.dur, e.N), "scenario header")
       /\ h' = l

Seg == /\ e.ev = "seg"
       /\ LET \* ato_inf with a SegmentTimeline URL is a bad request (63cb812): no oracle clause speaks about a refused configuration
              refused == Refused(C) /\ e.mode \in {"time", "tlnr"}
              pm == IF e.by = "tm" THEN LookupTime(C, e.q, e.now) ELSE IF refused THEN RefusedRes ELSE LookupNr(C, e.q, e.now)
              o  == e.o
              np == NowP(e.now)
              \* the segment the request denotes according to the oracle (<<-1,-1>>: none)
              x  == IF e.by = "nr" THEN (IF e.q >= H.snr THEN <<(e.q - H.snr) \div H.N, (e.q - H.snr) % H.N>> ELSE <<-1, -1>>)
                    ELSE IdxOfStart(SC, TNorm(L(SC), 0, e.q))
              k  == x[1]
              i  == x[2]
              ea == TNorm(P(SC), 0, o.early * H.TS)
          IN
          /\ Clause("X03.fidelity.gen", e.hasp => e.p = pm, <<"replayed", IF e.hasp THEN e.p ELSE pm, "transcription", pm>>)
          /\ Clause("X03.fidelity.status", o.st = pm.st \/ (pm.gfrag /\ o.st \in {200, 410}), <<"observed", o.st, "predicted", pm.st>>)
          /\ Clause("X03.fidelity.seg", (o.st = 200 /\ pm.st = 200) => (o.t = pm.t /\ o.d = pm.d /\ o.nr = pm.nr /\ o.idx = pm.idx),
                    <<"observed", <<o.t, o.d, o.nr, o.idx>>, "predicted", <<pm.t, pm.d, pm.nr, pm.idx>>>>)
          /\ Clause("X03.fidelity.early", (o.st = 425 /\ pm.st = 425 /\ ~pm.efrag) => o.early = pm.early,
                    <<"observed_ms", o.early, "predicted_ms", pm.early>>)
          /\ IF refused THEN TRUE
             ELSE IF k >= 0 THEN
               /\ Clause("X03.oracle.status", o.st \in Status(SC, k, i, np),
                         <<"status", o.st, "allowed", Status(SC, k, i, np), "seg", x, "avail", Avail(SC, k, i)>>)
               /\ Clause("X03.oracle.seg", o.st = 200 => (/\ TEq(TNorm(L(SC), 0, o.t), Start(SC, k, i)) /\ o.d = Dur(SC, i)
                                                           /\ o.idx = i /\ o.nr = H.snr + k * H.N + i),
                         <<"tfdt", o.t, "dur", o.d, "mfhd", o.nr, "payload_of", o.idx, "seg", x>>)
               /\ Clause("X03.oracle.body", (o.st = 425 /\ np.w >= 0 /\ 425 \in Status(SC, k, i, np)) =>
                                               (o.early >= 0 /\ Near(ea, TooEarlyBy(SC, k, i, np))),
                         <<"too_early_by_ms", o.early, "remaining_u", TooEarlyBy(SC, k, i, np)>>)
               /\ Clause("X03.oracle.body_before_ast", (o.st = 425 /\ np.w < 0) =>
                                               (o.early >= 0 /\ (Near(ea, TooEarlyBy(SC, k, i, np)) \/ Near(ea, TSub(P(SC), TZero, np)))),
                         <<"too_early_by_ms", o.early>>)
             ELSE IF e.by = "nr" THEN
               Clause("X03.oracle.notfound", o.st = 404 \/ (np.w < 0 /\ o.st = 425), <<"number_below_startNumber", e.q, "status", o.st>>)
             ELSE TRUE        \* a $Time$ value that is no segment start: the property texts are silent (fidelity only)
       /\ UNCHANGED h

Raw5(S) == [j \in 1..Len(S) |-> LET tp == TNorm(L(SC), 0, S[j][2]) IN <<S[j][1], tp.w, tp.r, S[j][3], S[j][4]>>]
Mpd == /\ e.ev = "mpd"
       /\ LET pm == Timeline(C, e.now)
              o  == e.o
              np == NowP(e.now)
          IN
          /\ Clause("X03.fidelity.gen", e.hasp => e.p = pm, <<"replayed", IF e.hasp THEN e.p ELSE pm, "transcription", pm>>)
          /\ Clause("X03.fidelity.mpd.status", o.st = pm.st, <<"observed", o.st, "predicted", pm.st>>)
          /\ Clause("X03.oracle.mpd_served", (np.w >= 0 /\ H.ato >= 0) => o.st = 200, <<"status", o.st>>)
          /\ IF o.st # 200 \/ pm.st # 200 THEN TRUE
             ELSE LET E     == Expand(SC, Raw5(o.S))
                      first == IF Len(E) > 0 THEN IdxOfStart(SC, E[1].t) ELSE <<-1, -1>>
                      last  == IF Len(E) > 0 /\ first[1] >= 0 THEN Plus(SC, first, Len(E) - 1) ELSE <<-1, -1>>
                      pt    == TNorm(P(SC), 0, (o.pt - H.ast * 1000) * H.TS)
                  IN
                  /\ Clause("X03.fidelity.mpd.S", o.S = pm.S, <<"observed", o.S, "predicted", pm.S>>)
                  /\ Clause("X03.fidelity.mpd.sn", IF e.mode = "tlnr" /\ pm.sn >= 0 THEN o.hasSn /\ o.sn = pm.sn ELSE ~o.hasSn,
                            <<"observed_startNumber_minus_snr", o.sn, "present", o.hasSn, "predicted", pm.sn>>)
                  /\ Clause("X03.fidelity.mpd.pt", o.hasPt /\ (pm.ptfrag \/ o.pt = pm.pt), <<"observed", o.pt, "predicted", pm.pt>>)
                  /\ Clause("X03.oracle.attrs", o.astOk, "availabilityStartTime")
                  /\ Clause("X03.oracle.contig", \A j \in 1..Len(E) : E[j].gapless, "explicit @t does not continue the previous entry")
                  /\ Clause("X03.oracle.grid", Len(E) > 0 => (first[1] >= 0 /\ OnGrid(SC, E, first)),
                            <<"first_t", IF Len(E) > 0 THEN E[1].t ELSE TZero, "first_idx", first>>)
                  /\ Clause("X03.oracle.last", IF Len(E) = 0 THEN NoneAvail(SC, np)
                                               ELSE first[1] >= 0 => IsLast(SC, last[1], last[2], np),
                            <<"last", last, "now", e.now, "entries", Len(E)>>)
                  /\ Clause("X03.oracle.first", (Len(E) > 0 /\ first[1] >= 0) => FirstOK(SC, first, np), <<"first", first, "now", e.now>>)
                  /\ Clause("X03.oracle.nr", (e.mode = "tlnr" /\ Len(E) > 0 /\ first[1] >= 0) => (o.hasSn /\ o.sn = first[1] * H.N + first[2]),
                            <<"startNumber_minus_snr", o.sn, "first", first>>)
                  /\ Clause("X03.oracle.pt_le_now", o.hasPt => TLeq(pt, np), <<"pt", o.pt, "now", e.now>>)
                  /\ Clause("X03.oracle.pt_edge", (o.hasPt /\ (Len(E) = 0 \/ first[1] >= 0)) =>
                               IF Len(E) = 0 THEN TEq(pt, TZero)
                               ELSE LET a  == Avail(SC, last[1], last[2])
                                        a0 == IF a.w < 0 THEN TZero ELSE a
                                    IN Near(a0, pt),
                            <<"pt", o.pt, "avail_of_last", IF Len(E) > 0 /\ first[1] >= 0 THEN Avail(SC, last[1], last[2]) ELSE TZero>>)
       /\ UNCHANGED h

Step == l <= Len(Trace) /\ (Hdr \/ Seg \/ Mpd) /\ l' = l + 1
Done == l = Len(Trace) + 1 /\ Consumed(Len(Trace)) /\ UNCHANGED vars
Spec == Init /\ [][Step \/ Done]_vars
Accepted == NoBad
=============================================================================

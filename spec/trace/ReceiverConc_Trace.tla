---------------------------- MODULE ReceiverConc_Trace ----------------------------
(* (V)/(R) for C19: validates recorded runs of the real CMAF-ingest receiver under concurrent uploads
   (driver harness/drive/c19) against the oracle ReceiverConcOps.  Events (one per line):
     note  {...}                                   information for the evidence file, no clause
     hdr   {sc, kind, nch, ntr, auth, repcfg, pre, ..}  new scenario: fresh receiver, storage empty but for the init_org
                                                   files of the tracks listed in pre
     ref   {ch, order, indep, files, hasmpd, mpd, hastl, tl}
                                                   outcome for channel ch of the SAME uploads made one after the other
                                                   (each processed completely before the next) on a fresh receiver (real
                                                   code); indep: the oracle assumes these orders give the same outcome
     chan_created {ch}                             hook in newChannel: one per channel OBJECT
     up    {ch, tr, seg, k, status, body, stored, answered, cred}
                                                   answer to an upload (seg = init | media, k = -1 | 0..) and the driver's
                                                   own look at <storage>/<ch>/<tr>/; answered = FALSE: the handler did not
                                                   return within the bound; cred = ok | wrong | none (credentials sent)
     process {ch, tr, k, n, complete, known}       hook in the channel goroutine after it handled a segment (k: outgoing
                                                   number, n: serial number of the event)
     final {ch, files, hasmpd, mpd, hastl, tl, objects, own, newest}
                                                   storage, manifest.mpd and timeline MPD of channel ch after quiescence
     mpdcheck {ch, round, hasmpd, ids, hastl, tl, own, needmpd, needtl, newest}
                                                   the MPDs of channel ch after a round of uploads has been processed
     end   {quiesced, mediaok}                     end of scenario
     race  {site}                                  Go race detector report / runtime "concurrent map" fatal
                                                   error of the child (no action of the specification allows it) *)
EXTENDS TraceLib, ReceiverConcOps
VARIABLES l, created, initOK, mediaOK, processed, refs
vars == <<l, created, initOK, mediaOK, processed, refs>>
Clause(name, ok, detail) == ClauseAt(l, name, ok, detail)
e == Trace[l]
RefsOf(ch) == {r[2] : r \in {x \in refs : x[1] = ch}}

Init == /\ l = 1 /\ created = {} /\ initOK = {} /\ mediaOK = {} /\ processed = {} /\ refs = {}
        /\ MonitorInit

Note == /\ e.ev = "note"
        /\ UNCHANGED <<created, initOK, mediaOK, processed, refs>>

Hdr == /\ e.ev = "hdr"
       \* tracks whose init segment is already on disk count as registered: their media uploads must be accepted
       /\ created' = {} /\ initOK' = {<<e.pre[i][1], e.pre[i][2]>> : i \in DOMAIN e.pre}
       /\ mediaOK' = {} /\ processed' = {} /\ refs' = {}

Ref == /\ e.ev = "ref"
       /\ LET o == Outcome(e.files, e.hasmpd, e.mpd, e.hastl, e.tl, e.st) IN
          \* the oracle's own assumption (a machinery problem when false, never a verdict): for these uploads
          \* the sequential outcome does not depend on the order, modulo the renaming defined by NormMPD
          /\ Clause("M.ref_order_independent", e.indep => RefsOf(e.ch) \subseteq {o}, <<e.ch, e.order>>)
          /\ refs' = refs \cup {<<e.ch, o>>}
       /\ UNCHANGED <<created, initOK, mediaOK, processed>>

ChanCreated == /\ e.ev = "chan_created"
               /\ Clause("C19.one_channel", OneChannelOK(created, e.ch), e.ch)
               /\ created' = created \cup {e.ch}
               /\ UNCHANGED <<initOK, mediaOK, processed, refs>>

Up == /\ e.ev = "up"
      /\ Clause("C19.progress", ProgressOK(e.answered), <<e.seg, e.k>>)
      /\ IF ~e.answered \/ e.cred # "ok"
         THEN \* unanswered: C19.progress above; wrong / no credentials: judged by the statuses in C19.linearizable
              initOK' = initOK /\ mediaOK' = mediaOK
         ELSE IF e.seg = "init"
         THEN /\ Clause("C19.no_loss", InitNoLossOK(e.status, e.stored), <<"init", e.status, e.stored>>)
              /\ initOK' = IF e.status = 200 THEN initOK \cup {<<e.ch, e.tr>>} ELSE initOK
              /\ mediaOK' = mediaOK
         ELSE /\ Clause("C19.registered", RegisteredOK(initOK, e.ch, e.tr, e.status), <<"media", e.k, e.status>>)
              /\ Clause("C19.no_loss", MediaNoLossOK(e.status, e.stored), <<"media", e.k, e.status, e.stored>>)
              /\ mediaOK' = IF e.status = 200 THEN mediaOK \cup {<<e.ch, e.tr, e.k>>} ELSE mediaOK
              /\ initOK' = initOK
      /\ UNCHANGED <<created, processed, refs>>

Process == /\ e.ev = "process"
           /\ processed' = IF e.complete /\ e.known THEN processed \cup {<<e.ch, e.tr, e.n>>} ELSE processed
           /\ UNCHANGED <<created, initOK, mediaOK, refs>>

MpdIds(m) == UNION {{m[i].reps[j].id : j \in DOMAIN m[i].reps} : i \in DOMAIN m}

Final == /\ e.ev = "final"
         /\ LET o == Outcome(e.files, e.hasmpd, e.mpd, e.hastl, e.tl, e.st) IN
            Clause("C19.linearizable", Linearizable(o, RefsOf(e.ch)),
                   [files_equal |-> FilesEqualSome(o, RefsOf(e.ch)), mpd_equal |-> MPDEqualSome(o, RefsOf(e.ch)),
                    tl_equal |-> TLEqualSome(o, RefsOf(e.ch)), status_equal |-> StatusEqualSome(o, RefsOf(e.ch)), nas |-> o.nas, nreps |-> o.nrepsRaw])
         /\ Clause("C19.isolated",
                   Isolated(TRUE, e.hasmpd, MpdIds(e.mpd), TRUE, e.hastl, e.tl, Range(e.own), e.newest),
                   [hasmpd |-> e.hasmpd, hastl |-> e.hastl, tl |-> e.tl, newest |-> e.newest])
         /\ UNCHANGED <<created, initOK, mediaOK, processed, refs>>

MpdCheck == /\ e.ev = "mpdcheck"
            /\ Clause("C19.isolated",
                      Isolated(e.needmpd, e.hasmpd, Range(e.ids), e.needtl, e.hastl, e.tl, Range(e.own), e.newest),
                      [round |-> e.round, hasmpd |-> e.hasmpd, ids |-> e.ids, hastl |-> e.hastl, tl |-> e.tl, newest |-> e.newest])
            /\ UNCHANGED <<created, initOK, mediaOK, processed, refs>>

End == /\ e.ev = "end"
       /\ Clause("C19.registered", ProcessedOK(mediaOK, processed), [unprocessed |-> Cardinality(Unprocessed(mediaOK, processed)), quiesced |-> e.quiesced])
       /\ UNCHANGED <<created, initOK, mediaOK, processed, refs>>

Race == /\ e.ev = "race"
        /\ Clause("C19.norace", FALSE, e.site)
        /\ UNCHANGED <<created, initOK, mediaOK, processed, refs>>

Step == /\ l <= Len(Trace)
        /\ (Note \/ Hdr \/ Ref \/ ChanCreated \/ Up \/ Process \/ Final \/ MpdCheck \/ End \/ Race)
        /\ l' = l + 1
Done == l = Len(Trace) + 1 /\ Consumed(Len(Trace)) /\ UNCHANGED vars
Spec == Init /\ [][Step \/ Done]_vars
Accepted == NoBad
=============================================================================

---------------------------- MODULE Chunked_Trace ----------------------------
(* (V) for C09: validates chunked low-latency responses of the real livesim2 server (recorded by
   harness/drive/c09 through the real router with a time-stamping ResponseWriter) against ChunkedOps.
   Events:
     hdr      scenario constants: the LiveTimelineOps header of the asset's REFERENCE (video) representation
              {N, dur, vod0, TS, loopMS, tsbd, snr} from the asset generator / an independent parse of the
              VoD files; ato = the availabilityTimeOffset ADVERTISED in the live MPD for the requested
              representation (ms; 0 when none is advertised); atoUrl = the offset given in the URL;
              repTS / Lrep = timescale and loop length (ticks) of the requested representation;
              resUS = 2000 (resolution), slackUS = 250000, sampleSlack = 1 (video) | 2 (audio: the segments
              are re-cut at audio frame borders, up to one frame off the nominal segment)
     whole    the segment in whole-segment mode (same URL without chunkdur_): seq, tfdt, samples, dur, maxSamp
     chunked  one chunked response: status, now = request instant (ms relative to AST, pair over loopMS),
              calls, chunks, samples, doneUS, try / last (re-measurements), jump (wall clock stepped)        *)
EXTENDS TraceLib, ChunkedOps, FiniteSets
VARIABLES l, h, wh, cnt
vars == <<l, h, wh, cnt>>
Clause(name, ok, detail) == ClauseAt(l, name, ok, detail)
e == Trace[l]
H == Trace[h]
W == Trace[wh]
\* the advertised offset is the one read from the live MPD fetched at the instant of the request (e.ato)
SC == [N |-> H.N, dur |-> H.dur, vod0 |-> H.vod0, TS |-> H.TS, loopMS |-> H.loopMS,
       tsbd |-> H.tsbd, ato |-> e.ato, snr |-> H.snr]
RC == [TS |-> H.repTS, loopMS |-> H.loopMS]       \* requested representation
RCR == [TS |-> H.TS, loopMS |-> H.loopMS]         \* reference representation
Cnt0 == [r200 |-> 0, r425 |-> 0, chunksTimed |-> 0, tight |-> 0, immediate |-> 0, same |-> 0, multi |-> 0, sized |-> 0]

Init == l = 1 /\ h = 1 /\ wh = 1 /\ cnt = Cnt0 /\ MonitorInit

Hdr == /\ e.ev = "hdr"
       /\ Clause("hdr.admissible", Admissible([N |-> e.N, dur |-> e.dur, vod0 |-> e.vod0, TS |-> e.TS, loopMS |-> e.loopMS,
                                               tsbd |-> e.tsbd, ato |-> 0, snr |-> e.snr]) /\ Len(e.dur) = e.N, "scenario header")
       \* all pair arithmetic of ChunkedOps stays below 2^31
       /\ Clause("hdr.bounds", /\ e.LrepExact /\ e.Lrep * 1000 = e.loopMS * e.repTS
                               /\ UnitsOK([TS |-> e.repTS, loopMS |-> e.loopMS])
                               /\ UnitsOK([TS |-> e.TS, loopMS |-> e.loopMS])
                               /\ e.ato >= 0 /\ e.ato < 100000 /\ e.tsbd <= 100 /\ e.resUS = 2000 /\ e.slackUS >= 250000, "header bounds")
       /\ h' = l /\ UNCHANGED <<wh, cnt>>

Whole == /\ e.ev = "whole"
         /\ wh' = l /\ UNCHANGED <<h, cnt>>

\* ---------------------------------------------------------------- one chunked response
Judge200 ==
   LET chunks == e.chunks
       nC     == Len(chunks)
       timed  == ~e.jump
       sane(j) == SaneChunk(chunks[j], H.Lrep)     \* otherwise C09.order / C09.same report the chunk
       lateOf(j) == LateU(RC, e.now, FirstWriteUS(e.calls, chunks[j]), W.tfdt, chunks[j])
       tightSet == {j \in 1..nC : sane(j) /\ LET d == lateOf(j) IN d.w = 0 /\ d.r < 20 * PerMS(RC)}     \* written < 20 ms after its end
   IN
   IF e.err # "" THEN
      /\ Clause("C09.same", FALSE, <<"body cannot be parsed (and, with DRM, decrypted) into chunks of samples", e.err>>)
      /\ UNCHANGED cnt
   ELSE
   /\ Clause("trace.calls", CallsTile(e.calls, e.blen), "Write calls do not tile the body")
   \* other top-level boxes (emsg in front of the first moof, ...) are logged in e.extra and not judged
   /\ Clause("C09.same", /\ TilesOK(chunks, e.blen, Len(e.samples))
                         /\ SameOK(e.tfdt, e.samples, W.tfdt, W.samples),
             <<"tfdt", e.tfdt, "whole", W.tfdt, "samples", Len(e.samples), "whole", Len(W.samples), "extra_boxes", e.extra,
               "first_difference", LET D == {j \in 1..Len(e.samples) : j > Len(W.samples) \/ e.samples[j] # W.samples[j]}
                                   IN IF D = {} THEN 0 ELSE MinOf(D)>>)
   /\ Clause("C09.styp", StypOK(chunks, W.nstyp >= 1), [j \in 1..nC |-> chunks[j].nstyp])
   /\ Clause("C09.order", OrderOK(chunks, W.seq),
             <<"segment_number", W.seq, [j \in 1..nC |-> <<chunks[j].seq, chunks[j].tfdtOff, chunks[j].dur, chunks[j].ns>>]>>)
   \* C09.size: "segment duration" = this segment's own duration as served in whole-segment mode; offset = advertised
   /\ \A j \in 1..nC :
        Clause("C09.size", SizeOK(chunks[j], W.dur, e.ato, H.repTS, W.maxSamp, H.sampleSlack),
               <<"chunk", j, "dur", chunks[j].dur, "segment_dur", W.dur, "ato_ms", e.ato, "TS", H.repTS, "max_sample", W.maxSamp,
                 "slack_samples", H.sampleSlack>>)
   \* C09.notearly: every chunk, every attempt (skipped when the wall clock was stepped during the request)
   /\ \A j \in 1..nC :
        LET us == FirstWriteUS(e.calls, chunks[j]) IN
        IF ~sane(j) THEN Clause("C09.order", FALSE, <<"chunk", j, "extent outside the segment", chunks[j].tfdtOff, chunks[j].dur>>) ELSE
        Clause("C09.notearly", timed => (us >= 0 /\ NotEarlyOK(RC, e.now, us, H.resUS, W.tfdt, chunks[j])),
               <<"chunk", j, "written_us", us, "now_ms", e.now, "chunk_end_u", ChunkEndU(RC, W.tfdt, chunks[j]),
                 "observed_u", ObsAtU(RC, e.now, IF us >= 0 THEN us ELSE 0), "u_per_ms", PerMS(RC)>>)
   \* C09.immediate: the request was made at or after the advertised availability time (status 200 is demanded
   \* exactly then): the first chunk must be flushed at once (last attempt of a re-measured request)
   /\ LET f1 == FlushUS(e.calls, chunks[1], e.doneUS) IN
      Clause("C09.immediate", (timed /\ e.last) => ImmediateOK(f1, H.slackUS, H.sampleSlack, W.maxSamp, H.repTS),
             <<"first_chunk_flushed_us", f1, "bound_us", H.slackUS + H.sampleSlack * SampleUSUp(W.maxSamp, H.repTS), "at", e.at>>)
   /\ cnt' = [cnt EXCEPT !.r200 = @ + 1,
                         !.chunksTimed = @ + (IF timed THEN nC ELSE 0),
                         !.tight = @ + (IF timed THEN Cardinality(tightSet) ELSE 0),
                         !.immediate = @ + (IF timed /\ e.last THEN 1 ELSE 0),
                         !.same = @ + 1, !.sized = @ + nC,
                         !.multi = @ + (IF nC >= 2 THEN 1 ELSE 0)]

Chunked ==
   /\ e.ev = "chunked"
   /\ Clause("trace.pairing", W.ev = "whole" /\ W.key = e.key /\ W.st = 200 /\ W.err = "", <<"whole-segment observation missing", e.key>>)
   /\ Clause("trace.ato", e.ato >= 0 /\ e.ato < 100000, <<"advertised offset unusable", e.atoStr, e.mpdSt>>)
   /\ LET ok == IF e.ato >= 0 /\ e.ato < 100000 THEN AllowedStatus(SC, RCR, e.k, e.i, e.now) ELSE {e.st} IN
      /\ Clause(IF 425 \in ok THEN "C09.early" ELSE "C09.served", e.st \in ok,
                <<"status", e.st, "allowed", ok, "now_ms", e.now, "advertised_avail_u", AvailRefU(SC, RCR, e.k, e.i), "u_per_ms", PerMS(RCR), "at", e.at>>)
      /\ IF e.st = 200 /\ 200 \in ok /\ W.ev = "whole" /\ W.key = e.key /\ W.st = 200 /\ W.err = ""
         THEN Judge200
         ELSE cnt' = [cnt EXCEPT !.r425 = @ + (IF e.st = 425 THEN 1 ELSE 0)]
   /\ UNCHANGED <<h, wh>>

Step == l <= Len(Trace) /\ (Hdr \/ Whole \/ Chunked) /\ l' = l + 1
Done == l = Len(Trace) + 1 /\ PrintT("STATS" \o ToJson(cnt)) /\ Consumed(Len(Trace)) /\ UNCHANGED vars
Spec == Init /\ [][Step \/ Done]_vars
Accepted == NoBad
=============================================================================

------------------------- MODULE ReceiverCfg_Trace -------------------------
(* (V) for X06: validates what the real CMAF-ingest receiver answered and stored for the configurations and request
   scripts of harness/drive/x06 against the oracle ReceiverCfgOps.  Monitor style: every line is consumed, every
   clause is decided here (clause texts: top of ReceiverCfgOps).
   Events (one per line):
     hdr  {id, gen, cfg, focus, flip, dsec, nb, nested, n}          scenario: abstract configuration, script length n
     run  {run ("main" | "cfg" | "forms"), ch, cfg}                 a fresh receiver; "cfg": only channel ch, settings written out
     req  {run, i, rq, sentM, url, status, chal, created, blen,     request i of the script (rq = abstract request as generated)
           delta[{ch, track, name, nr, kind, inside, dig, op (+ ~ -), same, payload}]}   what changed in the sandbox tree
     mpd  {run, i, ch, which ("manifest" | "timeline"), ok, tsbd, nAS, minListed, maxListed}   an MPD the receiver wrote
     tree {run, ch, files[{ch, track, name, nr, kind, inside, dig}]}   every file at the end of the run
   (X06.machinery.*: the scenario / driver itself is inconsistent - a machinery error, never a verdict.)         *)
EXTENDS TraceLib, ReceiverCfgOps
VARIABLES l, sc, cur, obs, mtree, have, cnt, rawc
vars == <<l, sc, cur, obs, mtree, have, cnt, rawc>>
Clause(name, ok, detail) == ClauseAt(l, name, ok, detail)
e == Trace[l]

NoObs == [seen |-> FALSE, status |-> 0, chal |-> FALSE, created |-> 0, sig |-> <<>>]
Sig(d) == [k \in DOMAIN d |-> <<d[k].ch, d[k].track, d[k].name, d[k].op, d[k].dig, d[k].inside>>]
TSig(fs) == [k \in DOMAIN fs |-> <<fs[k].ch, fs[k].track, fs[k].name, fs[k].dig, fs[k].inside>>]
OfCh(fs, ch) == SelectSeq(fs, LAMBDA x : x.ch = ch)
Keys == {<<ch, t>> : ch \in {"A", "B", "U"}, t \in {"v", "a"}}
Zero == [k \in Keys |-> 0]
Written(x) == x.op \in {"+", "~"}
Min(a, b) == IF a < b THEN a ELSE b

Init == /\ l = 1 /\ sc = [id |-> "none"] /\ cur = [run |-> "none"] /\ obs = <<>> /\ mtree = <<>> /\ have = {} /\ cnt = Zero /\ rawc = Zero
        /\ MonitorInit

Hdr == /\ e.ev = "hdr"
       /\ sc' = e /\ cur' = [run |-> "none"] /\ obs' = [i \in 1..e.n |-> NoObs] /\ mtree' = <<>> /\ have' = {} /\ cnt' = Zero /\ rawc' = Zero

Run == /\ e.ev = "run"
       /\ IF e.run = "cfg" THEN Clause("X06.machinery.solo", e.cfg = Solo(sc.cfg, e.ch), <<e.ch, e.cfg>>)
                           ELSE Clause("X06.machinery.cfg", e.cfg = sc.cfg, e.run)
       /\ cur' = e /\ have' = {} /\ cnt' = Zero /\ rawc' = Zero
       /\ UNCHANGED <<sc, obs, mtree>>

(* ------------------------------------------------------------------ one request of the main run: the absolute clauses *)
Main ==
   LET cfg == sc.cfg
       rq  == e.rq
       cl  == Class(cfg, rq)
       a   == Authorised(cfg, rq)
       f   == Eff(cfg, rq.ch)
       d   == e.delta
       D   == Range(d)
       none == Len(d) = 0
       key == <<rq.ch, rq.track>>
       base == <<"cls", cl, "auth", a, "status", e.status, "url", e.url>>
       nhave == (have \cup {<<x.ch, x.track, x.name>> : x \in {y \in D : Written(y)}}) \ {<<x.ch, x.track, x.name>> : x \in {y \in D : y.op = "-"}}
       expNr == ExpMediaNr(cfg, rq)
       k   == IF key \in Keys THEN rawc[key] ELSE 0
       files == {x \in D : x.kind # "dir"}
   IN
   \* X06.store.place: everything a request changes lies in the storage root, in the directory of its channel
   /\ Clause("X06.store.place", \A x \in D : x.inside /\ (cl # "open" => x.ch = rq.ch), base \o <<"delta", Sig(d)>>)
   \* X06.auth.challenge / X06.auth.serve: whatever the class
   /\ Clause("X06.auth.challenge", e.status = 401 => e.chal, base)
   /\ Clause("X06.auth.serve", (a = "yes" /\ rq.form \notin {"dotdot", "nochan"}) => e.status # 401, base)   \* (those name another channel)
   \* removals: only media files that have left the time shift buffer of the track being uploaded
   /\ Clause("X06.tsbd.keep",
             \A x \in D : x.op = "-" => /\ cl \in {"parse", "open"} /\ rq.kind = "media" /\ x.kind = "media" /\ x.ch = rq.ch /\ x.track = rq.track
                                        /\ MayRemove(x.nr, expNr, f.tsbd, sc.dsec),
             base \o <<"tsbd", f.tsbd, "newest", expNr, "removed", {x.nr : x \in {y \in D : y.op = "-"}}>>)
   /\ CASE cl = "unauth" ->
             /\ Clause("X06.auth.refuse", e.status = 401, base)
             /\ Clause("X06.auth.notrace", none, base \o <<"delta", Sig(d)>>)
             /\ Clause("X06.auth.nostate", e.created = 0, base)
        [] cl = "parse" /\ rq.kind = "init" ->
             Clause("X06.store.init",
                    /\ e.status = 200
                    /\ \A nm \in ExpInitNames(rq) : <<rq.ch, rq.track, nm>> \in nhave
                    /\ \A x \in D : (x.kind = "init_org" /\ Written(x)) => x.same,
                    base \o <<"delta", Sig(d)>>)
        [] cl = "parse" /\ rq.kind = "media" ->
             Clause("X06.startnr.name",
                    /\ e.status = 200
                    /\ \E x \in D : x.kind = "media" /\ Written(x) /\ x.ch = rq.ch /\ x.track = rq.track /\ x.nr = expNr /\ x.payload
                    /\ \A x \in D : (x.kind = "media" /\ Written(x)) => x.nr = expNr,
                    base \o <<"nin", rq.nin, "startNr", f.startNr, "exp", expNr, "stored", {x.nr : x \in {y \in D : y.kind = "media" /\ Written(y)}}>>)
        [] cl = "mpd" ->
             Clause("X06.mpd.stored",
                    /\ e.status = 200
                    /\ \E x \in D : x.kind = "received" /\ x.ch = rq.ch /\ Written(x) /\ x.same
                    /\ \A x \in D : x.kind \in {"received", "dir"},
                    base \o <<"delta", Sig(d)>>)
        [] cl = "raw" ->
             IF k < f.raw
             THEN Clause("X06.raw.store",
                         /\ Is2xx(e.status)
                         /\ \E x \in files : /\ files = {x} /\ x.op = "+" /\ x.ch = rq.ch /\ x.track = rq.track /\ x.same
                                             /\ x.kind \notin {"init", "init_org", "media", "manifest", "timeline", "received"},
                         base \o <<"k", k, "raw", f.raw, "delta", Sig(d)>>)
             ELSE IF rq.big THEN Clause("X06.raw.limit", none, base \o <<"k", k, "raw", f.raw, "delta", Sig(d)>>)
             ELSE TRUE
        [] cl = "ignored" ->
             Clause("X06.ignore", (e.status = 200 \/ (a = "no" /\ e.status = 401)) /\ none, base \o <<"delta", Sig(d)>>)
        [] cl = "bad" ->
             Clause("X06.url.bad", Is4xx(e.status) /\ none /\ e.created = 0, base \o <<"delta", Sig(d)>>)
        [] cl = "delete" ->
             Clause("X06.delete", none /\ (Is2xx(e.status) \/ (a # "yes" /\ e.status = 401)), base \o <<"delta", Sig(d)>>)
        [] OTHER -> TRUE
   /\ Clause("X06.machinery.index", e.i \in DOMAIN obs /\ ~obs[e.i].seen, e.i)
   /\ obs' = [obs EXCEPT ![e.i] = [seen |-> TRUE, status |-> e.status, chal |-> e.chal, created |-> e.created, sig |-> Sig(d)]]
   /\ have' = nhave
   /\ cnt' = IF cl = "parse" /\ rq.kind = "media" /\ e.status = 200 /\ key \in Keys THEN [cnt EXCEPT ![key] = @ + 1] ELSE cnt
   /\ rawc' = IF cl = "raw" /\ key \in Keys THEN [rawc EXCEPT ![key] = @ + 1] ELSE rawc
   /\ UNCHANGED <<sc, cur, mtree>>

(* ------------------------------------------------------------------ a request of a reference run: the differential clauses *)
Ref ==
   LET rq == e.rq
       cl == Class(sc.cfg, rq)
       o  == obs[e.i]
       comparable == cl # "open" /\ (cur.run = "cfg" => Cardinality(CredReadings(sc.cfg, rq.ch)) = 1)
       name == IF cur.run = "cfg" THEN "X06.cfg.function" ELSE "X06.url.forms"
   IN
   /\ Clause("X06.machinery.ref", e.i \in DOMAIN obs /\ obs[e.i].seen /\ (cur.run = "cfg" => rq.ch = cur.ch), e.i)
   /\ IF ~comparable THEN TRUE ELSE
      Clause(name, e.status = o.status /\ e.chal = o.chal /\ e.created = o.created /\ Sig(e.delta) = o.sig,
             <<"cls", cl, "url", e.url, "main", <<o.status, o.chal, o.created>>, "ref", <<e.status, e.chal, e.created>>, "mainDelta", o.sig, "refDelta", Sig(e.delta)>>)
   /\ UNCHANGED <<sc, cur, obs, mtree, have, cnt, rawc>>

Req == e.ev = "req" /\ Clause("X06.machinery.run", e.run = cur.run, e.run) /\ IF e.run = "main" THEN Main ELSE Ref

(* ------------------------------------------------------------------ MPDs written by the receiver *)
Mpd ==
   /\ e.ev = "mpd"
   /\ IF e.run # "main" THEN TRUE ELSE
      LET f == Eff(sc.cfg, e.ch) H == Horizon(f.tsbd, sc.dsec) rounds == Min(cnt[<<e.ch, "v">>], cnt[<<e.ch, "a">>]) IN
      /\ Clause("X06.tsbd.mpd", e.ok /\ e.tsbd = f.tsbd, <<"ch", e.ch, "which", e.which, "mpd", e.tsbd, "tsbd", f.tsbd>>)
      /\ IF e.which # "timeline" THEN TRUE ELSE
         Clause("X06.tsbd.timeline", e.maxListed <= H + 3 /\ (LongRun(rounds, f.tsbd, sc.dsec) => e.minListed >= H),
                <<"ch", e.ch, "listed", e.minListed, e.maxListed, "tsbd", f.tsbd, "rounds", rounds>>)
   /\ UNCHANGED <<sc, cur, obs, mtree, have, cnt, rawc>>

(* ------------------------------------------------------------------ the tree at the end of a run *)
NMedia(fs, ch, t) == Len(SelectSeq(fs, LAMBDA x : x.ch = ch /\ x.track = t /\ x.kind = "media"))
NFiles(fs, ch, t) == Len(SelectSeq(fs, LAMBDA x : x.ch = ch /\ x.track = t))
Tree ==
   /\ e.ev = "tree"
   /\ Clause("X06.machinery.run", e.run = cur.run, e.run)
   /\ IF e.run = "main"
      THEN /\ Clause("X06.store.inside", \A x \in Range(e.files) : x.inside, TSig(SelectSeq(e.files, LAMBDA x : ~x.inside)))
           /\ \A key \in Keys : LET f == Eff(sc.cfg, key[1]) IN
                /\ Clause("X06.tsbd.bound", LongRun(cnt[key], f.tsbd, sc.dsec) => NMedia(e.files, key[1], key[2]) <= MaxStored(f.tsbd, sc.dsec),
                          <<"ch", key[1], "track", key[2], "uploaded", cnt[key], "stored", NMedia(e.files, key[1], key[2]), "tsbd", f.tsbd>>)
                /\ Clause("X06.mpd.written",
                          (key[2] = "v" /\ f.raw = 0 /\ ~f.ignore /\ Cardinality(f.creds) = 1) =>
                             /\ (cnt[key] >= 2 => \E x \in Range(e.files) : x.ch = key[1] /\ x.kind = "manifest")
                             /\ ((cnt[key] >= 3 /\ (cnt[<<key[1], "a">>] >= 3 \/ "a" \in f.ignTracks)) => \E x \in Range(e.files) : x.ch = key[1] /\ x.kind = "timeline"),
                          <<"ch", key[1], "uploaded", cnt[key], cnt[<<key[1], "a">>]>>)
                /\ Clause("X06.raw.limit", (f.raw > 0 /\ ~f.ignore /\ Cardinality(f.creds) = 1) => NFiles(e.files, key[1], key[2]) <= f.raw,
                          <<"ch", key[1], "track", key[2], "files", NFiles(e.files, key[1], key[2]), "raw", f.raw>>)
           /\ mtree' = e.files
      ELSE /\ IF e.run = "cfg"
              THEN IF Cardinality(CredReadings(sc.cfg, e.ch)) # 1 THEN TRUE ELSE
                   Clause("X06.cfg.function", TSig(OfCh(e.files, e.ch)) = TSig(OfCh(mtree, e.ch)),
                          <<"cls", "tree", "ch", e.ch, "main", TSig(OfCh(mtree, e.ch)), "ref", TSig(OfCh(e.files, e.ch))>>)
              ELSE Clause("X06.url.forms", TSig(SelectSeq(e.files, LAMBDA x : x.ch # "?")) = TSig(SelectSeq(mtree, LAMBDA x : x.ch # "?")),
                          <<"cls", "tree", "main", TSig(mtree), "ref", TSig(e.files)>>)
           /\ UNCHANGED mtree
   /\ UNCHANGED <<sc, cur, obs, have, cnt, rawc>>

Step == /\ l <= Len(Trace)
        /\ (Hdr \/ Run \/ Req \/ Mpd \/ Tree)
        /\ l' = l + 1
Done == l = Len(Trace) + 1 /\ Consumed(Len(Trace)) /\ UNCHANGED vars
Spec == Init /\ [][Step \/ Done]_vars
Accepted == NoBad
=============================================================================

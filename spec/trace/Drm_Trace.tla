---------------------------- MODULE Drm_Trace ----------------------------
(* (V) for C10: one scenario = one asset x DRM mode x delivery, driven through the real HTTP handlers
   (harness/drive/c10).  The protocol actions of Drm.tla appear as recorded events; Enc/Dec are OBSERVED: the
   recorder decrypts the served segment with mp4ff (trusted base) using the served init segment and the key
   the licence delivered, and logs digests next to those of the clear segment for the same URL and instant.
   Events (all key ids / digests are lower-case hex strings, "-" = absent):
     hdr  {sc, cls: eccp|cpix|preenc, asset, drm, opts, deliver, exp: [video|audio -> [kid, scheme, iv]]}
            exp: what the DRM mode designates per content type - eccp: the scheme named in the URL (kid/iv "-");
            cpix: kid/scheme/iv of the CPIX document (driver's own XML parse)
     mpd  {status, as: <<[kind, kid, scheme, laurl, ncp]>>}       GetMPD   (one entry per audio/video AdaptationSet)
     init {kind, rep, status, enc, kid, schm, iv, ivsize}         GetInit  (tenc.default_KID, schm.scheme_type)
     lic  {kind, src: laurl|cpix, url, status, req, keys: <<[kid, kdig, klen, kty]>>}   PostLicence(req)
     seg  {kind, rep, n, t, now, deliver, encStatus, clrStatus, kdig, decErr, nDec, nClr,
           dec: <<[n, d]>>, clr: <<[n, d]>>, decS: <<digest>>, clrS: <<digest>>}        GetSegment + Decrypt
     pre  {what: mpd|init|seg, status, clrStatus, same}           DRM request on a pre-encrypted asset
     info {...}                                                   observations outside the property (no clause)
   A DRM resource that is not served (status # 200) leaves the clauses about it undecided; the check treats
   that as a machinery problem (vacuity), not as a violation. *)
EXTENDS TraceLib, DrmOps
VARIABLES l, h, mpdOK, mpdKids, initOK, initKid, initSchm, lic
vars == <<l, h, mpdOK, mpdKids, initOK, initKid, initSchm, lic>>
Clause(name, ok, detail) == ClauseAt(l, name, ok, detail)
e == Trace[l]
H == Trace[h]
Kinds == {"video", "audio"}

SeqToSet(s) == {s[i] : i \in 1..Len(s)}
KidsOf(as, k) == {as[i].kid : i \in {j \in 1..Len(as) : as[j].kind = k}}
SumN(fr) == LET RECURSIVE S(_)
                S(i) == IF i = 0 THEN 0 ELSE fr[i].n + S(i - 1)
            IN S(Len(fr))

Init == /\ l = 1 /\ h = 1 /\ mpdOK = FALSE
        /\ mpdKids = [k \in Kinds |-> {}]
        /\ initOK = [k \in Kinds |-> FALSE]
        /\ initKid = [k \in Kinds |-> NoVal]
        /\ initSchm = [k \in Kinds |-> NoVal]
        /\ lic = [k \in Kinds |-> {}]
        /\ MonitorInit

Hdr == /\ e.ev = "hdr"
       /\ h' = l /\ mpdOK' = FALSE
       /\ mpdKids' = [k \in Kinds |-> {}]
       /\ initOK' = [k \in Kinds |-> FALSE]
       /\ initKid' = [k \in Kinds |-> NoVal]
       /\ initSchm' = [k \in Kinds |-> NoVal]
       /\ lic' = [k \in Kinds |-> {}]

Mpd == /\ e.ev = "mpd"
       /\ mpdOK' = (e.status = 200)
       /\ mpdKids' = [k \in Kinds |-> KidsOf(e.as, k)]
       /\ IF e.status = 200 /\ H.cls = "cpix"
          THEN \A i \in 1..Len(e.as) :
                 Clause("C10.cpix.mpd_kid", CpixKidOK(H.exp[e.as[i].kind], e.as[i].kid),
                        <<"kind", e.as[i].kind, "mpd_default_KID", e.as[i].kid, "cpix_kid", H.exp[e.as[i].kind].kid>>)
          ELSE TRUE
       /\ UNCHANGED <<h, initOK, initKid, initSchm, lic>>

InitSeg ==
  /\ e.ev = "init"
  /\ LET k == e.kind IN
     /\ IF e.status = 200
        THEN /\ IF mpdOK
                THEN Clause("C10.kid", mpdKids[k] # {} /\ \A mk \in mpdKids[k] : KidAgree(mk, e.kid),
                            <<"kind", k, "mpd_default_KID", mpdKids[k], "init_tenc_KID", e.kid, "init_encrypted", e.enc>>)
                ELSE TRUE
             /\ Clause("C10.scheme", SchemeOK(e.schm, H.exp[k].scheme),
                       <<"kind", k, "init_schm", e.schm, "mode_scheme", H.exp[k].scheme>>)
             /\ IF H.cls = "cpix"
                THEN /\ Clause("C10.cpix.init_kid", CpixKidOK(H.exp[k], e.kid),
                               <<"kind", k, "init_tenc_KID", e.kid, "cpix_kid", H.exp[k].kid>>)
                     /\ Clause("C10.cpix.iv", CpixIvOK(H.exp[k], e.schm, e.iv),
                               <<"kind", k, "init_constant_IV", e.iv, "cpix_iv", H.exp[k].iv>>)
                ELSE TRUE
        ELSE TRUE
     /\ initOK' = [initOK EXCEPT ![k] = (e.status = 200)]
     /\ initKid' = [initKid EXCEPT ![k] = e.kid]
     /\ initSchm' = [initSchm EXCEPT ![k] = e.schm]
  /\ UNCHANGED <<h, mpdOK, mpdKids, lic>>

Lic ==
  /\ e.ev = "lic"
  /\ LET k == e.kind
         keys == SeqToSet(e.keys) IN
     /\ IF initOK[k] /\ initKid[k] # NoVal /\ (e.src = "cpix" \/ mpdOK)
        THEN Clause(IF e.src = "cpix" THEN "C10.cpix.key" ELSE "C10.licence",
                    e.req = initKid[k] /\ LicenceOK(e.status, keys, initKid[k]),
                    <<"kind", k, "laurl", e.url, "status", e.status, "requested_kid", e.req, "returned", e.keys>>)
        ELSE TRUE
     /\ lic' = [lic EXCEPT ![k] = keys]
  /\ UNCHANGED <<h, mpdOK, mpdKids, initOK, initKid, initSchm>>

Seg ==
  /\ e.ev = "seg"
  /\ LET k == e.kind IN
     \* decidable only if the session got that far: clear and DRM segment served, init served, and (ClearKey) the
     \* MPD that advertises the Laurl served
     IF e.clrStatus = 200 /\ e.encStatus = 200 /\ initOK[k] /\ (H.cls = "cpix" \/ mpdOK)
     THEN /\ Clause("C10.roundtrip.decrypt", e.decErr = "" /\ KeyBound(lic[k], initKid[k], e.kdig),
                    <<"kind", k, "n", e.n, "t", e.t, "now", e.now, "deliver", e.deliver, "error", e.decErr,
                      "key_used", e.kdig, "init_kid", initKid[k], "licence", lic[k]>>)
          /\ IF e.decErr = ""
             THEN Clause("C10.roundtrip", /\ RoundtripOK(e.dec, e.clr)
                                          /\ RoundtripOK(e.decS, e.clrS)
                                          /\ e.nDec = e.nClr /\ SumN(e.dec) = e.nDec /\ e.nDec > 0,
                         <<"kind", k, "n", e.n, "t", e.t, "now", e.now, "deliver", e.deliver,
                           "decrypted", e.dec, "clear", e.clr, "nDec", e.nDec, "nClr", e.nClr>>)
             ELSE TRUE
     ELSE TRUE
  /\ UNCHANGED <<h, mpdOK, mpdKids, initOK, initKid, initSchm, lic>>

Pre == /\ e.ev = "pre"
       /\ IF e.clrStatus = 200
          THEN Clause("C10.preenc", PreEncRefused(e.what, e.status, e.same),
                      <<"what", e.what, "status_with_drm", e.status, "identical_to_response_without_drm", e.same>>)
          ELSE TRUE
       /\ UNCHANGED <<h, mpdOK, mpdKids, initOK, initKid, initSchm, lic>>

Info == /\ e.ev = "info"
        /\ UNCHANGED <<h, mpdOK, mpdKids, initOK, initKid, initSchm, lic>>

Step == l <= Len(Trace) /\ (Hdr \/ Mpd \/ InitSeg \/ Lic \/ Seg \/ Pre \/ Info) /\ l' = l + 1
Done == l = Len(Trace) + 1 /\ Consumed(Len(Trace)) /\ UNCHANGED vars
Spec == Init /\ [][Step \/ Done]_vars
Accepted == NoBad
=============================================================================

---------------------------- MODULE Ingester_Trace ----------------------------
(* (V)/(R) for C16: the request log of a scripted receiver + the REST calls that control the
   sessions, recorded from the REAL sender (harness/drive/c16).  Monitor style: every line is
   consumed, every clause of the property is decided on every event by the operators of
   IngesterOps (shared with the explorer IngesterImpl).

   Events (scn = scenario; one scenario = one fresh server + receiver):
     hdr    {desc, nsess, bound}
     sess   {s, variant, reps:[{id, ct, toffmax}], segdurs (ms, one loop of the reference track), mode:"number"|"time", streams, auth, dur (s, -1 none),
             rt (real-time session), now (testNowMS), firstlo, firsthi (real time only), chunked}
     call   {c, op:"create"|"step"|"delete"|"get", s}      REST call issued by client c
     ret    {c, op, s, code}                               ... returned
     stuck  {c, op, s}                                     ... did not return within the bound
     settle {s}                                            real time only: grace period after DELETE returned is over
     req    {k, s, rep, form, ext, ctype, ingest, auth, kind:"init"|"media"|"bad", nr (mfhd), toff (tfdt - Start(nr) in the track's timescale),
             ud (URL number/time minus mfhd number / tfdt), lmsg, dg, dgx (digest without lmsg brand), berr,
             refcode, ref (digest of livesim2's own HTTP response), isig, rsig (init: structural signature
             of the received / the served init segment), seqok, ...}   a request ARRIVED at the receiver
     reqend {k, s, rep, kind, status}                      its body was read completely and it is answered with status
     crash  {site, msg, variants}                          the sender's process died (panic) during the scenario
     end    {}                                             quiescence                                          *)
EXTENDS TraceLib, IngesterOps
VARIABLES l, sess, st, rp
vars == <<l, sess, st, rp>>
Clause(name, ok, detail) == ClauseAt(l, name, ok, detail)
e == Trace[l]

NoSess == [x \in {} |-> 0]
Init == l = 1 /\ sess = NoSess /\ st = NoSess /\ rp = NoSess /\ MonitorInit

RepIds(S) == {S.reps[k].id : k \in 1..Len(S.reps)}
RepOf(S, id) == LET k == CHOOSE k \in 1..Len(S.reps) : S.reps[k].id = id IN S.reps[k]
NLoS(S) == IF S.dur < 0 THEN -1 ELSE NLo(S.dur, S.segdurs)
NHiS(S) == IF S.dur < 0 THEN -1 ELSE NHi(S.dur, S.segdurs)
FirstLo(S) == IF S.rt THEN S.firstlo ELSE FirstNr(S.now, S.segdurs)
FirstHi(S) == IF S.rt THEN S.firsthi ELSE FirstNr(S.now, S.segdurs)
MaxStartsOf(s) == LET ids == DOMAIN rp[s] IN
                  CHOOSE m \in {rp[s][r].starts : r \in ids} : \A r \in ids : rp[s][r].starts <= m
Known == e.s \in DOMAIN sess
KnownRep == Known /\ e.rep \in DOMAIN rp[e.s]
\* an upload whose body is not a complete init / media segment is tolerated iff a DELETE of the session had been issued
\* before the receiver gave up reading it (look-ahead to the request's reqend line; only evaluated for such bodies)
AbortedByDelete ==
   /\ e.kind = "bad"     \* (the receiver may or may not see a read error: a cancelled upload can also arrive as an empty body)
   /\ \E j \in l..Len(Trace) :
         /\ Trace[j].ev = "reqend" /\ Trace[j].scn = e.scn /\ Trace[j].k = e.k
         /\ \E i \in 1..j : Trace[i].ev = "call" /\ Trace[i].scn = e.scn /\ Trace[i].op = "delete" /\ Trace[i].s = e.s

Hdr == /\ e.ev = "hdr"
       /\ sess' = NoSess /\ st' = NoSess /\ rp' = NoSess

Sess == /\ e.ev = "sess"
        /\ sess' = (e.s :> e) @@ sess
        /\ st' = (e.s :> [calls |-> 0, servedLive |-> 0, delCalled |-> FALSE, delRet |-> FALSE, callsAtDelRet |-> 0,
                          initErr |-> FALSE, mediaErr |-> FALSE, settled |-> FALSE]) @@ st
        /\ rp' = (e.s :> [r \in RepIds(e) |-> [kinds |-> <<>>, prev |-> 0, starts |-> 0, ends |-> 0, lastSeen |-> FALSE]]) @@ rp

Call == /\ e.ev = "call"
        /\ st' = IF Known /\ e.op = "step" THEN [st EXCEPT ![e.s].calls = @ + 1]
                 ELSE IF Known /\ e.op = "delete" THEN [st EXCEPT ![e.s].delCalled = TRUE]
                 ELSE st
        /\ UNCHANGED <<sess, rp>>

Ret == /\ e.ev = "ret"
       /\ IF Known /\ e.op = "step" /\ e.code # 200
          THEN \* the step was refused: acceptable only when the session may legitimately have stopped
               /\ Clause("C16.step.refused", MayStop(st[e.s].delCalled, st[e.s].initErr, NLoS(sess[e.s]), MaxStartsOf(e.s)),
                         [code |-> e.code, variant |-> sess[e.s].variant, dur |-> sess[e.s].dur, sent |-> MaxStartsOf(e.s)])
               /\ st' = st
          ELSE IF Known /\ e.op = "step" /\ ~st[e.s].delCalled
          THEN \* C16.step: this step is served only after the previous steps' requests are complete
               /\ \A r \in DOMAIN rp[e.s] :
                     Clause("C16.step.order", StepLowerOK(st[e.s].servedLive + 1, rp[e.s][r].ends),
                            [rep |-> r, served |-> st[e.s].servedLive + 1, ends |-> rp[e.s][r].ends])
               /\ st' = [st EXCEPT ![e.s].servedLive = @ + 1]
          ELSE IF Known /\ e.op = "delete"
          THEN st' = [st EXCEPT ![e.s].delRet = TRUE, ![e.s].callsAtDelRet = st[e.s].calls]
          ELSE st' = st
       /\ UNCHANGED <<sess, rp>>

Stuck == /\ e.ev = "stuck"
         /\ IF Known /\ e.op = "step"
            THEN LET may == MayStop(st[e.s].delCalled, st[e.s].initErr, NLoS(sess[e.s]), MaxStartsOf(e.s))
                     d == [variant |-> sess[e.s].variant, chunked |-> sess[e.s].chunked, mediaErr |-> st[e.s].mediaErr,
                           delCalled |-> st[e.s].delCalled, initErr |-> st[e.s].initErr, dur |-> sess[e.s].dur,
                           sent |-> MaxStartsOf(e.s)]
                 IN  IF may
                     THEN \* the session may legitimately have stopped - but the call must still return
                          Clause("C16.step.returns_after_stop", FALSE, d)
                     ELSE Clause("C16.step.returns", FALSE, d)
            ELSE Clause("C16.api.returns", FALSE, [op |-> e.op])
         /\ UNCHANGED <<sess, st, rp>>

Settle == /\ e.ev = "settle"
          /\ st' = IF Known THEN [st EXCEPT ![e.s].settled = TRUE] ELSE st
          /\ UNCHANGED <<sess, rp>>

HeadersOK(S, R) == /\ e.ext = ExtOf(R.ct) /\ e.ctype = MimeOf(R.ct) /\ e.ingest = IngestVersion
                   /\ e.auth = S.auth
                   /\ (e.kind \in {"init", "media"} => UrlFormOK(S.streams, e.kind, e.form))

Req == /\ e.ev = "req"
       /\ IF ~KnownRep
          THEN /\ Clause("C16.headers.url", FALSE, [path |-> e.path])
               /\ UNCHANGED <<sess, st, rp>>
          ELSE LET S == sess[e.s]
                   R == RepOf(S, e.rep)
                   T == st[e.s]
                   P == rp[e.s][e.rep]
                   idx == P.starts + 1
                   aborted == AbortedByDelete                               \* upload cut by the DELETE: tolerated
                   kinds2 == IF aborted THEN P.kinds ELSE Append(P.kinds, e.kind)
               IN
               /\ Clause("C16.headers", HeadersOK(S, R),
                         [rep |-> e.rep, ext |-> e.ext, ctype |-> e.ctype, ingest |-> e.ingest, auth |-> e.auth,
                          expauth |-> S.auth, form |-> e.form, kind |-> e.kind, streams |-> S.streams])
               /\ Clause("C16.faithful.body", e.kind \in {"init", "media"} \/ aborted, [rep |-> e.rep, berr |-> e.berr])
               /\ Clause("C16.init_first", InitFirstOK(kinds2), [rep |-> e.rep, kinds |-> kinds2])
               /\ Clause("C16.delete", S.rt => ~T.settled, [rep |-> e.rep, kind |-> e.kind])
               /\ IF e.kind = "init"
                  THEN Clause("C16.faithful.init", e.refcode = 200 /\ e.isig # "" /\ e.isig = e.rsig,
                              [rep |-> e.rep, got |-> e.isig, served |-> e.rsig, refcode |-> e.refcode])
                  ELSE TRUE
               /\ IF e.kind = "media"
                  THEN /\ Clause("C16.consecutive", ConsecutiveOK(FirstLo(S), FirstHi(S), idx, e.nr, P.prev) /\ e.seqok,
                                 [rep |-> e.rep, idx |-> idx, nr |-> e.nr, prev |-> P.prev, firstlo |-> FirstLo(S),
                                  firsthi |-> FirstHi(S), seqok |-> e.seqok])
                       /\ Clause("C16.consecutive.url", (S.mode = "number" /\ ~S.streams) => e.ud = 0,
                                 [rep |-> e.rep, nr |-> e.nr, urlMinusNr |-> e.ud])
                       /\ Clause("C16.faithful", e.refcode = 200 /\ (IF e.lmsg THEN e.dgx ELSE e.dg) = e.ref,
                                 [rep |-> e.rep, nr |-> e.nr, refcode |-> e.refcode, lmsg |-> e.lmsg, variant |-> S.variant])
                       /\ Clause("C16.duration.count", CountOK(NHiS(S), idx),
                                 [rep |-> e.rep, idx |-> idx, over |-> idx - NHiS(S), exact |-> NLoS(S) = NHiS(S), dur |-> S.dur])
                       /\ Clause("C16.duration.lmsg", LmsgOK(NLoS(S), NHiS(S), idx, e.lmsg),
                                 [rep |-> e.rep, idx |-> idx, lmsg |-> e.lmsg, nlo |-> NLoS(S), nhi |-> NHiS(S),
                                  exact |-> NLoS(S) = NHiS(S), over |-> idx - NHiS(S), dur |-> S.dur])
                       /\ Clause("C16.duration.after_last", ~P.lastSeen, [rep |-> e.rep, idx |-> idx, dur |-> S.dur])
                       /\ Clause("C16.step.exactly_one", ~S.rt => StepUpperOK(T.calls, idx),
                                 [rep |-> e.rep, idx |-> idx, calls |-> T.calls])
                       /\ Clause("C16.delete", ~S.rt => DeleteOK(T.delRet, T.callsAtDelRet, idx),
                                 [rep |-> e.rep, idx |-> idx, callsAtDelRet |-> T.callsAtDelRet])
                       /\ Clause("C16.time", S.mode = "time" => TimeOK(IF S.streams THEN 0 ELSE e.ud, e.toff, R.toffmax),
                                 [rep |-> e.rep, nr |-> e.nr, urlMinusTfdt |-> e.ud, toff |-> e.toff, toffmax |-> R.toffmax])
                  ELSE TRUE
               /\ rp' = [rp EXCEPT ![e.s][e.rep] =
                            [kinds |-> kinds2,
                             prev |-> IF e.kind = "media" THEN e.nr ELSE P.prev,
                             starts |-> IF e.kind = "media" THEN idx ELSE P.starts,
                             ends |-> P.ends,
                             lastSeen |-> P.lastSeen \/ (e.kind = "media" /\ e.lmsg)]]
               /\ UNCHANGED <<sess, st>>

ReqEnd == /\ e.ev = "reqend"
          /\ IF KnownRep
             THEN /\ rp' = IF e.kind = "media" THEN [rp EXCEPT ![e.s][e.rep].ends = @ + 1] ELSE rp
                  /\ st' = IF e.status >= 300 /\ e.kind = "init" THEN [st EXCEPT ![e.s].initErr = TRUE]
                           ELSE IF e.status >= 300 THEN [st EXCEPT ![e.s].mediaErr = TRUE]
                           ELSE st
             ELSE UNCHANGED <<st, rp>>
          /\ UNCHANGED sess

Crash == /\ e.ev = "crash"
         /\ Clause("C16.complete.crash", FALSE, [site |-> e.site, msg |-> e.msg, variants |-> e.variants])
         /\ UNCHANGED <<sess, st, rp>>

End == /\ e.ev = "end"
       /\ \A s \in DOMAIN sess :
            LET S == sess[s]
                T == st[s]
            IN  /\ (~S.rt /\ ~T.delCalled /\ ~T.initErr) =>
                      \A r \in DOMAIN rp[s] :
                         Clause("C16.step.delivers", StepDeliveredOK(T.servedLive, rp[s][r].ends, NHiS(S)),
                                [s |-> s, rep |-> r, served |-> T.servedLive, ends |-> rp[s][r].ends, nhi |-> NHiS(S),
                                 variant |-> S.variant, chunked |-> S.chunked, mediaErr |-> T.mediaErr])
                /\ (S.rt /\ ~T.delCalled /\ S.dur >= 0) =>
                      \A r \in DOMAIN rp[s] :
                         Clause("C16.duration.complete", rp[s][r].starts >= NLoS(S),
                                [s |-> s, rep |-> r, starts |-> rp[s][r].starts, nlo |-> NLoS(S)])
       /\ UNCHANGED <<sess, st, rp>>

Step == l <= Len(Trace) /\ (Hdr \/ Sess \/ Call \/ Ret \/ Stuck \/ Settle \/ Req \/ ReqEnd \/ Crash \/ End) /\ l' = l + 1
Done == l = Len(Trace) + 1 /\ Consumed(Len(Trace)) /\ UNCHANGED vars
Spec == Init /\ [][Step \/ Done]_vars
Accepted == NoBad
=============================================================================

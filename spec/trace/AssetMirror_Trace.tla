------------------------ MODULE AssetMirror_Trace ------------------------
(* (V) for X05: validates what harness/drive/x05 recorded from the real dashfetcher (app.Fetch, in-process, against an HTTP origin
   with fault injection) and the real livesim2 server (app.SetupServer on generated directory trees) against AssetMirrorOps.
   Events (one scenario = hdr followed by its events):
     hdr    {id, kind "fetch" | "load", sc (the GEN record of AssetMirror.tla),
             fetch: mpd (file name), url (download URL), refs (relative paths the MPD references - by the driver's construction of
                    the asset), onemore (the paths one segment number beyond the last, per $Number$+@duration Representation),
                    tail (discriminator for known findings only, not read here)}
     run    {id, seq, force, healthy (no fault planned in this run), origin [[path, digest]] (the origin's files at this run)}
     get    {id, seq, reqs [[path, status, fault, complete]]}      the origin's request log of the run (paths relative to the MPD's directory)
     file   {id, seq, files [[path, digest]]}                      the output directory after the run
     result {id, seq, err, panic, hung, named (paths whose URL the returned error contains), warned (paths whose URL a log record of
             level >= WARN contains), mpdlist [[name, originURI]]}
     start  {id, err, panic}                                       SetupServer on the scenario's tree
     load   {id, role "companion" | "variant" | "second" | "mirror", asset, mpd, d (AssetMirrorOps!Accepted's record + vts, durs, pay:
             ground truth by construction), listed, reflog (a WARN+ record of the start names the asset directory or the MPD path),
             logs (those records, for known-finding matching only), obs [loop, mpdst, vdur, initst, initts, nums, st, dig, sdur, dt, aud]}
     vod    {id, path, exists, st, fdig, bdig}
   Clauses: X05.nocrash .all .ident .only .report .skip .once .force .mpdlist (at result), X05.survive (start),
            X05.accept .refuse .meta .logged (load), X05.vod.                                                                     *)
EXTENDS TraceLib, AssetMirrorOps
VARIABLES l, h, rl, gl, fl, prev, good, up
vars == <<l, h, rl, gl, fl, prev, good, up>>
Clause(name, ok, detail) == ClauseAt(l, name, ok, detail)
ev == Trace[l]
H  == Trace[h]
Pairs(s) == { <<s[i][1], s[i][2]>> : i \in DOMAIN s }
Some(S) == IF S = {} THEN "" ELSE CHOOSE x \in S : TRUE

Init == l = 1 /\ h = 1 /\ rl = 1 /\ gl = 1 /\ fl = 1 /\ prev = {} /\ good = {} /\ up = FALSE
        /\ MonitorInit /\ TLCSet(2, 0) /\ TLCSet(3, 0) /\ TLCSet(4, 0) /\ TLCSet(5, 0)

Hdr == /\ ev.ev = "hdr"
       /\ Clause("hdr.admissible",
                 /\ ev.kind \in {"fetch", "load"} /\ ev.sc.kind = ev.kind
                 /\ ev.sc.shape.v \in VModes /\ ev.sc.shape.a \in AModes
                 /\ (ev.kind = "fetch" => /\ ev.mpd \notin ToSet(ev.refs) /\ ToSet(ev.onemore) \cap ToSet(ev.refs) = {}
                                          /\ Len(ev.refs) >= 2),
                 "scenario header")
       /\ h' = l /\ prev' = {} /\ good' = {} /\ up' = FALSE /\ UNCHANGED <<rl, gl, fl>>

RunEv == /\ ev.ev = "run" /\ ev.id = H.id
       /\ Clause("hdr.run", H.kind = "fetch" /\ (ToSet(H.refs) \cup {H.mpd}) \subseteq Paths(Pairs(ev.origin)), "the origin holds what the MPD references")
       /\ rl' = l /\ UNCHANGED <<h, gl, fl, prev, good, up>>
GetEv == /\ ev.ev = "get" /\ ev.id = H.id /\ ev.seq = Trace[rl].seq
       /\ gl' = l /\ UNCHANGED <<h, rl, fl, prev, good, up>>
FileEv == /\ ev.ev = "file" /\ ev.id = H.id /\ ev.seq = Trace[rl].seq
        /\ fl' = l /\ UNCHANGED <<h, rl, gl, prev, good, up>>

Result ==
   /\ ev.ev = "result" /\ ev.id = H.id /\ ev.seq = Trace[rl].seq /\ Trace[gl].seq = ev.seq /\ Trace[fl].seq = ev.seq
   /\ LET R == Trace[rl]
          refs == ToSet(H.refs)  onemore == ToSet(H.onemore)  mpd == H.mpd
          origin == Pairs(R.origin)  files == Pairs(Trace[fl].files)  reqs == Trace[gl].reqs
          named == ToSet(ev.named)  warned == ToSet(ev.warned)
          sup == FetchSupported(H.sc.shape)
          crashed == ev.panic # "" \/ ev.hung
          failedp == FailedPaths(reqs) \cap (refs \cup {mpd})
          onlyBad == OnlyBad(files, prev, mpd, refs, onemore)
          identBad == IdentBad(files, origin, prev, good, R.force)
          missing == Missing(files, mpd, refs)
          unrep == Unreported(reqs, mpd, refs, named, warned)
          again == Refetched(reqs, good)
          twice == Twice(reqs)
          notre == NotRefetched(reqs, refs, prev)
      IN /\ Clause("X05.nocrash", ~crashed, [panic |-> ev.panic, hung |-> ev.hung])
         /\ Clause("X05.only", onlyBad = {}, [n |-> Cardinality(onlyBad), first |-> Some(Paths(onlyBad))])
         /\ Clause("X05.ident", identBad = {}, [n |-> Cardinality(identBad), first |-> Some(Paths(identBad)), force |-> R.force])
         /\ IF sup /\ ~crashed
            THEN /\ Clause("X05.all", ~(R.healthy /\ failedp = {}) \/ (ev.err = "" /\ missing = {}),
                           [err |-> ev.err, n |-> Cardinality(missing), first |-> Some(missing)])
                 /\ Clause("X05.report", unrep = {}, [n |-> Cardinality(unrep), first |-> Some(unrep), err |-> ev.err])
                 /\ Clause("X05.once", R.force \/ twice = {}, [first |-> Some(twice)])
                 /\ Clause("X05.force", ~R.force \/ ~R.healthy \/ notre = {}, [n |-> Cardinality(notre), first |-> Some(notre)])
                 /\ Clause("X05.mpdlist", ~(ev.err = "" /\ mpd \in Requested(reqs) /\ mpd \notin FailedPaths(reqs))
                                          \/ <<mpd, H.url>> \in Pairs(ev.mpdlist), [mpdlist |-> ev.mpdlist])
                 /\ TLCSet(2, TLCGet(2) + 1)
                 /\ (IF ev.err = "" /\ failedp # {} THEN TLCSet(3, TLCGet(3) + 1) ELSE TRUE)     \* counted, not judged
            ELSE TLCSet(4, TLCGet(4) + 1)
         /\ Clause("X05.skip", R.force \/ again = {}, [n |-> Cardinality(again), first |-> Some(again)])
         /\ prev' = files
         /\ good' = GoodAfter(files, origin, prev, good, R.force)
   /\ UNCHANGED <<h, rl, gl, fl, up>>

Start == /\ ev.ev = "start" /\ ev.id = H.id /\ H.kind = "load"
         /\ Clause("X05.survive", ev.err = "" /\ ev.panic = "", [err |-> ev.err, panic |-> ev.panic])
         /\ up' = (ev.err = "" /\ ev.panic = "") /\ UNCHANGED <<h, rl, gl, fl, prev, good>>

Load == /\ ev.ev = "load" /\ ev.id = H.id
        /\ IF ~up THEN TLCSet(5, TLCGet(5) + 1)          \* no server: X05.survive has failed for this tree, nothing to observe
           ELSE LET d == ev.d  acc == Accepted(d)
                IN /\ Clause("hdr.load", Len(d.durs) = d.nfiles /\ Len(d.pay) = d.nfiles /\ d.n0 >= 1 /\ d.vts > 0 /\ acc # {}, "ground truth of the asset")
                   /\ Clause("X05.accept", ev.listed \/ Refuse \in acc, [role |-> ev.role, why |-> "conformant asset / MPD not listed"])
                   /\ Clause("X05.refuse", ~ev.listed \/ ListNs(d) # {}, [role |-> ev.role, why |-> "listed although its files cannot be served as described"])
                   /\ (IF ev.listed /\ ListNs(d) # {}
                       THEN LET b == BestMetaBad(d, ev.obs) IN Clause("X05.meta", b = {}, [role |-> ev.role, aspects |-> b, loop |-> ev.obs.loop, mpdst |-> ev.obs.mpdst])
                       ELSE TRUE)
                   /\ Clause("X05.logged", ev.listed \/ (d.kind = "none" /\ ~ShapeRefused(d)) \/ ev.reflog, [role |-> ev.role, why |-> "refused without a log record naming it"])
        /\ UNCHANGED <<h, rl, gl, fl, prev, good, up>>

Vod == /\ ev.ev = "vod" /\ ev.id = H.id
       /\ (IF up THEN Clause("X05.vod", IF ev.exists THEN ev.st = 200 /\ ev.bdig = ev.fdig ELSE ev.st = 404, [path |-> ev.path, st |-> ev.st])
           ELSE TRUE)
       /\ UNCHANGED <<h, rl, gl, fl, prev, good, up>>

Step == l <= Len(Trace) /\ (Hdr \/ RunEv \/ GetEv \/ FileEv \/ Result \/ Start \/ Load \/ Vod) /\ l' = l + 1
Done == /\ l = Len(Trace) + 1 /\ Consumed(Len(Trace))
        /\ PrintT("X05STATS" \o ToJson([judged_runs |-> TLCGet(2), silent_failures |-> TLCGet(3), unsupported_runs |-> TLCGet(4), loads_without_server |-> TLCGet(5)]))
        /\ UNCHANGED vars
Spec == Init /\ [][Step \/ Done]_vars
Accepted_ == NoBad
=============================================================================

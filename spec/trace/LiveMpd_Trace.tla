---------------------------- MODULE LiveMpd_Trace ----------------------------
(* (V) for C02 and C05: validates live MPDs of the real server, and the segment requests derived
   from them at the same instant, against LiveMpdOps / LiveTimelineOps.
   One scenario = (asset, AdaptationSet of one representation, URL configuration) swept over
   increasing instants.  Events:
     hdr   scenario constants (as in LiveTimeline_Trace) + mode
     mpd   {now, st, type, pt, hasPt, dig, S, hasSn, snp, tmplD, tmplTS, atoDecl, tsbdDecl, astOk, mpdur, hasMup}
           now, pt: ms relative to availabilityStartTime as pairs over loopMS; S: raw SegmentTimeline entries
           <<hasT, tw, tr, d, r>> of the AdaptationSet; snp = (@startNumber - snr) as pair over N
     fetch {j, st, tfdt, dur, nrp}   request, at the same now, of entry j of the expanded list of the last
           mpd event (j = Len+1: the segment after the live edge)                      [timeline modes]
     fetchn {q, st, tfdt, dur, nrp}  request of $Number$ = snr + q (q as pair over N) at the same now [Number mode] *)
EXTENDS TraceLib, LiveMpdOps
VARIABLES l, h, cur, prev
vars == <<l, h, cur, prev>>
Clause(name, ok, detail) == ClauseAt(l, name, ok, detail)
e == Trace[l]
H == Trace[h]
SC == [N |-> H.N, dur |-> H.dur, vod0 |-> H.vod0, TS |-> H.TS, loopMS |-> H.loopMS,
       tsbd |-> H.tsbd, ato |-> H.ato, snr |-> H.snr]
NowU(x) == [w |-> x[1], r |-> x[2] * H.TS]
None == [ok |-> FALSE, after |-> FALSE, E |-> <<>>, first |-> <<-1, -1>>, last |-> <<-1, -1>>, now |-> TZero, pt |-> TZero, dig |-> "",
         hasSn |-> FALSE, snp |-> <<0, 0>>, tmplD |-> 0, tmplTS |-> 1, atoDecl |-> 0, pids |-> <<"", "">>]

Init == l = 1 /\ h = 1 /\ cur = None /\ prev = None /\ MonitorInit
Hdr == /\ e.ev = "hdr"
       /\ Clause("hdr.admissible", Admissible([N |-> e.N, dur |-> e.dur, vod0 |-> e.vod0, TS |-> e.TS, loopMS |-> e.loopMS,
                                               tsbd |-> e.tsbd, ato |-> e.ato, snr |-> e.snr]) /\ Len(e.dur) = e.N, "scenario header")
       /\ h' = l /\ cur' = None /\ prev' = None

\* multi-period scenarios (H.multi) are judged only by the clauses that do not read the first Period's timeline
Timeline == H.mode \in {"time", "tlnr"} /\ ~H.multi

Mpd == /\ e.ev = "mpd"
       /\ Clause("C02.mpd_served", e.st = 200, <<"status", e.st>>)
       /\ IF e.st # 200 THEN cur' = None /\ prev' = prev
          ELSE
          \* (E, first, last are bound by \E over singleton sets: TLC evaluates a bound value once, whereas a LET definition
          \*  is re-evaluated at every use - the expansion of a 60 s timeline dozens of times per event)
          \* (multi-period timeline MPDs: E is the concatenation over the Periods; it only serves to tell WHERE an MPD changed)
          \E E \in {IF H.mode \in {"time", "tlnr"} THEN Expand(SC, e.S) ELSE <<>>} :
          \* audio follows the video grid (C03): no own grid here, only contiguity and the fetch clauses
          \E first \in {IF Len(E) > 0 /\ H.kind # "audio" THEN IdxOfStart(SC, E[1].t) ELSE <<-1, -1>>} :
          \E last \in {IF Len(E) > 0 /\ first[1] >= 0 THEN Plus(SC, first, Len(E) - 1) ELSE <<-1, -1>>} :
          \E now \in {LET rnow == NowU(e.now) stopU == MsPair(SC, H.stop * 1000)
                      IN IF H.stop >= 0 /\ TLt(stopU, rnow) THEN stopU ELSE rnow} :   \* the presentation is frozen at the stop time
               LET after == H.stop >= 0 /\ TLt(MsPair(SC, H.stop * 1000), NowU(e.now))   \* C05.stop: the request instant is after the stop time
                   pt    == NowU(e.pt)
                   had   == prev.ok
               IN
               /\ Clause("C02.attrs", e.astOk /\ (~after => e.tsbdDecl = H.tsbd * 1000), <<"astOk", e.astOk, "tsbd_ms", e.tsbdDecl>>)
               \* C05.stop: after the configured stop time the MPD is static with duration stop - start
               /\ Clause("C05.stop", IF after THEN e.type = "static" /\ e.mpdur = H.stop * 1000 /\ e.tsbdDecl = -1 /\ ~e.hasMup
                                     ELSE e.type = "dynamic",
                         <<"type", e.type, "mediaPresentationDuration_ms", e.mpdur, "tsbd_ms", e.tsbdDecl, "mup", e.hasMup, "after_stop", after>>)
               /\ IF Timeline THEN
                    /\ Clause("C02.contig", \A j \in 1..Len(E) : E[j].gapless, "explicit @t does not continue the previous entry")
                    /\ Clause("C02.grid", (Len(E) > 0 /\ H.kind # "audio") => (first[1] >= 0 /\ OnGrid(SC, E, first)),
                              <<"first_t", IF Len(E) > 0 THEN E[1].t ELSE TZero, "first_idx", first>>)
                    \* C02.last / C05.step: the last entry is the newest segment available at now; empty iff none is
                    /\ Clause("C02.last", IF H.kind = "audio" THEN TRUE
                                          ELSE IF Len(E) = 0 THEN NoneAvail(SC, now)
                                          ELSE first[1] >= 0 => IsLast(SC, last[1], last[2], now),
                              <<"last", last, "now", e.now, "entries", Len(E)>>)
                    /\ Clause("C02.first", (Len(E) > 0 /\ first[1] >= 0) => FirstOK(SC, first, now), <<"first", first, "now", e.now>>)
                    /\ Clause("C02.nr", (H.mode = "tlnr" /\ Len(E) > 0 /\ first[1] >= 0) => (e.hasSn /\ e.snp = first),
                              <<"startNumber_minus_snr", e.snp, "first", first>>)
                  ELSE IF H.multi THEN TRUE
                  ELSE
                    /\ Clause("C02.template", TemplateOK(SC, e.tmplD, e.tmplTS) /\ e.hasSn /\ e.snp = <<0, 0>>,
                              <<"duration", e.tmplD, "timescale", e.tmplTS, "startNumber_minus_snr", e.snp>>)
                    /\ Clause("C02.ato", e.atoDecl = H.ato, <<"declared_ato_ms", e.atoDecl, "configured", H.ato>>)
               \* ---- C05 (relational, against the previous MPD of the sweep)
               /\ Clause("C05.pt_present", e.hasPt, "no publishTime")
               /\ Clause("C05.pt_le_now", e.hasPt => TLeq(pt, now), <<"pt", e.pt, "now", e.now>>)
               /\ IF had THEN
                    /\ Clause("C05.forward.first", (Timeline /\ prev.first[1] >= 0 /\ first[1] >= 0) => PairLeq(prev.first, first),
                              <<"first_before", prev.first, "first", first>>)
                    /\ Clause("C05.forward.last", (Timeline /\ prev.last[1] >= 0) => (last[1] >= 0 /\ PairLeq(prev.last, last)),
                              <<"last_before", prev.last, "last", last>>)
                    /\ Clause("C05.pt_mono", TLeq(prev.pt, pt), <<"pt_before", prev.pt, "pt", pt>>)
                    \* (the switch to a static MPD at the stop time is a change by design: not judged here)
                    /\ Clause("C05.pt_same_content", (TEq(prev.pt, pt) /\ prev.after = after) => prev.dig = e.dig,
                              \* (multi-period MPDs: whether the oldest / the newest listed Period is another one than before)
                              <<"pt", e.pt, "first_changed", prev.first # first, "last_changed", prev.last # last,
                                "oldest_period_changed", prev.pids[1] # Get(e, "pids", <<"", "">>)[1],
                                "newest_period_changed", prev.pids[2] # Get(e, "pids", <<"", "">>)[2]>>)
                    /\ Clause("C05.number_static", (H.mode = "number" /\ ~H.multi /\ prev.after = after) => prev.dig = e.dig, "Number-template MPD changed")
                    \* C05.stop: once static, the MPD does not change any more
                    /\ Clause("C05.static_frozen", (prev.after /\ after) => prev.dig = e.dig, "static MPD changed after the stop time")
                  ELSE TRUE
               \* publishTime = instant of the most recent change at the live edge: the availability instant of the
               \* newest listed segment (within 1 ms: xs:dateTime has ms resolution), or AST when nothing is listed
               /\ Clause("C05.pt_edge", (Timeline /\ H.kind # "audio" /\ e.hasPt /\ (Len(E) = 0 \/ first[1] >= 0)) =>
                            IF Len(E) = 0 THEN TEq(pt, TZero)
                            ELSE LET a == Avail(SC, last[1], last[2])
                                     a0 == IF a.w < 0 THEN TZero ELSE a
                                 IN TLt(TSub(P(SC), a0, pt), MsPair(SC, 1)) /\ TLt(TSub(P(SC), pt, a0), MsPair(SC, 1)),
                         <<"pt", e.pt, "avail_of_last", IF Len(E) > 0 /\ first[1] >= 0 THEN Avail(SC, last[1], last[2]) ELSE TZero>>)
               /\ cur' = [ok |-> TRUE, after |-> after, E |-> E, first |-> first, last |-> last, now |-> now, pt |-> pt, dig |-> e.dig,
                          hasSn |-> e.hasSn, snp |-> e.snp, tmplD |-> e.tmplD, tmplTS |-> e.tmplTS, atoDecl |-> e.atoDecl,
                          pids |-> Get(e, "pids", <<"", "">>)]
               /\ prev' = cur'
       /\ UNCHANGED h

\* ---- segments derived from the MPD, requested at the same instant (timeline modes)
Fetch == /\ e.ev = "fetch"
         \* (after a configured stop time the MPD is static; C02 speaks about the live MPD only)
         /\ IF ~cur.ok \/ cur.after THEN TRUE
            ELSE IF e.j >= 1 /\ e.j <= Len(cur.E) THEN
                 /\ Clause("C02.served", e.st = 200, <<"entry", e.j, "of", Len(cur.E), "status", e.st>>)
                 /\ Clause("C02.match", e.st = 200 =>
                              /\ TEq(TFrom(e.tfdt), cur.E[e.j].t) /\ e.dur = cur.E[e.j].d
                              /\ (H.mode = "tlnr" /\ cur.hasSn) => e.nrp = Plus(SC, cur.snp, e.j - 1),
                           <<"entry", e.j, "tfdt", e.tfdt, "declared_t", cur.E[e.j].t, "dur", e.dur, "declared_d", cur.E[e.j].d, "nr", e.nrp>>)
            ELSE IF e.j = Len(cur.E) + 1 THEN Clause("C02.edge", e.st = 425, <<"after_edge_status", e.st>>)
            ELSE TRUE
         /\ UNCHANGED <<h, cur, prev>>

\* ---- $Number$ template: membership decided by the DASH rule on the declared template
FetchN == /\ e.ev = "fetchn"
          /\ IF ~cur.ok \/ cur.after \/ ~TemplateOK(SC, cur.tmplD, cur.tmplTS) THEN TRUE
             ELSE LET tsc  == TemplateSc(SC, cur.tmplD, cur.tmplTS, cur.atoDecl)
                      now  == [w |-> cur.now.w, r |-> (cur.now.r \div H.TS) * cur.tmplTS]      \* now in the template's unit
                      k    == e.q[1]
                      i    == e.q[2]
                      dms  == (Drift(SC) * 1000) \div H.TS + 1
                      d    == MsPair(tsc, dms)
                      decl == TmplDeclared(tsc, k, i, now)
                      \* safely inside the declared set even after pulling both edges in by the layout's drift
                      inside == IF Uniform(SC) THEN decl
                                ELSE /\ TmplDeclared(tsc, k, i, TSub(P(tsc), now, d)) /\ TmplDeclared(tsc, k, i, TAdd(P(tsc), now, d))
                  IN
                  /\ Clause("C02.served", inside => e.st = 200, <<"number_minus_snr", e.q, "status", e.st, "now", cur.now>>)
                  /\ Clause("C02.match", (inside /\ e.st = 200) =>
                               /\ TEq(TFrom(e.tfdt), Start(SC, k, i)) /\ e.nrp = e.q
                               /\ (Uniform(SC) => e.dur = Dur(SC, i)),
                            <<"q", e.q, "tfdt", e.tfdt, "nr", e.nrp, "dur", e.dur>>)
                  /\ Clause("C02.edge", (Uniform(SC) /\ k >= 0 /\ now.w >= 0 /\ TLt(now, Avail(tsc, k, i))) => e.st = 425,
                            <<"q", e.q, "status", e.st>>)
          /\ UNCHANGED <<h, cur, prev>>

Step == l <= Len(Trace) /\ (Hdr \/ Mpd \/ Fetch \/ FetchN) /\ l' = l + 1
Done == l = Len(Trace) + 1 /\ Consumed(Len(Trace)) /\ UNCHANGED vars
Spec == Init /\ [][Step \/ Done]_vars
Accepted == NoBad
=============================================================================

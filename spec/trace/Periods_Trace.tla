---------------------------- MODULE Periods_Trace ----------------------------
(* (V) for C06: validates pairs (single-period MPD, multi-period MPD) of the real livesim2 server, fetched at the same
   instant, against the oracle operators of PeriodsOps.  One scenario = one (asset, MPD, MPD type, periods_P,
   continuous on/off, tsbd, startNumber) under a sweep of instants.  Events:
     hdr  {N, dur, vod0, TS, loopMS, ... (ground truth of the reference track: asset generator / independent parse),
           P, cont, mode, segms (nominal segment duration in ms of every track known to the driver), ...}
     mpd  {st1, stP        HTTP status of the single-period / multi-period MPD request
           acc             both 200; the remaining fields only then
           parse           both MPDs readable, the single-period one has exactly one period, the other at least one
           pers            [{id, s, f}]  Period@id, Period@start in whole seconds, sub-second remainder in ms
           B               = pers[1].s, the base of all relative quantities (PeriodsOps)
           nowB            request instant - availabilityStartTime - B s, in ms (clamped to 31 bits; only the sign is used)
           pt, ptok        publishTime - availabilityStartTime - B s, in ms; both attributes readable
           as              per AdaptationSet of the single-period MPD (multi-period ones matched by position):
                           {ct, rep, ts, tmpl, one: [[t, d, n, st, dig]], per: [{pto, ts, pc, segs: [[t, d, n, st, dig]]}]}
                           tuples as in PeriodsOps; st/dig = status and body digest of the segment URL derived from that MPD
           shape           every period has the AdaptationSets of the single-period MPD (same order, contentType,
                           representation, addressing) and all were expandable
           clamped         some difference did not fit its range (value clamped; PeriodsOps arithmetic guard)
           keep, url       keep: this instant of the scenario is requested in both passes (C06.history); url of the multi-period MPD}                                      *)
EXTENDS TraceLib, PeriodsOps
VARIABLES l, h, ids, seen
vars == <<l, h, ids, seen>>
Clause(name, ok, detail) == ClauseAt(l, name, ok, detail)
e == Trace[l]
H == Trace[h]
SC == [N |-> H.N, dur |-> H.dur, vod0 |-> H.vod0, TS |-> H.TS, loopMS |-> H.loopMS,
       tsbd |-> H.tsbd, ato |-> H.ato, snr |-> H.snr]
PD == PDof(H.P)

Init == l = 1 /\ h = 1 /\ ids = <<>> /\ seen = <<>> /\ MonitorInit

Hdr == /\ e.ev = "hdr"
       /\ Clause("hdr.admissible", /\ Admissible([N |-> e.N, dur |-> e.dur, vod0 |-> e.vod0, TS |-> e.TS, loopMS |-> e.loopMS,
                                                   tsbd |-> e.tsbd, ato |-> e.ato, snr |-> e.snr])
                                   /\ Len(e.dur) = e.N /\ e.P >= 1 /\ e.P <= 3600 /\ Len(e.segms) >= 1, "scenario header")
       /\ h' = l /\ ids' = <<>> /\ UNCHANGED seen

Min(S) == CHOOSE x \in S : \A y \in S : x <= y
Starts == [j \in 1..Len(e.pers) |-> e.pers[j].s]
Fracs  == [j \in 1..Len(e.pers) |-> e.pers[j].f]
KOf(j) == PeriodIdx(e.pers[j].s, IF PD > 0 THEN PD ELSE 1)
Views(A) == [p \in 1..Len(A.per) |-> [start |-> e.pers[p].s, pto |-> A.per[p].pto, segs |-> A.per[p].segs]]
Kind(A) == IF A.tmpl THEN "tmpl" ELSE "tl"

ASClauses(a) ==
   LET A   == e.as[a]
       B   == e.pers[1].s
       V   == Views(A)
       tsOK == \A p \in 1..Len(A.per) : A.per[p].ts = A.ts
       bad == IF tsOK THEN PartitionBad(B, A.ts, PD, A.one, V) ELSE {}
       byt == IF tsOK THEN BytesBad(B, A.ts, A.one, V) ELSE {}
   IN /\ Clause("C06.partition", tsOK /\ bad = {},
                [ct |-> A.ct, rep |-> A.rep, kind |-> Kind(A), nbad |-> Cardinality(bad),
                 why |-> IF ~tsOK THEN "timescale differs" ELSE SegWhy(B, A.ts, PD, V, A.one[Min(bad)]),
                 seg |-> IF ~tsOK THEN <<>> ELSE A.one[Min(bad)]])
      /\ Clause("C06.bytes", byt = {},
                [ct |-> A.ct, rep |-> A.rep, kind |-> Kind(A), nbad |-> Cardinality(byt), why |-> "bytes differ",
                 seg |-> IF byt = {} THEN <<>> ELSE A.one[Min(byt)]])

Mpd == /\ e.ev = "mpd"
       \* C06.reject: decided from the header (ground truth), whatever else the response is
       /\ Clause("C06.reject", MustReject(SC, H.segms, H.P) => e.stP # 200,
                 [status |-> e.stP, P |-> H.P, PD |-> PD, why |-> "period duration not a multiple of the segment duration, but served"])
       /\ IF ~e.acc THEN UNCHANGED ids
          ELSE IF ~e.parse THEN Clause("C06.partition", FALSE, [ct |-> "", rep |-> "", kind |-> "", why |-> "MPD unreadable"]) /\ UNCHANGED ids
          ELSE
          /\ Clause("C06.tile", TileOK(Starts, Fracs, PD, H.ast) /\ e.B = e.pers[1].s, [starts |-> Starts, fracs |-> Fracs, PD |-> PD, ast |-> H.ast])
          /\ Clause("C06.cover", CoverOK(e.nowB), [first_start |-> e.B, now_minus_first_start_ms |-> e.nowB, ast |-> H.ast,
                                                   why |-> "every generated period starts after the request instant"])
          \* ids are a function of the period index k = start / PD only: the same k has the same id at every instant of the sweep
          /\ Clause("C06.ids", \A j \in 1..Len(e.pers) : KOf(j) \in DOMAIN ids => ids[KOf(j)] = e.pers[j].id,
                    [pers |-> e.pers, PD |-> PD])
          /\ ids' = [k \in (DOMAIN ids) \cup { KOf(j) : j \in 1..Len(e.pers) } |->
                        IF k \in DOMAIN ids THEN ids[k] ELSE e.pers[Min({ j \in 1..Len(e.pers) : KOf(j) = k })].id]
          /\ IF ~e.shape \/ e.clamped \/ ~(\A a \in 1..Len(e.as) : InRange(e.pers[1].s, e.as[a].ts, PD, Starts))
             THEN Clause("C06.partition", FALSE, [ct |-> "", rep |-> "", kind |-> "", why |-> "periods do not have the AdaptationSets of the single-period MPD / value out of range"])
             ELSE /\ \A a \in 1..Len(e.as) : ASClauses(a)
                  /\ Clause("C06.cont", ContOK(H.cont, [p \in 1..Len(e.pers) |-> [a \in 1..Len(e.as) |-> e.as[a].per[p].pc]]),
                            [requested |-> H.cont,
                             signalled |-> { x \in (1..Len(e.pers)) \X (1..Len(e.as)) : e.as[x[2]].per[x[1]].pc },
                             not_signalled |-> { x \in (2..Len(e.pers)) \X (1..Len(e.as)) : ~e.as[x[2]].per[x[1]].pc },
                             sets |-> [b \in 1..Len(e.as) |-> e.as[b].rep]])
          /\ Clause("C06.pt", H.mode = "number" => (e.ptok /\ PtOK(e.pers[1].s, e.pers[Len(e.pers)].s, e.pt)),
                    [pt_rel_ms |-> e.pt, last_start |-> e.pers[Len(e.pers)].s, B |-> e.B])
       \* C06.history (the property quantifies over histories): whether a periods value is accepted for an asset / MPD type
       \* does not depend on what the server was asked before.  Instants marked `keep` are requested twice, in different
       \* request orders, on the same server; both answers are judged by all clauses above, and their acceptance must agree.
       /\ Clause("C06.history", (e.keep /\ e.url \in DOMAIN seen) => seen[e.url] = (e.stP = 200),
                 [url |-> e.url, status |-> e.stP, why |-> "acceptance differs from the first request of the same URL"])
       /\ seen' = IF e.keep /\ e.url \notin DOMAIN seen THEN (e.url :> (e.stP = 200)) @@ seen ELSE seen
       /\ UNCHANGED h

Step == l <= Len(Trace) /\ (Hdr \/ Mpd) /\ l' = l + 1
Done == l = Len(Trace) + 1 /\ Consumed(Len(Trace)) /\ UNCHANGED vars
Spec == Init /\ [][Step \/ Done]_vars
Accepted == NoBad
=============================================================================

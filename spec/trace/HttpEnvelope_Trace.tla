----------------------- MODULE HttpEnvelope_Trace -----------------------
(* (V) for X07: validates what harness/drive/x07 recorded from the real livesim2 server (two instances behind loopback
   listeners, every request through a counting ResponseWriter) against HttpEnvelopeOps.
   Events (every HTTP request the driver made is exactly one resp event - the metrics clause needs all of them):
     hdr    {seed, names (the header names the driver projects to), limmax, classes, mpdfiles}
     resp   {id, aux (auxiliary request: warm-up, GET of a HEAD pair, follow / direct of a redirect, OPTIONS of a 405, scrape),
             r = [route, method, outcome, kind, srv, v] (an element of the space enumerated by HttpEnvelope.tla; aux requests carry
             the class they are an instance of), url, in = [tail, q, ttl, code] (inputs by construction), intended, ext (lower-cased
             extension of the path after its last dot),
             o = [st, env (<<name, count, first value>> for each specified header name), acam (tokens), ct (media type), cl (wire
                  Content-Length; -1 absent, -2 repeated, -3 malformed), blen (body bytes received), berr (body read error),
                  hst / hct / hcl (status / Content-Type / Content-Length of the handler when the status line was fixed),
                  hbytes / writes / flushes (handler level), te, allow (tokens), loc, hasexp, expoff (Expires - publishTime, s),
                  lreq (Livesim2-Requests), facts (<<key, want, got>>), listed, servable]}
     pair   {rel: "head" (a = GET, b = HEAD of the same URL) | "redirect" (a = request for the Location, b = direct request)
                  | "allow" (a = the request answered 405, b = OPTIONS of the same path), r, url, a, b}
     scrape {vals: <<family, code, requests_total, duration_count>> of every series of /metrics, st}
   Clauses: every clause of HttpEnvelopeOps.ClauseNames on every resp; X07.head / X07.redirect.follow / X07.allow on pairs;
   X07.metrics on every scrape after the first.                                                                          *)
EXTENDS TraceLib, HttpEnvelopeOps
VARIABLES l, cnt, prev, seen
vars == <<l, cnt, prev, seen>>
Clause(name, ok, detail) == ClauseAt(l, name, ok, detail)
ev == Trace[l]

Empty == [x \in {} |-> 0]
Init == l = 1 /\ cnt = Empty /\ prev = Empty /\ seen = FALSE /\ MonitorInit /\ TLCSet(2, 0) /\ TLCSet(3, 0) /\ TLCSet(4, 0)

Hdr == /\ ev.ev = "hdr"
       /\ Clause("hdr.names", ev.names = EnvNames /\ ev.limmax > 0, "driver and oracle disagree on the specified header names")
       /\ UNCHANGED <<cnt, prev, seen>>

Resp == /\ ev.ev = "resp"
        /\ Clause("hdr.class", ValidReq(ev.r) /\ Len(ev.o.env) = Len(EnvNames), ev.r)
        /\ LET bad == Failing(ev.r, ev["in"], ev.o)
           IN \A i \in DOMAIN ClauseNames :
                 Clause(ClauseNames[i], ClauseNames[i] \notin bad,
                        [url |-> ev.url, st |-> ev.o.st, ct |-> ev.o.ct, cl |-> ev.o.cl, blen |-> ev.o.blen])
        /\ cnt' = Bump(cnt, <<Family(ev.ext), ToString(ev.o.st)>>)
        /\ TLCSet(2, TLCGet(2) + 1)
        /\ UNCHANGED <<prev, seen>>

Pair == /\ ev.ev = "pair"
        /\ CASE ev.rel = "head" -> Clause("X07.head", HeadPairOK(ev.a, ev.b), [url |-> ev.url, get |-> ev.a, head |-> ev.b])
             [] ev.rel = "redirect" -> Clause("X07.redirect.follow", FollowPairOK(ev.a, ev.b), [url |-> ev.url, follow |-> ev.a, direct |-> ev.b])
             [] ev.rel = "allow" -> Clause("X07.allow", AllowPairOK(ev.a, ev.b),
                                           [url |-> ev.url, method |-> ev.a.method, allow |-> ev.b.allow])
        /\ TLCSet(3, TLCGet(3) + 1)
        /\ UNCHANGED <<cnt, prev, seen>>

Cur == [k \in { <<ev.vals[i][1], ev.vals[i][2]>> : i \in DOMAIN ev.vals } |->
           LET i == CHOOSE j \in DOMAIN ev.vals : <<ev.vals[j][1], ev.vals[j][2]>> = k
           IN [tot |-> ev.vals[i][3], hist |-> ev.vals[i][4]]]
Scrape == /\ ev.ev = "scrape"
          /\ IF seen
             THEN LET bad == MetricsBad(prev, Cur, cnt)
                  IN /\ Clause("X07.metrics", bad = {} /\ ev.st = 200,
                               { <<k[1], k[2], "requests", CntAt(cnt, k), "total", ValAt(Cur, k, "tot") - ValAt(prev, k, "tot"),
                                   "hist", ValAt(Cur, k, "hist") - ValAt(prev, k, "hist")>> : k \in bad })
                     /\ TLCSet(4, TLCGet(4) + 1)
             ELSE TRUE
          /\ prev' = Cur /\ cnt' = Empty /\ seen' = TRUE

Step == l <= Len(Trace) /\ (Hdr \/ Resp \/ Pair \/ Scrape) /\ l' = l + 1
Done == /\ l = Len(Trace) + 1 /\ Consumed(Len(Trace))
        /\ PrintT("X07STATS" \o ToJson([resp |-> TLCGet(2), pairs |-> TLCGet(3), windows |-> TLCGet(4)]))
        /\ UNCHANGED vars
Spec == Init /\ [][Step \/ Done]_vars
Accepted == NoBad
=============================================================================

---------------------------- MODULE Receiver_Trace ----------------------------
(* (V) for C17: one scenario = one upload history replayed against a fresh receiver (real router, real fMP4
   segments), one event per upload, observed at the quiescent point after the `process` hook event.
   Events:
     hdr   {hid, class, tsbd, masterTs, masterDur, initWindow, unshifted, names:[track], tracks:[{name, ts, late}]}
     up    {i, track, kind: "init"|"media", n (logical number of the history), nin (the encoder's number), sn / sdts (the number and
            decode time the segment must be stored under: = n / dts on an unshifted channel, else renumbered to time / duration
            and re-timed by the driver's own arithmetic, harness/drive/c17/shift.go), bx (stored bytes = uploaded bytes expected),
            status (-1: not answered), dts, dur, h (digest of the uploaded bytes),
            processed (the complete `process` event of this upload arrived), files: {track: [{n, h}]} (directory listings),
            cut (0 | 1 | 2: the body broke inside the first / a later fragment), frags,
            (files entries also carry the driver's own decoding of the stored file: ok, dts, dur, fr)
            mpd: {state: "absent"|"same"|"new", ok (complete document), as: [{ts, start, reps:[id], S:[{t, d, r}]}]},
            hook: {have, started, window, nrTracks, latest, fill:{track: k|-1}, blen:{..}, cfill, clen, maxBuf}}
     poll  {reads, bad, sample}   the concurrent reader of the MPD file during the uploads of the history
     crash {hid, i, track, n, msg, fn}   the receiver process died with a Go panic while this upload was in flight
     end   {hid, alive}
   Ground truth (dts, dur, h, the window) is the driver's own construction; nothing is taken from the receiver's tables
   except the hook scalars, which are the observed state the bounded clause speaks about. *)
EXTENDS TraceLib, ReceiverOps
VARIABLES l, h, upl, tried, lastB, startedPrev, pubSeen, curAs
vars == <<l, h, upl, tried, lastB, startedPrev, pubSeen, curAs>>
Clause(name, ok, detail) == ClauseAt(l, name, ok, detail)
e == Trace[l]
H == Trace[h]
Names == Range(H.names)
MaxBuf == MaxBufOf(H.tsbd, H.masterTs, H.masterDur)
Window == WindowOf(H.tsbd, H.masterTs, H.masterDur)
TrackTs(t) == LET i == CHOOSE j \in DOMAIN H.tracks : H.tracks[j].name = t IN H.tracks[i].ts
One(S) == CHOOSE x \in S : TRUE

Init == l = 1 /\ h = 1 /\ upl = {} /\ tried = {} /\ lastB = -1 /\ startedPrev = FALSE /\ pubSeen = FALSE /\ curAs = <<>> /\ MonitorInit

Hdr == /\ e.ev = "hdr"
       /\ h' = l /\ upl' = {} /\ tried' = {} /\ lastB' = -1 /\ startedPrev' = FALSE /\ pubSeen' = FALSE /\ curAs' = <<>>

Up == /\ e.ev = "up"
      /\ LET accepted == e.kind = "media" /\ e.status = 200
             \* sn / sdts: the number and decode time the segment is stored under (= n / dts on an unshifted channel)
             u    == [t |-> e.track, n |-> e.sn, dts |-> e.sdts, dur |-> e.dur, h |-> e.h, bx |-> e.bx]
             upl1 == IF accepted THEN {x \in upl : ~(x.t = e.track /\ x.n = e.sn)} \cup {u} ELSE upl
             tried1 == IF e.kind = "media" THEN tried \cup {[t |-> e.track, n |-> e.sn]} ELSE tried
             missing == NotStored(upl1, tried1, e.files, MaxBuf)
             W    == IF e.hook.started THEN Window ELSE H.initWindow
             pub  == e.mpd.state = "new" /\ e.mpd.ok
             b    == IF pub /\ Len(e.mpd.as) > 0 THEN NewestListed(e.mpd.as) ELSE lastB
             \* the AdaptationSets of the MPD that is on disk at this observation
             cur  == IF e.mpd.state = "new" THEN (IF e.mpd.ok THEN e.mpd.as ELSE <<>>)
                     ELSE IF e.mpd.state = "same" THEN curAs ELSE <<>>
         IN
         \* C17.progress: every upload is answered; every accepted media upload produces its process event
         /\ Clause("C17.progress.answered", e.status > 0, <<e.track, e.n>>)
         /\ Clause("C17.progress.processed", accepted => e.processed, <<e.track, e.n>>)
         \* C17.stored
         /\ Clause("C17.stored", missing = {},
                   IF missing = {} THEN <<>> ELSE <<"track", One(missing).t, "n", One(missing).n, "missing", Cardinality(missing)>>)
         \* C17.listed, judged when the MPD is (re)published: every listed number has a stored file and an ACCEPTED upload
         \* for every Representation (a refused / aborted upload leaves no trace in what is published)
         /\ IF pub
            THEN \A i \in DOMAIN e.mpd.as :
                   LET as     == e.mpd.as[i]
                       nofile == ListedWithoutFile(as, e.files, Names)
                       notacc == ListedNotAccepted(as, upl1, Names)
                   IN /\ Clause("C17.listed.files", nofile = {},
                                IF nofile = {} THEN <<>> ELSE <<"rep", One(nofile)[1], "n", One(nofile)[2], "first", FirstNr(as), "last", LastNr(as)>>)
                      /\ Clause("C17.listed.accepted", notacc = {},
                                IF notacc = {} THEN <<>> ELSE <<"rep", One(notacc)[1], "n", One(notacc)[2], "first", FirstNr(as), "last", LastNr(as)>>)
            ELSE TRUE
         \* C17.listed, judged at EVERY observation for the MPD then on disk: the listed <<t, d>> of every number equal
         \* the accepted upload's <<tfdt, duration>> and what the stored file says when decoded (if it is on disk)
         /\ \A i \in DOMAIN cur :
                   LET as     == cur[i]
                       sameTs == \A r \in Range(as.reps) : r \in Names /\ TrackTs(r) = as.ts
                       wrong  == IF sameTs THEN ListedWrongTime(as, upl1) ELSE {}
                       wrongD == IF sameTs THEN ListedWrongDecoded(as, e.files, Names) ELSE {}
                   IN /\ Clause("C17.listed.times", wrong = {},
                                IF wrong = {} THEN <<>> ELSE <<"rep", One(wrong)[1], "n", One(wrong)[2], "first", FirstNr(as), "S", as.S>>)
                      /\ Clause("C17.listed.decoded", wrongD = {},
                                IF wrongD = {} THEN <<>> ELSE <<"rep", One(wrongD)[1], "n", One(wrongD)[2], "first", FirstNr(as), "S", as.S,
                                                               "file", FileOf(e.files[One(wrongD)[1]], One(wrongD)[2])>>)
         \* C17.newest
         /\ Clause("C17.newest", NewestOK(lastB, b), <<"before", lastB, "now", b>>)
         \* C17.complete at the observation
         /\ Clause("C17.complete", (e.mpd.state # "absent" => e.mpd.ok) /\ (pubSeen => e.mpd.state # "absent"),
                   <<"state", e.mpd.state, "ok", e.mpd.ok>>)
         \* C17.bounded
         /\ Clause("C17.bounded.files", (startedPrev /\ accepted) => FilesBounded(Len(e.files[e.track]), MaxBuf),
                   <<"track", e.track, "files", Len(e.files[e.track]), "maxBuf", MaxBuf>>)
         /\ IF e.hook.have
            THEN /\ \A t \in Names :
                      Clause("C17.bounded.buffers", e.hook.fill[t] >= 0 => BufBounded(e.hook.fill[t], e.hook.blen[t], W),
                             <<"track", t, "fill", e.hook.fill[t], "len", e.hook.blen[t], "window", W>>)
                 /\ Clause("C17.bounded.counters", BufBounded(e.hook.cfill, e.hook.clen, W) /\ e.hook.cfill <= e.hook.clen,
                           <<"fill", e.hook.cfill, "len", e.hook.clen, "window", W>>)
            ELSE TRUE
         /\ upl' = upl1 /\ tried' = tried1 /\ lastB' = b /\ curAs' = cur
         /\ startedPrev' = (IF e.hook.have THEN e.hook.maxBuf > 0 ELSE startedPrev)
         /\ pubSeen' = (pubSeen \/ e.mpd.state # "absent")
         /\ UNCHANGED h

Poll == /\ e.ev = "poll"
        /\ Clause("C17.complete.poll", e.bad = 0, <<"reads", e.reads, "bad", e.bad, "sample", e.sample>>)
        /\ UNCHANGED <<h, upl, tried, lastB, startedPrev, pubSeen, curAs>>

\* C17.progress: no arrival order stops the receiver
Crash == /\ e.ev = "crash"
         /\ Clause("C17.progress.alive", FALSE, <<"fn", e.fn, "msg", e.msg, "track", e.track, "n", e.n>>)
         /\ UNCHANGED <<h, upl, tried, lastB, startedPrev, pubSeen, curAs>>

End == /\ e.ev = "end"
       /\ Clause("C17.progress.alive", e.alive, <<"hid", e.hid>>)
       /\ UNCHANGED <<h, upl, tried, lastB, startedPrev, pubSeen, curAs>>

Step == l <= Len(Trace) /\ (Hdr \/ Up \/ Poll \/ Crash \/ End) /\ l' = l + 1
Done == l = Len(Trace) + 1 /\ Consumed(Len(Trace)) /\ UNCHANGED vars
Spec == Init /\ [][Step \/ Done]_vars
Accepted == NoBad
=============================================================================

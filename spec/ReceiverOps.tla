---------------------------- MODULE ReceiverOps ----------------------------
(* Oracle for C17 (CMAF-ingest receiver: stored media and timeline MPD agree for any arrival order)
   as pure operators.  Shared by the explorer model (ReceiverImpl) and the trace spec (Receiver_Trace).
   The oracle never looks at the receiver's counters; it looks at
     uploads : what the driver sent and the receiver answered 200 (set of [t, n, dts, dur, h]),
     files   : the directory listing of storage/<ch>/<track>/ (numbers + digests),
     the parsed manifest_timeline_nr.mpd, and the scalars reported by the `process` hook.
   Readings: where the property text leaves room the most permissive reading is encoded and the
   choice is stated at the operator. *)
EXTENDS Integers, Sequences, FiniteSets

Range(s) == { s[i] : i \in DOMAIN s }
SetMax(S) == CHOOSE x \in S : \A y \in S : y <= x

(* ---- the window implied by timeShiftBufferDepth (driver constants: tsbd [s], master timescale, master
        segment duration).  windowSize = tsbd*ts/dur + 1 numbers, storage keeps one more. ---- *)
WindowOf(tsbd, ts, dur) == (tsbd * ts) \div dur + 1
MaxBufOf(tsbd, ts, dur) == (tsbd * ts) \div dur + 2

(* ---- C17.stored ----
   An accepted upload must be on disk under <track>/<number> with the uploaded content as long as it is
   inside the retention window.  Reading: number n of a track is inside the window iff n > newest - maxBuf,
   newest = highest number accepted on that track so far (the storage deletes number s - maxBuf when s arrives;
   before the window is known nothing may be deleted, which this reading does not even demand). *)
Retained(n, newest, maxBuf) == n > newest - maxBuf
NewestOf(upl, t) == LET ns == { u.n : u \in { x \in upl : x.t = t } } IN IF ns = {} THEN -1 ELSE SetMax(ns)
HasFile(listing, n) == \E i \in DOMAIN listing : listing[i].n = n
HasFileWith(listing, n, h) == \E i \in DOMAIN listing : listing[i].n = n /\ listing[i].h = h
\* the accepted uploads that violate C17.stored in an observation.  An upload record u = [t, n, dts, dur, h, bx]:
\* n / dts / dur are the number and times the segment must be STORED under (on a shifted channel the renumbered /
\* re-timed ones, see harness/drive/c17/shift.go; otherwise the uploaded ones), bx: the stored bytes must be the uploaded
\* bytes (unshifted channel, timescale unchanged) - otherwise the stored file, decoded, must have that time and duration.
\* tried: [t, n] of EVERY media upload sent so far, accepted or refused - the storage also makes room when an upload
\* is refused later on, so "newest" is the highest number the track has tried to deliver (the weaker demand).
HasFileLike(listing, n, dts, dur) == \E i \in DOMAIN listing : listing[i].n = n /\ listing[i].ok /\ listing[i].dts = dts /\ listing[i].dur = dur
NotStored(upl, tried, files, maxBuf) ==
  { u \in upl : /\ Retained(u.n, NewestOf(tried, u.t), maxBuf)
                /\ ~ (IF u.bx THEN HasFileWith(files[u.t], u.n, u.h) ELSE HasFileLike(files[u.t], u.n, u.dts, u.dur)) }

(* ---- C17.listed ----
   S elements arrive as [t, d, r] with t = -1 when the attribute is absent; the expansion is the list of
   <<start, duration>> of the segments startNumber, startNumber+1, ... (a contiguous range by construction
   of SegmentTimeline + startNumber). *)
RECURSIVE ExpandFrom(_, _, _)
ExpandFrom(S, i, t0) ==
  IF i > Len(S) THEN <<>>
  ELSE LET s == S[i]
           t == IF s.t >= 0 THEN s.t ELSE t0
       IN [j \in 1..(s.r + 1) |-> <<t + (j - 1) * s.d, s.d>>] \o ExpandFrom(S, i + 1, t + (s.r + 1) * s.d)
Expand(S) == ExpandFrom(S, 1, 0)
\* numbers of an AdaptationSet entry [start, S, reps, ts]
FirstNr(as) == as.start
LastNr(as) == as.start + Len(Expand(as.S)) - 1
\* (rep, k) pairs the MPD lists without a stored file
ListedWithoutFile(as, files, known) ==
  { <<r, k>> \in Range(as.reps) \X (FirstNr(as)..LastNr(as)) : ~ (r \in known /\ HasFile(files[r], k)) }
\* (rep, k) pairs whose listed <<t, d>> differ from the uploaded segment's <<dts, dur>> (same timescale)
ListedWrongTime(as, upl) ==
  LET segs == Expand(as.S) IN
  { <<r, k>> \in Range(as.reps) \X (FirstNr(as)..LastNr(as)) :
       \E u \in upl : u.t = r /\ u.n = k /\ segs[k - FirstNr(as) + 1] # <<u.dts, u.dur>> }
\* (rep, k) pairs the MPD lists although no upload of that number was ACCEPTED for the Representation (a refused /
\* aborted upload must leave no trace in what is published)
ListedNotAccepted(as, upl, known) ==
  { <<r, k>> \in Range(as.reps) \X (FirstNr(as)..LastNr(as)) : r \in known /\ ~ \E u \in upl : u.t = r /\ u.n = k }
\* (rep, k) pairs whose listed <<t, d>> differ from what the stored file itself says when it is decoded
\* (listing entries [n, h, ok, dts, dur]: decode time of the first fragment, sum of the durations of all fragments);
\* judged for the numbers whose file is on disk
FileOf(listing, n) == listing[CHOOSE i \in DOMAIN listing : listing[i].n = n]
ListedWrongDecoded(as, files, known) ==
  LET segs == Expand(as.S) IN
  { <<r, k>> \in Range(as.reps) \X (FirstNr(as)..LastNr(as)) :
       r \in known /\ HasFile(files[r], k) /\
       LET f == FileOf(files[r], k) IN ~ (f.ok /\ segs[k - FirstNr(as) + 1] = <<f.dts, f.dur>>) }
\* the same two demands on the explorer's abstraction of the MPD (<<first, last>>, reps, files as sets of numbers)
ListedModelOK(range, reps, fileNrs) == \A r \in reps : \A k \in range[1]..range[2] : k \in fileNrs[r]

(* ---- C17.newest: the newest listed number never decreases ---- *)
NewestListed(mpdAS) == SetMax({ LastNr(mpdAS[i]) : i \in DOMAIN mpdAS })
NewestOK(prev, now) == prev <= now

(* ---- C17.bounded ----
   Reading (the weakest of "count" and "range"): a track's directory holds at most maxBuf + 1 media
   segments, judged only when an upload of that track was stored while the window was known (then the
   storage had its chance to delete).  Buffers: fill and capacity of every per-track buffer and of the
   counter array are at most the window in force. *)
FilesBounded(nFiles, maxBuf) == nFiles <= maxBuf + 1
BufBounded(fill, len, window) == fill <= window /\ len <= window
=============================================================================

--------------------------- MODULE ReceiverShift ---------------------------
(* (M) for X02: implementation-shaped model of the start-up detection and of the time / sequence-number
   normalisation of the CMAF-ingest receiver (channel.go receivedSegData, receiver.go chunkParserCallback),
   judged by the oracle ReceiverShiftOps, on small constants:  one channel with the master (video) track V
   in timescale Tm and a second track A in timescale Ta (ticks per abstract second), segments of DSec
   seconds, first master time t0, sender numbers "off by k" from time/duration, configured startNr,
   optionally one leading shorter segment, the two tracks uploaded round by round in either order.
   One behaviour = one upload script; uploads are sequential (each is processed by the channel goroutine
   before the next one starts, as in the driver).

   Arith = "code"    : the arithmetic of the repository now (after the fix commits 485e2ba, 1f99b5d): the shift is
                       converted once to the track's timescale (masterTimeShift*tsIn/tsMaster, one rounding), the number
                       is the nearest grid index in exact arithmetic, minus startNr.
   Arith = "proposed": the same without the startNr subtraction (proposed_fixes/X02-number-from-time-without-startnr.diff,
                       open finding: a maintainer's call).
   Arith = "orig"    : the arithmetic before the fix commits, kept as design history (round trip through the master
                       timescale with two integer divisions; number = nearest(time / floor(segment duration)) - startNr).
   64-bit overflow is not modelled (TLC integers are 32 bit; the numbers here are small).

   Invariants: the clauses of the oracle that do not need the stored file (X02.shift.*, X02.time.*, X02.grid,
   X02.number, X02.mpd.number for manifest.mpd with startNumber = 0, duration = D).
   GEN: every terminal state prints the script and the model's prediction; harness/drive/x02 replays the scripts
   with real fMP4 segments (scaled to 90000/48000, 12800/48000, ... ticks) - the prediction is only compared for
   fidelity, never for a verdict.                                                                          *)
EXTENDS Integers, Sequences, FiniteSets, TLC, Json, ReceiverShiftOps
CONSTANTS Tm, Ta, DSecs, T0s, Ks, StartNrs, Shorts, NSeg, Arith
ASSUME Arith \in {"code", "proposed", "orig"}
VARIABLES par, step, chan, stored
vars == <<par, step, chan, stored>>

GCD(a, b) == CHOOSE g \in 1..a : a % g = 0 /\ b % g = 0 /\ \A h \in (g+1)..a : ~(a % h = 0 /\ b % h = 0)
F   == (Tm * Ta) \div GCD(Tm, Ta)            \* fine units per second
Ts(x)  == IF x = "V" THEN Tm ELSE Ta
U(x)   == F \div Ts(x)                       \* fine units per tick of track x
V      == F \div Tm
S      == par.D * V
Pair(x, t) == <<(t * U(x)) \div S, (t * U(x)) % S>>

NoPrev == [n |-> -1, t |-> 0, dur |-> 0]
Chan0 == [tuned |-> FALSE, D |-> 0, ts |-> 0, ss |-> 0, prev |-> NoPrev]

(* ---- the upload script *)
Tracks == IF par.afirst THEN <<"A", "V">> ELSE <<"V", "A">>
Total == 2 * NSeg
TrackAt(i) == Tracks[(i % 2) + 1]
SegAt(i) == i \div 2
\* master time of segment j (j = NSeg: end of the last one); a leading short segment lasts one second
TM(j) == IF par.short = 1 THEN (IF j = 0 THEN par.t0 ELSE par.t0 + Tm + (j - 1) * par.D) ELSE par.t0 + j * par.D
TIn(x, j) == IF x = "V" THEN TM(j) ELSE (TM(j) * Ta) \div Tm
DurIn(x, j) == TIn(x, j + 1) - TIn(x, j)
NIn(j) == (par.t0 \div par.D) + par.k + par.startNr + j

(* ---- receiver.go: number and time of a segment whose upload starts in channel state c *)
Nearest(t, d) == (t + d \div 2) \div d
OutOf(x, j, c) ==
   LET tin  == TIn(x, j)
       sh   == c.ss # 0 \/ c.ts # 0
       tx   == Ts(x)
       tsh  == IF ~sh \/ c.ts = 0 THEN tin
               ELSE IF Arith # "orig" THEN tin + (c.ts * tx) \div Tm
               ELSE (((IF tx # Tm THEN (tin * Tm) \div tx ELSE tin) + c.ts) * tx) \div Tm
       sd   == (c.D * tx) \div Tm
       n    == IF ~sh THEN NIn(j) - par.startNr
               ELSE IF Arith = "orig" THEN Nearest(tsh, sd) - par.startNr
               ELSE (2 * tsh * Tm + c.D * tx) \div (2 * c.D * tx) - (IF Arith = "code" THEN par.startNr ELSE 0)
   IN [tr |-> x, j |-> j, n |-> n, nin |-> NIn(j), t |-> tsh, tin |-> tin, dur |-> DurIn(x, j), post |-> c.tuned, sh |-> sh]

(* ---- channel.go: the channel goroutine handles the completed segment r *)
Process(c, r) ==
   IF c.tuned \/ r.tr # "V" THEN c
   ELSE IF c.prev.n >= 0 /\ r.n = c.prev.n + 1 /\ r.dur = c.prev.dur
        THEN LET d   == r.dur
                 e0  == c.prev.t \div d
                 ov  == c.prev.t % d
             IN [tuned |-> TRUE, D |-> d, ts |-> IF ov = 0 THEN 0 ELSE d - ov,
                 ss |-> e0 - c.prev.n + (IF ov = 0 THEN 0 ELSE 1), prev |-> c.prev]
        ELSE [c EXCEPT !.prev = [n |-> r.n, t |-> r.t, dur |-> r.dur]]

Init == /\ par \in {p \in {[D |-> ds * Tm, t0 |-> t0, k |-> k, startNr |-> sn, short |-> sh, afirst |-> af] :
                               ds \in DSecs, t0 \in T0s, k \in Ks, sn \in StartNrs, sh \in Shorts, af \in BOOLEAN} :
                      (p.t0 \div p.D) + p.k >= 0}     \* the sender's numbers are never below startNr
        /\ step = 0 /\ chan = Chan0 /\ stored = <<>>

Upload == /\ step < Total
          /\ LET r == OutOf(TrackAt(step), SegAt(step), chan) IN
             /\ stored' = Append(stored, r)
             /\ chan' = Process(chan, r)
          /\ step' = step + 1
          /\ UNCHANGED par
Terminal == step = Total
Next == Upload \/ (Terminal /\ UNCHANGED vars)
Spec == Init /\ [][Next]_vars

(* ------------------------------------------------------------------ the oracle's view of the script *)
PairIdx == par.short                                 \* the first two consecutive equal master durations
OTuned == step >= 2 * PairIdx + (IF par.afirst THEN 4 ELSE 3)
OT0 == <<TM(PairIdx) \div par.D, TM(PairIdx) % par.D>>     \* grid index, remainder in master ticks
ON0 == NIn(PairIdx) - par.startNr
OTimeShift == TimeShiftOf(par.D, OT0[2])
OSeqShift == SeqShiftOf(OT0[1], OT0[2], ON0)
OShifted == ShiftedMode(OSeqShift, OTimeShift)

\* X02.tune.when / X02.shift.time / X02.shift.seq / X02.shift.duration
InvTune == /\ chan.tuned = OTuned
           /\ chan.tuned => /\ chan.D = par.D /\ chan.ts = OTimeShift /\ chan.ss = OSeqShift

Post(r) == r.post /\ OShifted
\* X02.time.shift: stored time = uploaded time + shift (exact when every conversion is exact)
TimeInv(r) == LET x == r.tr
                  tin == Pair(x, r.tin)
                  got == Pair(x, r.t)
                  ex  == ExactShift(tin, OTimeShift, V, U(x), U(x), 0, S)
              IN TimeOK(ExpTime(tin, OTimeShift, V, S), got, ex, V + 2 * U(x), S)
InvTime == \A i \in DOMAIN stored : Post(stored[i]) => TimeInv(stored[i])
\* the same, demanding the exact shift whenever the shift itself is a whole number of the track's ticks
\* (holds for the single conversion of the present code; the original round trip also kept it for grid-coinciding tracks)
InvTimeExactShift == \A i \in DOMAIN stored : LET r == stored[i] IN
     (Post(r) /\ (OTimeShift * V) % U(r.tr) = 0) => Pair(r.tr, r.t) = ExpTime(Pair(r.tr, r.tin), OTimeShift, V, S)
\* X02.grid / X02.number: every stored (and therefore every listed) (n, t) after tune-in is on the grid
InvGrid == \A i \in DOMAIN stored : LET r == stored[i] IN
     Post(r) => IF r.tr = "V" THEN GridEither(r.n, par.startNr, Pair("V", r.t))
                ELSE NumberEither(r.n, par.startNr, Pair("A", r.t), S)
\* X02.name.keep / X02.time.keep
InvKeep == \A i \in DOMAIN stored : LET r == stored[i] IN
     ~Post(r) => r.n = r.nin - par.startNr /\ r.t = r.tin
\* X02.mpd.number for manifest.mpd as the receiver writes it: startNumber 0, duration D (exact for the master)
InvManifest == \A i \in DOMAIN stored : LET r == stored[i] IN
     (Post(r) /\ r.tr = "V") => MpdExact(r.n, Pair("V", r.t), 0, 0, 1, S)
\* non-vacuity witnesses (expected to be violated)
NeverShifted == ~(Terminal /\ OShifted /\ chan.tuned)
NeverKept == ~(Terminal /\ ~OShifted /\ chan.tuned)

Emit == Terminal => PrintT("GEN" \o ToJson(
   [Tm |-> Tm, Ta |-> Ta, dsec |-> par.D \div Tm, t0 |-> par.t0, k |-> par.k, startNr |-> par.startNr, short |-> par.short,
    afirst |-> par.afirst, nseg |-> NSeg, tuned |-> chan.tuned, ts |-> chan.ts, ss |-> chan.ss,
    stored |-> [i \in DOMAIN stored |-> <<IF stored[i].tr = "V" THEN 0 ELSE 1, stored[i].n, stored[i].t>>]]))
=============================================================================

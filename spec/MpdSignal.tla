---------------------------- MODULE MpdSignal ----------------------------
(* (M) + (R) for X01.
   TLC enumerates ABSTRACT URL configurations r = [mode, asset, parts] - every (key, value class) singly, every pair of
   keys that may be given together, and a list of triples - as initial states, and
     (R) prints each one as a JSON line (prefix GEN) that harness/drive/x01 concretises (seeded representatives per
         value class) and sends to the real server, plus one line SIGCLS with the fact classes the value clauses read;
     (M) checks the ORACLE on every element against an abstract MPD generator Ideal (what a faithful server returns,
         as a fact set): InvAccept - every value clause accepts Ideal (the clauses are satisfiable together);
         InvSensitive - an MPD that ignores one given parameter is rejected by some clause; InvIndep - Ideal obeys the
         independence clause for every given key; and, independent of the configuration (ASSUME), that the Governs sets
         of keys the documentation treats as independent are disjoint (DisjointOK) and those of dependent keys really
         overlap (DependentOK).                                                                                      *)
EXTENDS MpdSignalOps, Json

CONSTANTS
   Modes, Assets,            \* used with single parameters
   PairModes, PairAssets,    \* used with pairs and triples
   SingleAll,                \* TRUE: all value classes singly; FALSE: the pair classes only (smoke)
   BigTimeline               \* TRUE: tsbd_172800 also with a SegmentTimeline (86400 S-expanded segments per AdaptationSet)

VARIABLE r

KeySeq == <<"tsbd", "mup", "spd", "snr", "start", "ast", "startrel", "stoprel", "utc", "ato", "chunkdur", "ltgt", "patch",
            "timesubsstpp", "timesubswvtt", "scte35", "annexI", "traffic", "periods", "continuous", "eccp", "drm">>
\* (drm_<name>: requests with drm_ go to a second server instance that has the repository's test DRM configuration)
ASSUME SeqSet(KeySeq) = Keys /\ Len(KeySeq) = Cardinality(Keys)
NK == Len(KeySeq)

ClassesOf(k) ==
   CASE k = "tsbd" -> {"0", "1", "typ", "max"}      [] k = "mup" -> {"1", "typ", "big"}      [] k = "spd" -> {"0", "typ"}
     [] k = "snr" -> {"0", "1", "typ", "m1"}
     [] k = "start" -> {"1", "typ"}                 [] k = "ast" -> {"typ"}                  [] k = "startrel" -> {"m1", "typ"}
     [] k = "stoprel" -> {"typ"}
     [] k = "utc" -> UtcMethods \cup {"none", "keep", "multi", "all"}
     [] k = "ato" -> {"typ", "ms", "inf"}           [] k = "chunkdur" -> {"typ"}             [] k = "ltgt" -> {"typ", "1"}
     [] k = "patch" -> {"0", "1", "typ"}
     [] k \in {"timesubsstpp", "timesubswvtt"} -> {"one", "two", "three"}
     [] k = "scte35" -> {"1", "2", "3"}             [] k = "annexI" -> {"one", "two"}        [] k = "traffic" -> {"one", "two", "three"}
     [] k = "periods" -> {"typ", "alt"}             [] k = "continuous" -> {"1"}             [] k = "eccp" -> {"cenc", "cbcs"}
     [] k = "drm" -> {"k1", "k2"}
PairClass(k) ==
   CASE k \in {"tsbd", "mup", "spd", "snr", "start", "ast", "startrel", "stoprel", "ato", "chunkdur", "ltgt", "patch", "periods"} -> "typ"
     [] k = "utc" -> "multi"   [] k \in {"timesubsstpp", "timesubswvtt", "traffic", "annexI"} -> "two"
     [] k = "scte35" -> "2"    [] k = "continuous" -> "1"   [] k = "eccp" -> "cbcs"   [] k = "drm" -> "k2"

\* representative concrete values for the model (the driver draws seeded ones from the same classes)
Langs == <<"en", "sv", "de">>
Take(s, n) == [i \in 1..n |-> s[i]]
NOf(cl) == CASE cl = "one" -> 1 [] cl = "two" -> 2 [] cl = "three" -> 3
Apply(c, p) ==
   CASE p.k = "tsbd" -> [c EXCEPT !.tsbd = CASE p.c = "0" -> 0 [] p.c = "1" -> 1 [] p.c = "typ" -> 30 [] p.c = "max" -> 172800]
     [] p.k = "mup"  -> [c EXCEPT !.mup = CASE p.c = "1" -> 1 [] p.c = "typ" -> 7 [] p.c = "big" -> 100000]
     [] p.k = "spd"  -> [c EXCEPT !.spd = CASE p.c = "0" -> 0 [] p.c = "typ" -> 12]
     [] p.k = "snr"  -> [c EXCEPT !.snr = CASE p.c = "0" -> 0 [] p.c = "1" -> 1 [] p.c = "typ" -> 44 [] p.c = "m1" -> -1]
     [] p.k = "start" -> [c EXCEPT !.start = CASE p.c = "1" -> 1 [] p.c = "typ" -> 1000, !.startkey = "start"]
     [] p.k = "ast"  -> [c EXCEPT !.start = 1000, !.startkey = "ast"]
     [] p.k = "startrel" -> [c EXCEPT !.startrel = CASE p.c = "m1" -> -1 [] p.c = "typ" -> -600]
     [] p.k = "stoprel"  -> [c EXCEPT !.stoprel = 300]
     [] p.k = "utc"  -> [c EXCEPT !.utc = CASE p.c = "multi" -> <<"ntp", "direct", "httpiso">>
                                            [] p.c = "all" -> <<"head", "direct", "ntp", "sntp", "httpxsdate", "httpxsdatems", "httpiso", "httpisoms">>
                                            [] OTHER -> <<p.c>>]
     [] p.k = "ato"  -> [c EXCEPT !.ato = CASE p.c = "typ" -> 1000 [] p.c = "ms" -> 1234 [] p.c = "inf" -> -1]
     [] p.k = "chunkdur" -> [c EXCEPT !.chunkdur = 500]
     [] p.k = "ltgt" -> [c EXCEPT !.ltgt = CASE p.c = "typ" -> 5000 [] p.c = "1" -> 1]
     [] p.k = "patch" -> [c EXCEPT !.patch = CASE p.c = "0" -> 0 [] p.c = "1" -> 1 [] p.c = "typ" -> 20]
     [] p.k = "timesubsstpp" -> [c EXCEPT !.stpp = Take(Langs, NOf(p.c))]
     [] p.k = "timesubswvtt" -> [c EXCEPT !.wvtt = Take(Langs, NOf(p.c))]
     [] p.k = "scte35" -> [c EXCEPT !.scte35 = CASE p.c = "1" -> 1 [] p.c = "2" -> 2 [] p.c = "3" -> 3]
     [] p.k = "annexI" -> [c EXCEPT !.annexI = NOf(p.c)]
     [] p.k = "traffic" -> [c EXCEPT !.traffic = NOf(p.c)]
     [] p.k = "periods" -> [c EXCEPT !.periods = CASE p.c = "typ" -> 60 [] p.c = "alt" -> 30]
     [] p.k = "continuous" -> [c EXCEPT !.continuous = TRUE]
     [] p.k = "eccp" -> [c EXCEPT !.eccp = p.c]
     [] p.k = "drm" -> [c EXCEPT !.drm = "pkg-" \o p.c]
Concrete(parts) == LET C[i \in 0..Len(parts)] == IF i = 0 THEN NoCfg ELSE Apply(C[i-1], parts[i]) IN C[Len(parts)]

\* model environments per asset class (the driver takes the real ones from its own parse of the VoD MPD)
AV == <<<<"A48", "audio">>, <<"V300", "video">>>>
EnvOf(asset, mode, parts) ==
   [mode |-> mode,
    segMin |-> CASE asset = "irr" -> 1333 [] asset = "s8" -> 8000 [] OTHER -> 2000,
    segMax |-> CASE asset = "irr" -> 1340 [] asset = "s8" -> 8000 [] OTHER -> 2000,
    vas |-> CASE asset = "thumbs" -> AV \o <<<<"thumbs", "image">>>>
              [] asset = "imsc1" -> AV \o <<<<"imsc1_img_en", "text">>, <<"imsc1_txt_sv", "text">>>>
              [] OTHER -> AV,
    vodId |-> IF asset = "plain" THEN "base" ELSE "",
    vodIds |-> asset = "plain",
    vodUtc |-> IF asset = "utcvod" THEN <<<<"urn:mpeg:dash:utc:http-head:2014", "https://vod.example/time">>,
                                          <<"urn:mpeg:dash:utc:direct:2014", "">>>> ELSE <<>>,
    host |-> "http://h",
    drmScheme |-> "cbcs",
    url |-> <<[k |-> "", raw |-> "livesim2"]>> \o [i \in 1..Len(parts) |-> [k |-> parts[i].k, raw |-> parts[i].k \o "_" \o parts[i].c]]
               \o <<[k |-> "", raw |-> asset], [k |-> "", raw |-> "Manifest.mpd"]>>]
Now0 == <<1700000000, 500>>

Rec(mode, asset, parts) == [mode |-> mode, asset |-> asset, parts |-> parts]
Part(k, cl) == [k |-> k, c |-> cl]
Valid(q) == /\ ValidCfg(Concrete(q.parts), q.mode)
            /\ \A i, j \in DOMAIN q.parts : i # j => (q.parts[i].k # q.parts[j].k /\ ~Exclusive(q.parts[i].k, q.parts[j].k))
            /\ (\E i \in DOMAIN q.parts : q.parts[i].k = "periods") => q.asset \notin {"irr"}      \* C06 covers varying durations
            /\ (\E i \in DOMAIN q.parts : q.parts[i].k = "tsbd" /\ q.parts[i].c = "max") => (BigTimeline \/ q.mode = "number")

Singles ==
   \E k \in Keys : \E cl \in (IF SingleAll THEN ClassesOf(k) ELSE {PairClass(k)}), m \in Modes, a \in Assets :
      r = Rec(m, a, <<Part(k, cl)>>)
Pairs ==
   \E i \in 1..NK, j \in 1..NK, m \in PairModes, a \in PairAssets :
      /\ i < j
      /\ r = Rec(m, a, <<Part(KeySeq[i], PairClass(KeySeq[i])), Part(KeySeq[j], PairClass(KeySeq[j]))>>)
TripleKeys == { <<"ato", "chunkdur", "ltgt">>, <<"patch", "timesubsstpp", "timesubswvtt">>, <<"startrel", "stoprel", "patch">>,
                <<"periods", "continuous", "scte35">>, <<"periods", "continuous", "patch">>, <<"start", "ato", "chunkdur">>,
                <<"periods", "continuous", "timesubsstpp">>, <<"eccp", "patch", "annexI">>, <<"startrel", "ato", "chunkdur">> }
Triples ==
   \E t \in TripleKeys, m \in PairModes, a \in PairAssets :
      r = Rec(m, a, [i \in 1..3 |-> Part(t[i], PairClass(t[i]))])
Bare == \E m \in Modes, a \in Assets : r = Rec(m, a, <<>>)

Init == (Singles \/ Pairs \/ Triples \/ Bare) /\ Valid(r)
Next == UNCHANGED r
Spec == Init /\ [][Next]_r

\* ------------------------------------------------------------------ the abstract faithful MPD generator
Fa(per, scope, cl, as, inst, v) == <<per, scope, cl, as, inst, v>>
MinOf(S) == CHOOSE x \in S : \A y \in S : x <= y
RawPath(e) == JoinParts([i \in 1..Len(e.url) |-> e.url[i].raw])

Ideal(c, e, now) ==
   LET a   == MinOf(AstReadings(c, now))
       s   == MinOf(StopReadings(c, now))
       tlv == ToString(EffTsbd(c)) \o ":" \o Sec(a) \o ":" \o AtoStr(c) \o ":" \o ToString(c.periods)
       pers == IF c.periods = 0 THEN <<"P0">> ELSE <<"P7", "P8">>
       utc == CASE c.utc = <<>> -> <<<<"urn:mpeg:dash:utc:http-xsdate:2014", "https://t/?iso&ms">>>>
                [] c.utc = <<"none">> -> <<>>
                [] c.utc = <<"keep">> -> e.vodUtc
                [] OTHER -> [i \in 1..Len(c.utc) |-> <<SchemeOf(c.utc[i]), IF c.utc[i] = "direct" THEN Sec(now[1]) ELSE "v:" \o c.utc[i]>>]
       top == {Fa("", "MPD", "@type", "", "", "dynamic"),
               Fa("", "MPD", "@timeShiftBufferDepth", "", "", Ms(EffTsbd(c))),
               Fa("", "MPD", "@minimumUpdatePeriod", "", "", IF c.mup > 0 THEN Ms(c.mup) ELSE ToString(e.segMin)),
               Fa("", "MPD", "@availabilityStartTime", "", "", Sec(a)),
               Fa("", "MPD", "@publishTime", "", "", IF e.mode = "number" THEN Sec(a) ELSE Sec(now[1]) \o AtoStr(c)),
               Fa("", "MPD", "#periods", "", "", IF c.periods = 0 THEN "P0" ELSE "P7 P8")}
              \cup (IF c.spd >= 0 THEN {Fa("", "MPD", "@suggestedPresentationDelay", "", "", Ms(c.spd))} ELSE {})
              \cup (IF c.startrel # 0 \/ c.stoprel # 0 THEN {Fa("", "MPD", "Location#text", "", "Location[1]", e.host \o LocPath(e, a, s))} ELSE {})
              \cup { Fa("", "MPD", "UTCTiming@schemeIdUri", "", UInst(i), utc[i][1]) : i \in DOMAIN utc }
              \cup { Fa("", "MPD", "UTCTiming@value", "", UInst(i), utc[i][2]) : i \in { j \in DOMAIN utc : utc[j][2] # "" } }
              \cup (IF LowLat(c) THEN {Fa("", "MPD", "ServiceDescription@id", "", "ServiceDescription[1]", "0"),
                                       Fa("", "MPD", "ServiceDescription/Latency@target", "", "ServiceDescription[1]/Latency[1]", ToString(EffLtgt(c))),
                                       Fa("", "MPD", "ServiceDescription/PlaybackRate@max", "", "ServiceDescription[1]/PlaybackRate[1]", "1.04")}
                    ELSE {})
              \cup (IF c.patch > 0 THEN {Fa("", "MPD", "PatchLocation@ttl", "", "PatchLocation[1]", ToString(c.patch)),
                                         Fa("", "MPD", "PatchLocation#text", "", "PatchLocation[1]", "/patch" \o RawPath(e))}
                    ELSE {})
              \cup (IF e.vodId # "" THEN {Fa("", "MPD", "@id", "", "", e.vodId)}
                    ELSE IF c.patch > 0 THEN {Fa("", "MPD", "@id", "", "", "auto")} ELSE {})
       Common(p, j, sc, key) ==      \* what every AdaptationSet (VoD or generated) carries
              (IF e.mode = "number" THEN (IF EffSnr(c) = -1 /\ c.periods = 0 THEN {}
                                          ELSE {Fa(p, sc, "SegmentTemplate@startNumber", key, "SegmentTemplate[1]", ToString(EffSnr(c) + (IF c.periods = 0 THEN 0 ELSE j)))})
               ELSE {Fa(p, sc, "SegmentTemplate/SegmentTimeline/S@t", key, "SegmentTemplate[1]/SegmentTimeline[1]/S[1]", tlv \o p)}
                    \cup (IF e.mode = "tlnr" THEN {Fa(p, sc, "SegmentTemplate@startNumber", key, "SegmentTemplate[1]", ToString(EffSnr(c) + 7))} ELSE {}))
              \cup (IF c.periods # 0 THEN {Fa(p, sc, "SegmentTemplate@presentationTimeOffset", key, "SegmentTemplate[1]", ToString(j))} ELSE {})
              \cup (IF c.continuous THEN {Fa(p, sc, CONT \o "@schemeIdUri", key, CONT \o "[1]", "urn:mpeg:dash:period-continuity:2015"),
                                          Fa(p, sc, CONT \o "@value", key, CONT \o "[1]", "1")} ELSE {})
       VodAs(p, j, i) ==
          LET key == e.vas[i][1]  ct == e.vas[i][2]  sc == "AS:" \o ct
          IN {Fa(p, sc, "#ct", key, "", ct), Fa(p, sc, "#pos", key, "", ToString(i)), Fa(p, sc, "@contentType", key, "", ct),
              Fa(p, sc, "Representation@id", key, "Representation[1]", key)}
             \cup Common(p, j, sc, key)
             \cup (IF e.vodIds \/ c.patch > 0 THEN {Fa(p, sc, "@id", key, "", ToString(i))} ELSE {})
             \cup (IF c.ato # 0 THEN {Fa(p, sc, ATO, key, "SegmentTemplate[1]", AtoStr(c))} ELSE {})
             \cup (IF c.chunkdur # 0 THEN {Fa(p, sc, ATC, key, "SegmentTemplate[1]", "false")} ELSE {})
             \cup (IF LowLat(c) THEN {Fa(p, sc, "ProducerReferenceTime@wallClockTime", key, "ProducerReferenceTime[1]", Sec(a)),
                                      Fa(p, sc, "ProducerReferenceTime@presentationTime", key, "ProducerReferenceTime[1]", "0")} ELSE {})
             \cup (IF ct = "video" /\ c.scte35 # 0
                   THEN {Fa(p, sc, "InbandEventStream{urn:scte:scte35:2013:bin}@schemeIdUri", key, "InbandEventStream{urn:scte:scte35:2013:bin}[1]", "urn:scte:scte35:2013:bin")}
                   ELSE {})
             \cup (IF ct = "video" /\ c.annexI # 0
                   THEN {Fa(p, sc, EP \o "@schemeIdUri", key, EP \o "[1]", "urn:mpeg:dash:urlparam:2014"),
                         Fa(p, sc, EP \o "/UrlQueryInfo@useMPDUrlQuery", key, EP \o "[1]/UrlQueryInfo[1]", "true"),
                         Fa(p, sc, EP \o "/UrlQueryInfo@queryTemplate", key, EP \o "[1]/UrlQueryInfo[1]", "$querypart$")}
                   ELSE {})
             \cup (IF ct \in {"video", "audio"} /\ (c.eccp # "" \/ c.drm # "")
                   THEN {Fa(p, sc, "ContentProtection@schemeIdUri", key, MP4P, "urn:mpeg:dash:mp4protection:2011"),
                         Fa(p, sc, "ContentProtection@value", key, MP4P, CencScheme(c, e)),
                         Fa(p, sc, "ContentProtection@default_KID", key, MP4P, "kid:" \o RawPath(e)),
                         Fa(p, sc, "ContentProtection@schemeIdUri", key, "ContentProtection{urn:uuid:ck}[1]", "urn:uuid:ck"),
                         Fa(p, sc, "ContentProtection/Laurl#text", key, "ContentProtection{urn:uuid:ck}[1]/Laurl[1]", e.host \o RawPath(e) \o "/eccp.json")}
                   ELSE {})
       PlusAs(p, j, sc, pre, langs) ==
          UNION { LET key == pre \o langs[i]
                  IN {Fa(p, sc, "#ct", key, "", "text"), Fa(p, sc, "#codecs", key, "", pre), Fa(p, sc, "@lang", key, "", langs[i]),
                      Fa(p, sc, "@id", key, "", ToString((IF pre = "timestpp-" THEN 100 ELSE 200) + i))} \cup Common(p, j, sc, key)
                  : i \in DOMAIN langs }
       Period(j) ==
          LET p == pers[j]
          IN {Fa(p, "Period", "@id", "", "", p), Fa(p, "Period", "@start", "", "", ToString(j)), Fa(p, "Period", "#pos", "", "", ToString(j))}
             \cup { Fa(p, "Period", "BaseURL#text", "", "BaseURL[" \o ToString(i) \o "]", "bu" \o ToString(i) \o "/") : i \in 1..c.traffic }
             \cup UNION { VodAs(p, j, i) : i \in DOMAIN e.vas }
             \cup PlusAs(p, j, "AS+:stpp", "timestpp-", c.stpp) \cup PlusAs(p, j, "AS+:wvtt", "timewvtt-", c.wvtt)
   IN top \cup UNION { Period(j) : j \in DOMAIN pers }

\* ------------------------------------------------------------------ invariants
Cfg == Concrete(r.parts)
Env == EnvOf(r.asset, r.mode, r.parts)
TypeOK == /\ r.mode \in {"number", "time", "tlnr"} /\ Len(r.parts) <= 3
          /\ \A i \in DOMAIN r.parts : r.parts[i].k \in Keys /\ r.parts[i].c \in ClassesOf(r.parts[i].k)
          /\ KeysOf(Cfg) = { r.parts[i].k : i \in DOMAIN r.parts }

InvAccept == Failing(Cfg, Env, Now0, Ideal(Cfg, Env, Now0)) = {}

\* removing key k leaves a configuration that is served
Removable(k) == ValidCfg(Remove(Cfg, k), r.mode)
\* the clauses notice a server that ignores k (exceptions: values that equal the default behaviour, and what this
\* specification leaves to C06 - the period structure itself)
Sensitive(k) ==
   /\ Removable(k)
   /\ k # "periods"
   /\ (k = "snr" => (r.mode = "number" /\ Cfg.periods = 0 /\ Cfg.snr # 0))
   /\ (k = "ltgt" => LowLat(Cfg))
   /\ (k = "patch" => Cfg.patch > 0)
   /\ (k = "utc" => Cfg.utc \notin {<<"httpxsdate">>, <<"httpxsdatems">>, <<"httpiso">>, <<"httpisoms">>, <<"keep">>})
InvSensitive == \A k \in KeysOf(Cfg) : Sensitive(k) => Failing(Cfg, Env, Now0, Ideal(Remove(Cfg, k), Env, Now0)) # {}

\* the symmetric difference the driver computes: per Period against the single Period when k = periods
Strip(F, p) == { <<"", f[2], f[3], f[4], f[5], f[6]>> : f \in { g \in F : g[1] \in {"", p} } }
SymDiff(A, B) == (A \ B) \cup (B \ A)
Both(A, B) == {""} \cup (PeriodsOf(A) \cap PeriodsOf(B))
DiffFor(k, A, B) == IF k = "periods" THEN UNION { SymDiff(Strip(A, p), Strip(B, "P0")) : p \in PeriodsOf(A) }
                    ELSE SymDiff({ f \in A : f[1] \in Both(A, B) }, { f \in B : f[1] \in Both(A, B) })
EnvWithout(k) == [Env EXCEPT !.url = SelectSeq(Env.url, LAMBDA u : u.k # k)]
InvIndep == \A k \in KeysOf(Cfg) : Removable(k) =>
               Ungoverned(k, DiffFor(k, Ideal(Cfg, Env, Now0), Ideal(Remove(Cfg, k), EnvWithout(k), Now0))) = {}

\* configuration-independent facts about Governs
DisjointOK  == \A k1, k2 \in Keys : Independent(k1, k2) => Disjoint(Governs(k1), Governs(k2))
DependentOK == \A k1, k2 \in Keys : (Dependent(k1, k2) /\ k1 # k2 /\ ~Exclusive(k1, k2) /\ {k1, k2} # {"periods", "continuous"})
                                        => ~Disjoint(Governs(k1), Governs(k2))
ASSUME DisjointOK
ASSUME DependentOK
ASSUME PrintT("SIGCLS" \o ToJson(SigClasses))

Emit == PrintT("GEN" \o ToJson(r))
=============================================================================

---------------------------- MODULE Patch ----------------------------
(* (M)/(R) for C11.
   Generator: every initial state is one pair (old, new) of small MPD-shaped trees of one class:
     "slist"   SegmentTimeline S lists (length <= MaxS over 3 distinct (d,r) values, plus every pair with one
               side of length <= 1 and the other of length MaxSLong): all edit scripts of that size
     "period"  Period lists with ids (no duplicates) from 3 values: insert / delete / keep / reorder
     "aset"    the same for AdaptationSet lists inside one kept Period
     "nest"    Period lists x AdaptationSet lists, with an S list changing inside every kept AdaptationSet
     "attrs"   attribute absent / v1 / v2 on both sides, on a non-leaf and on a leaf element, plus a prefixed attribute
     "scheme"  id-less siblings addressed by schemeIdUri
     "plain"   id-less siblings addressed by position, behind a sibling of another tag
   Each pair is printed as one JSON line (prefix GEN) and replayed by harness/drive/c11 into the real patch.MPDDiff.
   Model check of the oracle itself: a reference diff (RefDiff, written directly from the definition of the
   operations, two add strategies) is applied with PatchOps!Fold to every generated pair: RoundTrip.  A wrong
   positional index (Sabotage) is rejected for some pair: SabotageAccepted is expected to be violated. *)
EXTENDS PatchOps, TLC, Json
CONSTANTS Classes,      \* subset of the class names above
          MaxS,         \* all S list pairs up to this length
          MaxSLong,     \* plus (<=1) x (=MaxSLong) pairs
          MaxIds,       \* id lists up to this length
          MaxPlain,     \* plain / scheme sibling lists up to this length
          Strategy      \* 1: reference diff appends; 2: reference diff uses prepend / after
VARIABLE pair

N(tag, attrs, text, kids) == [tag |-> tag, attrs |-> attrs, text |-> text, kids |-> kids]
NoAttrs == <<>>
SeqsUpTo(V, n) == UNION {[1..k -> V] : k \in 0..n}
NoDup(s) == \A i, j \in 1..Len(s) : i # j => s[i] # s[j]

PT1 == "2024-01-01T00:00:00Z"
PT2 == "2024-01-01T00:00:02Z"
PatchLoc == N("PatchLocation", [ttl |-> "60"], "/patch/x.mpp", <<>>)
Mpd(pt, kids) == N("MPD", [id |-> "m", publishTime |-> pt, type |-> "dynamic"], "", <<PatchLoc>> \o kids)
Utc == N("UTCTiming", [schemeIdUri |-> "urn:mpeg:dash:utc:http-xsdate:2014", value |-> "https://t/"], "", <<>>)

SVals == {[d |-> "10"], [d |-> "20", r |-> "1"], [d |-> "10", r |-> "2"]}
S(a) == N("S", a, "", <<>>)
Timeline(ss) == N("SegmentTemplate", [timescale |-> "10"], "", <<N("SegmentTimeline", NoAttrs, "", [i \in 1..Len(ss) |-> S(ss[i])])>>)
Rep(id, attrs) == N("Representation", SetAttr(attrs, "id", id), "", <<>>)
Role(u, v) == N("Role", [schemeIdUri |-> u, value |-> v], "", <<>>)
ASet(id, attrs, kids) == N("AdaptationSet", SetAttr(attrs, "id", id), "", kids)
Period(id, kids) == N("Period", [id |-> id, start |-> "PT0S"], "", kids)
StdAS(id, ss) == ASet(id, [contentType |-> "video"], <<Role("urn:r", "main"), Timeline(ss), Rep("r" \o id, [bandwidth |-> "1"])>>)

Ids == {"a", "b", "c"}
IdLists == {s \in SeqsUpTo(Ids, MaxIds) : NoDup(s)}
IdLists2 == {s \in SeqsUpTo({"a", "b"}, 2) : NoDup(s)}
SA == <<[d |-> "10"]>>
SB == <<[d |-> "10"], [d |-> "20", r |-> "1"]>>

SLists == SeqsUpTo(SVals, MaxS)
SPairs == (SLists \X SLists) \cup
          ((SeqsUpTo(SVals, 1) \X [1..MaxSLong -> SVals]) \cup ([1..MaxSLong -> SVals] \X SeqsUpTo(SVals, 1)))

PairsSlist == { [cls |-> "slist",
                 old |-> Mpd(PT1, <<Period("p", <<StdAS("1", p[1])>>), Utc>>),
                 new |-> Mpd(PT2, <<Period("p", <<StdAS("1", p[2])>>), Utc>>)] : p \in SPairs }
PeriodsOf(ids, ss) == [i \in 1..Len(ids) |-> Period(ids[i], <<StdAS("1", ss)>>)]
PairsPeriod == { [cls |-> "period",
                  old |-> Mpd(PT1, PeriodsOf(p[1], SA) \o <<Utc>>),
                  new |-> Mpd(PT2, PeriodsOf(p[2], SB) \o <<Utc>>)] : p \in IdLists \X IdLists }
ASetsOf(ids, ss) == [i \in 1..Len(ids) |-> StdAS(ids[i], ss)]
PairsASet == { [cls |-> "aset",
                old |-> Mpd(PT1, <<Period("p", ASetsOf(p[1], SA))>>),
                new |-> Mpd(PT2, <<Period("p", ASetsOf(p[2], SB))>>)] : p \in IdLists \X IdLists }
PairsNest == { [cls |-> "nest",
                old |-> Mpd(PT1, [i \in 1..Len(p[1]) |-> Period(p[1][i], ASetsOf(p[3], SB))] \o <<Utc>>),
                new |-> Mpd(PT2, [i \in 1..Len(p[2]) |-> Period(p[2][i], ASetsOf(p[4], SA))] \o <<Utc>>)]
               : p \in IdLists2 \X IdLists2 \X IdLists2 \X IdLists2 }

AttrVals == {"-", "v1", "v2"}
AttrsOf(x, y, z) == LET a == IF x = "-" THEN NoAttrs ELSE [bandwidth |-> x]
                        b == IF y = "-" THEN a ELSE SetAttr(a, "codecs", y)
                    IN IF z = "-" THEN b ELSE SetAttr(b, "schemaLocation", z)
AttrAS(attrs) == Period("p", <<ASet("1", attrs, <<Role("urn:r", "main"), Rep("r1", attrs)>>)>>)
PairsAttrs == { [cls |-> "attrs",
                 old |-> Mpd(PT1, <<AttrAS(AttrsOf(p[1], p[2], p[5]))>>),
                 new |-> Mpd(PT2, <<AttrAS(AttrsOf(p[3], p[4], p[6]))>>)]
                : p \in AttrVals \X AttrVals \X AttrVals \X AttrVals \X {"-", "v1"} \X {"-", "v2"} }

SchemeVals == {Role("urn:r", "main"), Role("urn:r", "alt"), Role("urn:q", "main"),
               N("EssentialProperty", [schemeIdUri |-> "urn:r", value |-> "1"], "", <<>>)}
SchemeAS(ks) == Period("p", <<ASet("1", NoAttrs, ks \o <<Rep("r1", [bandwidth |-> "1"])>>)>>)
PairsScheme == { [cls |-> "scheme", old |-> Mpd(PT1, <<SchemeAS(p[1])>>), new |-> Mpd(PT2, <<SchemeAS(p[2])>>)]
                 : p \in SeqsUpTo(SchemeVals, MaxPlain) \X SeqsUpTo(SchemeVals, MaxPlain) }

PlainVals == {N("Label", NoAttrs, "x", <<>>), N("Label", NoAttrs, "y", <<>>), N("Label", [lang |-> "en"], "x", <<>>)}
PlainAS(ks) == Period("p", <<ASet("1", NoAttrs, <<Role("urn:r", "main")>> \o ks \o <<Rep("r1", [bandwidth |-> "1"])>>)>>)
PairsPlain == { [cls |-> "plain", old |-> Mpd(PT1, <<PlainAS(p[1])>>), new |-> Mpd(PT2, <<PlainAS(p[2])>>)]
                : p \in SeqsUpTo(PlainVals, MaxPlain) \X SeqsUpTo(PlainVals, MaxPlain) }

Pairs == (IF "slist"  \in Classes THEN PairsSlist  ELSE {}) \cup (IF "period" \in Classes THEN PairsPeriod ELSE {})
   \cup (IF "aset"   \in Classes THEN PairsASet   ELSE {}) \cup (IF "nest"   \in Classes THEN PairsNest   ELSE {})
   \cup (IF "attrs"  \in Classes THEN PairsAttrs  ELSE {}) \cup (IF "scheme" \in Classes THEN PairsScheme ELSE {})
   \cup (IF "plain"  \in Classes THEN PairsPlain  ELSE {})

\* ------------------------------------------------------------------ reference diff
Step(tag, pk, pa, pv, n) == [tag |-> tag, pk |-> pk, pa |-> pa, pv |-> pv, n |-> n]
Op(o, sel, attr, pos, val, elems) == [op |-> o, ok |-> TRUE, sel |-> sel, attr |-> attr, pos |-> pos, val |-> val, elems |-> elems]
IdxStep(kids, j) == Step(kids[j].tag, "idx", "", "", TagIdx(kids, j))
\* elements that the reference diff keeps (and descends into): same tag and same id; id-less leaves only when equal
Same(a, b) == /\ a.tag = b.tag
              /\ IF HasAttr(a, "id") \/ HasAttr(b, "id")
                 THEN HasAttr(a, "id") /\ HasAttr(b, "id") /\ a.attrs["id"] = b.attrs["id"]
                 ELSE (a.kids = <<>> /\ b.kids = <<>>) => a = b

RECURSIVE SetToSeq(_)
SetToSeq(S_) == IF S_ = {} THEN <<>> ELSE LET x == CHOOSE y \in S_ : TRUE IN <<x>> \o SetToSeq(S_ \ {x})
AttrOps(path, a, b) ==
   LET da == DOMAIN a  db == DOMAIN b IN
   SetToSeq({Op("remove", path, k, "", "", <<>>) : k \in da \ db}
            \cup {Op("add", path, k, "", b[k], <<>>) : k \in db \ da}
            \cup {Op("replace", path, k, "", b[k], <<>>) : k \in {x \in da \cap db : a[x] # b[x]}})

RECURSIVE CommonPrefix(_, _)
CommonPrefix(a, b) == IF a = <<>> \/ b = <<>> \/ ~Same(Head(a), Head(b)) THEN 0 ELSE 1 + CommonPrefix(Tail(a), Tail(b))
RECURSIVE Concat(_)
Concat(ss) == IF ss = <<>> THEN <<>> ELSE Head(ss) \o Concat(Tail(ss))

RECURSIVE RefDiffAt(_, _, _)
\* path addresses `a` (same tag as b); result: operations turning a into b
RefDiffAt(path, a, b) ==
   IF a.text # b.text THEN <<Op("replace", path, "", "", "", <<b>>)>>
   ELSE
   LET p    == CommonPrefix(a.kids, b.kids)
       rest == Len(a.kids) - p
       \* kept prefix: b's prefix is addressed in the tree that already contains b's earlier prefix kids = same indices
       keep == Concat([i \in 1..p |-> RefDiffAt(Append(path, IdxStep(a.kids, i)), a.kids[i], b.kids[i])])
       \* remove the old rest, always the first element behind the prefix
       rem  == [i \in 1..rest |-> Op("remove", Append(path, IdxStep(SubSeq(a.kids, 1, p) \o SubSeq(a.kids, p + i, Len(a.kids)), p + 1)), "", "", "", <<>>)]
       nb   == Len(b.kids) - p
       add1 == [i \in 1..nb |-> Op("add", path, "", "", "", <<b.kids[p + i]>>)]
       add2 == [i \in 1..nb |-> IF p + i = 1 THEN Op("add", path, "", "prepend", "", <<b.kids[1]>>)
                                ELSE Op("add", Append(path, IdxStep(b.kids, p + i - 1)), "", "after", "", <<b.kids[p + i]>>)]
   IN AttrOps(path, a.attrs, b.attrs) \o keep \o rem \o (IF Strategy = 1 THEN add1 ELSE add2)
RefDiff(a, b) == RefDiffAt(<<Step(a.tag, "none", "", "", 0)>>, a, b)

\* shift the last positional index of the last operation that has one (must be detected)
Sabotage(ops) ==
   LET idxs == {i \in 1..Len(ops) : ops[i].sel[Len(ops[i].sel)].pk = "idx"} IN
   IF idxs = {} THEN ops
   ELSE LET i == CHOOSE x \in idxs : \A y \in idxs : y <= x
            k == Len(ops[i].sel) IN
        [ops EXCEPT ![i].sel[k].n = @ + 1]

RoundTrip == LET r == Fold(pair.old, RefDiff(pair.old, pair.new)) IN r.bad = 0 /\ r.tree = pair.new
\* expected to be VIOLATED (design counterexample): some sabotaged operation list is rejected by the oracle
SabotageAccepted == LET ops == RefDiff(pair.old, pair.new)  bad == Sabotage(ops)  r == Fold(pair.old, bad) IN
                    bad # ops => (r.bad = 0 /\ r.tree = pair.new)
Emit == PrintT("GEN" \o ToJson(pair))

Init == pair \in Pairs
Next == UNCHANGED pair
Spec == Init /\ [][Next]_pair
=============================================================================

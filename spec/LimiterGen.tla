---------------------------- MODULE LimiterGen ----------------------------
(* (R) generator for C20: enumerates every call sequence of length GenLen of the oracle
   machine and prints it as JSON (one line per sequence, prefix GEN). *)
EXTENDS Limiter, Json
CONSTANT GenLen
VARIABLE calls
GenInit == Init /\ calls = <<>>
GenNext == /\ Len(calls) < GenLen
           /\ \E a \in Addr, t \in Times :
                /\ Inc(a, t)
                /\ calls' = Append(calls, [a |-> a, t |-> t, nr |-> cnt'[a], rt |-> resetTime'])
GenSpec == GenInit /\ [][GenNext]_<<vars, calls>>
Emit == Len(calls) = GenLen => PrintT("GEN" \o ToJson(calls))
=============================================================================

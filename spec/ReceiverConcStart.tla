---------------------------- MODULE ReceiverConcStart ----------------------------
(* Explorer for C19, channel START transition (tune-in): the upload handler's view of the master values of
   a channel (cmd/cmaf-ingest-receiver/app/receiver.go SegmentHandlerFunc; channel.go receivedSegData).
   The channel goroutine starts the channel when the master track has two consecutive segments of equal
   duration: under ch.mu it sets masterTimescale/masterSegDuration (0 -> TS, DUR) and, for a channel whose
   numbers or times are off the grid, masterSeqNrShift/masterTimeShift (0 -> SHIFT # 0).
   An upload handler reads these values and later, when the body of the upload arrives, computes the
   outgoing number as nearest(time / dur) if its view says "shifted".
     snap   request accepted: the handler reads the master values under ch.mu.RLock
     body   the (slow) body arrives: the handler uses its view; SplitRead = TRUE re-reads the SHIFT values
            here (a handler that does not take ONE snapshot), FALSE uses the snapshot (the code as it is)
     start  the master track's segment that starts the channel is uploaded and processed
   ViewConsistent: every view is the state before the start or the state after it (C19.linearizable /
   C19.no_loss at design level: a mixed view divides by the zero duration -> 500, upload lost).
   The generator part prints every behaviour (prefix GENS) as (process, label) steps for the driver, which
   forces them on a channel that WILL be shifted with a gated request body (no hook needed). *)
EXTENDS Integers, Sequences, FiniteSets, TLC, Json
CONSTANTS Uploaders, SplitRead
Before == [ts |-> 0, dur |-> 0, shift |-> 0]
After  == [ts |-> 1, dur |-> 1, shift |-> 1]

(* --algorithm start {
  variables master = Before,                         \* the channel's master values (under ch.mu)
            view = [u \in Uploaders |-> Before],     \* what each handler works with
            used = [u \in Uploaders |-> "none"],     \* outcome of the upload: "unshifted" | "shifted" | "div0"
            hist = <<>>;
  define {
    ViewConsistent == \A u \in Uploaders : view[u] \in {Before, After}
    NoLoss == \A u \in Uploaders : used[u] # "div0"
    AllDone == \A p \in Uploaders \cup {"M"} : pc[p] = "Done"
  }
  process (m = "M") {
    start: master := After; hist := Append(hist, <<"M", "start">>);
  }
  process (u \in Uploaders) {
    snap:  view[self] := master; hist := Append(hist, <<self, "snap">>);
    body:  if (SplitRead) { view[self] := [view[self] EXCEPT !.shift = master.shift]; };
           hist := Append(hist, <<self, "body">>);
    use:   used[self] := IF view[self].shift = 0 THEN "unshifted"
                         ELSE IF view[self].dur = 0 THEN "div0" ELSE "shifted";
  }
} *)
\* BEGIN TRANSLATION (chksum(pcal) = "a274d10" /\ chksum(tla) = "69c6f9e")
VARIABLES pc, master, view, used, hist

(* define statement *)
ViewConsistent == \A u \in Uploaders : view[u] \in {Before, After}
NoLoss == \A u \in Uploaders : used[u] # "div0"
AllDone == \A p \in Uploaders \cup {"M"} : pc[p] = "Done"


vars == << pc, master, view, used, hist >>

ProcSet == {"M"} \cup (Uploaders)

Init == (* Global variables *)
        /\ master = Before
        /\ view = [u \in Uploaders |-> Before]
        /\ used = [u \in Uploaders |-> "none"]
        /\ hist = <<>>
        /\ pc = [self \in ProcSet |-> CASE self = "M" -> "start"
                                        [] self \in Uploaders -> "snap"]

start == /\ pc["M"] = "start"
         /\ master' = After
         /\ hist' = Append(hist, <<"M", "start">>)
         /\ pc' = [pc EXCEPT !["M"] = "Done"]
         /\ UNCHANGED << view, used >>

m == start

snap(self) == /\ pc[self] = "snap"
              /\ view' = [view EXCEPT ![self] = master]
              /\ hist' = Append(hist, <<self, "snap">>)
              /\ pc' = [pc EXCEPT ![self] = "body"]
              /\ UNCHANGED << master, used >>

body(self) == /\ pc[self] = "body"
              /\ IF SplitRead
                    THEN /\ view' = [view EXCEPT ![self] = [view[self] EXCEPT !.shift = master.shift]]
                    ELSE /\ TRUE
                         /\ view' = view
              /\ hist' = Append(hist, <<self, "body">>)
              /\ pc' = [pc EXCEPT ![self] = "use"]
              /\ UNCHANGED << master, used >>

use(self) == /\ pc[self] = "use"
             /\ used' = [used EXCEPT ![self] = IF view[self].shift = 0 THEN "unshifted"
                                               ELSE IF view[self].dur = 0 THEN "div0" ELSE "shifted"]
             /\ pc' = [pc EXCEPT ![self] = "Done"]
             /\ UNCHANGED << master, view, hist >>

u(self) == snap(self) \/ body(self) \/ use(self)

(* Allow infinite stuttering to prevent deadlock on termination. *)
Terminating == /\ \A self \in ProcSet: pc[self] = "Done"
               /\ UNCHANGED vars

Next == m
           \/ (\E self \in Uploaders: u(self))
           \/ Terminating

Spec == Init /\ [][Next]_vars

Termination == <>(\A self \in ProcSet: pc[self] = "Done")

\* END TRANSLATION
\* use is not gate-controlled: it follows body at once (the driver cannot delay it)
Eager == {"use"}
GenNext == LET U == {p \in Uploaders : pc[p] \in Eager} IN
           IF U # {} THEN \E self \in U : u(self) ELSE Next
GenSpec == Init /\ [][GenNext]_vars
Emit == AllDone => PrintT("GENS" \o ToJson([steps |-> hist, used |-> used])) 
=============================================================================

--------------------------- MODULE MpdSignalOps ---------------------------
(* ORACLE of the extra specification X01.

   PROPERTY TEXT (X01) - "URL parameters are reflected faithfully in the live MPD's signalling".
   Sources: cmd/livesim2/app/templates/urlgen.html (the served parameter documentation), README.md, the comments
   of configurl.go (processURLCfg) and livempd.go, and the fix commits of the repository.  Nothing below is
   stronger than those; where they leave something open every reading is accepted (said at the clause).

   For every URL configuration made of the documented parameters with documented values, the live MPD
   (.../livesim2/<k_v>/.../<asset>/<mpd>?nowMS=T) is served, and

   X01.shape    every AdaptationSet of the VoD MPD is present in every Period, with its content type.
   X01.tsbd     tsbd_N  ("time-shift buffer depth (seconds)"): MPD@timeShiftBufferDepth = N s; default 60 s.
   X01.mup      mup_N   ("minimum update period (seconds). Default is the segment duration"): MPD@minimumUpdatePeriod
                = N s; default: the segment duration (assets with varying durations: any value between the
                shortest and the longest segment is accepted).
   X01.spd      spd_N   ("suggestedPresentationDelay (seconds)"): MPD@suggestedPresentationDelay = N s; else absent.
   X01.snr      snr_N ("startNumber (default=0) -1 translates to no value in MPD (fallback to default = 1)"): in an MPD with
                SegmentTemplate $Number$ and @duration (no periods_) every AdaptationSet of the VoD MPD has
                SegmentTemplate@startNumber = N, 0 without snr_; with snr_-1 no @startNumber (an explicit "1", the
                default it falls back to, is accepted).  With a SegmentTimeline the number of the first listed
                segment moves with the window and is not judged here (C02).
   X01.ast      start_N / ast_N ("timeline start (and availabilityStartTime) relative to Epoch (in seconds)"):
                MPD@availabilityStartTime = N; default 0.  startrel_N ("... relative to now (in seconds)"):
                = now + N where "now" in seconds may be rounded down or up.  With startrel_/stoprel_ exactly one
                Location element = <scheme://host of the request> + the request path with startrel_N replaced by
                start_<availabilityStartTime> and stoprel_N by stop_<now + N>; otherwise no Location element.
   X01.utc      utc_<m1-m2-...> ("UTCTiming methods ...: direct, head, ntp, sntp, httpxsdate, httpxsdatems, httpiso,
                httpisoms, keep, none. 'keep' keeps values from the VoD MPD and cannot be combined with other
                values"): exactly one UTCTiming element per listed method, in the listed order, with the DASH scheme
                of the method and a non-empty value (direct: an xs:dateTime, which is what that scheme's value is);
                none: no UTCTiming element; keep: exactly the UTCTiming elements of the VoD MPD; not given: exactly
                one HTTP-based element (urlgen says "Default is httpiso", the code comment "HTTP with ms precision":
                http-iso and http-xsdate are both accepted).
   X01.ll       ato_X ("availabilityTimeOffset (float in seconds or inf)"): SegmentTemplate@availabilityTimeOffset = X
                on every audio and video AdaptationSet (other AdaptationSets: X or absent), absent without ato_.
                chunkdur_D ("chunk duration for low-latency"): @availabilityTimeComplete="false" on every audio and
                video AdaptationSet; without chunkdur_ never "false".  ato_ > 0 together with chunkdur_ (low-latency
                mode): ServiceDescription/Latency@target = ltgt_N ("low-latency target (milliseconds)", default 3500)
                and a ProducerReferenceTime on every video AdaptationSet; a ProducerReferenceTime with
                @presentationTime=0 has @wallClockTime = availabilityStartTime (the timeline is anchored there).
                Without any of ato_/chunkdur_/ltgt_: no ServiceDescription; without ato_ and chunkdur_: no
                ProducerReferenceTime.
   X01.patch    patch_N, N > 0 ("Provides delta DASH MPDs at a PatchLocation. Set a positive TTL in seconds"):
                exactly one PatchLocation with @ttl = N and a non-empty URL; MPD@id present (the VoD MPD's if it has
                one); every AdaptationSet has an @id, distinct within its Period ("with patch_<ttl> every
                AdaptationSet gets an id", commit 5cfef2f: patches address AdaptationSets by id).  Otherwise no
                PatchLocation and MPD@id as in the VoD MPD.
   X01.timesubs timesubsstpp_L1,L2 / timesubswvtt_... ("will result in two stpp subtitle tracks with language codes
                en and sv"): the AdaptationSets that the VoD MPD does not have are exactly one text AdaptationSet
                per language and format (codecs stpp... / wvtt...), with that @lang.
   X01.scte35   scte35_N ("SCTE-35 emsg frequency"): exactly one InbandEventStream with a SCTE-35 scheme on every
                video AdaptationSet, none elsewhere; without scte35_ none at all.
   X01.annexI   annexI_k=v,... ("query parameters in MPD to propagate to all video segment requests"): every video
                AdaptationSet has exactly one EssentialProperty urn:mpeg:dash:urlparam:2014 whose UrlQueryInfo has
                useMPDUrlQuery="true" and queryTemplate="$querypart$" (DASH Annex I: that is what propagates the MPD
                query); none elsewhere; without annexI_ none at all.
   X01.traffic  traffic_p1,p2,... ("Traffic Patterns for one or more BaseURLs"): one BaseURL per pattern (MPD or
                Period level), pairwise different, non-empty; without traffic_ none (the VoD MPD must have none).
   X01.cont     periods_N + continuous_1 ("period continuity signaling"): every AdaptationSet of the VoD MPD in every
                Period but the first listed one carries SupplementalProperty urn:mpeg:dash:period-continuity:2015;
                without continuous_ no AdaptationSet carries it.
   X01.drm      eccp_cenc|cbcs / drm_<configured package> ("Encryption on-the-fly with keys via ECCP or commercial DRM
                systems"): every audio and video AdaptationSet has exactly one ContentProtection
                urn:mpeg:dash:mp4protection:2011 with @value = the scheme (eccp_: the given one; drm_: the
                commonEncryptionScheme of the package's CPIX keys) and at least one further ContentProtection with a
                non-empty licence URL (Laurl); no ContentProtection on other AdaptationSets; without eccp_/drm_ none
                at all (VoD assets used are not pre-encrypted).
   X01.indep    Independence: the MPD of a configuration and the MPD of the same configuration without parameter k
                (same asset, same instant) differ only in what k governs - Governs(k) below - and in the elements
                that echo the request URL by design (UrlEcho).  For k = periods the comparison is made Period by
                Period against the single Period; for every other k on what is outside the Periods and on the
                Periods (by id) that both MPDs list (which Periods are listed follows the time window).

   Facts: an MPD is observed as a set of facts <<per, scope, cls, as, inst, v>> (harness/drive/x01/facts.go).      *)
EXTENDS Integers, Sequences, FiniteSets, TLC

\* ------------------------------------------------------------------ fact classes
ASvod  == {"AS:video", "AS:audio", "AS:text", "AS:image", "AS:other"}
ASplus == {"AS+:stpp", "AS+:wvtt", "AS+:other"}
ASall  == ASvod \cup ASplus
Media  == {"AS:video", "AS:audio"}
Top    == {"MPD"}
PerS   == {"Period"}
AllScopes == Top \cup PerS \cup ASall

ATO  == "SegmentTemplate@availabilityTimeOffset"
ATC  == "SegmentTemplate@availabilityTimeComplete"
UtcCls  == {"UTCTiming@schemeIdUri", "UTCTiming@value", "UTCTiming@value!raw", "UTCTiming#el", "UTCTiming@id"}
SdCls   == {"ServiceDescription@id", "ServiceDescription#el", "ServiceDescription/Latency@referenceId",
            "ServiceDescription/Latency@target", "ServiceDescription/Latency@max", "ServiceDescription/Latency@min",
            "ServiceDescription/Latency#el", "ServiceDescription/PlaybackRate@max", "ServiceDescription/PlaybackRate@min",
            "ServiceDescription/PlaybackRate#el"}
PrtCls  == {"ProducerReferenceTime@id", "ProducerReferenceTime@type", "ProducerReferenceTime@wallClockTime",
            "ProducerReferenceTime@wallClockTime!raw", "ProducerReferenceTime@presentationTime", "ProducerReferenceTime@inband",
            "ProducerReferenceTime#el", "ProducerReferenceTime/UTCTiming@schemeIdUri", "ProducerReferenceTime/UTCTiming@value"}
PatchCls == {"PatchLocation@ttl", "PatchLocation@ttl!raw", "PatchLocation#text", "PatchLocation#el"}
ScteSchemes == {"urn:scte:scte35:2013:bin", "urn:scte:scte35:2014:xml+bin"}
ScteCls == UNION { {"InbandEventStream{" \o s \o "}@schemeIdUri", "InbandEventStream{" \o s \o "}@value",
                    "InbandEventStream{" \o s \o "}@timescale", "InbandEventStream{" \o s \o "}@presentationTimeOffset"} : s \in ScteSchemes }
ScteId  == { "InbandEventStream{" \o s \o "}@schemeIdUri" : s \in ScteSchemes }
EP      == "EssentialProperty{urn:mpeg:dash:urlparam:2014}"
EpCls   == {EP \o "@schemeIdUri", EP \o "@value", EP \o "#el", EP \o "/UrlQueryInfo@queryTemplate", EP \o "/UrlQueryInfo@useMPDUrlQuery",
            EP \o "/UrlQueryInfo@queryString", EP \o "/UrlQueryInfo#el"}
CONT    == "SupplementalProperty{urn:mpeg:dash:period-continuity:2015}"
ContCls == {CONT \o "@schemeIdUri", CONT \o "@value"}
CpCls   == {"ContentProtection@schemeIdUri", "ContentProtection@value", "ContentProtection@default_KID", "ContentProtection@robustness",
            "ContentProtection@refId", "ContentProtection@ref", "ContentProtection#el",
            "ContentProtection/Laurl#text", "ContentProtection/Laurl@licenseType", "ContentProtection/laurl#text",
            "ContentProtection/laurl@licenseType", "ContentProtection/pssh#text", "ContentProtection/pro#text"}
LaurlCls == {"ContentProtection/Laurl#text", "ContentProtection/laurl#text"}
BaseCls == {"BaseURL#text", "BaseURL#el"}
\* what the MPD lists as segments (moves with time, window, availability and anchoring)
TlCls   == {"SegmentTemplate/SegmentTimeline/S@t", "SegmentTemplate/SegmentTimeline/S@d", "SegmentTemplate/SegmentTimeline/S@r",
            "SegmentTemplate/SegmentTimeline#el", "SegmentTemplate@startNumber"}

\* classes the value clauses read (the driver keeps only these in "sig" events)
SigClasses ==
   {"@timeShiftBufferDepth", "@minimumUpdatePeriod", "@suggestedPresentationDelay", "@availabilityStartTime", "@id",
    "@timeShiftBufferDepth!raw", "@minimumUpdatePeriod!raw", "@suggestedPresentationDelay!raw", "@availabilityStartTime!raw",
    "Location#text", "Location#el", "#ct", "#pos", "@lang", ATO, ATC, ATO \o "!raw", "SegmentTemplate@startNumber"}
   \cup UtcCls \cup SdCls \cup PrtCls \cup PatchCls \cup ScteCls \cup EpCls \cup ContCls \cup CpCls \cup BaseCls

\* ------------------------------------------------------------------ configurations
Keys == {"tsbd", "mup", "spd", "snr", "start", "ast", "startrel", "stoprel", "utc", "ato", "chunkdur", "ltgt", "patch",
         "timesubsstpp", "timesubswvtt", "scte35", "annexI", "traffic", "periods", "continuous", "eccp", "drm"}

\* concrete configuration record: integers with a sentinel for "not given"
NoCfg == [tsbd |-> -1, mup |-> -1, spd |-> -1, snr |-> -2, start |-> -1, startkey |-> "start", startrel |-> 0, stoprel |-> 0,
          utc |-> <<>>, ato |-> 0, chunkdur |-> 0, ltgt |-> -1, patch |-> -1, stpp |-> <<>>, wvtt |-> <<>>,
          scte35 |-> 0, annexI |-> 0, traffic |-> 0, periods |-> 0, continuous |-> FALSE, eccp |-> "", drm |-> ""]

HasKey(c, k) ==
   CASE k = "tsbd" -> c.tsbd >= 0           [] k = "mup" -> c.mup >= 0          [] k = "spd" -> c.spd >= 0
     [] k = "snr" -> c.snr # -2
     [] k = "start" -> c.start >= 0 /\ c.startkey = "start"                     [] k = "ast" -> c.start >= 0 /\ c.startkey = "ast"
     [] k = "startrel" -> c.startrel # 0    [] k = "stoprel" -> c.stoprel # 0   [] k = "utc" -> c.utc # <<>>
     [] k = "ato" -> c.ato # 0              [] k = "chunkdur" -> c.chunkdur # 0 [] k = "ltgt" -> c.ltgt >= 0
     [] k = "patch" -> c.patch # -1         [] k = "timesubsstpp" -> c.stpp # <<>>  [] k = "timesubswvtt" -> c.wvtt # <<>>
     [] k = "scte35" -> c.scte35 # 0        [] k = "annexI" -> c.annexI # 0     [] k = "traffic" -> c.traffic # 0
     [] k = "periods" -> c.periods # 0      [] k = "continuous" -> c.continuous [] k = "eccp" -> c.eccp # ""
     [] k = "drm" -> c.drm # ""

Remove(c, k) ==
   CASE k = "tsbd" -> [c EXCEPT !.tsbd = -1]     [] k = "mup" -> [c EXCEPT !.mup = -1]      [] k = "spd" -> [c EXCEPT !.spd = -1]
     [] k = "snr" -> [c EXCEPT !.snr = -2]
     [] k \in {"start", "ast"} -> [c EXCEPT !.start = -1, !.startkey = "start"]
     [] k = "startrel" -> [c EXCEPT !.startrel = 0]  [] k = "stoprel" -> [c EXCEPT !.stoprel = 0]
     [] k = "utc" -> [c EXCEPT !.utc = <<>>]     [] k = "ato" -> [c EXCEPT !.ato = 0]       [] k = "chunkdur" -> [c EXCEPT !.chunkdur = 0]
     [] k = "ltgt" -> [c EXCEPT !.ltgt = -1]     [] k = "patch" -> [c EXCEPT !.patch = -1]
     [] k = "timesubsstpp" -> [c EXCEPT !.stpp = <<>>]  [] k = "timesubswvtt" -> [c EXCEPT !.wvtt = <<>>]
     [] k = "scte35" -> [c EXCEPT !.scte35 = 0]  [] k = "annexI" -> [c EXCEPT !.annexI = 0] [] k = "traffic" -> [c EXCEPT !.traffic = 0]
     [] k = "periods" -> [c EXCEPT !.periods = 0] [] k = "continuous" -> [c EXCEPT !.continuous = FALSE]
     [] k = "eccp" -> [c EXCEPT !.eccp = ""]     [] k = "drm" -> [c EXCEPT !.drm = ""]

KeysOf(c) == { k \in Keys : HasKey(c, k) }

UtcMethods == {"direct", "head", "ntp", "sntp", "httpxsdate", "httpxsdatems", "httpiso", "httpisoms"}
SeqSet(s) == { s[i] : i \in DOMAIN s }

\* configurations for which the documentation promises an MPD (mode: "number" | "time" | "tlnr")
ValidCfg(c, mode) ==
   /\ ~(c.start >= 0 /\ c.startrel # 0)
   /\ c.startrel <= 0 /\ c.stoprel >= 0
   /\ (c.utc # <<>> => \/ c.utc = <<"none">> \/ c.utc = <<"keep">>
                       \/ (SeqSet(c.utc) \subseteq UtcMethods /\ Cardinality(SeqSet(c.utc)) = Len(c.utc)))
   /\ (c.ato = -1 => mode = "number" /\ c.chunkdur = 0)    \* "inf" is not offered together with a SegmentTimeline
   /\ c.ato >= -1 /\ c.chunkdur >= 0
   /\ (c.mup = -1 \/ c.mup > 0)
   /\ (c.tsbd <= 172800)
   /\ c.snr >= -2
   /\ (c.continuous => c.periods # 0)                       \* "Only valid when periods_per_hour is set"
   /\ ~(c.eccp # "" /\ c.drm # "")
   /\ c.eccp \in {"", "cenc", "cbcs"}
   /\ c.scte35 \in 0..3
   /\ (\A i, j \in DOMAIN c.stpp : i # j => c.stpp[i] # c.stpp[j]) /\ (\A i, j \in DOMAIN c.wvtt : i # j => c.wvtt[i] # c.wvtt[j])

\* ------------------------------------------------------------------ Governs
\* a pattern is <<set of scopes, class>>; class "*" = every class
Pat(scopes, classes) == { <<scopes, cl>> : cl \in classes }
Match(P, f) == \E p \in P : f[2] \in p[1] /\ (p[2] = "*" \/ p[2] = f[3])
Overlap(p, q) == (p[1] \cap q[1]) # {} /\ (p[2] = "*" \/ q[2] = "*" \/ p[2] = q[2])
Disjoint(P, Q) == \A p \in P, q \in Q : ~Overlap(p, q)

TL == Pat(ASall, TlCls) \cup Pat(Top, {"#periods"}) \cup Pat(PerS, {"#pos"})   \* the listed segments (and, with periods_, which Periods are listed)
PT == Pat(Top, {"@publishTime"})
AstPats == Pat(Top, {"@availabilityStartTime", "@availabilityStartTime!raw"}) \cup PT \cup TL
              \cup Pat(ASall, {"ProducerReferenceTime@wallClockTime", "ProducerReferenceTime@wallClockTime!raw"})

Governs(k) ==
   CASE k = "tsbd"     -> Pat(Top, {"@timeShiftBufferDepth", "@timeShiftBufferDepth!raw"}) \cup TL
     [] k = "mup"      -> Pat(Top, {"@minimumUpdatePeriod", "@minimumUpdatePeriod!raw"})
     [] k = "spd"      -> Pat(Top, {"@suggestedPresentationDelay", "@suggestedPresentationDelay!raw"})
     [] k = "snr"      -> Pat(ASall, {"SegmentTemplate@startNumber"})
     [] k \in {"start", "ast", "startrel"} -> AstPats
     [] k = "stoprel"  -> {}                                   \* (only the Location element, which is a URL echo)
     [] k = "utc"      -> Pat(Top, UtcCls)
     [] k = "ato"      -> Pat(ASall, {ATO, ATO \o "!raw"}) \cup Pat(ASall, PrtCls) \cup Pat(Top, SdCls) \cup PT \cup TL
     [] k = "chunkdur" -> Pat(ASall, {ATC, ATO, ATO \o "!raw"}) \cup Pat(ASall, PrtCls) \cup Pat(Top, SdCls)
     [] k = "ltgt"     -> Pat(Top, SdCls)
     [] k = "patch"    -> Pat(Top, PatchCls \cup {"@id"}) \cup Pat(ASvod, {"@id"})
     [] k = "timesubsstpp" -> {<<{"AS+:stpp"}, "*">>}
     [] k = "timesubswvtt" -> {<<{"AS+:wvtt"}, "*">>}
     [] k = "scte35"   -> Pat({"AS:video"}, ScteCls)
     [] k = "annexI"   -> Pat({"AS:video"}, EpCls)
     [] k = "traffic"  -> Pat(Top \cup PerS, BaseCls)
     [] k = "periods"  -> Pat(PerS, {"@id", "@start", "#pos"}) \cup PT \cup TL
                             \cup Pat(ASall, {"SegmentTemplate@presentationTimeOffset"})
     [] k = "continuous" -> Pat(ASall, ContCls)
     [] k \in {"eccp", "drm"} -> Pat(Media, CpCls)

\* elements that repeat the request URL (every parameter part is in it) or are derived from it
UrlEcho == Pat(Top, {"Location#text", "PatchLocation#text"}) \cup Pat(Media, LaurlCls \cup {"ContentProtection@default_KID"})

\* Dependence declared by the documentation (everything else is independent, and TLC checks that the Governs
\* sets of independent keys are disjoint):
\*  D1 start/ast/startrel are one parameter in three spellings
\*  D2 ato, chunkdur, ltgt together make up the low-latency signalling
\*  D3 tsbd, start*, ato, periods, snr all determine which segments the MPD lists and under which numbers
\*     (window, anchor, availability, split, first number)
\*  D4 start* anchors the ProducerReferenceTime that chunkdur+ato introduce
\*  D5 continuous is only defined with periods
\*  D6 eccp and drm are alternatives for the same ContentProtection signalling
\*  D7 generated subtitle AdaptationSets are AdaptationSets like the others: they list the same segments, carry the
\*     same availability / continuity / period attributes
StartKeys == {"start", "ast", "startrel"}
DepGroups == { StartKeys, {"ato", "chunkdur", "ltgt"}, {"tsbd", "ato", "periods", "snr"} \cup StartKeys,
               StartKeys \cup {"chunkdur"}, {"periods", "continuous"}, {"eccp", "drm"} }
SubsKeys  == {"timesubsstpp", "timesubswvtt"}
SubsDeps  == {"tsbd", "ato", "chunkdur", "periods", "continuous", "snr"} \cup StartKeys
Dependent(k1, k2) ==
   \/ \E g \in DepGroups : k1 \in g /\ k2 \in g
   \/ (k1 \in SubsKeys /\ k2 \in SubsDeps) \/ (k2 \in SubsKeys /\ k1 \in SubsDeps)
Independent(k1, k2) == k1 # k2 /\ ~Dependent(k1, k2)

\* keys that cannot be given together (alternatives of one parameter)
Exclusive(k1, k2) == k1 # k2 /\ ((k1 \in StartKeys /\ k2 \in StartKeys) \/ {k1, k2} = {"eccp", "drm"})

\* ------------------------------------------------------------------ reading fact sets
Obs(F, per, scopes, cl) == { <<f[4], f[5], f[6]>> : f \in { g \in F : g[1] = per /\ g[2] \in scopes /\ g[3] = cl } }
AnyOf(F, scopes, cls) == { f \in F : f[2] \in scopes /\ f[3] \in cls }
PeriodsOf(F) == { f[1] : f \in { g \in F : g[2] = "Period" } }
Ms(s)  == ToString(s * 1000)
Sec(s) == ToString(s) \o ".000"
JoinParts(parts) ==
   LET J[i \in 0..Len(parts)] == IF i = 0 THEN "" ELSE J[i-1] \o "/" \o parts[i] IN J[Len(parts)]
VasKeys(e, cts) == { e.vas[i][1] : i \in { j \in 1..Len(e.vas) : e.vas[j][2] \in cts } }
CtOf(e, key) == (CHOOSE i \in 1..Len(e.vas) : e.vas[i][1] = key)
ScopeOfKey(e, key) == "AS:" \o e.vas[CtOf(e, key)][2]
AsKeysIn(F, p, scopes) == { f[4] : f \in { g \in F : g[1] = p /\ g[2] \in scopes /\ g[3] = "#ct" } }

\* ------------------------------------------------------------------ value clauses: (c, e, now, F) -> BOOLEAN
\* e = [mode, segMin, segMax (ms), vas (<<key, ct>>...), vodId, vodUtc (<<scheme, value>>...), host, url ([k, raw]...),
\*      drmScheme (commonEncryptionScheme of the keys of the drm_ package, "" without drm_)]
\* now = <<seconds, ms remainder>> of the request instant

OkShape(c, e, F) ==
   /\ PeriodsOf(F) # {}
   /\ \A p \in PeriodsOf(F) :
         /\ AsKeysIn(F, p, ASvod) = VasKeys(e, {"video", "audio", "text", "image", "other"})
         /\ \A i \in 1..Len(e.vas) : <<e.vas[i][1], "", e.vas[i][2]>> \in Obs(F, p, {"AS:" \o e.vas[i][2]}, "#ct")

EffTsbd(c) == IF c.tsbd >= 0 THEN c.tsbd ELSE 60
OkTsbd(c, e, F) == Obs(F, "", Top, "@timeShiftBufferDepth") = {<<"", "", Ms(EffTsbd(c))>>}

OkMup(c, e, F) ==
   LET o == Obs(F, "", Top, "@minimumUpdatePeriod")
   IN IF c.mup > 0 THEN o = {<<"", "", Ms(c.mup)>>}
      ELSE \E d \in e.segMin..e.segMax : o = {<<"", "", ToString(d)>>}

OkSpd(c, e, F) == Obs(F, "", Top, "@suggestedPresentationDelay") = (IF c.spd >= 0 THEN {<<"", "", Ms(c.spd)>>} ELSE {})

EffSnr(c) == IF c.snr = -2 THEN 0 ELSE c.snr
OkSnr(c, e, F) ==
   (e.mode = "number" /\ c.periods = 0) =>
      \A p \in PeriodsOf(F) : \A i \in 1..Len(e.vas) :
         LET key == e.vas[i][1]
             o == { x \in Obs(F, p, {"AS:" \o e.vas[i][2]}, "SegmentTemplate@startNumber") : x[1] = key }
         IN IF EffSnr(c) >= 0 THEN o = {<<key, "SegmentTemplate[1]", ToString(EffSnr(c))>>}
            ELSE o \subseteq {<<key, "SegmentTemplate[1]", "1">>}

NowReadings(now) == {now[1]} \cup (IF now[2] > 0 THEN {now[1] + 1} ELSE {})
AstReadings(c, now) == IF c.startrel # 0 THEN { s + c.startrel : s \in NowReadings(now) }
                       ELSE IF c.start >= 0 THEN {c.start} ELSE {0}
StopReadings(c, now) == IF c.stoprel # 0 THEN { s + c.stoprel : s \in NowReadings(now) } ELSE {0}
LocPath(e, a, s) == JoinParts([i \in 1..Len(e.url) |->
                        IF e.url[i].k = "startrel" THEN "start_" \o ToString(a)
                        ELSE IF e.url[i].k = "stoprel" THEN "stop_" \o ToString(s) ELSE e.url[i].raw])
ObsLoc(F) == AnyOf(F, Top, {"Location#text", "Location#el"})
OkAst(c, e, now, F) ==
   \E a \in AstReadings(c, now) :
      /\ Obs(F, "", Top, "@availabilityStartTime") = {<<"", "", Sec(a)>>}
      /\ IF c.startrel = 0 /\ c.stoprel = 0 THEN ObsLoc(F) = {}
         ELSE \E s \in StopReadings(c, now) : ObsLoc(F) = {<<"", "MPD", "Location#text", "", "Location[1]", e.host \o LocPath(e, a, s)>>}

SchemeOf(m) == CASE m = "direct" -> "urn:mpeg:dash:utc:direct:2014"     [] m = "head" -> "urn:mpeg:dash:utc:http-head:2014"
                 [] m = "ntp" -> "urn:mpeg:dash:utc:ntp:2014"           [] m = "sntp" -> "urn:mpeg:dash:utc:sntp:2014"
                 [] m \in {"httpxsdate", "httpxsdatems"} -> "urn:mpeg:dash:utc:http-xsdate:2014"
                 [] m \in {"httpiso", "httpisoms"} -> "urn:mpeg:dash:utc:http-iso:2014"
HttpSchemes == {"urn:mpeg:dash:utc:http-xsdate:2014", "urn:mpeg:dash:utc:http-iso:2014"}
UInst(i) == "UTCTiming[" \o ToString(i) \o "]"
OkUtc(c, e, F) ==
   LET U == AnyOf(F, Top, UtcCls)
       insts == { f[5] : f \in U }
       n == Cardinality(insts)
       SchemeAt(i) == { f[6] : f \in { g \in U : g[3] = "UTCTiming@schemeIdUri" /\ g[5] = UInst(i) } }
       ValueAt(i)  == { f[6] : f \in { g \in U : g[3] = "UTCTiming@value" /\ g[5] = UInst(i) } }
       Good(i, s)  == SchemeAt(i) = {s} /\ Cardinality(ValueAt(i)) = 1 /\ "" \notin ValueAt(i)
   IN /\ insts = { UInst(i) : i \in 1..n }
      /\ CASE c.utc = <<>> -> n = 1 /\ \E s \in HttpSchemes : Good(1, s)
           [] c.utc = <<"none">> -> n = 0
           [] c.utc = <<"keep">> -> /\ n = Len(e.vodUtc)
                                   /\ \A i \in 1..n : /\ SchemeAt(i) = {e.vodUtc[i][1]}
                                                      /\ ValueAt(i) = (IF e.vodUtc[i][2] = "" THEN {} ELSE {e.vodUtc[i][2]})
           [] OTHER -> n = Len(c.utc) /\ \A i \in 1..n : Good(i, SchemeOf(c.utc[i]))

AtoStr(c) == IF c.ato = -1 THEN "INF" ELSE ToString(c.ato)
LowLat(c) == c.ato # 0 /\ c.chunkdur # 0
EffLtgt(c) == IF c.ltgt >= 0 THEN c.ltgt ELSE 3500
OkLl(c, e, F) ==
   /\ \A p \in PeriodsOf(F) :
        /\ \A key \in VasKeys(e, {"video", "audio"}) :
              LET sc == {ScopeOfKey(e, key)}
                  ato == { x \in Obs(F, p, sc, ATO) : x[1] = key }
                  atc == { x \in Obs(F, p, sc, ATC) : x[1] = key }
              IN /\ ato = (IF c.ato # 0 THEN {<<key, "SegmentTemplate[1]", AtoStr(c)>>} ELSE {})
                 /\ IF c.chunkdur # 0 THEN atc = {<<key, "SegmentTemplate[1]", "false">>}
                    ELSE atc \subseteq {<<key, "SegmentTemplate[1]", "true">>}
        /\ \A f \in { g \in F : g[1] = p /\ g[2] \in (ASall \ Media) } :
              /\ f[3] = ATO => (c.ato # 0 /\ f[6] = AtoStr(c))
              /\ f[3] = ATC => (f[6] = "true" \/ c.chunkdur # 0)
        /\ AnyOf({ g \in F : g[1] = p }, ASall, {ATO \o "!raw"}) = {}
   /\ IF LowLat(c) THEN Obs(F, "", Top, "ServiceDescription/Latency@target")
                          = {<<"", "ServiceDescription[1]/Latency[1]", ToString(EffLtgt(c))>>}
      ELSE (c.ato = 0 /\ c.chunkdur = 0 /\ c.ltgt < 0) => AnyOf(F, Top, SdCls) = {}
   /\ LowLat(c) => \A p \in PeriodsOf(F) : \A key \in VasKeys(e, {"video"}) :
                      \E x \in Obs(F, p, {"AS:video"}, "ProducerReferenceTime@wallClockTime") : x[1] = key
   /\ (c.ato = 0 /\ c.chunkdur = 0) => AnyOf(F, ASall, PrtCls) = {}
   /\ \A f \in AnyOf(F, ASall, {"ProducerReferenceTime@presentationTime"}) :
         f[6] = "0" => \A g \in AnyOf(F, ASall, {"ProducerReferenceTime@wallClockTime", "ProducerReferenceTime@wallClockTime!raw"}) :
                          (g[1] = f[1] /\ g[4] = f[4] /\ g[5] = f[5]) =>
                             (g[3] = "ProducerReferenceTime@wallClockTime" /\ <<"", "", g[6]>> \in Obs(F, "", Top, "@availabilityStartTime"))

AsIds(F, p, key) == { f[6] : f \in { g \in F : g[1] = p /\ g[2] \in ASall /\ g[3] = "@id" /\ g[4] = key } }
OkPatch(c, e, F) ==
   LET mid == Obs(F, "", Top, "@id")
   IN IF c.patch > 0
      THEN /\ Obs(F, "", Top, "PatchLocation@ttl") = {<<"", "PatchLocation[1]", ToString(c.patch)>>}
           /\ \E x \in Obs(F, "", Top, "PatchLocation#text") : x[2] = "PatchLocation[1]" /\ x[3] # ""
           /\ Cardinality(Obs(F, "", Top, "PatchLocation#text")) = 1
           /\ AnyOf(F, Top, {"PatchLocation@ttl!raw", "PatchLocation#el"}) = {}
           /\ Cardinality(mid) = 1 /\ (\A x \in mid : x[3] # "") /\ (e.vodId # "" => mid = {<<"", "", e.vodId>>})
           /\ \A p \in PeriodsOf(F) :
                 LET keys == AsKeysIn(F, p, ASall)
                 IN /\ \A k \in keys : Cardinality(AsIds(F, p, k)) = 1
                    /\ \A k1, k2 \in keys : k1 # k2 => AsIds(F, p, k1) # AsIds(F, p, k2)
      ELSE /\ AnyOf(F, Top, PatchCls) = {}
           /\ mid = (IF e.vodId # "" THEN {<<"", "", e.vodId>>} ELSE {})

OkTimesubs(c, e, F) ==
   \A p \in PeriodsOf(F) :
      LET plus == { f \in F : f[1] = p /\ f[2] \in ASplus /\ f[3] = "#ct" }
          LangOf(k) == { f[6] : f \in { g \in F : g[1] = p /\ g[2] \in ASplus /\ g[3] = "@lang" /\ g[4] = k /\ g[5] = "" } }
          got  == UNION { { <<f[2], l>> : l \in LangOf(f[4]) } : f \in plus }
          want == { <<"AS+:stpp", c.stpp[i]>> : i \in DOMAIN c.stpp } \cup { <<"AS+:wvtt", c.wvtt[i]>> : i \in DOMAIN c.wvtt }
      IN /\ got = want
         /\ Cardinality(plus) = Len(c.stpp) + Len(c.wvtt)
         /\ \A f \in plus : f[6] = "text" /\ Cardinality(LangOf(f[4])) = 1

OkScte(c, e, F) ==
   \A p \in PeriodsOf(F) :
      LET S == { f \in F : f[1] = p /\ f[2] \in ASall /\ f[3] \in ScteId }
      IN IF c.scte35 = 0 THEN S = {}
         ELSE /\ \A f \in S : f[2] = "AS:video"
              /\ \A key \in VasKeys(e, {"video"}) : Cardinality({ f \in S : f[4] = key }) = 1

OkAnnexI(c, e, F) ==
   \A p \in PeriodsOf(F) :
      LET S == { f \in F : f[1] = p /\ f[2] \in ASall /\ f[3] \in EpCls }
          inst == EP \o "[1]/UrlQueryInfo[1]"
      IN IF c.annexI = 0 THEN S = {}
         ELSE /\ \A f \in S : f[2] = "AS:video"
              /\ \A key \in VasKeys(e, {"video"}) :
                    /\ { f[5] : f \in { g \in S : g[4] = key /\ g[3] = EP \o "@schemeIdUri" } } = {EP \o "[1]"}
                    /\ <<p, "AS:video", EP \o "/UrlQueryInfo@useMPDUrlQuery", key, inst, "true">> \in S
                    /\ <<p, "AS:video", EP \o "/UrlQueryInfo@queryTemplate", key, inst, "$querypart$">> \in S

OkTraffic(c, e, F) ==
   \A p \in PeriodsOf(F) :
      LET B == { f \in F : f[1] \in {"", p} /\ f[2] \in (Top \cup PerS) /\ f[3] \in BaseCls }
      IN /\ Cardinality(B) = c.traffic
         /\ \A f \in B : f[3] = "BaseURL#text" /\ f[6] # ""
         /\ \A f, g \in B : f # g => f[6] # g[6]

OkCont(c, e, F) ==
   LET C == { f \in F : f[2] \in ASall /\ f[3] = CONT \o "@schemeIdUri" }
       first == { f[1] : f \in { g \in F : g[2] = "Period" /\ g[3] = "#pos" /\ g[6] = "1" } }
   IN IF ~c.continuous THEN C = {}
      ELSE \A p \in PeriodsOf(F) \ first : \A key \in VasKeys(e, {"video", "audio", "text", "image", "other"}) :
              \E f \in C : f[1] = p /\ f[4] = key

MP4P == "ContentProtection{urn:mpeg:dash:mp4protection:2011}[1]"
CencScheme(c, e) == IF c.eccp # "" THEN c.eccp ELSE e.drmScheme     \* drm_: the scheme of the configured package's keys
OkDrm(c, e, F) ==
   \A p \in PeriodsOf(F) :
      LET S == { f \in F : f[1] = p /\ f[2] \in ASall /\ f[3] \in CpCls }
      IN IF c.eccp = "" /\ c.drm = "" THEN S = {}
         ELSE /\ \A f \in S : f[2] \in Media
              /\ \A key \in VasKeys(e, {"video", "audio"}) :
                      LET sc == ScopeOfKey(e, key)
                      IN /\ <<p, sc, "ContentProtection@value", key, MP4P, CencScheme(c, e)>> \in S
                         /\ \A f \in S : (f[4] = key /\ f[3] = "ContentProtection@schemeIdUri" /\ f[6] = "urn:mpeg:dash:mp4protection:2011")
                                            => f[5] = MP4P
                         /\ \E f \in S : f[4] = key /\ f[3] \in LaurlCls /\ f[6] # ""

\* all value clauses, by name (the trace specification reports the failing ones)
ClauseNames == <<"X01.shape", "X01.tsbd", "X01.mup", "X01.spd", "X01.snr", "X01.ast", "X01.utc", "X01.ll", "X01.patch",
                 "X01.timesubs", "X01.scte35", "X01.annexI", "X01.traffic", "X01.cont", "X01.drm">>
ClauseOk(name, c, e, now, F) ==
   CASE name = "X01.shape" -> OkShape(c, e, F)     [] name = "X01.tsbd" -> OkTsbd(c, e, F)    [] name = "X01.mup" -> OkMup(c, e, F)
     [] name = "X01.snr" -> OkSnr(c, e, F)
     [] name = "X01.spd" -> OkSpd(c, e, F)         [] name = "X01.ast" -> OkAst(c, e, now, F) [] name = "X01.utc" -> OkUtc(c, e, F)
     [] name = "X01.ll" -> OkLl(c, e, F)           [] name = "X01.patch" -> OkPatch(c, e, F)  [] name = "X01.timesubs" -> OkTimesubs(c, e, F)
     [] name = "X01.scte35" -> OkScte(c, e, F)     [] name = "X01.annexI" -> OkAnnexI(c, e, F) [] name = "X01.traffic" -> OkTraffic(c, e, F)
     [] name = "X01.cont" -> OkCont(c, e, F)       [] name = "X01.drm" -> OkDrm(c, e, F)
Failing(c, e, now, F) == { ClauseNames[i] : i \in { j \in DOMAIN ClauseNames : ~ClauseOk(ClauseNames[j], c, e, now, F) } }

\* X01.indep on a symmetric difference D (facts only in one of the two MPDs)
Ungoverned(k, D) == { f \in D : ~Match(Governs(k) \cup UrlEcho, f) }
=============================================================================

------------------------------ MODULE UrlGen ------------------------------
(* (M) + (R) for X04.
   TLC enumerates ABSTRACT FORMS r = [stl, asset, hv, parts] - every (field, value class) singly (in-range, default, "off",
   and the invalid classes), every pair of fields in a typical in-range class, listed pairs with a conflict or an
   invalid value, listed triples, and the bare form under every host variant - as initial states, and
     (R) prints each one as a JSON line (prefix GEN) that harness/drive/x04 concretises (seeded representatives per
         value class) and submits to the real server;
     (M) checks the ORACLE on every element, with representative values Rep, against an abstract faithful generator
         IdealGen / GenA and the abstract parser ParseA:
           InvRoundTrip   ParseA(GenA(form)) = the form (defaults dropped) for every admissible form
           InvRejected    a form that is not admissible gets no URL and a message from IdealGen
           InvAccept      every clause of UrlGenOps accepts IdealGen's page and the faithful server's answer
           InvFeedback    the feedback form read from IdealGen's URL satisfies FeedbackOk
           InvSensitive   sloppy generators are caught: one part dropped, one value altered, a foreign part added, a
                          part written twice, a wrong host, a URL for an invalid / conflicting form that the server
                          then rejects                                                                               *)
EXTENDS UrlGenOps, Json

CONSTANTS
   SingleStls, SingleAssets,   \* used with single fields
   PairStls, PairAssets,       \* used with pairs and triples
   HostVariants,               \* request / server variants for the bare form: plain | https | fwd | cfg
   MixedBad                    \* TRUE: every invalid / default / "off" class also together with one in-range field

VARIABLE r

NF == Len(FieldSeq)
ASSUME Cardinality(Fields) = NF

PairClass(f) ==
   CASE f \in {"tsbd", "mup", "spd", "snr", "periods", "ato", "chunkdur", "ltgt", "patch-ttl", "start", "stop", "startrel", "stoprel", "timesubsdur"} -> "typ"
     [] f = "utc" -> "multi"      [] f = "continuous" -> "on"     [] f = "scte35" -> "2"     [] f = "timesubsreg" -> "1"
     [] f \in {"timesubsstpp", "timesubswvtt", "traffic", "annexI", "statuscode"} -> "two"
     [] f = "drm" -> "eccp-cbcs"
ASSUME \A f \in Fields : PairClass(f) \in Req(f)

\* ------------------------------------------------------------------ representative values (the driver draws seeded ones)
E(f, c, v, vs, n) == [f |-> f, c |-> c, v |-> v, vs |-> vs, n |-> n]
S(f, c, v) == E(f, c, v, <<v>>, 0)
N(f, c, n) == E(f, c, ToString(n), <<ToString(n)>>, n)
L(f, c, vs) == E(f, c, Join(vs, ","), vs, 0)
Take(s, n) == [i \in 1..n |-> s[i]]
NOf(c) == CASE c = "one" -> 1 [] c = "two" -> 2 [] c = "three" -> 3
Rep(f, c) ==
   CASE f = "tsbd" -> (CASE c = "0" -> N(f, c, 0) [] c = "1" -> N(f, c, 1) [] c = "typ" -> N(f, c, 30) [] c = "max" -> N(f, c, 172800)
                         [] c = "dflt" -> N(f, c, 60) [] c = "neg" -> N(f, c, -5) [] c = "big" -> N(f, c, 172801) [] c = "nonint" -> S(f, c, "abc"))
     [] f = "mup" -> (CASE c = "1" -> N(f, c, 1) [] c = "typ" -> N(f, c, 7) [] c = "big" -> N(f, c, 100000) [] c = "0" -> N(f, c, 0)
                        [] c = "neg" -> N(f, c, -3) [] c = "frac" -> S(f, c, "2.5") [] c = "nonint" -> S(f, c, "x"))
     [] f = "spd" -> (CASE c = "0" -> N(f, c, 0) [] c = "typ" -> N(f, c, 12) [] c = "nonint" -> S(f, c, "1s"))
     [] f = "utc" -> (CASE c = "multi" -> L(f, c, <<"ntp", "direct", "httpiso">>) [] c = "hyph" -> S(f, c, "ntp-direct")
                        [] c = "unknown" -> S(f, c, "gps") [] c = "keepmix" -> L(f, c, <<"keep", "ntp">>) [] OTHER -> S(f, c, c))
     [] f = "snr" -> (CASE c = "0" -> N(f, c, 0) [] c = "1" -> N(f, c, 1) [] c = "typ" -> N(f, c, 44) [] c = "m1" -> N(f, c, -1) [] c = "nonint" -> S(f, c, "one"))
     [] f = "periods" -> (CASE c = "typ" -> N(f, c, 60) [] c = "alt" -> N(f, c, 30) [] c = "0" -> N(f, c, 0) [] c = "big" -> N(f, c, 61)
                            [] c = "huge" -> N(f, c, 3601) [] c = "nonint" -> S(f, c, "many"))
     [] f = "continuous" -> S(f, c, "on")
     [] f = "ato" -> (CASE c = "typ" -> S(f, c, "1") [] c = "ms" -> S(f, c, "1.234") [] c = "inf" -> S(f, c, "inf") [] c = "nonfloat" -> S(f, c, "fast"))
     [] f = "chunkdur" -> (CASE c = "typ" -> S(f, c, "0.5") [] c = "neg" -> S(f, c, "-0.5") [] c = "nonfloat" -> S(f, c, "half"))
     [] f = "ltgt" -> (CASE c = "typ" -> N(f, c, 5000) [] c = "1" -> N(f, c, 1) [] c = "dflt" -> N(f, c, 3500) [] c = "nonint" -> S(f, c, "abc"))
     [] f = "patch-ttl" -> (CASE c = "1" -> N(f, c, 1) [] c = "typ" -> N(f, c, 20) [] c = "0" -> N(f, c, 0) [] c = "neg" -> N(f, c, -5) [] c = "nonint" -> S(f, c, "ttl"))
     [] f = "scte35" -> S(f, c, c)
     [] f = "start" -> (CASE c = "1" -> N(f, c, 1) [] c = "typ" -> N(f, c, 1000) [] c = "nonint" -> S(f, c, "now"))
     [] f = "stop" -> (CASE c = "typ" -> N(f, c, 1700003000) [] c = "before" -> N(f, c, 900) [] c = "neg" -> N(f, c, -5) [] c = "nonint" -> S(f, c, "later"))
     [] f = "startrel" -> (CASE c = "m1" -> N(f, c, -1) [] c = "typ" -> N(f, c, -600) [] c = "nonint" -> S(f, c, "-1m"))
     [] f = "stoprel" -> (CASE c = "typ" -> N(f, c, 300) [] c = "nonint" -> S(f, c, "5m"))
     [] f \in {"timesubsstpp", "timesubswvtt"} -> L(f, c, Take(<<"en", "sv", "de">>, NOf(c)))
     [] f = "timesubsdur" -> (CASE c = "1" -> N(f, c, 1) [] c = "typ" -> N(f, c, 500) [] c = "max" -> N(f, c, 1000) [] c = "dflt" -> N(f, c, 900)
                                [] c = "0" -> N(f, c, 0) [] c = "neg" -> N(f, c, -100) [] c = "nonint" -> S(f, c, "1s") [] c = "huge" -> N(f, c, 3600001))
     [] f = "timesubsreg" -> S(f, c, c)
     [] f = "drm" -> (CASE c = "k1" -> S(f, c, "pkg-one") [] c = "k2" -> S(f, c, "pkg-two") [] OTHER -> S(f, c, c))
     [] f = "annexI" -> (CASE c = "one" -> L(f, c, <<"a=1">>) [] c = "two" -> L(f, c, <<"a=1", "b=2">>) [] c = "nopair" -> S(f, c, "a") [] c = "twoeq" -> S(f, c, "a=b=c"))
     [] f = "statuscode" -> (CASE c = "one" -> S(f, c, "[{code:404,cycle:30,rsq:0}]") [] c = "two" -> S(f, c, "[{code:404,cycle:30,rsq:0},{code:503,cycle:60,rsq:1}]")
                               [] c = "rep" -> S(f, c, "[{code:404,cycle:30,rsq:0,rep:V300}]") [] c = "code" -> S(f, c, "[{code:200,cycle:30,rsq:0}]")
                               [] c = "short" -> S(f, c, "[]") [] c = "key" -> S(f, c, "[{kode:404,cycle:30,rsq:0}]"))
     [] f = "traffic" -> (CASE c = "letter" -> S(f, c, "x5") [] c = "empty" -> S(f, c, "u5,") [] OTHER -> L(f, c, Take(<<"u20d10", "d1", "u45s10h5">>, NOf(c))))
Form(parts) == [i \in DOMAIN parts |-> Rep(parts[i].f, parts[i].c)]

\* ------------------------------------------------------------------ the enumerated space
Part(f, c) == [f |-> f, c |-> c]
Rec(stl, asset, hv, parts) == [stl |-> stl, asset |-> asset, hv |-> hv, parts |-> parts]
FieldsIn(q) == { q.parts[i].f : i \in DOMAIN q.parts }
ClassIn(q, f) == (CHOOSE i \in DOMAIN q.parts : q.parts[i].f = f)
\* two spellings of one parameter: the documentation does not say what both together mean - not enumerated
\* (and whether an absolute stop time lies after a start relative to now depends on the wall clock - not enumerated either)
Alternatives == { {"start", "startrel"}, {"stop", "stoprel"}, {"startrel", "stop"} }
Valid(q) ==
   /\ \A i, j \in DOMAIN q.parts : i # j => q.parts[i].f # q.parts[j].f
   /\ \A a \in Alternatives : ~(a \subseteq FieldsIn(q))
   /\ ("stop" \in FieldsIn(q) /\ q.parts[ClassIn(q, "stop")].c = "before") => "start" \in FieldsIn(q)
   \* X01 reads ato = inf together with chunkdur as not offered (chunks need an offset shorter than the segment)
   /\ ~("ato" \in FieldsIn(q) /\ q.parts[ClassIn(q, "ato")].c = "inf" /\ "chunkdur" \in FieldsIn(q))

Singles == \E f \in Fields : \E c \in ClassesOf(f), stl \in SingleStls, a \in SingleAssets : r = Rec(stl, a, "plain", <<Part(f, c)>>)
Pairs ==
   \E i \in 1..NF, j \in 1..NF, stl \in PairStls, a \in PairAssets :
      /\ i < j
      /\ r = Rec(stl, a, "plain", <<Part(FieldSeq[i], PairClass(FieldSeq[i])), Part(FieldSeq[j], PairClass(FieldSeq[j]))>>)
ListedPairs == { <<Part("start", "typ"), Part("stop", "before")>>, <<Part("start", "1"), Part("stop", "typ")>>,
                 <<Part("tsbd", "neg"), Part("mup", "typ")>>, <<Part("ltgt", "nonint"), Part("tsbd", "typ")>>,
                 <<Part("annexI", "nopair"), Part("patch-ttl", "typ")>>, <<Part("traffic", "letter"), Part("statuscode", "one")>>,
                 <<Part("utc", "keepmix"), Part("spd", "typ")>>, <<Part("periods", "0"), Part("continuous", "on")>>,
                 <<Part("patch-ttl", "0"), Part("tsbd", "typ")>>, <<Part("tsbd", "dflt"), Part("ltgt", "dflt")>>,
                 <<Part("timesubsstpp", "two"), Part("timesubsdur", "dflt")>>, <<Part("drm", "k2"), Part("patch-ttl", "typ")>>,
                 <<Part("drm", "None"), Part("timesubsreg", "0")>>, <<Part("ato", "inf"), Part("tsbd", "typ")>> }
ListedTriples == { <<Part("ato", "typ"), Part("chunkdur", "typ"), Part("ltgt", "typ")>>,
                   <<Part("patch-ttl", "typ"), Part("timesubsstpp", "two"), Part("timesubswvtt", "two")>>,
                   <<Part("startrel", "typ"), Part("stoprel", "typ"), Part("patch-ttl", "typ")>>,
                   <<Part("periods", "typ"), Part("continuous", "on"), Part("scte35", "2")>>,
                   <<Part("periods", "typ"), Part("continuous", "on"), Part("timesubsstpp", "two")>>,
                   <<Part("start", "typ"), Part("ato", "typ"), Part("chunkdur", "typ")>>,
                   <<Part("drm", "eccp-cenc"), Part("patch-ttl", "typ"), Part("annexI", "two")>>,
                   <<Part("timesubsstpp", "one"), Part("timesubsdur", "typ"), Part("timesubsreg", "1")>>,
                   <<Part("start", "typ"), Part("stop", "typ"), Part("statuscode", "rep")>>,
                   <<Part("utc", "multi"), Part("traffic", "two"), Part("snr", "typ")>>,
                   <<Part("continuous", "on"), Part("tsbd", "typ"), Part("mup", "typ")>>,
                   <<Part("start", "typ"), Part("stop", "before"), Part("tsbd", "typ")>> }
Listed == \E t \in ListedPairs \cup ListedTriples, stl \in PairStls, a \in PairAssets : r = Rec(stl, a, "plain", t)
Bare == \/ \E stl \in Stls, a \in SingleAssets \cup PairAssets, hv \in HostVariants : r = Rec(stl, a, hv, <<>>)
        \/ \E stl \in Stls : r = Rec(stl, "none", "plain", <<>>)
        \/ \E hv \in HostVariants, a \in PairAssets : r = Rec("tlt", a, hv, <<Part("tsbd", "typ"), Part("annexI", "two")>>)

Mixed == /\ MixedBad
         /\ \E f \in Fields : \E c \in Bad(f) \cup Off(f) \cup Opt(f), stl \in PairStls, a \in PairAssets :
               r = Rec(stl, a, "plain", <<Part(f, c), Part(IF f = "spd" THEN "mup" ELSE "spd", "typ")>>)

Init == (Singles \/ Pairs \/ Listed \/ Bare \/ Mixed) /\ Valid(r)
Next == UNCHANGED r
Spec == Init /\ [][Next]_r

\* ------------------------------------------------------------------ abstract faithful generator and parser
F0 == Form(r.parts)
ReqOf(hv) == CASE hv = "plain" -> [scheme |-> "http", host |-> "h:8443", fproto |-> "", fhost |-> "", cfghost |-> ""]
               [] hv = "https" -> [scheme |-> "https", host |-> "h", fproto |-> "", fhost |-> "", cfghost |-> ""]
               [] hv = "fwd"   -> [scheme |-> "http", host |-> "h:8443", fproto |-> "https", fhost |-> "pub.example", cfghost |-> ""]
               [] hv = "cfg"   -> [scheme |-> "http", host |-> "h:8443", fproto |-> "", fhost |-> "", cfghost |-> "https://cdn.example/pre"]
Aseg(a) == CASE a = "none" -> <<"Choose an asset...">> [] a = "deep" -> <<"dir", "asset">> [] OTHER -> <<a>>
MpdOf(a) == IF a = "none" THEN "Choose an asset first" ELSE "Manifest.mpd"
Hdr == [stl |-> r.stl, acls |-> r.asset, aseg |-> Aseg(r.asset), mpd |-> MpdOf(r.asset), form |-> F0, req |-> ReqOf(r.hv)]

\* GenA: the abstract parts <<key, value>> of an admissible form, in form order (the parser does not care about the order)
First(p) == CASE p.f = "utc" -> <<"utc", Join(p.vs, "-")>> [] p.f = "continuous" -> <<"continuous", "1">> [] p.f = "drm" -> <<"drm", p.v>>
              [] OTHER -> <<KeyOfField(p.f), p.v>>
GenA(stl, F) ==
   LET G[i \in 0..Len(F)] == IF i = 0 THEN (IF stl = "nr" THEN <<>> ELSE <<CHOOSE a \in StlPartsA(stl) : TRUE>>)
                             ELSE IF Kind(F[i].f, F[i].c) = "req" THEN Append(G[i-1], First(F[i])) ELSE G[i-1]
   IN G[Len(F)]
\* ParseA: what processURLCfg's table reads back
ParseA(A) ==
   [stl |-> IF \E i \in DOMAIN A : A[i][1] = "segtimeline" THEN "tlt" ELSE IF \E i \in DOMAIN A : A[i][1] = "segtimelinenr" THEN "tlnr" ELSE "nr",
    fields |-> { <<FieldOfKey(A[i][1]), IF A[i][1] = "continuous" THEN "on" ELSE A[i][2]>> : i \in { j \in DOMAIN A : A[j][1] \notin {"segtimeline", "segtimelinenr"} } }]
NormalA(stl, F) ==
   [stl |-> stl,
    fields |-> { <<p.f, IF p.f = "utc" THEN Join(p.vs, "-") ELSE p.v>> : p \in { q \in SeqSet(F) : Kind(q.f, q.c) = "req" } }]

Prefix(req) == IF req.cfghost # "" THEN req.cfghost ELSE req.scheme \o "://" \o req.host
PathOf(A, H) == <<"livesim2">> \o [i \in DOMAIN A |-> Render(A[i])] \o H.aseg \o <<H.mpd>>
NoPage == [st |-> 200, perr |-> "", nurl |-> 0, url |-> "", prefix |-> "", path |-> <<>>, query |-> "", msgs |-> <<"bad configuration">>,
           nplay |-> 0, plaympd |-> ""]
PageFor(H, prefix, path) ==
   LET q == IF HasF(H.form, "annexI") THEN Join(Entry(H.form, "annexI").vs, "&") ELSE ""
       u == prefix \o "/" \o Join(path, "/") \o (IF q = "" THEN "" ELSE "?" \o q)
   IN [st |-> 200, perr |-> "", nurl |-> 1, url |-> u, prefix |-> prefix, path |-> path, query |-> q, msgs |-> <<>>, nplay |-> 1, plaympd |-> u]
IdealGen(H) == IF Admissible(H.stl, H.acls, H.form) THEN PageFor(H, Prefix(H.req), PathOf(GenA(H.stl, H.form), H)) ELSE NoPage

\* ------------------------------------------------------------------ invariants
TypeOK == /\ r.stl \in Stls /\ Len(r.parts) <= 3
          /\ \A i \in DOMAIN r.parts : r.parts[i].f \in Fields /\ r.parts[i].c \in ClassesOf(r.parts[i].f)
          /\ \A i \in DOMAIN F0 : F0[i].f = r.parts[i].f /\ F0[i].c = r.parts[i].c /\ F0[i].v # ""
Adm == Admissible(r.stl, r.asset, F0)

InvRoundTrip == Adm => ParseA(GenA(r.stl, F0)) = NormalA(r.stl, F0)
InvRejected  == ~Adm => (IdealGen(Hdr).nurl = 0 /\ Len(IdealGen(Hdr).msgs) > 0 /\ IdealGen(Hdr).nplay = 0)
InvAccept    == /\ GenFailing(Hdr, IdealGen(Hdr)) = {}
                /\ Adm => PlayFailing(Hdr, 200, "", {}) = {}
\* the feedback form of an abstract URL
FbOf(stl, A) == <<[f |-> "stl", v |-> stl]>> \o
                [i \in 1..Len(SelectSeq(A, LAMBDA a : a[1] \notin {"segtimeline", "segtimelinenr"})) |->
                    LET a == SelectSeq(A, LAMBDA b : b[1] \notin {"segtimeline", "segtimelinenr"})[i]
                    IN [f |-> FieldOfKey(a[1]), v |-> IF a[1] = "continuous" THEN "on" ELSE a[2]]]
InvFeedback == Adm => FeedbackOk(FbOf(r.stl, GenA(r.stl, F0)), [i \in DOMAIN GenA(r.stl, F0) |-> Render(GenA(r.stl, F0)[i])])

\* sloppy generators / servers
Mids == GenA(r.stl, F0)
MidStr == [i \in DOMAIN Mids |-> Render(Mids[i])]
WithMid(ms) == PageFor(Hdr, Prefix(Hdr.req), <<"livesim2">> \o ms \o Hdr.aseg \o <<Hdr.mpd>>)
DropAt(s, i) == SubSeq(s, 1, i-1) \o SubSeq(s, i+1, Len(s))
PartsCaught(g) == "X04.gen.parts" \in GenFailing(Hdr, g)
InvSensitive ==
   /\ Adm => /\ \A i \in DOMAIN MidStr : PartsCaught(WithMid(DropAt(MidStr, i)))                         \* a field (or the stl) forgotten
             /\ \A i \in DOMAIN MidStr : PartsCaught(WithMid([MidStr EXCEPT ![i] = MidStr[i] \o "0"]))   \* a value altered
             /\ \A i \in DOMAIN MidStr : PartsCaught(WithMid(MidStr \o <<MidStr[i]>>))                   \* written twice
             /\ PartsCaught(WithMid(MidStr \o <<"init_5">>))                                             \* a parameter nobody asked for
             /\ (HasReq(F0, "tsbd") => PartsCaught(WithMid(MidStr \o <<"tsbd_60">>)))                      \* a second value for a set field
             /\ (r.stl = "nr" => PartsCaught(WithMid(<<"segtimeline_1">> \o MidStr)))
             /\ PartsCaught(PageFor(Hdr, Prefix(Hdr.req), <<"livesim2">> \o MidStr \o <<"other">> \o <<Hdr.mpd>>))
             /\ "X04.gen.host" \in GenFailing(Hdr, PageFor(Hdr, "http://elsewhere", PathOf(Mids, Hdr)))
             /\ "X04.gen.playlink" \in GenFailing(Hdr, [IdealGen(Hdr) EXCEPT !.plaympd = "x"])
             /\ "X04.gen.url" \in GenFailing(Hdr, [IdealGen(Hdr) EXCEPT !.nurl = 0, !.msgs = <<"no">>]) \/ ~NoOff(F0)
             /\ "X04.play.served" \in PlayFailing(Hdr, 400, "", {}) /\ "X04.play.config" \in PlayFailing(Hdr, 200, "", {"X01.tsbd"})
   /\ "X04.err.message" \in GenFailing(Hdr, [NoPage EXCEPT !.msgs = <<>>])
   /\ "X04.err.message" \in GenFailing(Hdr, [WithMid(MidStr) EXCEPT !.msgs = <<"bad tsbd">>])
   /\ "X04.err.agree" \in PlayFailing(Hdr, 400, "", {})
   /\ (Conflicts(r.stl, F0) # {} => "X04.err.exclusive" \in PlayFailing(Hdr, 500, "", {}))
   /\ "X04.page" \in GenFailing(Hdr, [NoPage EXCEPT !.st = 500])

ASSUME \A f \in Fields : FieldOfKey(KeyOfField(f)) = f
\* the fact classes X01's value clauses read (the driver records these facts of every played MPD)
MS == INSTANCE MpdSignalOps
ASSUME PrintT("SIGCLS" \o ToJson(MS!SigClasses))
Emit == PrintT("GEN" \o ToJson(r))
=============================================================================

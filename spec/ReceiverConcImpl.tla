---------------------------- MODULE ReceiverConcImpl ----------------------------
(* Explorer for C19: the CMAF-ingest receiver's upload handler as the Go code runs it
   (cmd/cmaf-ingest-receiver/app: receiver.go SegmentHandlerFunc, channelmgr.go, channel.go).
   One process per TRACK: its first (init) upload followed, when Media = TRUE, by its first media upload.
     get1  GetChannel (RLock, atomic)                 -> miss: gate "add:<track>"
     add   AddChannel (Lock). Fixed = FALSE: NO re-check, a new channel object replaces the table entry
     get2  GetChannel again
     s1,s2 `_, ok := r.streams[id]`   read window     (gate "streams_r:<track>" before s1)
     s3,s4 `r.streams[id] = stream`   write window    (gate "streams_w:<track>" before s3)
     reg   processInitSegment -> addTrData under ch.mu (gate "reg:<track>"): registers the track in the
           channel OBJECT the handler holds (which may no longer be the one in the table)
     m1    media upload: GetChannel (hit)
     ms1,ms2 stream table read window again
     m2,m3 `trd, ok := ch.trDatas[trName]` WITHOUT ch.mu (gate "trdatas_r:<track>"): 500 "failed to find
           track data" when the track is not registered in the object the table now holds
   Every unsynchronised access is a two-step window so that an overlap is a reachable STATE (NoConflict).
   A write under ch.mu (reg) is atomic but conflicts with an open unlocked read window of the same table.
   Fixed = TRUE is the CURRENT code (since /repo commits 31ea68b, 50199e3, f290dd1; patches kept in
   proposed_fixes/C19-*.diff): AddChannel re-checks under the write lock, the stream table is accessed under a
   mutex, trDatas is read under ch.mu.RLock.  Fixed = FALSE is the design as it was written before; its
   counterexamples (spec/mc/ReceiverConcImpl_cex_*.cfg) are kept as documentation and its behaviours are still
   what the generator ReceiverConcGen replays (the gates did not move relative to the labels, and these are the
   adversarial schedules).
   Channels: "A" (HandlersA) and "B" (HandlersB, may be empty). *)
EXTENDS Integers, Sequences, FiniteSets, TLC
CONSTANTS HandlersA, HandlersB, Fixed, Media
Handlers == HandlersA \cup HandlersB
Channels == {"A", "B"}
C(h) == IF h \in HandlersA THEN "A" ELSE "B"
HandlersOf(c) == IF c = "A" THEN HandlersA ELSE HandlersB
MaxObj == Cardinality(Handlers)
\* names of the shared tables (uniform shape: TLC refuses to compare a string with a tuple)
SVar == <<"streams", "-", 0>>
TVar(c, o) == <<"trDatas", c, o>>

(* --algorithm conc {
  variables chan = [c \in Channels |-> 0],          \* id of the channel object in the table, 0 = none
            created = [c \in Channels |-> 0],       \* number of channel objects ever created per name
            tracksOf = [c \in Channels |-> [o \in 1..MaxObj |-> {}]],   \* tracks registered per channel object
            streams = {},                           \* stream table
            acc = {},                               \* unsynchronised accesses in progress: <<proc, var, kind>>
            raced = FALSE,                          \* a locked write happened inside somebody's unlocked read window
            resp = [x \in Handlers |-> "none"];     \* answer to the media upload
  define {
    \* C19.one_channel at design level
    OneChannel == \A c \in Channels : created[c] <= 1
    \* C19.norace at design level
    NoConflict == /\ ~ \E x, y \in acc : x[1] # y[1] /\ x[2] = y[2] /\ (x[3] = "w" \/ y[3] = "w")
                  /\ ~raced
    AllDone == \A x \in Handlers : pc[x] = "Done"
    \* C19.registered at design level: the channel that serves later uploads knows every answered track ...
    Registered == AllDone => \A c \in Channels : HandlersOf(c) # {} => tracksOf[c][chan[c]] = HandlersOf(c)
    \* ... so that its media upload is accepted
    MediaOK == \A x \in Handlers : resp[x] # "fail"
    StreamsComplete == AllDone => streams = Handlers
  }
  process (h \in Handlers) variables ch = 0, known = FALSE; {
    get1:  ch := chan[C(self)];
           if (ch = 0) {
    add:      if (~Fixed \/ chan[C(self)] = 0) {
                 created[C(self)] := created[C(self)] + 1; chan[C(self)] := created[C(self)];
              };
    get2:     ch := chan[C(self)];
           };
    s1:    if (Fixed) { streams := streams \cup {self}; goto reg; }
           else { acc := acc \cup {<<self, SVar, "r">>}; };
    s2:    known := self \in streams; acc := acc \ {<<self, SVar, "r">>};
           if (~known) {
    s3:       acc := acc \cup {<<self, SVar, "w">>};
    s4:       streams := streams \cup {self}; acc := acc \ {<<self, SVar, "w">>};
           };
    reg:   tracksOf[C(self)][ch] := tracksOf[C(self)][ch] \cup {self};
           raced := raced \/ \E x \in acc : x[1] # self /\ x[2] = TVar(C(self), ch);
           if (~Media) { goto Done; };
    m1:    ch := chan[C(self)];
           if (Fixed) { goto m2; };
    ms1:   acc := acc \cup {<<self, SVar, "r">>};
    ms2:   known := self \in streams; acc := acc \ {<<self, SVar, "r">>};
    m2:    if (Fixed) { resp[self] := IF self \in tracksOf[C(self)][ch] THEN "ok" ELSE "fail"; goto Done; }
           else { acc := acc \cup {<<self, TVar(C(self), ch), "r">>}; };
    m3:    resp[self] := IF self \in tracksOf[C(self)][ch] THEN "ok" ELSE "fail";
           acc := acc \ {<<self, TVar(C(self), ch), "r">>};
  }
} *)
\* BEGIN TRANSLATION (chksum(pcal) = "292528d9" /\ chksum(tla) = "e358d971")
VARIABLES pc, chan, created, tracksOf, streams, acc, raced, resp

(* define statement *)
OneChannel == \A c \in Channels : created[c] <= 1

NoConflict == /\ ~ \E x, y \in acc : x[1] # y[1] /\ x[2] = y[2] /\ (x[3] = "w" \/ y[3] = "w")
              /\ ~raced
AllDone == \A x \in Handlers : pc[x] = "Done"

Registered == AllDone => \A c \in Channels : HandlersOf(c) # {} => tracksOf[c][chan[c]] = HandlersOf(c)

MediaOK == \A x \in Handlers : resp[x] # "fail"
StreamsComplete == AllDone => streams = Handlers

VARIABLES ch, known

vars == << pc, chan, created, tracksOf, streams, acc, raced, resp, ch, known
        >>

ProcSet == (Handlers)

Init == (* Global variables *)
        /\ chan = [c \in Channels |-> 0]
        /\ created = [c \in Channels |-> 0]
        /\ tracksOf = [c \in Channels |-> [o \in 1..MaxObj |-> {}]]
        /\ streams = {}
        /\ acc = {}
        /\ raced = FALSE
        /\ resp = [x \in Handlers |-> "none"]
        (* Process h *)
        /\ ch = [self \in Handlers |-> 0]
        /\ known = [self \in Handlers |-> FALSE]
        /\ pc = [self \in ProcSet |-> "get1"]

get1(self) == /\ pc[self] = "get1"
              /\ ch' = [ch EXCEPT ![self] = chan[C(self)]]
              /\ IF ch'[self] = 0
                    THEN /\ pc' = [pc EXCEPT ![self] = "add"]
                    ELSE /\ pc' = [pc EXCEPT ![self] = "s1"]
              /\ UNCHANGED << chan, created, tracksOf, streams, acc, raced, 
                              resp, known >>

add(self) == /\ pc[self] = "add"
             /\ IF ~Fixed \/ chan[C(self)] = 0
                   THEN /\ created' = [created EXCEPT ![C(self)] = created[C(self)] + 1]
                        /\ chan' = [chan EXCEPT ![C(self)] = created'[C(self)]]
                   ELSE /\ TRUE
                        /\ UNCHANGED << chan, created >>
             /\ pc' = [pc EXCEPT ![self] = "get2"]
             /\ UNCHANGED << tracksOf, streams, acc, raced, resp, ch, known >>

get2(self) == /\ pc[self] = "get2"
              /\ ch' = [ch EXCEPT ![self] = chan[C(self)]]
              /\ pc' = [pc EXCEPT ![self] = "s1"]
              /\ UNCHANGED << chan, created, tracksOf, streams, acc, raced, 
                              resp, known >>

s1(self) == /\ pc[self] = "s1"
            /\ IF Fixed
                  THEN /\ streams' = (streams \cup {self})
                       /\ pc' = [pc EXCEPT ![self] = "reg"]
                       /\ acc' = acc
                  ELSE /\ acc' = (acc \cup {<<self, SVar, "r">>})
                       /\ pc' = [pc EXCEPT ![self] = "s2"]
                       /\ UNCHANGED streams
            /\ UNCHANGED << chan, created, tracksOf, raced, resp, ch, known >>

s2(self) == /\ pc[self] = "s2"
            /\ known' = [known EXCEPT ![self] = self \in streams]
            /\ acc' = acc \ {<<self, SVar, "r">>}
            /\ IF ~known'[self]
                  THEN /\ pc' = [pc EXCEPT ![self] = "s3"]
                  ELSE /\ pc' = [pc EXCEPT ![self] = "reg"]
            /\ UNCHANGED << chan, created, tracksOf, streams, raced, resp, ch >>

s3(self) == /\ pc[self] = "s3"
            /\ acc' = (acc \cup {<<self, SVar, "w">>})
            /\ pc' = [pc EXCEPT ![self] = "s4"]
            /\ UNCHANGED << chan, created, tracksOf, streams, raced, resp, ch, 
                            known >>

s4(self) == /\ pc[self] = "s4"
            /\ streams' = (streams \cup {self})
            /\ acc' = acc \ {<<self, SVar, "w">>}
            /\ pc' = [pc EXCEPT ![self] = "reg"]
            /\ UNCHANGED << chan, created, tracksOf, raced, resp, ch, known >>

reg(self) == /\ pc[self] = "reg"
             /\ tracksOf' = [tracksOf EXCEPT ![C(self)][ch[self]] = tracksOf[C(self)][ch[self]] \cup {self}]
             /\ raced' = (raced \/ \E x \in acc : x[1] # self /\ x[2] = TVar(C(self), ch[self]))
             /\ IF ~Media
                   THEN /\ pc' = [pc EXCEPT ![self] = "Done"]
                   ELSE /\ pc' = [pc EXCEPT ![self] = "m1"]
             /\ UNCHANGED << chan, created, streams, acc, resp, ch, known >>

m1(self) == /\ pc[self] = "m1"
            /\ ch' = [ch EXCEPT ![self] = chan[C(self)]]
            /\ IF Fixed
                  THEN /\ pc' = [pc EXCEPT ![self] = "m2"]
                  ELSE /\ pc' = [pc EXCEPT ![self] = "ms1"]
            /\ UNCHANGED << chan, created, tracksOf, streams, acc, raced, resp, 
                            known >>

ms1(self) == /\ pc[self] = "ms1"
             /\ acc' = (acc \cup {<<self, SVar, "r">>})
             /\ pc' = [pc EXCEPT ![self] = "ms2"]
             /\ UNCHANGED << chan, created, tracksOf, streams, raced, resp, ch, 
                             known >>

ms2(self) == /\ pc[self] = "ms2"
             /\ known' = [known EXCEPT ![self] = self \in streams]
             /\ acc' = acc \ {<<self, SVar, "r">>}
             /\ pc' = [pc EXCEPT ![self] = "m2"]
             /\ UNCHANGED << chan, created, tracksOf, streams, raced, resp, ch >>

m2(self) == /\ pc[self] = "m2"
            /\ IF Fixed
                  THEN /\ resp' = [resp EXCEPT ![self] = IF self \in tracksOf[C(self)][ch[self]] THEN "ok" ELSE "fail"]
                       /\ pc' = [pc EXCEPT ![self] = "Done"]
                       /\ acc' = acc
                  ELSE /\ acc' = (acc \cup {<<self, TVar(C(self), ch[self]), "r">>})
                       /\ pc' = [pc EXCEPT ![self] = "m3"]
                       /\ resp' = resp
            /\ UNCHANGED << chan, created, tracksOf, streams, raced, ch, known >>

m3(self) == /\ pc[self] = "m3"
            /\ resp' = [resp EXCEPT ![self] = IF self \in tracksOf[C(self)][ch[self]] THEN "ok" ELSE "fail"]
            /\ acc' = acc \ {<<self, TVar(C(self), ch[self]), "r">>}
            /\ pc' = [pc EXCEPT ![self] = "Done"]
            /\ UNCHANGED << chan, created, tracksOf, streams, raced, ch, known >>

h(self) == get1(self) \/ add(self) \/ get2(self) \/ s1(self) \/ s2(self)
              \/ s3(self) \/ s4(self) \/ reg(self) \/ m1(self) \/ ms1(self)
              \/ ms2(self) \/ m2(self) \/ m3(self)

(* Allow infinite stuttering to prevent deadlock on termination. *)
Terminating == /\ \A self \in ProcSet: pc[self] = "Done"
               /\ UNCHANGED vars

Next == (\E self \in Handlers: h(self))
           \/ Terminating

Spec == Init /\ [][Next]_vars

Termination == <>(\A self \in ProcSet: pc[self] = "Done")

\* END TRANSLATION 
=============================================================================

---------------------------- MODULE PatchOps ----------------------------
(* Oracle for C11: ordered XML trees and the RFC 5261 (XML patch) subset used by DASH MPD patches,
   as pure operators (no CONSTANTS).

   Tree     [tag, attrs, text, kids]   attrs: function name -> value (so attribute order is irrelevant),
                                       text: character data with surrounding white space removed,
                                       kids: sequence of trees (document order).
   Selector sequence of steps [tag, pk, pa, pv, n]:
              pk = "none"                 tag              (all children with that tag)
              pk = "attr"                 tag[@pa='pv']    (children with that tag whose attribute pa equals pv)
              pk = "idx"                  tag[n]           (the n-th child with that tag, 1-based, XPath semantics)
            the first step names the document element.
   Op       [op, ok, sel, attr, pos, val, elems]
              op    "add" | "replace" | "remove"
              ok    the recorder could tokenise the selector (FALSE: not an XPath location path)
              attr  "" or the attribute addressed (selector tail /@attr, or RFC 5261 type="@attr" of an add)
              pos   "" (append as last child) | "prepend" | "before" | "after"      (element add only)
              val   attribute value (attribute add / replace)
              elems sequence of trees: content of an element add / replace

   C11.unique: every selector must resolve to exactly one node (RFC 5261 4.1: otherwise the patch fails);
               replace/remove of an attribute needs the attribute to exist, add needs it to be absent.
   C11.apply : folding Apply over the operations in document order turns the old tree into the new tree. *)
EXTENDS Integers, Sequences, FiniteSets

Bad == [tag |-> "#unresolved", attrs |-> <<>>, text |-> "", kids |-> <<>>]

HasAttr(node, a) == a \in DOMAIN node.attrs
\* index of kids[j] among the siblings with the same tag (XPath positional predicate)
TagIdx(kids, j) == Cardinality({i \in 1..j : kids[i].tag = kids[j].tag})

Matches(kids, j, step) ==
   /\ kids[j].tag = step.tag
   /\ CASE step.pk = "none" -> TRUE
        [] step.pk = "attr" -> HasAttr(kids[j], step.pa) /\ kids[j].attrs[step.pa] = step.pv
        [] step.pk = "idx"  -> TagIdx(kids, j) = step.n
        [] OTHER -> FALSE
Hits(kids, step) == {j \in 1..Len(kids) : Matches(kids, j, step)}

SetAttr(attrs, k, v) == [x \in (DOMAIN attrs) \cup {k} |-> IF x = k THEN v ELSE attrs[x]]
DelAttr(attrs, k)    == [x \in (DOMAIN attrs) \ {k} |-> attrs[x]]
InsertAfter(s, j, es) == SubSeq(s, 1, j) \o es \o SubSeq(s, j + 1, Len(s))     \* after position j (0: in front)
RemoveAt(s, j)        == SubSeq(s, 1, j - 1) \o SubSeq(s, j + 1, Len(s))

\* the selector resolved to `node` itself; operations that act on the node in place
Here(node, op) ==
   CASE op.attr # "" /\ op.op = "add"     -> IF HasAttr(node, op.attr) THEN Bad
                                             ELSE [node EXCEPT !.attrs = SetAttr(node.attrs, op.attr, op.val)]
     [] op.attr # "" /\ op.op = "replace" -> IF ~HasAttr(node, op.attr) THEN Bad
                                             ELSE [node EXCEPT !.attrs = SetAttr(node.attrs, op.attr, op.val)]
     [] op.attr # "" /\ op.op = "remove"  -> IF ~HasAttr(node, op.attr) THEN Bad
                                             ELSE [node EXCEPT !.attrs = DelAttr(node.attrs, op.attr)]
     [] op.attr = "" /\ op.op = "add" /\ op.pos = "prepend" /\ Len(op.elems) > 0
                                          -> [node EXCEPT !.kids = op.elems \o node.kids]
     [] op.attr = "" /\ op.op = "add" /\ op.pos = "" /\ Len(op.elems) > 0
                                          -> [node EXCEPT !.kids = node.kids \o op.elems]
     [] OTHER -> Bad

\* operations that act on the parent's child list (the node at position j of kids is selected)
SiblingOp(op) == op.attr = "" /\ ( op.op \in {"remove", "replace"} \/ (op.op = "add" /\ op.pos \in {"before", "after"}) )
InParent(kids, j, op) ==
   CASE op.op = "remove" -> RemoveAt(kids, j)
     [] op.op = "replace" /\ Len(op.elems) = 1 -> [kids EXCEPT ![j] = op.elems[1]]
     [] op.op = "add" /\ op.pos = "after"  /\ Len(op.elems) > 0 -> InsertAfter(kids, j, op.elems)
     [] op.op = "add" /\ op.pos = "before" /\ Len(op.elems) > 0 -> InsertAfter(kids, j - 1, op.elems)
     [] OTHER -> <<Bad>>

RECURSIVE InKids(_, _, _)
\* kids: the candidate list for the first step of path; returns the new list or <<Bad>>
InKids(kids, path, op) ==
   LET hs == Hits(kids, Head(path)) IN
   IF Cardinality(hs) # 1 THEN <<Bad>>                                   \* C11.unique
   ELSE LET j == CHOOSE x \in hs : TRUE IN
        IF Len(path) = 1 /\ SiblingOp(op) THEN InParent(kids, j, op)
        ELSE IF Len(path) = 1
             THEN LET n == Here(kids[j], op) IN IF n = Bad THEN <<Bad>> ELSE [kids EXCEPT ![j] = n]
             ELSE LET sub == InKids(kids[j].kids, Tail(path), op) IN
                  IF sub = <<Bad>> THEN <<Bad>> ELSE [kids EXCEPT ![j] = [kids[j] EXCEPT !.kids = sub]]

\* the document is the one-element list <<root>>; the result must again be one element
Apply(root, op) ==
   IF ~op.ok \/ op.sel = <<>> \/ root = Bad THEN Bad
   ELSE LET r == InKids(<<root>>, op.sel, op) IN
        IF Len(r) # 1 THEN Bad ELSE r[1]

RECURSIVE FoldFrom(_, _, _)
\* result [tree, bad]: bad = 0 and tree the patched document, or bad = index of the first operation that fails
FoldFrom(tree, ops, i) ==
   IF i > Len(ops) THEN [tree |-> tree, bad |-> 0]
   ELSE LET t == Apply(tree, ops[i]) IN
        IF t = Bad THEN [tree |-> Bad, bad |-> i] ELSE FoldFrom(t, ops, i + 1)
Fold(tree, ops) == FoldFrom(tree, ops, 1)

\* ---- C11.status (times in ms; ttl, margin in s) ----
\* Readings accepted (the text says "within the patch time-to-live" without fixing the clock it refers to):
\* the distance is measured between the request instants (dt) or between the publish times (dpt).
WithinTTL(dt, dpt, ttl)          == dt <= ttl * 1000 /\ dpt <= ttl * 1000
BeyondTTL(dt, dpt, ttl, margin)  == dt > (ttl + margin) * 1000 /\ dpt > (ttl + margin) * 1000
\* "nothing changed => 425": same = the two documents are equal trees.  A 425 is also accepted when only the
\* publishTime is unchanged (dpt = 0) although the content differs: the text does not say what "changed" refers to
\* (such events are counted by the driver as changed_with_same_publishTime).
StatusOK(status, same, dt, dpt, ttl, margin) ==
   CASE same -> status = 425 \/ (status = 410 /\ ~WithinTTL(dt, dpt, ttl))
     [] ~same /\ WithinTTL(dt, dpt, ttl)         -> status = 200 \/ (status = 425 /\ dpt = 0)
     [] ~same /\ BeyondTTL(dt, dpt, ttl, margin) -> status = 410
     [] OTHER -> status \in {200, 410} \/ (status = 425 /\ dpt = 0)
=============================================================================

---------------------------- MODULE AudioReseg ----------------------------
(* (M) for C03: model-checks the oracle's own theorems on small layouts.  One state per video segment
   n = (k, i); `played` collects the VoD frame indices the oracle assigns to the segments of the current loop. *)
EXTENDS AudioResegOps, FiniteSets, TLC
CONSTANTS Layouts,   \* set of <<sc, au>>
          MaxLoops   \* how many video loops are walked
VARIABLES lay, k, i, played
vars == <<lay, k, i, played>>
sc == lay[1]
au == lay[2]

FramesOf(s, a, kk, ii) == [j \in 1..ACount(s, a, kk, ii) |-> Frame(s, a, kk, ii, j - 1)]

Init == lay \in Layouts /\ k = 0 /\ i = 0 /\ played = <<>>
NextSeg == /\ k <= MaxLoops
           /\ LET s == Succ(sc, k, i) IN k' = s[1] /\ i' = s[2]
           /\ played' = IF i = sc.N - 1 THEN <<>> ELSE played \o FramesOf(sc, au, k, i)
           /\ UNCHANGED lay
Spec == Init /\ [][NextSeg]_vars

Admissible_ == AuAdmissible(sc, au)
\* C03.abut: the end of audio segment n is the start of audio segment n+1, also across loop and super-period wraps
Abut == LET s == Succ(sc, k, i) IN TEq(AEnd(sc, au, k, i), AStart(sc, au, s[1], s[2]))
\* C03.start: at or after the video start, less than one frame late
Late == LateOK(sc, au, k, i)
CountNonNeg == ACount(sc, au, k, i) >= 0
\* the per-segment and the per-frame definition of "corresponding position of the looped source" agree
FramesAgree == sc.vod0 = 0 =>
   \A j \in 0..(ACount(sc, au, k, i) - 1) :
      Frame(sc, au, k, i, j) = FrameOfG(sc, au, (AOffStart(sc, au, k, i) \div au.F) + j)
\* no loss, no duplication: the segments of one loop play positions 0..LoopFrames-1 of the loop's grid exactly once
\* and in order; only the last VoD frame is repeated and only when the VoD audio is shorter than the loop's grid
LoopComplete == (sc.vod0 = 0 /\ i = sc.N - 1) =>
   LET all == played \o FramesOf(sc, au, k, i) IN
   /\ Len(all) = LoopFrames(sc, au, k)
   /\ \A p \in 1..Len(all) : all[p] = (IF p - 1 < au.A THEN p - 1 ELSE au.A - 1)
Consecutive == sc.vod0 = 0 =>
   LET all == played \o FramesOf(sc, au, k, i) IN
   \A p \in 2..Len(all) : all[p] = all[p - 1] + 1 \/ (all[p] = au.A - 1 /\ all[p - 1] = au.A - 1)
NoSkipWhenEnough == (sc.vod0 = 0 /\ i = sc.N - 1 /\ au.A >= LoopFrames(sc, au, k)) =>
   LET all == played \o FramesOf(sc, au, k, i) IN \A p \in 1..Len(all) : all[p] = p - 1
=============================================================================

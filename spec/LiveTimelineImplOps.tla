---------------------------- MODULE LiveTimelineImplOps ----------------------------
(* X03 - implementation-shaped model of the live timeline core of livesim2.

   PROPERTY TEXT (what the extra check X03 is held to; nothing here is stronger than C01/C02/C04/C05):
     (a) the operators below are a statement-by-statement transcription of HOW livesim2 computes
           - the answer to a media segment request addressed by $Number$ or by $Time$
             (cmd/livesim2/app: cfgFromRequest, createOutSeg, findSegMetaFromNr, findSegMetaFromTime,
              CheckTimeValidity; handler status mapping 400 / 404 / 425 / 410 / 500),
           - the SegmentTimeline of a live MPD, its startNumber and its publishTime
             (calcWrapTimes, generateTimelineEntries, normalizeToLoop, findFirstFinishedSegIdx,
              adjustAdaptationSetForTimelineNr, calcPublishTime / lastSegAvailTimeS),
         for ONE video representation under one URL configuration;
     (b) X03.fidelity: on every replayed case the real server answers exactly what this transcription
         predicts (status, decode time, duration, sequence number, VoD segment; S entries, startNumber,
         publishTime);
     (c) X03.oracle: what the real server answered satisfies the oracle clauses of C01/C02/C04/C05
         (LiveTimelineOps, LiveMpdOps) - re-evaluated on the observation;
     (d) (model level) the transcription agrees with that oracle on all small layouts
         (spec/LiveTimelineImpl.tla).
   A mismatch of (b) where the oracle accepts the observation means the model is wrong (machinery, exit 2
   territory: reported as explorer fidelity); where the oracle rejects the observation it is a defect.

   Configuration record (plain integers: the explorer works near time zero, ?nowMS= and start_ are inputs):
     c = [ N, dur, vod0, TS, loopMS, tsbd, ato, snr   as in LiveTimelineOps (ato in ms, -1 = infinite),
           ast,                                        availabilityStartTime in s (start_<ast>)
           fix ]                                       TRUE = the present code; FALSE = the code before the vod0 fixes 27fa7f8 / 52d2ae2
                                                       (history: kept for the as-written counterexample configs)
   rep.Segments[j] (0-based) of the asset loader is  StartTime = vod0 + dur[1..j], EndTime = StartTime + dur[j+1]
   (the loader itself is C15's subject: taken as given).  a.LoopDurMS = loopMS.

   Float64 arithmetic of the code (seconds) is transcribed into exact integer arithmetic in the unit
   u = 1/(1000*TS) s (1 tick = 1000 u, 1 ms = TS u).  Instants at which the float result depends on
   rounding noise are flagged (gfrag, efrag, ptfrag) and not judged by X03.fidelity. *)
EXTENDS Integers, Sequences

\* Go's integer division truncates toward zero (b > 0)
GoDiv(a, b) == IF a >= 0 THEN a \div b ELSE -((-a) \div b)
\* math.Round(a / b) for a >= 0, b > 0 (half away from zero), and whether a/b is exactly x.5 (float noise decides)
RoundDiv(a, b) == (a \div b) + (IF 2 * (a % b) >= b THEN 1 ELSE 0)
IsHalf(a, b)   == 2 * (a % b) = b

RECURSIVE ISum(_, _)
ISum(d, j) == IF j = 0 THEN 0 ELSE ISum(d, j - 1) + d[j]
SegStart(c, j) == c.vod0 + ISum(c.dur, j)              \* rep.Segments[j].StartTime
SegEnd(c, j)   == c.vod0 + ISum(c.dur, j + 1)          \* rep.Segments[j].EndTime
SegDur(c, j)   == SegEnd(c, j) - SegStart(c, j)        \* Segment.dur()
RepDuration(c) == SegEnd(c, c.N - 1) - SegStart(c, 0)  \* RepData.duration()

MarginS == 10                                           \* timeShiftBufferDepthMarginS (config.go)
NoSeg == [idx |-> -1, t |-> 0, d |-> 0, nr |-> 0]
Res(st, early, efrag, gfrag, seg) ==
   [st |-> st, early |-> early, efrag |-> efrag, gfrag |-> gfrag, idx |-> seg.idx, t |-> seg.t, d |-> seg.d, nr |-> seg.nr]

(* ---- livesegment.go: CheckTimeValidity(availTimeS, nowS, tsbdS, atoS), availTicks = availTimeS * TS
   returns <<status, early ms, efrag, gfrag>> *)
CheckTimeValidity(c, availTicks, nowMS) ==
   IF c.ato < 0 THEN <<200, 0, FALSE, FALSE>>                                 \* ato == +Inf: return nil
   ELSE LET availU  == availTicks * 1000 - (IF c.ato > 0 THEN c.ato * c.TS ELSE 0)   \* if ato > 0 { availTimeS -= ato }
            nowU    == nowMS * c.TS                                            \* nowS = nowMS * 0.001
            diff    == availU - nowU
            tolU    == c.TS \div 1000                                          \* 1e-6 s = TS/1000 u; diff is an integer
            goneLim == nowU - (c.tsbd + MarginS) * 1000 * c.TS                 \* nowS - (tsbd + margin)
        IN IF diff > tolU                                                      \* availTimeS-nowS > timeCompareToleranceS
           THEN <<425, RoundDiv(diff, c.TS), IsHalf(diff, c.TS), FALSE>>       \*   newErrTooEarly(round((avail-now)*1000))
           ELSE IF availU < goneLim THEN <<410, 0, FALSE, FALSE>>              \* availTimeS < nowS-(tsbd+margin): errGone
           ELSE <<200, 0, FALSE, availU = goneLim>>                            \* exact equality: float noise decides 200/410

\* handler_livesim.go cfgFromRequest: nowMS < StartTimeS*1000 -> 425 "<d>ms too early" (every .mpd and segment request)
BeforeStart(c, nowMS) == nowMS < c.ast * 1000
BeforeStartRes(c, nowMS) == Res(425, c.ast * 1000 - nowMS, FALSE, FALSE, NoSeg)

\* configurl.go verifyAndFillConfig (since 63cb812): ato_inf together with segtimeline_1 / segtimelinenr_1 is a bad request (400) for
\* every URL of that configuration - decided before the start-time check
Refused(c) == c.ato < 0
RefusedRes == Res(400, 0, FALSE, FALSE, NoSeg)

(* ---- livesegment.go: createOutSeg (segmentNumber) + findSegMetaFromNr; $Number$ URL (for a segtimelinenr_1 URL: RefusedRes if Refused) *)
LookupNr(c, nr, nowMS) ==
   IF BeforeStart(c, nowMS) THEN BeforeStartRes(c, nowMS)
   ELSE IF nr < c.snr THEN Res(404, 0, FALSE, FALSE, NoSeg)                    \* if nr < uint32(cfg.getStartNr()) errNotFound
   ELSE LET nrAfterStart == nr - c.snr
            nrWraps      == GoDiv(nrAfterStart, c.N)
            relNr        == nrAfterStart - nrWraps * c.N
            wrapDur      == GoDiv(c.loopMS * c.TS, 1000)
            wrapTime     == nrWraps * wrapDur
            segTime      == wrapTime + SegStart(c, relNr)
            mediaRef     == c.ast * c.TS
            v            == CheckTimeValidity(c, SegEnd(c, relNr) + wrapTime + mediaRef, nowMS)
        IN IF v[1] # 200 THEN Res(v[1], v[2], v[3], v[4], NoSeg)
           ELSE Res(200, 0, FALSE, v[4], [idx |-> relNr, t |-> segTime, d |-> SegDur(c, relNr), nr |-> nr])

\* RepData.findSegmentIndexFromTime: sort.Search(len, Segments[i].StartTime >= t)
FindSegmentIndexFromTime(c, t) ==
   LET S == { i \in 0..(c.N - 1) : SegStart(c, i) >= t } IN
   IF S = {} THEN c.N ELSE CHOOSE i \in S : \A j \in S : i <= j

(* ---- livesegment.go: createOutSeg (timeLineTime) + findSegMetaFromTime; plain errors become 500 in the handler *)
LookupTime(c, time, nowMS) ==
   IF Refused(c) THEN RefusedRes
   ELSE IF BeforeStart(c, nowMS) THEN BeforeStartRes(c, nowMS)
   ELSE LET mediaRef      == c.ast * c.TS
            wrapDur       == GoDiv(c.loopMS * c.TS, 1000)
            nrWraps       == IF c.fix THEN GoDiv(time - SegStart(c, 0), wrapDur) ELSE GoDiv(time, wrapDur)
            wrapTime      == nrWraps * wrapDur
            timeAfterWrap == time - wrapTime
            idx           == FindSegmentIndexFromTime(c, timeAfterWrap)
        IN IF c.fix /\ time < SegStart(c, 0) THEN Res(500, 0, FALSE, FALSE, NoSeg)           \* (since 27fa7f8)
           ELSE IF idx = c.N THEN Res(500, 0, FALSE, FALSE, NoSeg)                                \* "no matching segment"
           ELSE IF SegStart(c, idx) # timeAfterWrap THEN Res(500, 0, FALSE, FALSE, NoSeg)    \* "segment time mismatch"
           ELSE LET v == CheckTimeValidity(c, SegEnd(c, idx) + wrapTime + mediaRef, nowMS) IN
                IF v[1] # 200 THEN Res(v[1], v[2], v[3], v[4], NoSeg)
                ELSE Res(200, 0, FALSE, v[4], [idx |-> idx, t |-> time, d |-> SegDur(c, idx),
                                               nr |-> c.snr + idx + nrWraps * c.N])

(* ---- livempd.go: calcWrapTimes(a, cfg, nowMS, tsbd) *)
WrapTimes(c, nowMS) ==
   LET astMS       == c.ast * 1000
       st0         == nowMS - c.tsbd * 1000                  \* nowMS - int(tsbd)/1_000_000
       startTimeMS == IF st0 < astMS THEN astMS ELSE st0
       startWraps  == GoDiv(startTimeMS - astMS, c.loopMS)
       startWrapMS == startWraps * c.loopMS + astMS
       nowWraps    == GoDiv(nowMS - astMS, c.loopMS)
       nowWrapMS   == nowWraps * c.loopMS + astMS
   IN [startWraps |-> startWraps, startRelMS |-> startTimeMS - startWrapMS,
       nowWraps |-> nowWraps, nowRelMS |-> nowMS - nowWrapMS]

\* asset.go normalizeToLoop(t, loopDur) -> <<inLoop, loops>>
NormalizeToLoop(t, loopDur) ==
   IF loopDur <= 0 THEN (IF t < 0 THEN <<0, -1>> ELSE <<t, 0>>)
   ELSE LET loops == GoDiv(t, loopDur)
            t1    == t - loops * loopDur
        IN IF t1 < 0 THEN <<t1 + loopDur, loops - 1>> ELSE <<t1, loops>>

\* asset.go findFirstFinishedSegIdx: sort.Search(len, segs[i].EndTime > t) - 1
FindFirstFinishedSegIdx(c, t) ==
   LET S == { i \in 0..(c.N - 1) : SegEnd(c, i) > t } IN
   (IF S = {} THEN c.N ELSE CHOOSE i \in S : \A j \in S : i <= j) - 1

\* the block of generateTimelineEntries that is written twice (start edge / now edge): -> <<wraps, relIdx>>
EdgeIdx(c, relMS, wraps0) ==
   LET v0   == IF c.fix THEN SegStart(c, 0) ELSE 0                                  \* (since 52d2ae2: the loop starts at vod0)
       nl   == NormalizeToLoop(GoDiv((relMS + c.ato) * c.TS, 1000) - v0, RepDuration(c))
       relT == nl[1] + v0
       w1   == wraps0 + nl[2]
   IN IF relT < SegEnd(c, 0) THEN <<w1 - 1, c.N - 1>>
      ELSE LET f == FindFirstFinishedSegIdx(c, relT) IN
           IF f < 0 THEN <<w1 - 1, c.N - 1>> ELSE <<w1, f>>

\* the for-loop of generateTimelineEntries: entries <<hasT, t, d, r>>; acc = [S, d, lsiStart, lsiDur, lsiNr]
RECURSIVE BuildS(_, _, _, _)
BuildS(c, nr, nowNr, acc) ==
   IF nr > nowNr THEN acc
   ELSE LET start1 == acc.lsiStart + acc.d                 \* lsi.startTime += d
            sd     == SegDur(c, nr % c.N)                   \* seg := segs[nr % nrSegs]
        IN IF sd = acc.d
           THEN BuildS(c, nr + 1, nowNr, [acc EXCEPT !.S[Len(acc.S)][4] = @ + 1, !.lsiStart = start1, !.lsiNr = nr])
           ELSE BuildS(c, nr + 1, nowNr, [S |-> Append(acc.S, <<0, 0, sd, 0>>), d |-> sd,
                                           lsiStart |-> start1, lsiDur |-> sd, lsiNr |-> nr])

(* ---- asset.go generateTimelineEntries(repID, wt, atoMS) + livempd.go publishTime / startNumber.
   Result: st (200 / 425 / 400), S = raw entries <<hasT, t, d, r>>, sn = se.startNr (-1: no segment), lastNr = lsi.nr,
   pt = publishTime in ms (absolute), ptfrag = float rounding noise decides the ms *)
Timeline(c, nowMS) ==
   IF Refused(c) THEN [st |-> 400, S |-> <<>>, sn |-> -1, lastNr |-> -1, pt |-> 0, ptfrag |-> FALSE]        \* ErrAtoInfTimeline
   ELSE IF BeforeStart(c, nowMS) THEN [st |-> 425, S |-> <<>>, sn |-> -1, lastNr |-> -1, pt |-> 0, ptfrag |-> FALSE]
   ELSE
   LET wt    == WrapTimes(c, nowMS)
       se0   == EdgeIdx(c, wt.startRelMS, wt.startWraps)
       se    == IF se0[1] < 0 THEN <<0, 0>> ELSE se0          \* if wt.startWraps < 0 { relStartIdx = 0; startWraps = 0 }
       ne    == EdgeIdx(c, wt.nowRelMS, wt.nowWraps)
       astMS == c.ast * 1000
   IN IF ne[1] < 0                                             \* no segment finished yet: startNr = lsi.nr = -1
      THEN [st |-> 200, S |-> <<>>, sn |-> -1, lastNr |-> -1, pt |-> astMS, ptfrag |-> FALSE]
      ELSE LET startNr == se[1] * c.N + se[2]
               nowNr   == ne[1] * c.N + ne[2]
               t0      == RepDuration(c) * se[1] + SegStart(c, se[2])
               d0      == SegDur(c, se[2])
               b       == BuildS(c, startNr + 1, nowNr,
                                 [S |-> << <<1, t0, d0, 0>> >>, d |-> d0, lsiStart |-> t0, lsiDur |-> d0, lsiNr |-> startNr])
               \* lastSegAvailTimeS: float64(start+dur)/timescale - ato + ast, clipped at ast; publishTime = round(1000 *)
               endU    == (b.lsiStart + b.lsiDur) * 1000 - c.ato * c.TS
           IN [st |-> 200, S |-> b.S, sn |-> startNr, lastNr |-> b.lsiNr,
               pt |-> IF endU < 0 THEN astMS ELSE astMS + RoundDiv(endU, c.TS),
               ptfrag |-> endU >= 0 /\ IsHalf(endU, c.TS)]
=============================================================================

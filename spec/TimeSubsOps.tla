---------------------------- MODULE TimeSubsOps ----------------------------
(* Oracle for C12: generated time subtitles (stpp / wvtt) of livesim2.
   Everything is stated RELATIVE TO THE START OF THE SEGMENT, in a unit of which `sec` make one UTC
   second (trace: ms, sec = 1000; model checking: sec = 4):
     ph   = U mod sec        how far into a UTC second the segment starts; U = S + sec*AST is the UTC
                             time of the segment start S (media time; AST = availabilityStartTime in s)
     D    >= 1               duration of the segment
     c    >= 1               configured cue duration
   The UTC seconds intersecting [U, U+D) are floor(U/sec) + j for j = 0 .. TSNSec-1.  For each of them
   the property demands exactly one cue "starting at that second (or at the segment start), lasting the
   configured cue duration clipped so that it neither leaves the segment nor overlaps the next cue":
     begin_j = max(j*sec - ph, 0)
     end_j   = min(X_j, (j+1)*sec - ph, D)
   "lasting the configured cue duration" is read either from the UTC second (reading A, X_j = j*sec - ph + c:
   the cue of a second is the same interval of UTC time whatever segment carries it) or from the clipped
   begin (reading B, X_j = begin_j + c).  The text does not decide, both are accepted; they differ only
   for j = 0 and ph > 0.  Under reading A the cue of second 0 is EMPTY when ph >= c (it ended before the
   segment starts): then - and only then - its omission is accepted.  A cue with end <= begin is never
   accepted ("cues are ordered, non-overlapping and inside the segment").
   A cue is [b, e, so]: begin, end (relative to the segment start) and so = (UTC second shown) - floor(U/sec). *)
EXTENDS LiveTimelineOps

TSMin(a, b) == IF a < b THEN a ELSE b
TSMax(a, b) == IF a > b THEN a ELSE b

\* ---- which UTC seconds (C12.cues)
TSNSec(sec, ph, D)        == (ph + D - 1) \div sec + 1
TSBegin(sec, ph, j)       == TSMax(j * sec - ph, 0)
TSLimit(sec, ph, D, j)    == TSMin((j + 1) * sec - ph, D)
TSEndA(sec, ph, D, c, j)  == TSMin(j * sec - ph + c, TSLimit(sec, ph, D, j))
TSEndB(sec, ph, D, c, j)  == TSMin(TSBegin(sec, ph, j) + c, TSLimit(sec, ph, D, j))
TSCue(b, e, j)            == [b |-> b, e |-> e, so |-> j]

\* reading B: always one non-empty cue per intersecting second
TSListB(sec, ph, D, c) ==
   [jj \in 1..TSNSec(sec, ph, D) |-> TSCue(TSBegin(sec, ph, jj - 1), TSEndB(sec, ph, D, c, jj - 1), jj - 1)]
\* reading A: the cue of second 0 is dropped when it is over before the segment starts
TSListAFull(sec, ph, D, c) ==
   [jj \in 1..TSNSec(sec, ph, D) |-> TSCue(TSBegin(sec, ph, jj - 1), TSEndA(sec, ph, D, c, jj - 1), jj - 1)]
TSListA(sec, ph, D, c) ==
   LET f == TSListAFull(sec, ph, D, c) IN IF f[1].e <= f[1].b THEN Tail(f) ELSE f
\* C12.cues: the cue list of a segment is one of these
TSAccepted(sec, ph, D, c) == {TSListA(sec, ph, D, c), TSListB(sec, ph, D, c)}

\* ---- C12.order: well-formedness of ANY cue list (not negotiable, independent of the reading)
TSWellFormed(cues, D) ==
   /\ \A x \in 1..Len(cues) : 0 <= cues[x].b /\ cues[x].b < cues[x].e /\ cues[x].e <= D
   /\ \A x \in 1..(Len(cues) - 1) : cues[x].e <= cues[x + 1].b

\* ---- C12.wvtt_tile: samples [t, d] (t = "c" cue | "e" empty vtte | anything else) tile [0, D) and the cue
\*      samples are exactly the cues
RECURSIVE TSSampleSum(_, _)
TSSampleSum(s, n) == IF n = 0 THEN 0 ELSE TSSampleSum(s, n - 1) + s[n].d
RECURSIVE TSCueSpans(_, _, _)
TSCueSpans(s, n, t) ==
   IF n > Len(s) THEN <<>>
   ELSE (IF s[n].t = "c" THEN << <<t, t + s[n].d>> >> ELSE <<>>) \o TSCueSpans(s, n + 1, t + s[n].d)
TSTiles(samples, cues, D) ==
   /\ \A x \in 1..Len(samples) : samples[x].d >= 0 /\ samples[x].t \in {"c", "e"}
   /\ TSSampleSum(samples, Len(samples)) = D
   /\ TSCueSpans(samples, 1, 0) = [x \in 1..Len(cues) |-> <<cues[x].b, cues[x].e>>]

\* ---- C12.meta / C12.mpd: a millisecond quantity is "the" conversion of a tick quantity when it differs
\*      from the exact value by less than 1 ms (rounding direction is free; exact when the value is whole)
\* pairs: ms over loopMS, ticks over L(sc); both compared in u over P(sc)
TSMsU(sc, m)       == [w |-> m.w, r |-> m.r * sc.TS]
TSNear(sc, a, b)   == LET d == TSub(P(sc), a, b) IN
                      \/ (d.w = 0 /\ d.r < sc.TS)
                      \/ (d.w = -1 /\ d.r > P(sc) - sc.TS)
TSMsIsTicks(sc, m, t) == TSNear(sc, TSMsU(sc, m), TicksU(sc, t))
TSDurMsIsTicks(sc, dms, dticks) ==                      \* small quantities: plain integers (guarded against 32-bit overflow)
   /\ dms >= 0 /\ dms <= 2000000000 \div sc.TS /\ dticks >= 0 /\ dticks <= 2000000
   /\ LET x == dms * sc.TS - dticks * 1000 IN x < sc.TS /\ -x < sc.TS
\* phase of a ms pair over loopMS: (w*loopMS + r) mod 1000 without overflow
TSPhaseOfPair(sc, m) == (((m.w % 1000) * (sc.loopMS % 1000)) + m.r) % 1000
=============================================================================

---------------------------- MODULE FaultsOps ----------------------------
(* Oracle for C14: which requests the fault-injection parameters of livesim2 hit.

   (a) statuscode patterns.  A pattern is a record
          p = [c |-> cycle length in seconds, q |-> relative sequence number, code |-> HTTP code,
               reps |-> <<representation ids>> (empty = every representation)]
       The live stream of the REFERENCE (video) representation is the looped timeline of LiveTimelineOps
       (scenario record sc, segment n = (k, i), Start(n) = media time from the start of the stream in ticks).
       Cycles of c seconds are counted from the start of the stream: cycle number of n is
          cyc(n) = Start(n) \div (c*TS),   first(cyc) = min{m : Start(m) >= cyc*c*TS},
       and n is SCHEDULED by p for representation rep iff  n - first(cyc(n)) = q  and rep matches p.reps.
       n - first(cyc(n)) is the number of segments before n that start in the same cycle as n
       ("the segment with the configured relative sequence number among the segments starting in its cycle").
       Audio (and every non-reference representation) follows its reference segment: same (k, i).

       "Start of the stream": the property text does not say whether the media time of the first segment
       (vod0 ticks, the first decode time of the VoD asset) belongs to the stream; both readings are
       accepted: org = 0 (cycles counted from media time 0 = availabilityStartTime) and org = vod0
       (cycles counted from the start of the first segment).  They coincide when vod0 = 0.

   (b) traffic patterns.  A pattern is a sequence of intervals [s |-> "u"|"d"|"s"|"h", d |-> seconds];
       the state of its BaseURL at second sec is the interval that contains sec mod (sum of d).
       The property text does not fix the second from which the cycle is counted: the trace specification
       accepts the simulator's clock counted from the epoch or from availabilityStartTime, consistently
       within one scenario. *)
EXTENDS LiveTimelineOps, FiniteSets

\* ------------------------------------------------------------------ (a) status codes
RepMatches(p, rep) == Len(p.reps) = 0 \/ \E j \in 1..Len(p.reps) : p.reps[j] = rep

\* ---- direct form (plain integers; the model checks that the overflow-free form below agrees with it)
StartPlain(sc, n, org) == (n \div sc.N) * L(sc) + sc.vod0 + PreSum(sc.dur, n % sc.N) - org
CycPlain(sc, c, n, org) == StartPlain(sc, n, org) \div (c * sc.TS)
\* first segment (n >= 0) starting at or after the beginning of cycle cyc; m <= n is enough for cyc = cyc(n)
FirstPlain(sc, c, n, org) ==
   LET b == CycPlain(sc, c, n, org) * c * sc.TS
   IN CHOOSE m \in 0..n : /\ StartPlain(sc, m, org) >= b
                          /\ (m = 0 \/ StartPlain(sc, m - 1, org) < b)      \* starts are increasing (C01)
IdxPlain(sc, c, n, org) == n - FirstPlain(sc, c, n, org)

\* ---- overflow-free form for wall-clock sized media times (TLC integers are 32 bit)
\* (a * b) % M without forming a * b; requires 0 <= a < M < 2^29, b >= 0
RECURSIVE MulMod(_, _, _)
MulMod(a, b, M) == IF b = 0 THEN 0
                   ELSE LET h == MulMod(a, b \div 2, M) IN (2 * h + (IF b % 2 = 1 THEN a ELSE 0)) % M
\* position of Start(k, i) - org inside its cycle of c seconds, in ticks (0 <= pos < c*TS)
PosInCycle(sc, c, k, i, org) ==
   LET M == c * sc.TS
       s == TNorm(L(sc), k, sc.vod0 + PreSum(sc.dur, i) - org)        \* Start - org as pair over L
   IN (MulMod(L(sc) % M, s.w, M) + (s.r % M)) % M
\* number of predecessors of (k, i) whose start lies at most `budget` ticks before Start(k, i)
RECURSIVE Back(_, _, _, _)
Back(sc, k, i, budget) ==
   IF k = 0 /\ i = 0 THEN 0
   ELSE LET p == Pred(sc, k, i)
            d == Dur(sc, p[2])
        IN IF d <= budget THEN 1 + Back(sc, p[1], p[2], budget - d) ELSE 0
\* C14.rsq: relative sequence number of reference segment (k, i) in its cycle of c seconds
Idx(sc, c, k, i, org) == Back(sc, k, i, PosInCycle(sc, c, k, i, org))

\* C14.sched: pattern p schedules a fault for the request of representation rep for reference segment (k, i)
Scheduled(sc, p, rep, k, i, org) == RepMatches(p, rep) /\ Idx(sc, p.c, k, i, org) = p.q
\* codes of all patterns (sequence pats) that schedule this request.  The property text does not say which
\* of several simultaneously scheduled patterns wins: every one of them is accepted.
HitCodes(sc, pats, rep, k, i, org) == { pats[j].code : j \in { j2 \in 1..Len(pats) : Scheduled(sc, pats[j2], rep, k, i, org) } }
Origins(sc) == {0, sc.vod0}
\* C14.hit / C14.miss: allowed status codes of a request issued at instant now (pair over P, see Status):
\* the configured code iff scheduled, otherwise the normal answer (C04).
AllowedFor(sc, pats, rep, k, i, now, org) ==
   LET h == HitCodes(sc, pats, rep, k, i, org) IN IF h = {} THEN Status(sc, k, i, now) ELSE h
Allowed(sc, pats, rep, k, i, now) == UNION { AllowedFor(sc, pats, rep, k, i, now, org) : org \in Origins(sc) }
IsHit(sc, pats, rep, k, i)  == \A org \in Origins(sc) : HitCodes(sc, pats, rep, k, i, org) # {}
IsMiss(sc, pats, rep, k, i) == \A org \in Origins(sc) : HitCodes(sc, pats, rep, k, i, org) = {}

\* ------------------------------------------------------------------ (b) traffic
TrafficStates == {"u", "d", "s", "h"}
RECURSIVE CycleLen(_)
CycleLen(tp) == IF Len(tp) = 0 THEN 0 ELSE tp[1].d + CycleLen(Tail(tp))
WellFormed(tp) == Len(tp) > 0 /\ \A j \in 1..Len(tp) : tp[j].s \in TrafficStates /\ tp[j].d > 0
\* index of the interval containing offset r (0 <= r < CycleLen)
RECURSIVE ItvlAt(_, _, _)
ItvlAt(tp, j, r) == IF r < tp[j].d THEN j ELSE ItvlAt(tp, j + 1, r - tp[j].d)
\* C14.state: state of the BaseURL at second sec (sec may be any integer; % is non-negative in TLA+)
StateAt(tp, sec) == tp[ItvlAt(tp, 1, sec % CycleLen(tp))].s
=============================================================================

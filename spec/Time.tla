---------------------------- MODULE Time ----------------------------
(* Loop-relative time pairs (DESIGN 3.3).  A quantity that grows with wall-clock time is carried
   as [w |-> wraps, r |-> rest] with 0 <= r < P for a period P given explicitly.  All products stay
   below 2^31 as long as P does (TLC integers are 32-bit). *)
EXTENDS Integers
TNorm(P, w, r) == [w |-> w + (r \div P), r |-> r % P]      \* r may be negative or >= P
TAdd(P, a, b)  == TNorm(P, a.w + b.w, a.r + b.r)
TSub(P, a, b)  == TNorm(P, a.w - b.w, a.r - b.r)
TLt(a, b)      == a.w < b.w \/ (a.w = b.w /\ a.r < b.r)
TLeq(a, b)     == a.w < b.w \/ (a.w = b.w /\ a.r <= b.r)
TEq(a, b)      == a.w = b.w /\ a.r = b.r
TIsNorm(P, a)  == a.r >= 0 /\ a.r < P
TZero          == [w |-> 0, r |-> 0]
\* a pair from a logged [w, r] JSON array
TFrom(x)       == [w |-> x[1], r |-> x[2]]
=============================================================================

---------------------------- MODULE Faults ----------------------------
(* (M) for C14: model-checks the oracle of FaultsOps on small layouts.
   Two kinds of behaviours (variable mode):
     "seg"  a live stream is walked segment by segment (n = 0, 1, 2, ...) under TWO simultaneous statuscode
            patterns; at every segment the invariants compare the overflow-free oracle (Idx, pairs) with the
            direct definition (IdxPlain) and count the scheduled requests of every finished cycle;
     "traf" the clock is walked second by second under one traffic pattern; the state function must be
            total, cyclic and give every interval exactly its duration in every cycle.
   Units: TS = 1 tick per second in most layouts ("c in 2..7 units"), so cycles that are not multiples of the
   segment duration, cycles shorter than a segment and irregular segment durations are all covered. *)
EXTENDS FaultsOps, TLC
CONSTANTS Layouts,      \* set of scenario records (LiveTimelineOps)
          Pats1, Pats2, \* sets of statuscode patterns for the first / second simultaneous pattern
          Reps,         \* representation ids requested
          Traffic,      \* set of traffic patterns
          MaxSeg,       \* last segment index walked
          MaxSec        \* last second walked
VARIABLES mode, sc, p1, p2, n, tp, sec
vars == <<mode, sc, p1, p2, n, tp, sec>>

NoSc == CHOOSE s \in Layouts : TRUE
NoP  == CHOOSE p \in Pats1 : TRUE
NoTp == CHOOSE t \in Traffic : TRUE

Init == \/ /\ mode = "seg" /\ sc \in Layouts /\ p1 \in Pats1 /\ p2 \in Pats2 /\ n = 0
           /\ tp = NoTp /\ sec = 0
        \/ /\ mode = "traf" /\ tp \in Traffic /\ sec = -3
           /\ sc = NoSc /\ p1 = NoP /\ p2 = NoP /\ n = 0
NextSeg == mode = "seg" /\ n < MaxSeg /\ n' = n + 1 /\ UNCHANGED <<mode, sc, p1, p2, tp, sec>>
NextSec == mode = "traf" /\ sec < MaxSec /\ sec' = sec + 1 /\ UNCHANGED <<mode, sc, p1, p2, tp, n>>
Next == NextSeg \/ NextSec
Spec == Init /\ [][Next]_vars

K(m) == m \div sc.N
I(m) == m % sc.N
Pats == <<p1, p2>>

\* ---------------------------------------------------------------- statuscode invariants (mode "seg")
\* the pair-based oracle used on traces agrees with the definition of the property for both origins
IdxAgrees == mode = "seg" =>
   \A org \in Origins(sc) : \A p \in {p1, p2} : Idx(sc, p.c, K(n), I(n), org) = IdxPlain(sc, p.c, n, org)
\* relative sequence numbers inside a cycle are 0, 1, 2, ... in stream order
IdxCounts == mode = "seg" =>
   \A org \in Origins(sc) : \A p \in {p1, p2} :
      IF n = 0 \/ CycPlain(sc, p.c, n, org) # CycPlain(sc, p.c, n - 1, org)
      THEN Idx(sc, p.c, K(n), I(n), org) = 0
      ELSE Idx(sc, p.c, K(n), I(n), org) = Idx(sc, p.c, K(n - 1), I(n - 1), org) + 1
\* C14 (M): exactly one scheduled request per (pattern, representation that matches, finished cycle) when the
\* cycle contains more than q segment starts, none otherwise.  A cycle is finished when segment n starts later;
\* every state checks the cycles that segment n has just finished (all n are visited, so every cycle is checked,
\* including cycles in which no segment starts).
StartsIn(p, cyc, org) == { m \in 0..n : CycPlain(sc, p.c, m, org) = cyc }
OnePerCycle == mode = "seg" =>
   \A org \in Origins(sc) : \A p \in {p1, p2} : \A rep \in Reps :
      \A cyc \in (IF n = 0 THEN 0 ELSE CycPlain(sc, p.c, n - 1, org))..(CycPlain(sc, p.c, n, org) - 1) :
         LET S    == StartsIn(p, cyc, org)
             hits == { m \in S : Scheduled(sc, p, rep, K(m), I(m), org) }
         IN Cardinality(hits) = (IF RepMatches(p, rep) /\ Cardinality(S) > p.q THEN 1 ELSE 0)
\* a request is answered with a configured code iff some pattern schedules it; with two patterns the
\* allowed codes are exactly those of the scheduling patterns
TwoPatterns == mode = "seg" =>
   \A org \in Origins(sc) : \A rep \in Reps :
      LET h  == HitCodes(sc, Pats, rep, K(n), I(n), org)
          s1 == Scheduled(sc, p1, rep, K(n), I(n), org)
          s2 == Scheduled(sc, p2, rep, K(n), I(n), org)
      IN /\ (h = {}) <=> (~s1 /\ ~s2)
         /\ h = (IF s1 THEN {p1.code} ELSE {}) \cup (IF s2 THEN {p2.code} ELSE {})
\* with an instant at which the segment is available, a miss is answered 200 and a hit is not
HitOrNormal == mode = "seg" =>
   \A rep \in Reps :
      LET now == TAdd(P(sc), Avail(sc, K(n), I(n)), MsPair(sc, 1))
          a   == Allowed(sc, Pats, rep, K(n), I(n), now)
      IN /\ IsMiss(sc, Pats, rep, K(n), I(n)) => a = {200}
         /\ IsHit(sc, Pats, rep, K(n), I(n)) => a \subseteq {p1.code, p2.code}
         /\ a # {}
\* non-vacuity witnesses (checked as violated invariants by the _witness configuration)
NeverHit == ~(mode = "seg" /\ \E rep \in Reps : IsHit(sc, Pats, rep, K(n), I(n)))
NeverBothHit == ~(mode = "seg" /\ \E rep \in Reps : Cardinality(HitCodes(sc, Pats, rep, K(n), I(n), 0)) = 2)
NeverEmptyCycle == ~(mode = "seg" /\ n > 0 /\ CycPlain(sc, p1.c, n, 0) > CycPlain(sc, p1.c, n - 1, 0) + 1)

\* ---------------------------------------------------------------- traffic invariants (mode "traf")
TrafficTotal == mode = "traf" => WellFormed(tp) /\ StateAt(tp, sec) \in TrafficStates
TrafficCyclic == mode = "traf" =>
   /\ StateAt(tp, sec + CycleLen(tp)) = StateAt(tp, sec)
   /\ StateAt(tp, sec - CycleLen(tp)) = StateAt(tp, sec)
\* in the cycle that starts at second `sec` (any phase) every interval j is met exactly d_j times
TrafficDurations == mode = "traf" =>
   \A j \in 1..Len(tp) :
      Cardinality({ s \in sec..(sec + CycleLen(tp) - 1) : ItvlAt(tp, 1, s % CycleLen(tp)) = j }) = tp[j].d
\* intervals follow each other in pattern order, the first one starts at seconds that are multiples of the cycle
TrafficOrder == mode = "traf" =>
   LET j  == ItvlAt(tp, 1, sec % CycleLen(tp))
       j2 == ItvlAt(tp, 1, (sec + 1) % CycleLen(tp))
   IN /\ j2 = j \/ j2 = (j % Len(tp)) + 1
      /\ (sec % CycleLen(tp) = 0) => j = 1
=============================================================================

---------------------------- MODULE LimiterImpl ----------------------------
(* Explorer for C20: the limiter as the Go code runs it.  Client goroutines call Inc
   (critical section under `mux`); a reader goroutine calls Count (locked) and EndTime.
   Every memory access to resetTime is a two-step begin/end so that an overlap of an
   unsynchronised read with a write is a reachable STATE (NoConflict).
   EndTimeLocked = FALSE models EndTime() as a plain read of ResetTime (the code before the
   fix), TRUE models it taking the mutex. *)
EXTENDS Integers, Sequences, FiniteSets, TLC, LimiterOps
CONSTANTS Clients, Addr, Times, Max, Interval, EndTimeLocked

(* --algorithm limiter {
  variables mux = "free", resetTime = 0, cnt = [a \in Addr |-> 0],
            acc = {},          \* accesses in progress: <<proc, var, kind>>
            results = <<>>;    \* linearized results (the hook runs under the lock)
  define {
    Conflict == \E x, y \in acc : x[1] # y[1] /\ x[2] = y[2] /\ (x[3] = "w" \/ y[3] = "w")
    NoConflict == ~Conflict
    \* C20.counter under all interleavings: within one epoch the values of an address are 1..k in order
    EpochOf(a, e) == SelectSeq(results, LAMBDA r : r.a = a /\ r.epoch = e)
    ExactlyOnce == \A a \in Addr : \A i \in 1..Len(EpochOf(a, resetTime)) : EpochOf(a, resetTime)[i].nr = i
    QuotaOK == \A i \in 1..Len(results) : results[i].ok <=> results[i].nr <= Max
  }
  process (c \in Clients)
    variables ad \in Addr, now \in Times, n = 0; {
    lock:   await mux = "free"; mux := self;
    chk:    acc := acc \cup {<<self, "resetTime", "r">>};
    chk2:   acc := acc \ {<<self, "resetTime", "r">>};
            if (MustReset(resetTime, now, Interval)) {
    rst:        acc := acc \cup {<<self, "resetTime", "w">>};
    rst2:       resetTime := now; cnt := [x \in Addr |-> 0]; acc := acc \ {<<self, "resetTime", "w">>};
            };
    inc:    cnt[ad] := cnt[ad] + 1; n := cnt[ad];
            results := Append(results, [a |-> ad, nr |-> n, ok |-> Passes(n, Max, FALSE), epoch |-> resetTime]);
    unlock: mux := "free";
  }
  process (reader = "reader") {
    cntl:  await mux = "free"; mux := "reader";        \* Count(): locked
    cntu:  mux := "free";
    et0:   if (EndTimeLocked) { etl: await mux = "free"; mux := "reader"; };
    rd:    acc := acc \cup {<<"reader", "resetTime", "r">>};
    rd2:   acc := acc \ {<<"reader", "resetTime", "r">>};
           if (EndTimeLocked) { etu: mux := "free"; };
  }
} *)
\* BEGIN TRANSLATION (chksum(pcal) = "e9de2377" /\ chksum(tla) = "321bf0bd")
VARIABLES pc, mux, resetTime, cnt, acc, results

(* define statement *)
Conflict == \E x, y \in acc : x[1] # y[1] /\ x[2] = y[2] /\ (x[3] = "w" \/ y[3] = "w")
NoConflict == ~Conflict

EpochOf(a, e) == SelectSeq(results, LAMBDA r : r.a = a /\ r.epoch = e)
ExactlyOnce == \A a \in Addr : \A i \in 1..Len(EpochOf(a, resetTime)) : EpochOf(a, resetTime)[i].nr = i
QuotaOK == \A i \in 1..Len(results) : results[i].ok <=> results[i].nr <= Max

VARIABLES ad, now, n

vars == << pc, mux, resetTime, cnt, acc, results, ad, now, n >>

ProcSet == (Clients) \cup {"reader"}

Init == (* Global variables *)
        /\ mux = "free"
        /\ resetTime = 0
        /\ cnt = [a \in Addr |-> 0]
        /\ acc = {}
        /\ results = <<>>
        (* Process c *)
        /\ ad \in [Clients -> Addr]
        /\ now \in [Clients -> Times]
        /\ n = [self \in Clients |-> 0]
        /\ pc = [self \in ProcSet |-> CASE self \in Clients -> "lock"
                                        [] self = "reader" -> "cntl"]

lock(self) == /\ pc[self] = "lock"
              /\ mux = "free"
              /\ mux' = self
              /\ pc' = [pc EXCEPT ![self] = "chk"]
              /\ UNCHANGED << resetTime, cnt, acc, results, ad, now, n >>

chk(self) == /\ pc[self] = "chk"
             /\ acc' = (acc \cup {<<self, "resetTime", "r">>})
             /\ pc' = [pc EXCEPT ![self] = "chk2"]
             /\ UNCHANGED << mux, resetTime, cnt, results, ad, now, n >>

chk2(self) == /\ pc[self] = "chk2"
              /\ acc' = acc \ {<<self, "resetTime", "r">>}
              /\ IF MustReset(resetTime, now[self], Interval)
                    THEN /\ pc' = [pc EXCEPT ![self] = "rst"]
                    ELSE /\ pc' = [pc EXCEPT ![self] = "inc"]
              /\ UNCHANGED << mux, resetTime, cnt, results, ad, now, n >>

rst(self) == /\ pc[self] = "rst"
             /\ acc' = (acc \cup {<<self, "resetTime", "w">>})
             /\ pc' = [pc EXCEPT ![self] = "rst2"]
             /\ UNCHANGED << mux, resetTime, cnt, results, ad, now, n >>

rst2(self) == /\ pc[self] = "rst2"
              /\ resetTime' = now[self]
              /\ cnt' = [x \in Addr |-> 0]
              /\ acc' = acc \ {<<self, "resetTime", "w">>}
              /\ pc' = [pc EXCEPT ![self] = "inc"]
              /\ UNCHANGED << mux, results, ad, now, n >>

inc(self) == /\ pc[self] = "inc"
             /\ cnt' = [cnt EXCEPT ![ad[self]] = cnt[ad[self]] + 1]
             /\ n' = [n EXCEPT ![self] = cnt'[ad[self]]]
             /\ results' = Append(results, [a |-> ad[self], nr |-> n'[self], ok |-> Passes(n'[self], Max, FALSE), epoch |-> resetTime])
             /\ pc' = [pc EXCEPT ![self] = "unlock"]
             /\ UNCHANGED << mux, resetTime, acc, ad, now >>

unlock(self) == /\ pc[self] = "unlock"
                /\ mux' = "free"
                /\ pc' = [pc EXCEPT ![self] = "Done"]
                /\ UNCHANGED << resetTime, cnt, acc, results, ad, now, n >>

c(self) == lock(self) \/ chk(self) \/ chk2(self) \/ rst(self) \/ rst2(self)
              \/ inc(self) \/ unlock(self)

cntl == /\ pc["reader"] = "cntl"
        /\ mux = "free"
        /\ mux' = "reader"
        /\ pc' = [pc EXCEPT !["reader"] = "cntu"]
        /\ UNCHANGED << resetTime, cnt, acc, results, ad, now, n >>

cntu == /\ pc["reader"] = "cntu"
        /\ mux' = "free"
        /\ pc' = [pc EXCEPT !["reader"] = "et0"]
        /\ UNCHANGED << resetTime, cnt, acc, results, ad, now, n >>

et0 == /\ pc["reader"] = "et0"
       /\ IF EndTimeLocked
             THEN /\ pc' = [pc EXCEPT !["reader"] = "etl"]
             ELSE /\ pc' = [pc EXCEPT !["reader"] = "rd"]
       /\ UNCHANGED << mux, resetTime, cnt, acc, results, ad, now, n >>

etl == /\ pc["reader"] = "etl"
       /\ mux = "free"
       /\ mux' = "reader"
       /\ pc' = [pc EXCEPT !["reader"] = "rd"]
       /\ UNCHANGED << resetTime, cnt, acc, results, ad, now, n >>

rd == /\ pc["reader"] = "rd"
      /\ acc' = (acc \cup {<<"reader", "resetTime", "r">>})
      /\ pc' = [pc EXCEPT !["reader"] = "rd2"]
      /\ UNCHANGED << mux, resetTime, cnt, results, ad, now, n >>

rd2 == /\ pc["reader"] = "rd2"
       /\ acc' = acc \ {<<"reader", "resetTime", "r">>}
       /\ IF EndTimeLocked
             THEN /\ pc' = [pc EXCEPT !["reader"] = "etu"]
             ELSE /\ pc' = [pc EXCEPT !["reader"] = "Done"]
       /\ UNCHANGED << mux, resetTime, cnt, results, ad, now, n >>

etu == /\ pc["reader"] = "etu"
       /\ mux' = "free"
       /\ pc' = [pc EXCEPT !["reader"] = "Done"]
       /\ UNCHANGED << resetTime, cnt, acc, results, ad, now, n >>

reader == cntl \/ cntu \/ et0 \/ etl \/ rd \/ rd2 \/ etu

(* Allow infinite stuttering to prevent deadlock on termination. *)
Terminating == /\ \A self \in ProcSet: pc[self] = "Done"
               /\ UNCHANGED vars

Next == reader
           \/ (\E self \in Clients: c(self))
           \/ Terminating

Spec == Init /\ [][Next]_vars

Termination == <>(\A self \in ProcSet: pc[self] = "Done")

\* END TRANSLATION 
=============================================================================

---------------------------- MODULE ReceiverRegImpl ----------------------------
(* Explorer for C19 (existing channel): several requests for ONE track of a channel whose init segment is on disk
   (receiver restarted on its storage; no init segment is sent again), as the Go code runs them
   (cmd/cmaf-ingest-receiver/app/receiver.go: SegmentHandlerFunc -> registerStream -> findAndProcessOrigInitSegment
   -> processInitSegment -> channel.addInitDataAndUpdateTimescale; then the chunk callback's track-table lookup).
   One process per REQUEST (ReceiverConcImpl has one process per track and never two requests of a track in flight):
     lk    streamsMu.Lock()
     chk   `_, ok := r.streams[id]`; unknown: `r.streams[id] = stream`
     load  os.MkdirAll + read init_org + register the track in the channel (trData) - the slow step (disk)
     ulk   streamsMu.Unlock()
     med   chunk callback: `trd, ok := ch.trDatas[trName]` (under ch.mu.RLock): 500 "failed to find track data" when absent
   Atomic = TRUE is the code as it is: chk and load are ONE critical section (lk .. ulk around both).
   Atomic = FALSE is the variant that releases streamsMu after the table update and loads outside it ("do not hold up the
   other streams during disk I/O"): a second request of the track finds the stream known, skips the registration and
   reaches med before the first one has loaded the track: counterexample to MediaOK (spec/mc/ReceiverRegImpl_cex.cfg).
   The driver's `overlap` scenarios (harness/drive/c19/overlap.go) force exactly that state on the real code: the first
   request is held inside load (a named pipe in the place of init_org) while the second one runs. *)
EXTENDS Integers, FiniteSets, TLC
CONSTANTS Requests, Atomic

(* --algorithm reg {
  variables known = FALSE,                          \* the stream is in the stream table
            trData = FALSE,                         \* the track is registered in the channel (init data available)
            mu = "free",                            \* holder of streamsMu
            resp = [x \in Requests |-> "none"];     \* answer to the request's media segment
  define {
    \* C19.registered / C19.no_loss at design level: no upload of a track whose init segment is on disk is refused
    MediaOK == \A x \in Requests : resp[x] # "fail"
    \* the stream table never claims a stream whose track is not loaded while nobody is loading it
    AllDone == \A x \in Requests : pc[x] = "Done"
    Loaded == AllDone => known /\ trData
    MutexOK == mu = "free" \/ mu \in Requests
  }
  process (q \in Requests) variables mine = FALSE; {
    lk:    await mu = "free"; mu := self;
    chk:   mine := ~known; known := TRUE;
           if (~Atomic) { mu := "free"; };
    load:  if (mine) { trData := TRUE; };
    ulk:   if (Atomic) { mu := "free"; };
    med:   resp[self] := IF trData THEN "ok" ELSE "fail";
  }
} *)
\* BEGIN TRANSLATION
VARIABLES pc, known, trData, mu, resp

(* define statement *)
MediaOK == \A x \in Requests : resp[x] # "fail"

AllDone == \A x \in Requests : pc[x] = "Done"
Loaded == AllDone => known /\ trData
MutexOK == mu = "free" \/ mu \in Requests

VARIABLE mine

vars == << pc, known, trData, mu, resp, mine >>

ProcSet == (Requests)

Init == (* Global variables *)
        /\ known = FALSE
        /\ trData = FALSE
        /\ mu = "free"
        /\ resp = [x \in Requests |-> "none"]
        (* Process q *)
        /\ mine = [self \in Requests |-> FALSE]
        /\ pc = [self \in ProcSet |-> "lk"]

lk(self) == /\ pc[self] = "lk"
            /\ mu = "free"
            /\ mu' = self
            /\ pc' = [pc EXCEPT ![self] = "chk"]
            /\ UNCHANGED << known, trData, resp, mine >>

chk(self) == /\ pc[self] = "chk"
             /\ mine' = [mine EXCEPT ![self] = ~known]
             /\ known' = TRUE
             /\ IF ~Atomic
                   THEN /\ mu' = "free"
                   ELSE /\ TRUE
                        /\ mu' = mu
             /\ pc' = [pc EXCEPT ![self] = "load"]
             /\ UNCHANGED << trData, resp >>

load(self) == /\ pc[self] = "load"
              /\ IF mine[self]
                    THEN /\ trData' = TRUE
                    ELSE /\ TRUE
                         /\ UNCHANGED trData
              /\ pc' = [pc EXCEPT ![self] = "ulk"]
              /\ UNCHANGED << known, mu, resp, mine >>

ulk(self) == /\ pc[self] = "ulk"
             /\ IF Atomic
                   THEN /\ mu' = "free"
                   ELSE /\ TRUE
                        /\ mu' = mu
             /\ pc' = [pc EXCEPT ![self] = "med"]
             /\ UNCHANGED << known, trData, resp, mine >>

med(self) == /\ pc[self] = "med"
             /\ resp' = [resp EXCEPT ![self] = IF trData THEN "ok" ELSE "fail"]
             /\ pc' = [pc EXCEPT ![self] = "Done"]
             /\ UNCHANGED << known, trData, mu, mine >>

q(self) == lk(self) \/ chk(self) \/ load(self) \/ ulk(self) \/ med(self)

(* Allow infinite stuttering to prevent deadlock on termination. *)
Terminating == /\ \A self \in ProcSet: pc[self] = "Done"
               /\ UNCHANGED vars

Next == (\E self \in Requests: q(self))
           \/ Terminating

Spec == Init /\ [][Next]_vars

Termination == <>(\A self \in ProcSet: pc[self] = "Done")

\* END TRANSLATION
=============================================================================

---------------------------- MODULE LiveTimeline_proof ----------------------------
(* Oracle theorems of spec/LiveTimelineOps.tla for ARBITRARY N >= 1, durations > 0, loop index k \in Int
   (TLC checks them on a handful of layouts with N <= 3, spec/LiveTimeline.tla).
   ASSUMED (not proved): tlapm cannot load RECURSIVE operators, so bin/proofs rewrites, in the scratch
   copy of LiveTimelineOps.tla only, the two lines defining PreSum into
       CONSTANT PreSum(_, _)
       AXIOM PreSumDef == \A d : \A i \in Nat : PreSum(d, i) = IF i = 0 THEN 0 ELSE PreSum(d, i - 1) + d[i]
   i.e. the defining equation of the recursive operator on Nat.  Everything else is proved (job
   livetimeline_tlaps), on top of the lemmas of Time_proof.tla.  ScOK is the typing of a scenario header;
   Admissible(sc) (loopMS * TS = 1000 * L) is only needed for MsPairVal / AvailSemantics.
   Theorems: C01_Contiguous, C01_StartIncreasing, C04_AvailMonotoneInN, C04_StatusMonotone (+ AvailSemantics). *)
EXTENDS LiveTimelineOps, Time_proof

ScOK(sc) == /\ sc.N \in PosInt
            /\ sc.dur \in [1..sc.N -> PosInt]
            /\ sc.vod0 \in Int
            /\ sc.TS \in PosInt
            /\ sc.loopMS \in PosInt
            /\ sc.tsbd \in Int
            /\ sc.ato \in Int

(* ---- PreSum: prefix sums of positive durations ---- *)
LEMMA PS0 == ASSUME NEW d PROVE PreSum(d, 0) = 0
  BY PreSumDef
LEMMA PSStep == ASSUME NEW d, NEW i \in Nat PROVE PreSum(d, i + 1) = PreSum(d, i) + d[i + 1]
  <1>1. i + 1 \in Nat /\ i + 1 # 0 /\ (i + 1) - 1 = i  OBVIOUS
  <1> QED BY <1>1, PreSumDef

LEMMA PSType == ASSUME NEW N \in Nat, NEW d \in [1..N -> PosInt]
                PROVE \A i \in 0..N : PreSum(d, i) \in Nat /\ PreSum(d, i) >= i
  <1> DEFINE Q(i) == i \in 0..N => (PreSum(d, i) \in Nat /\ PreSum(d, i) >= i)
  <1>1. Q(0)  BY PS0
  <1>2. \A i \in Nat : Q(i) => Q(i + 1)
    <2> TAKE i \in Nat
    <2> HAVE Q(i)
    <2> SUFFICES ASSUME i + 1 \in 0..N PROVE PreSum(d, i + 1) \in Nat /\ PreSum(d, i + 1) >= i + 1  OBVIOUS
    <2>1. i \in 0..N /\ i + 1 \in 1..N  OBVIOUS
    <2>2. d[i + 1] \in Nat /\ d[i + 1] >= 1  BY <2>1 DEF PosInt
    <2>3. PreSum(d, i + 1) = PreSum(d, i) + d[i + 1]  BY PSStep
    <2> QED BY <2>1, <2>2, <2>3
  <1> HIDE DEF Q
  <1>3. \A i \in Nat : Q(i)  BY <1>1, <1>2, NatInduction
  <1> QED BY <1>3 DEF Q

LEMMA PSInc == ASSUME NEW N \in Nat, NEW d \in [1..N -> PosInt], NEW i \in 0..(N - 1)
               PROVE /\ PreSum(d, i) \in Nat /\ PreSum(d, i + 1) \in Nat
                     /\ PreSum(d, i + 1) = PreSum(d, i) + d[i + 1]
                     /\ PreSum(d, i) < PreSum(d, i + 1)
  <1>1. i \in 0..N /\ i + 1 \in 0..N /\ i + 1 \in 1..N /\ i \in Nat  OBVIOUS
  <1>2. d[i + 1] \in Nat /\ d[i + 1] >= 1  BY <1>1 DEF PosInt
  <1>3. PreSum(d, i + 1) = PreSum(d, i) + d[i + 1]  BY <1>1, PSStep
  <1>4. PreSum(d, i) \in Nat /\ PreSum(d, i + 1) \in Nat  BY <1>1, PSType
  <1> QED BY <1>2, <1>3, <1>4

LEMMA LPos == ASSUME NEW sc, ScOK(sc) PROVE L(sc) \in PosInt /\ P(sc) \in PosInt /\ P(sc) = L(sc) * 1000
  <1>1. sc.N \in Nat /\ sc.N >= 1 /\ sc.N \in 0..sc.N  BY DEF ScOK, PosInt
  <1>2. PreSum(sc.dur, sc.N) \in Nat /\ PreSum(sc.dur, sc.N) >= sc.N  BY <1>1, PSType DEF ScOK
  <1> QED BY <1>1, <1>2 DEF L, P, PosInt

(* ---- values of Start / End (ticks since availabilityStartTime) ---- *)
LEMMA StartEndVal == ASSUME NEW sc, ScOK(sc), NEW k \in Int, NEW i \in 0..(sc.N - 1)
                     PROVE /\ Start(sc, k, i) \in Pair /\ TIsNorm(L(sc), Start(sc, k, i))
                           /\ End(sc, k, i) \in Pair /\ TIsNorm(L(sc), End(sc, k, i))
                           /\ Val(L(sc), Start(sc, k, i)) = k * L(sc) + sc.vod0 + PreSum(sc.dur, i)
                           /\ Val(L(sc), End(sc, k, i)) = k * L(sc) + sc.vod0 + PreSum(sc.dur, i + 1)
                           /\ k * L(sc) \in Int /\ PreSum(sc.dur, i) \in Nat /\ PreSum(sc.dur, i + 1) \in Nat
  <1>1. L(sc) \in PosInt  BY LPos
  <1>2. sc.N \in Nat /\ sc.dur \in [1..sc.N -> PosInt] /\ sc.vod0 \in Int  BY DEF ScOK, PosInt
  <1>3. PreSum(sc.dur, i) \in Nat /\ PreSum(sc.dur, i + 1) \in Nat  BY <1>2, PSInc
  <1>4. sc.vod0 + PreSum(sc.dur, i) \in Int /\ sc.vod0 + PreSum(sc.dur, i + 1) \in Int  BY <1>2, <1>3
  <1>5. k * L(sc) \in Int  BY <1>1, MulSucc DEF PosInt
  <1>6. Start(sc, k, i) \in Pair /\ TIsNorm(L(sc), Start(sc, k, i))
        /\ Val(L(sc), Start(sc, k, i)) = k * L(sc) + (sc.vod0 + PreSum(sc.dur, i))
        BY <1>1, <1>4, TNormType, TNormVal DEF Start
  <1>7. End(sc, k, i) \in Pair /\ TIsNorm(L(sc), End(sc, k, i))
        /\ Val(L(sc), End(sc, k, i)) = k * L(sc) + (sc.vod0 + PreSum(sc.dur, i + 1))
        BY <1>1, <1>4, TNormType, TNormVal DEF End
  <1> QED BY <1>2, <1>3, <1>5, <1>6, <1>7

LEMMA SuccType == ASSUME NEW sc, ScOK(sc), NEW k \in Int, NEW i \in 0..(sc.N - 1)
                  PROVE Succ(sc, k, i)[1] \in Int /\ Succ(sc, k, i)[2] \in 0..(sc.N - 1)
  BY DEF Succ, ScOK, PosInt

(* ---- C01: segment n+1 begins exactly where segment n ends, also across the loop wrap ---- *)
THEOREM C01_Contiguous ==
  ASSUME NEW sc, ScOK(sc), NEW k \in Int, NEW i \in 0..(sc.N - 1)
  PROVE LET s == Succ(sc, k, i) IN /\ Start(sc, s[1], s[2]) = End(sc, k, i)
                                   /\ TEq(Start(sc, s[1], s[2]), End(sc, k, i))
  <1> DEFINE s == Succ(sc, k, i)
  <1>0. L(sc) \in PosInt /\ sc.N \in Nat /\ sc.N >= 1  BY LPos DEF ScOK, PosInt
  <1>1. Start(sc, s[1], s[2]) = End(sc, k, i)
    <2>1. CASE i # sc.N - 1
      <3>1. s[1] = k /\ s[2] = i + 1  BY <2>1 DEF Succ
      <3> QED BY <3>1 DEF Start, End
    <2>2. CASE i = sc.N - 1
      <3>1. s[1] = k + 1 /\ s[2] = 0  BY <2>2 DEF Succ
      <3>2. 0 \in 0..(sc.N - 1) /\ k + 1 \in Int  BY <1>0
      <3>3. /\ Start(sc, k + 1, 0) \in Pair /\ TIsNorm(L(sc), Start(sc, k + 1, 0))
            /\ Val(L(sc), Start(sc, k + 1, 0)) = (k + 1) * L(sc) + sc.vod0 + PreSum(sc.dur, 0)
            BY <3>2, StartEndVal
      <3>4. /\ End(sc, k, i) \in Pair /\ TIsNorm(L(sc), End(sc, k, i))
            /\ Val(L(sc), End(sc, k, i)) = k * L(sc) + sc.vod0 + PreSum(sc.dur, i + 1)
            /\ k * L(sc) \in Int
            BY StartEndVal
      <3>5. PreSum(sc.dur, 0) = 0 /\ PreSum(sc.dur, i + 1) = L(sc)  BY <2>2, <1>0, PS0 DEF L
      <3>6. (k + 1) * L(sc) = k * L(sc) + L(sc)  BY <1>0, MulSucc DEF PosInt
      <3>7. Val(L(sc), Start(sc, k + 1, 0)) = Val(L(sc), End(sc, k, i))
            BY <3>3, <3>4, <3>5, <3>6, <1>0 DEF ScOK, PosInt
      <3>8. Start(sc, k + 1, 0) = End(sc, k, i)  BY <3>3, <3>4, <3>7, <1>0, ValInj
      <3> QED BY <3>1, <3>8
    <2> QED BY <2>1, <2>2
  <1>2. TEq(Start(sc, s[1], s[2]), End(sc, k, i))  BY <1>1 DEF TEq
  <1> QED BY <1>1, <1>2

(* ---- C01: every segment has positive length ---- *)
THEOREM C01_StartIncreasing ==
  ASSUME NEW sc, ScOK(sc), NEW k \in Int, NEW i \in 0..(sc.N - 1)
  PROVE TLt(Start(sc, k, i), End(sc, k, i))
  <1>1. L(sc) \in PosInt  BY LPos
  <1>2. sc.N \in Nat /\ sc.dur \in [1..sc.N -> PosInt] /\ sc.vod0 \in Int  BY DEF ScOK, PosInt
  <1>3. PreSum(sc.dur, i) < PreSum(sc.dur, i + 1) /\ PreSum(sc.dur, i) \in Nat /\ PreSum(sc.dur, i + 1) \in Nat
        BY <1>2, PSInc
  <1>4. Val(L(sc), Start(sc, k, i)) < Val(L(sc), End(sc, k, i))  BY <1>2, <1>3, StartEndVal
  <1> QED BY <1>1, <1>4, StartEndVal, TLtOK

\* ... and the end of a segment is strictly before the end of its successor
LEMMA EndIncreasing ==
  ASSUME NEW sc, ScOK(sc), NEW k \in Int, NEW i \in 0..(sc.N - 1)
  PROVE LET s == Succ(sc, k, i) IN Val(L(sc), End(sc, k, i)) < Val(L(sc), End(sc, s[1], s[2]))
  <1> DEFINE s == Succ(sc, k, i)
  <1>1. s[1] \in Int /\ s[2] \in 0..(sc.N - 1)  BY SuccType
  <1>2. Start(sc, s[1], s[2]) = End(sc, k, i)  BY C01_Contiguous
  <1>3. TLt(Start(sc, s[1], s[2]), End(sc, s[1], s[2]))  BY <1>1, C01_StartIncreasing
  <1>4. L(sc) \in PosInt  BY LPos
  <1>5. /\ Start(sc, s[1], s[2]) \in Pair /\ TIsNorm(L(sc), Start(sc, s[1], s[2]))
        /\ End(sc, s[1], s[2]) \in Pair /\ TIsNorm(L(sc), End(sc, s[1], s[2]))
        BY <1>1, StartEndVal
  <1>6. Val(L(sc), Start(sc, s[1], s[2])) < Val(L(sc), End(sc, s[1], s[2]))  BY <1>3, <1>4, <1>5, TLtOK
  <1> QED BY <1>2, <1>6

(* ---- wall-clock side: pairs over P = 1000 * L in u = 1/(1000*TS) s ---- *)
LEMMA TicksUVal == ASSUME NEW sc, ScOK(sc), NEW a \in Pair
                   PROVE /\ TicksU(sc, a) \in Pair
                         /\ Val(P(sc), TicksU(sc, a)) = 1000 * Val(L(sc), a)
  <1>1. L(sc) \in PosInt /\ P(sc) = L(sc) * 1000  BY LPos
  <1>2. a.w \in Int /\ a.r \in Int  BY DEF Pair
  <1>3. a.w * L(sc) \in Int  BY <1>1, <1>2, MulSucc DEF PosInt
  <1>4. a.w * (L(sc) * 1000) = 1000 * (a.w * L(sc))  BY <1>1, <1>2, <1>3 DEF PosInt
  <1>5. TicksU(sc, a) = [w |-> a.w, r |-> a.r * 1000]  BY DEF TicksU
  <1> QED BY <1>1, <1>2, <1>3, <1>4, <1>5 DEF Val, Pair

LEMMA MsPairType == ASSUME NEW sc, ScOK(sc), NEW ms \in Int
                    PROVE MsPair(sc, ms) \in Pair /\ TIsNorm(P(sc), MsPair(sc, ms))
  <1>1. P(sc) \in PosInt  BY LPos
  <1>2. sc.loopMS \in PosInt /\ sc.TS \in Int  BY DEF ScOK, PosInt
  <1>3. ms \div sc.loopMS \in Int /\ ms % sc.loopMS \in Int  BY <1>2, DivMod
  <1>4. (ms % sc.loopMS) * sc.TS \in Int  BY <1>2, <1>3, MulSucc
  <1> QED BY <1>1, <1>3, <1>4, TNormType DEF MsPair

\* with an admissible header (loopMS * TS = P) the pair of `ms` milliseconds denotes ms * TS units
LEMMA MsPairVal == ASSUME NEW sc, ScOK(sc), Admissible(sc), NEW ms \in Int
                   PROVE Val(P(sc), MsPair(sc, ms)) = ms * sc.TS
  <1> DEFINE q == ms \div sc.loopMS
             m == ms % sc.loopMS
  <1>1. P(sc) \in PosInt /\ P(sc) = sc.loopMS * sc.TS  BY LPos DEF Admissible
  <1>2. sc.loopMS \in PosInt /\ sc.TS \in Int /\ sc.loopMS \in Int  BY DEF ScOK, PosInt
  <1>3. q \in Int /\ m \in Int /\ ms = q * sc.loopMS + m  BY <1>2, DivMod
  <1>4. m * sc.TS \in Int /\ q * sc.loopMS \in Int  BY <1>2, <1>3, MulSucc
  <1>5. Val(P(sc), MsPair(sc, ms)) = q * P(sc) + m * sc.TS  BY <1>1, <1>3, <1>4, TNormVal DEF MsPair
  <1>6. q * (sc.loopMS * sc.TS) = (q * sc.loopMS) * sc.TS  BY <1>2, <1>3
  <1>7. (q * sc.loopMS + m) * sc.TS = (q * sc.loopMS) * sc.TS + m * sc.TS  BY <1>2, <1>3, <1>4, Distrib
  <1> HIDE DEF q, m
  <1> QED BY <1>1, <1>3, <1>5, <1>6, <1>7

LEMMA AvailVal == ASSUME NEW sc, ScOK(sc), NEW k \in Int, NEW i \in 0..(sc.N - 1)
                  PROVE /\ Avail(sc, k, i) \in Pair /\ TIsNorm(P(sc), Avail(sc, k, i))
                        /\ sc.ato >= 0 => Val(P(sc), Avail(sc, k, i))
                                            = 1000 * Val(L(sc), End(sc, k, i)) - Val(P(sc), MsPair(sc, sc.ato))
                        /\ sc.ato < 0 => Avail(sc, k, i) = TZero
  <1>1. P(sc) \in PosInt /\ sc.ato \in Int  BY LPos DEF ScOK
  <1>2. CASE sc.ato < 0  BY <1>1, <1>2, TZeroOK DEF Avail
  <1>3. CASE sc.ato >= 0
    <2>1. End(sc, k, i) \in Pair  BY StartEndVal
    <2>2. EndU(sc, k, i) \in Pair /\ Val(P(sc), EndU(sc, k, i)) = 1000 * Val(L(sc), End(sc, k, i))
          BY <2>1, TicksUVal DEF EndU
    <2>3. MsPair(sc, sc.ato) \in Pair  BY <1>1, MsPairType
    <2>4. Avail(sc, k, i) = TSub(P(sc), EndU(sc, k, i), MsPair(sc, sc.ato))  BY <1>1, <1>3 DEF Avail
    <2> QED BY <1>1, <1>3, <2>2, <2>3, <2>4, TSubOK
  <1> QED BY <1>1, <1>2, <1>3

\* what Avail denotes, in u since availabilityStartTime: 1000 * (segment end in ticks) - ato * TS
THEOREM AvailSemantics ==
  ASSUME NEW sc, ScOK(sc), Admissible(sc), sc.ato >= 0, NEW k \in Int, NEW i \in 0..(sc.N - 1)
  PROVE Val(P(sc), Avail(sc, k, i)) = 1000 * (k * L(sc) + sc.vod0 + PreSum(sc.dur, i + 1)) - sc.ato * sc.TS
  <1>1. sc.ato \in Int  BY DEF ScOK
  <1>2. Val(P(sc), MsPair(sc, sc.ato)) = sc.ato * sc.TS  BY <1>1, MsPairVal
  <1>3. Val(L(sc), End(sc, k, i)) = k * L(sc) + sc.vod0 + PreSum(sc.dur, i + 1)  BY StartEndVal
  <1> QED BY <1>2, <1>3, AvailVal

(* ---- C04: availability instants are non-decreasing in n ---- *)
THEOREM C04_AvailMonotoneInN ==
  ASSUME NEW sc, ScOK(sc), NEW k \in Int, NEW i \in 0..(sc.N - 1)
  PROVE LET s == Succ(sc, k, i) IN TLeq(Avail(sc, k, i), Avail(sc, s[1], s[2]))
  <1> DEFINE s == Succ(sc, k, i)
  <1>1. s[1] \in Int /\ s[2] \in 0..(sc.N - 1)  BY SuccType
  <1>2. P(sc) \in PosInt /\ sc.ato \in Int /\ L(sc) \in PosInt  BY LPos DEF ScOK
  <1>3. CASE sc.ato < 0
    <2>1. Avail(sc, k, i) = TZero /\ Avail(sc, s[1], s[2]) = TZero  BY <1>1, <1>3, AvailVal
    <2> QED BY <2>1 DEF TLeq, TZero
  <1>4. CASE sc.ato >= 0
    <2>1. Val(L(sc), End(sc, k, i)) < Val(L(sc), End(sc, s[1], s[2]))  BY EndIncreasing
    <2>2. End(sc, k, i) \in Pair /\ End(sc, s[1], s[2]) \in Pair  BY <1>1, StartEndVal
    <2>3. Val(L(sc), End(sc, k, i)) \in Int /\ Val(L(sc), End(sc, s[1], s[2])) \in Int  BY <1>2, <2>2, ValType
    <2>4. MsPair(sc, sc.ato) \in Pair /\ Val(P(sc), MsPair(sc, sc.ato)) \in Int  BY <1>2, MsPairType, ValType
    <2>5. /\ Avail(sc, k, i) \in Pair /\ TIsNorm(P(sc), Avail(sc, k, i))
          /\ Val(P(sc), Avail(sc, k, i)) = 1000 * Val(L(sc), End(sc, k, i)) - Val(P(sc), MsPair(sc, sc.ato))
          BY <1>4, AvailVal
    <2>6. /\ Avail(sc, s[1], s[2]) \in Pair /\ TIsNorm(P(sc), Avail(sc, s[1], s[2]))
          /\ Val(P(sc), Avail(sc, s[1], s[2])) = 1000 * Val(L(sc), End(sc, s[1], s[2])) - Val(P(sc), MsPair(sc, sc.ato))
          BY <1>1, <1>4, AvailVal
    <2>7. Val(P(sc), Avail(sc, k, i)) <= Val(P(sc), Avail(sc, s[1], s[2]))  BY <2>1, <2>3, <2>4, <2>5, <2>6
    <2> QED BY <1>2, <2>5, <2>6, <2>7, TLeqOK
  <1> QED BY <1>2, <1>3, <1>4

(* ---- C04.monotone: as `now` advances the allowed status of a fixed URL never moves back.
   Rank orders the three possible answers of Status; TLC's MinPhase(Status) is 1, 2, 2 on them. ---- *)
Rank(S) == IF S = {425} THEN 1 ELSE IF S = {200} THEN 2 ELSE 3

THEOREM C04_StatusMonotone ==
  ASSUME NEW sc, ScOK(sc), NEW k \in Int, NEW i \in 0..(sc.N - 1),
         NEW now1 \in Pair, NEW now2 \in Pair, TIsNorm(P(sc), now1), TIsNorm(P(sc), now2), TLeq(now1, now2)
  PROVE /\ Status(sc, k, i, now1) \in {{425}, {200}, {200, 410}}
        /\ Rank(Status(sc, k, i, now1)) <= Rank(Status(sc, k, i, now2))
  <1> DEFINE A == Avail(sc, k, i)
             W == TAdd(P(sc), A, WindowU(sc))
             v1 == Val(P(sc), now1)
             v2 == Val(P(sc), now2)
  <1>1. P(sc) \in PosInt /\ sc.tsbd \in Int  BY LPos DEF ScOK
  <1>2. A \in Pair /\ TIsNorm(P(sc), A)  BY AvailVal
  <1>3. sc.tsbd * 1000 \in Int  BY <1>1
  <1>4. WindowU(sc) \in Pair  BY <1>3, MsPairType DEF WindowU
  <1>5. W \in Pair /\ TIsNorm(P(sc), W)  BY <1>1, <1>2, <1>4, TAddOK
  <1>6. v1 \in Int /\ v2 \in Int /\ Val(P(sc), A) \in Int /\ Val(P(sc), W) \in Int  BY <1>1, <1>2, <1>5, ValType
  <1>7. v1 <= v2  BY <1>1, TLeqOK
  <1>8. /\ TLt(now1, A) <=> v1 < Val(P(sc), A)
        /\ TLt(now2, A) <=> v2 < Val(P(sc), A)
        /\ TLeq(now1, W) <=> v1 <= Val(P(sc), W)
        /\ TLeq(now2, W) <=> v2 <= Val(P(sc), W)
        BY <1>1, <1>2, <1>5, TLtOK, TLeqOK
  <1>9. now1.w \in Int /\ now2.w \in Int /\ now1.w <= now2.w  BY DEF Pair, TLeq
  <1>10. /\ Status(sc, k, i, now1) = IF now1.w < 0 THEN {425} ELSE IF TLt(now1, A) THEN {425}
                                      ELSE IF TLeq(now1, W) THEN {200} ELSE {200, 410}
         /\ Status(sc, k, i, now2) = IF now2.w < 0 THEN {425} ELSE IF TLt(now2, A) THEN {425}
                                      ELSE IF TLeq(now2, W) THEN {200} ELSE {200, 410}
         BY DEF Status
  <1>11. {425} # {200} /\ {425} # {200, 410} /\ {200} # {200, 410}  OBVIOUS
  <1> HIDE DEF A, W, v1, v2
  <1> QED BY <1>6, <1>7, <1>8, <1>9, <1>10, <1>11 DEF Rank
=============================================================================

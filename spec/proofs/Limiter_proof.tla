---------------------------- MODULE Limiter_proof ----------------------------
(* UNBOUNDED safety argument for the C20 oracle machine (spec/Limiter.tla), checked by TLAPS
   (bin/proofs, job limiter_tlaps).  Proved for ANY set Addr (finite or not), ANY WL, ANY integer Max,
   ANY Interval \in Nat, request instants ranging over ALL integers and histories of ANY length:
   SpecU/NextU drop the model-checking bounds Times/MaxLen (Next => NextU is NextRefinesNextU).
   IndInv = TypeOK + the five state invariants of spec/mc/Limiter_*.cfg; it is inductive as it stands.
   Trusted: tlapm's SMT encoding, including its axioms for SelectSeq (Nil/Append/Typing), see Sel* lemmas.
   Interval >= 0 is needed (C20_Window fails on the reset step for a negative Interval). *)
EXTENDS Limiter, TLAPS

ASSUME ConstAssump == /\ Max \in Int
                      /\ Interval \in Nat
                      /\ Times \subseteq Int

Rec == [a : Addr, t : Int, nr : Nat, ok : BOOLEAN]
TypeOK == /\ resetTime \in Int
          /\ cnt \in [Addr -> Nat]
          /\ hist \in Seq(Rec)

IndInv == /\ TypeOK
          /\ C20_Consistent
          /\ C20_Counter
          /\ C20_Quota
          /\ C20_White
          /\ C20_Window

\* the machine without the model-checking bounds
NextU == \E a \in Addr, t \in Int : Inc(a, t)
ResetStep == resetTime' # resetTime => \E a \in Addr, t \in Times : t - resetTime > Interval /\ resetTime' = t

(* ---- facts about SelectSeq (discharged by the SMT backend's sequence axioms) ---- *)
LEMMA SelEmpty == ASSUME NEW T(_) PROVE SelectSeq(<<>>, T) = <<>>
  OBVIOUS
LEMMA SelAppend == ASSUME NEW S, NEW s \in Seq(S), NEW e \in S, NEW T(_)
                   PROVE SelectSeq(Append(s, e), T) = IF T(e) THEN Append(SelectSeq(s, T), e) ELSE SelectSeq(s, T)
  OBVIOUS
LEMMA SelType == ASSUME NEW S, NEW s \in Seq(S), NEW T(_)
                 PROVE SelectSeq(s, T) \in Seq(S)
  OBVIOUS
LEMMA SelOne == ASSUME NEW S, NEW e \in S, NEW T(_)
                PROVE SelectSeq(<<e>>, T) = IF T(e) THEN <<e>> ELSE <<>>
  <1>1. <<e>> = Append(<<>>, e)  OBVIOUS
  <1>2. <<>> \in Seq(S)  OBVIOUS
  <1>3. SelectSeq(Append(<<>>, e), T) = IF T(e) THEN Append(SelectSeq(<<>>, T), e) ELSE SelectSeq(<<>>, T)
        BY <1>2, SelAppend
  <1> QED BY <1>1, <1>3, SelEmpty

F(h, b) == SelectSeq(h, LAMBDA r : r.a = b)

LEMMA FType == ASSUME NEW h \in Seq(Rec), NEW b PROVE F(h, b) \in Seq(Rec)
  BY SelType DEF F
LEMMA FAppend == ASSUME NEW h \in Seq(Rec), NEW e \in Rec, NEW b
                 PROVE F(Append(h, e), b) = IF e.a = b THEN Append(F(h, b), e) ELSE F(h, b)
  BY SelAppend DEF F
LEMMA FOne == ASSUME NEW e \in Rec, NEW b
              PROVE F(<<e>>, b) = IF e.a = b THEN <<e>> ELSE <<>>
  BY SelOne DEF F

\* Of(b) in the current and in the next state, in terms of the constant-level F.  (tlapm cannot prime
\* an expression that contains a LAMBDA; the primed fact is obtained from the unprimed one by PTL.)
LEMMA OfF == \A b : Of(b) = F(hist, b)  BY DEF Of, F
LEMMA OfFPrimed == \A b : Of(b)' = F(hist', b)
  <1>1. (\A b : Of(b) = F(hist, b))'  BY OfF, PTL
  <1> QED BY <1>1

(* ---- initiation ---- *)
THEOREM InitInd == Init => IndInv
  <1> SUFFICES ASSUME Init PROVE IndInv  OBVIOUS
  <1>1. hist = <<>> /\ resetTime = 0 /\ cnt = [a \in Addr |-> 0]  BY DEF Init
  <1>2. \A b : Of(b) = <<>>  BY <1>1, SelEmpty DEF Of
  <1>3. TypeOK  BY <1>1 DEF TypeOK
  <1>4. C20_Consistent  BY <1>1, <1>2 DEF C20_Consistent
  <1>5. C20_Counter  BY <1>2 DEF C20_Counter
  <1>6. C20_Quota  BY <1>2 DEF C20_Quota
  <1>7. C20_White  BY <1>2 DEF C20_White
  <1>8. C20_Window  BY <1>1 DEF C20_Window
  <1> QED BY <1>3, <1>4, <1>5, <1>6, <1>7, <1>8 DEF IndInv

(* ---- consecution: one step per action ---- *)
LEMMA IncInd == ASSUME IndInv, NEW a \in Addr, NEW t \in Int, Inc(a, t) PROVE IndInv'
  <1> DEFINE reset == MustReset(resetTime, t, Interval)
             c2    == NextCnt(cnt, a, reset)
             res   == [a |-> a, t |-> t, nr |-> c2[a], ok |-> Passes(c2[a], Max, a \in WL)]
  <1>0. TypeOK /\ C20_Consistent /\ C20_Counter /\ C20_Quota /\ C20_White /\ C20_Window  BY DEF IndInv
  <1>1. cnt' = c2 /\ resetTime' = (IF reset THEN t ELSE resetTime)
        /\ hist' = (IF reset THEN <<res>> ELSE Append(hist, res))
        BY DEF Inc
  <1>2. c2 \in [Addr -> Nat] /\ c2[a] \in Nat
        BY <1>0 DEF TypeOK, NextCnt
  <1>3. res \in Rec /\ res.a = a /\ res.t = t /\ res.nr = c2[a] /\ res.ok = Passes(c2[a], Max, a \in WL)
        BY <1>2 DEF Rec, Passes
  <1>4. \A b : Of(b) = F(hist, b) /\ Of(b)' = F(hist', b)  BY OfF, OfFPrimed
  <1>5. hist \in Seq(Rec) /\ resetTime \in Int  BY <1>0 DEF TypeOK
  <1> HIDE DEF reset, c2, res
  <1>a. CASE reset
    <2>1. hist' = <<res>> /\ resetTime' = t /\ cnt' = c2  BY <1>1, <1>a
    <2>2. c2 = [x \in Addr |-> IF x = a THEN 1 ELSE 0]  BY <1>a, <1>0 DEF c2, NextCnt, TypeOK
    <2>3. \A b : Of(b)' = IF b = a THEN <<res>> ELSE <<>>  BY <1>4, <2>1, <1>3, FOne
    <2>4. TypeOK'  BY <2>1, <1>2, <1>3 DEF TypeOK
    <2>5. C20_Consistent'  BY <2>1, <2>2, <2>3 DEF C20_Consistent
    <2>6. C20_Counter'  BY <2>2, <2>3, <1>3 DEF C20_Counter
    <2>7. C20_Quota'  BY <2>2, <2>3, <1>3, ConstAssump DEF C20_Quota, Passes
    <2>8. C20_White'  BY <2>2, <2>3, <1>3 DEF C20_White, Passes
    <2>9. C20_Window'  BY <2>1, <1>3, ConstAssump DEF C20_Window
    <2> QED BY <2>4, <2>5, <2>6, <2>7, <2>8, <2>9 DEF IndInv
  <1>b. CASE ~reset
    <2>1. hist' = Append(hist, res) /\ resetTime' = resetTime /\ cnt' = c2  BY <1>1, <1>b
    <2>2. c2 = [cnt EXCEPT ![a] = cnt[a] + 1]  BY <1>b DEF c2, NextCnt
    <2>3. \A b : Of(b)' = IF b = a THEN Append(Of(b), res) ELSE Of(b)
          BY <1>4, <1>5, <2>1, <1>3, FAppend
    <2>4. \A b : Of(b) \in Seq(Rec)  BY <1>4, <1>5, FType
    <2>5. cnt \in [Addr -> Nat] /\ cnt[a] = Len(Of(a)) /\ c2[a] = Len(Of(a)) + 1
          BY <1>0, <2>2 DEF TypeOK, C20_Consistent
    <2>6. TypeOK'  BY <2>1, <1>2, <1>3, <1>5 DEF TypeOK
    <2>7. C20_Consistent'  BY <2>1, <2>2, <2>3, <2>4, <2>5, <1>0 DEF C20_Consistent
    <2>8. C20_Counter'  BY <2>3, <2>4, <2>5, <1>3, <1>0 DEF C20_Counter
    <2>9. C20_Quota'  BY <2>3, <2>4, <2>5, <1>3, <1>0, ConstAssump DEF C20_Quota, Passes
    <2>10. C20_White'  BY <2>3, <2>4, <2>5, <1>3, <1>0 DEF C20_White, Passes
    <2>11. C20_Window'
      <3>1. t - resetTime <= Interval  BY <1>b, <1>5, ConstAssump DEF reset, MustReset
      <3> QED BY <3>1, <2>1, <1>3, <1>5, <1>0 DEF C20_Window
    <2> QED BY <2>6, <2>7, <2>8, <2>9, <2>10, <2>11 DEF IndInv
  <1> QED BY <1>a, <1>b

LEMMA StutterInd == ASSUME IndInv, UNCHANGED vars PROVE IndInv'
  <1>1. hist' = hist /\ cnt' = cnt /\ resetTime' = resetTime  BY DEF vars
  <1>2. \A b : Of(b)' = Of(b)  BY <1>1, OfF, OfFPrimed
  <1> QED BY <1>1, <1>2 DEF IndInv, TypeOK, C20_Consistent, C20_Counter, C20_Quota, C20_White, C20_Window

THEOREM NextUInd == IndInv /\ [NextU]_vars => IndInv'
  BY IncInd, StutterInd DEF NextU

LEMMA NextRefinesNextU == Next => NextU
  BY ConstAssump DEF Next, NextU

THEOREM NextInd == IndInv /\ [Next]_vars => IndInv'
  BY NextUInd, NextRefinesNextU

(* ---- the action property C20.reset ---- *)
LEMMA ResetStepOK == IndInv /\ [Next]_vars => ResetStep
  <1> SUFFICES ASSUME IndInv, [Next]_vars PROVE ResetStep  OBVIOUS
  <1>1. CASE UNCHANGED vars  BY <1>1 DEF vars, ResetStep
  <1>2. CASE Next
    <2>1. PICK a \in Addr, t \in Times : Inc(a, t)  BY <1>2 DEF Next
    <2>2. resetTime' = IF MustReset(resetTime, t, Interval) THEN t ELSE resetTime  BY <2>1 DEF Inc
    <2> QED BY <2>2 DEF ResetStep, MustReset
  <1> QED BY <1>1, <1>2

(* ---- the properties TLC checks (Limiter_quick/thorough.cfg) follow ---- *)
THEOREM IndInvImplies == IndInv => /\ C20_Counter /\ C20_Quota /\ C20_White
                                   /\ C20_Consistent /\ C20_Window
  BY DEF IndInv

THEOREM Safety == Spec => [](C20_Counter /\ C20_Quota /\ C20_White /\ C20_Consistent /\ C20_Window)
  <1>1. Spec => []IndInv
    <2> QED BY InitInd, NextInd, PTL DEF Spec
  <1> QED BY <1>1, IndInvImplies, PTL

\* the same for the machine without the bounds Times / MaxLen (what the trace specification relies on)
SpecU == Init /\ [][NextU]_vars
THEOREM SafetyU == SpecU => [](C20_Counter /\ C20_Quota /\ C20_White /\ C20_Consistent /\ C20_Window)
  <1>1. SpecU => []IndInv  BY InitInd, NextUInd, PTL DEF SpecU
  <1> QED BY <1>1, IndInvImplies, PTL

THEOREM ResetSafety == Spec => C20_ResetOnlyAfterInterval
  <1>1. Spec => []IndInv  BY InitInd, NextInd, PTL DEF Spec
  <1>2. IndInv /\ [Next]_vars => [ResetStep]_vars  BY ResetStepOK
  <1> QED BY <1>1, <1>2, PTL DEF Spec, C20_ResetOnlyAfterInterval, ResetStep
=============================================================================

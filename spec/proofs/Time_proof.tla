---------------------------- MODULE Time_proof ----------------------------
(* The pair arithmetic of spec/Time.tla is a faithful encoding of the integers, for ALL integers
   and EVERY period P > 0 (TLC only ever evaluates it on the 32-bit values of a trace).
   Val(P, a) is the integer denoted by the pair a over period P.  Checked by TLAPS (bin/proofs, job
   time_tlaps); nothing is assumed.  Main results: TNormType/TNormVal/TNormFix/TNormIdem, ValInj,
   TAddOK/TSubOK (results normalised, Val is a homomorphism; inputs need NOT be normalised),
   TLtOK/TLeqOK/TEqOK (comparisons of normalised pairs = integer comparisons), TZeroOK, TFromOK.
   NB SANY rejects `x + r % P` (precedence conflict) but tlapm silently reads it as `(x + r) % P`:
   keep the parentheses around (r % P); bin/proofs also runs SANY on every proof module. *)
EXTENDS Time, NaturalsInduction, TLAPS

Pair == [w : Int, r : Int]
Val(P, a) == a.w * P + a.r
PosInt == Nat \ {0}

(* ---- integer facts the SMT backend does not find by itself ---- *)
LEMMA Distrib == ASSUME NEW P \in Int, NEW x \in Int, NEW y \in Int
                 PROVE /\ (x + y) * P = x * P + y * P
                       /\ (x - y) * P = x * P - y * P
                       /\ x * P = P * x
                       /\ x * P \in Int
  OBVIOUS

LEMMA MulSucc == ASSUME NEW P \in Int, NEW x \in Int
                 PROVE (x + 1) * P = x * P + P /\ x * P \in Int /\ (x + 1) * P \in Int
  OBVIOUS

LEMMA DivMod == ASSUME NEW P \in PosInt, NEW r \in Int
                PROVE /\ r \div P \in Int /\ r % P \in Int
                      /\ r = (r \div P) * P + (r % P)
                      /\ 0 <= r % P /\ r % P < P
  <1>1. r \div P \in Int /\ r % P \in Int /\ 0 <= r % P /\ r % P < P  BY DEF PosInt
  <1>2. r % P = r - P * (r \div P)  BY DEF PosInt
  <1>3. (r \div P) * P = P * (r \div P) /\ P * (r \div P) \in Int  BY <1>1, Distrib DEF PosInt
  <1> QED BY <1>1, <1>2, <1>3

LEMMA MulNat == ASSUME NEW P \in Nat PROVE \A n \in Nat : n * P \in Nat
  <1> DEFINE Q(n) == n * P \in Nat
  <1>1. Q(0)  OBVIOUS
  <1>2. \A n \in Nat : Q(n) => Q(n + 1)
    <2> TAKE n \in Nat
    <2> HAVE Q(n)
    <2>1. (n + 1) * P = n * P + 1 * P  BY Distrib
    <2> QED BY <2>1
  <1> HIDE DEF Q
  <1>3. \A n \in Nat : Q(n)  BY <1>1, <1>2, NatInduction
  <1> QED BY <1>3 DEF Q

LEMMA MulMono == ASSUME NEW P \in PosInt, NEW x \in Int, NEW y \in Int, x <= y
                 PROVE x * P <= y * P
  <1>1. y - x \in Nat  OBVIOUS
  <1>2. (y - x) * P \in Nat  BY <1>1, MulNat DEF PosInt
  <1>3. (y - x) * P = y * P - x * P  BY Distrib DEF PosInt
  <1> QED BY <1>2, <1>3, Distrib DEF PosInt

\* quotient and remainder are unique: the only way to write v as q*P + s with 0 <= s < P
LEMMA DivModUnique == ASSUME NEW P \in PosInt, NEW q1 \in Int, NEW s1 \in Int, NEW q2 \in Int, NEW s2 \in Int,
                             0 <= s1, s1 < P, 0 <= s2, s2 < P, q1 * P + s1 = q2 * P + s2
                      PROVE q1 = q2 /\ s1 = s2
  <1>0. q1 * P \in Int /\ q2 * P \in Int /\ P \in Int  BY Distrib DEF PosInt
  <1>1. ~(q1 < q2)
    <2> SUFFICES ASSUME q1 < q2 PROVE FALSE  OBVIOUS
    <2>1. (q1 + 1) * P <= q2 * P  BY MulMono
    <2>2. (q1 + 1) * P = q1 * P + P  BY MulSucc DEF PosInt
    <2> QED BY <2>1, <2>2, <1>0
  <1>2. ~(q2 < q1)
    <2> SUFFICES ASSUME q2 < q1 PROVE FALSE  OBVIOUS
    <2>1. (q2 + 1) * P <= q1 * P  BY MulMono
    <2>2. (q2 + 1) * P = q2 * P + P  BY MulSucc DEF PosInt
    <2> QED BY <2>1, <2>2, <1>0
  <1>3. q1 = q2  BY <1>1, <1>2
  <1> QED BY <1>3, <1>0

(* ---- TNorm ---- *)
THEOREM TNormType == ASSUME NEW P \in PosInt, NEW w \in Int, NEW r \in Int
                     PROVE TNorm(P, w, r) \in Pair /\ TIsNorm(P, TNorm(P, w, r))
  BY DivMod DEF TNorm, Pair, TIsNorm

THEOREM TNormVal == ASSUME NEW P \in PosInt, NEW w \in Int, NEW r \in Int
                    PROVE Val(P, TNorm(P, w, r)) = w * P + r
  <1>1. Val(P, TNorm(P, w, r)) = (w + (r \div P)) * P + (r % P)  BY DEF Val, TNorm
  <1>2. (w + (r \div P)) * P = w * P + (r \div P) * P  BY DivMod, Distrib DEF PosInt
  <1>3. w * P \in Int /\ (r \div P) * P \in Int  BY DivMod, Distrib DEF PosInt
  <1> QED BY <1>1, <1>2, <1>3, DivMod

\* a normalised pair is a fixed point of TNorm; hence TNorm is idempotent
THEOREM TNormFix == ASSUME NEW P \in PosInt, NEW a \in Pair, TIsNorm(P, a)
                    PROVE TNorm(P, a.w, a.r) = a
  <1>1. a.w \in Int /\ a.r \in Int /\ 0 <= a.r /\ a.r < P /\ a = [w |-> a.w, r |-> a.r]  BY DEF Pair, TIsNorm
  <1>2. a.r = (a.r \div P) * P + (a.r % P) /\ 0 <= a.r % P /\ a.r % P < P
        /\ a.r \div P \in Int /\ a.r % P \in Int  BY <1>1, DivMod
  <1>3. 0 * P + a.r = (a.r \div P) * P + (a.r % P)
    <2>1. 0 * P = 0  BY DEF PosInt
    <2> QED BY <2>1, <1>1, <1>2
  <1>4. 0 = a.r \div P /\ a.r = a.r % P  BY <1>1, <1>2, <1>3, DivModUnique
  <1> QED BY <1>1, <1>4 DEF TNorm

THEOREM TNormIdem == ASSUME NEW P \in PosInt, NEW w \in Int, NEW r \in Int
                     PROVE TNorm(P, TNorm(P, w, r).w, TNorm(P, w, r).r) = TNorm(P, w, r)
  BY TNormType, TNormFix

(* ---- the encoding is injective on normalised pairs ---- *)
THEOREM ValInj == ASSUME NEW P \in PosInt, NEW a \in Pair, NEW b \in Pair, TIsNorm(P, a), TIsNorm(P, b),
                         Val(P, a) = Val(P, b)
                  PROVE a = b
  <1>1. a.w = b.w /\ a.r = b.r  BY DivModUnique DEF Pair, TIsNorm, Val
  <1> QED BY <1>1 DEF Pair

THEOREM ValType == ASSUME NEW P \in PosInt, NEW a \in Pair PROVE Val(P, a) \in Int
  BY Distrib DEF Val, Pair, PosInt

(* ---- TAdd / TSub: results are normalised pairs denoting the sum / difference (inputs need not be normalised) ---- *)
THEOREM TAddOK == ASSUME NEW P \in PosInt, NEW a \in Pair, NEW b \in Pair
                  PROVE /\ TAdd(P, a, b) \in Pair /\ TIsNorm(P, TAdd(P, a, b))
                        /\ Val(P, TAdd(P, a, b)) = Val(P, a) + Val(P, b)
  <1>1. a.w \in Int /\ a.r \in Int /\ b.w \in Int /\ b.r \in Int  BY DEF Pair
  <1>2. Val(P, TAdd(P, a, b)) = (a.w + b.w) * P + (a.r + b.r)  BY <1>1, TNormVal DEF TAdd
  <1>3. (a.w + b.w) * P = a.w * P + b.w * P /\ a.w * P \in Int /\ b.w * P \in Int  BY <1>1, Distrib DEF PosInt
  <1>4. TAdd(P, a, b) \in Pair /\ TIsNorm(P, TAdd(P, a, b))  BY <1>1, TNormType DEF TAdd
  <1> QED BY <1>1, <1>2, <1>3, <1>4 DEF Val

THEOREM TSubOK == ASSUME NEW P \in PosInt, NEW a \in Pair, NEW b \in Pair
                  PROVE /\ TSub(P, a, b) \in Pair /\ TIsNorm(P, TSub(P, a, b))
                        /\ Val(P, TSub(P, a, b)) = Val(P, a) - Val(P, b)
  <1>1. a.w \in Int /\ a.r \in Int /\ b.w \in Int /\ b.r \in Int  BY DEF Pair
  <1>2. Val(P, TSub(P, a, b)) = (a.w - b.w) * P + (a.r - b.r)  BY <1>1, TNormVal DEF TSub
  <1>3. (a.w - b.w) * P = a.w * P - b.w * P /\ a.w * P \in Int /\ b.w * P \in Int
    <2>1. (a.w - b.w) * P = a.w * P - b.w * P  BY <1>1, Distrib DEF PosInt
    <2>2. a.w * P \in Int /\ b.w * P \in Int  BY <1>1, MulSucc DEF PosInt
    <2> QED BY <2>1, <2>2
  <1>4. TSub(P, a, b) \in Pair /\ TIsNorm(P, TSub(P, a, b))  BY <1>1, TNormType DEF TSub
  <1> QED BY <1>1, <1>2, <1>3, <1>4 DEF Val

(* ---- comparisons of normalised pairs are the integer comparisons ---- *)
LEMMA ValLtW == ASSUME NEW P \in PosInt, NEW a \in Pair, NEW b \in Pair, TIsNorm(P, a), TIsNorm(P, b), a.w < b.w
                PROVE Val(P, a) < Val(P, b)
  <1>1. a.w \in Int /\ a.r \in Int /\ b.w \in Int /\ b.r \in Int /\ 0 <= a.r /\ a.r < P /\ 0 <= b.r /\ b.r < P
        BY DEF Pair, TIsNorm
  <1>2. (a.w + 1) * P <= b.w * P  BY <1>1, MulMono
  <1>3. (a.w + 1) * P = a.w * P + P /\ a.w * P \in Int  BY <1>1, MulSucc DEF PosInt
  <1>4. b.w * P \in Int  BY <1>1, MulSucc DEF PosInt
  <1> QED BY <1>1, <1>2, <1>3, <1>4 DEF Val, PosInt

THEOREM TLtOK == ASSUME NEW P \in PosInt, NEW a \in Pair, NEW b \in Pair, TIsNorm(P, a), TIsNorm(P, b)
                 PROVE TLt(a, b) <=> Val(P, a) < Val(P, b)
  <1>1. a.w \in Int /\ a.r \in Int /\ b.w \in Int /\ b.r \in Int  BY DEF Pair
  <1>2. a.w * P \in Int /\ b.w * P \in Int  BY <1>1, Distrib DEF PosInt
  <1>3. CASE a.w < b.w  BY <1>3, <1>1, ValLtW DEF TLt
  <1>4. CASE b.w < a.w
    <2>1. Val(P, b) < Val(P, a)  BY <1>4, ValLtW
    <2> QED BY <2>1, <1>4, <1>1, <1>2 DEF TLt, Val
  <1>5. CASE a.w = b.w  BY <1>5, <1>1, <1>2 DEF TLt, Val
  <1> QED BY <1>1, <1>3, <1>4, <1>5

THEOREM TLeqOK == ASSUME NEW P \in PosInt, NEW a \in Pair, NEW b \in Pair, TIsNorm(P, a), TIsNorm(P, b)
                  PROVE TLeq(a, b) <=> Val(P, a) <= Val(P, b)
  <1>1. a.w \in Int /\ a.r \in Int /\ b.w \in Int /\ b.r \in Int  BY DEF Pair
  <1>2. a.w * P \in Int /\ b.w * P \in Int  BY <1>1, Distrib DEF PosInt
  <1>3. CASE a.w < b.w
    <2>1. Val(P, a) < Val(P, b)  BY <1>3, ValLtW
    <2> QED BY <2>1, <1>3, <1>1, <1>2 DEF TLeq, Val
  <1>4. CASE b.w < a.w
    <2>1. Val(P, b) < Val(P, a)  BY <1>4, ValLtW
    <2> QED BY <2>1, <1>4, <1>1, <1>2 DEF TLeq, Val
  <1>5. CASE a.w = b.w  BY <1>5, <1>1, <1>2 DEF TLeq, Val
  <1> QED BY <1>1, <1>3, <1>4, <1>5

THEOREM TEqOK == ASSUME NEW P \in PosInt, NEW a \in Pair, NEW b \in Pair, TIsNorm(P, a), TIsNorm(P, b)
                 PROVE /\ TEq(a, b) <=> Val(P, a) = Val(P, b)
                       /\ TEq(a, b) <=> a = b
  <1>1. TEq(a, b) <=> a = b  BY DEF TEq, Pair
  <1>2. a = b => Val(P, a) = Val(P, b)  OBVIOUS
  <1>3. Val(P, a) = Val(P, b) => a = b  BY ValInj
  <1> QED BY <1>1, <1>2, <1>3

THEOREM TZeroOK == ASSUME NEW P \in PosInt PROVE TZero \in Pair /\ TIsNorm(P, TZero) /\ Val(P, TZero) = 0
  BY DEF TZero, Pair, TIsNorm, Val, PosInt

\* a pair logged as a JSON array [w, r]
THEOREM TFromOK == ASSUME NEW w \in Int, NEW r \in Int PROVE TFrom(<<w, r>>) = [w |-> w, r |-> r]
  BY DEF TFrom
=============================================================================

---------------------------- MODULE Limiter_ind ----------------------------
(* Apalache harness for the inductive invariant of the C20 oracle machine (spec/Limiter.tla).
   It EXTENDS a MECHANICALLY rewritten scratch copy of Limiter.tla that bin/proofs produces at run time
   (never stored in spec/: vlib copies spec/**/*.tla flat, a second Limiter.tla would shadow the original):
     (1) `\* @type: ...;` annotations in front of every CONSTANT / VARIABLE;
     (2) Of(a) == SelectSeq(hist, LAMBDA r : r.a = a)   becomes a LET-defined, type-annotated test operator
         (Snowcat cannot type `r.a` in an un-annotated LAMBDA);
     (3) `1..Len(s)` becomes `DOMAIN s` (Apalache rejects non-constant ranges).
   bin/proofs fails the job when one of the patterns is not found, so the copy cannot drift.
   Init, Inc, NextCnt and the C20_* invariants checked here are therefore the operators TLC checks.
   Unbounded here: all integers (Max, Interval >= 0, request instants t, resetTime, counter values).
   Bounded here (Apalache's symbolic sets/sequences have a static capacity): |Addr|, |WL| <= 3 and, in the
   arbitrary pre-state of the induction step, Len(hist) <= 5.  The TLAPS proof (Limiter_proof.tla)
   removes these two bounds; this module is the independent second engine.
     apalache-mc check --cinit=ConstInit --init=Init    --next=NextU --inv=IndInv    --length=0 Limiter_ind.tla
     apalache-mc check --cinit=ConstInit --init=IndInit --next=NextU --inv=IndInv    --length=1 Limiter_ind.tla
     apalache-mc check --cinit=ConstInit --init=IndInit --next=NextU --inv=ResetStep --length=1 Limiter_ind.tla *)
EXTENDS Limiter, Apalache

ConstInit == /\ Addr = Gen(3)
             /\ WL = Gen(3)          \* any set of addresses, not necessarily a subset of Addr
             /\ Max \in Int
             /\ Interval \in Nat
             /\ Times = {}           \* unused: NextU ranges over Int
             /\ MaxLen = 0           \* unused: NextU has no length bound

TypeOK == /\ resetTime \in Int
          /\ cnt \in [Addr -> Nat]

IndInv == /\ TypeOK
          /\ C20_Consistent
          /\ C20_Counter
          /\ C20_Quota
          /\ C20_White
          /\ C20_Window

\* an arbitrary state satisfying IndInv
IndInit == /\ resetTime \in Int
           /\ cnt \in [Addr -> Nat]
           /\ hist = Gen(5)
           /\ IndInv

\* the machine without the model-checking bounds Times / MaxLen
NextU == \E a \in Addr : \E t \in Int : Inc(a, t)

\* C20.reset (C20_ResetOnlyAfterInterval with Times := Int) as an action invariant; the witness t is resetTime'
ResetStep == resetTime' # resetTime => (Addr # {} /\ resetTime' - resetTime > Interval)
=============================================================================

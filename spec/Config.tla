------------------------------- MODULE Config -------------------------------
(* (M) for X08: TLC enumerates every assignment of at most MaxCells (key, layer) cells over a small key / value set and checks
   the oracle's own theorems: precedence is total and monotone, keys are independent up to Governs, the derivations are a
   fixpoint (an accepted effective configuration fed back as the file reproduces itself), rejection does not depend on
   which layer carries the offending values.                                                                             *)
EXTENDS ConfigOps, TLC
CONSTANTS MaxCells, MKeys
VARIABLES L, last
vars == <<L, last>>
Vals(k) == CASE k \in IntKeys -> {"7001", "abc"} [] k = "vodroot" -> {"/abs/v1", "rel/v3"} [] k = "repdataroot" -> {"+", "-", "rel/r2"}
             [] k = "writerepdata" -> {"true", "false"} [] k \in {"domains", "certpath", "keypath"} -> {"x", ""} [] OTHER -> {"a", "b"}
MAbs == [v \in {"rel/v3", "rel/r2", "./vod"} |-> CASE v = "rel/v3" -> "/cwd/rel/v3" [] v = "rel/r2" -> "/cwd/rel/r2" [] OTHER -> "/cwd/vod"]
Empty == [x \in {} |-> ""]
NCells == Cardinality(DOMAIN L.file) + Cardinality(DOMAIN L.flag) + Cardinality(DOMAIN L.env)
Init == L = [file |-> Empty, flag |-> Empty, env |-> Empty] /\ last = <<"none", "none">>
Put(ln, k, v) == /\ k \notin DOMAIN L[ln] /\ NCells < MaxCells
                 /\ L' = [L EXCEPT ![ln] = [x \in DOMAIN L[ln] \cup {k} |-> IF x = k THEN v ELSE L[ln][x]]]
                 /\ last' = <<ln, k>>
Next == \E i \in 1..3, k \in MKeys : \E v \in Vals(k) : Put(LayerNames[i], k, v)
Spec == Init /\ [][Next]_vars
Rank(ln) == CASE ln = "default" -> 0 [] ln = "file" -> 1 [] ln = "flag" -> 2 [] ln = "env" -> 3
TypeOK == \A k \in MKeys : Raw(L, k) \in Vals(k) \cup {Default(k)}
\* precedence is total: the layered value is the value of the set layer of highest rank, the default iff no layer sets the key
InvPrecedence == \A k \in MKeys : LET t == TopLayer(L, k) IN
                    /\ (t = "default") = ~SetAnywhere(L, k)
                    /\ \A i \in 1..3 : Sets(L, LayerNames[i], k) => Rank(LayerNames[i]) <= Rank(t)
                    /\ (t # "default" => Raw(L, k) = L[t][k])
\* fixpoint: an accepted effective configuration written back as the file layer is accepted and reproduces itself
InvFixpoint == ~MustReject(L) =>
                 LET eff == [k \in MKeys |-> CHOOSE v \in Expected(L, MAbs, k) : TRUE]
                     L2 == [file |-> eff, flag |-> Empty, env |-> Empty]
                 IN ~MustReject(L2) /\ \A k \in MKeys \ {"drmcfgfile"} : Expected(L2, MAbs, k) = Expected(L, MAbs, k)
\* rejection depends on the layered values only, not on the layer that carries them
InvRejectByValue == LET flat == [file |-> [k \in {x \in MKeys : SetAnywhere(L, x)} |-> Raw(L, k)], flag |-> Empty, env |-> Empty]
                    IN (\A k \in DOMAIN L.flag : L.flag[k] \notin IllTyped) => (MustReject(L) = MustReject(flat))
\* one more cell: only the governed keys move, and the key itself only if no higher layer sets it
StepIndependent == [][\A k \in MKeys : Expected(L', MAbs, k) # Expected(L, MAbs, k) => last'[2] \in Governs(k)]_vars
StepMonotone == [][\A k \in MKeys : Raw(L', k) # Raw(L, k) => last'[2] = k /\ TopLayer(L', k) = last'[1]]_vars
StepShadowed == [][Rank(TopLayer(L, last'[2])) > Rank(last'[1]) => \A k \in MKeys : Expected(L', MAbs, k) = Expected(L, MAbs, k)]_vars
=============================================================================

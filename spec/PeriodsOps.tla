---------------------------- MODULE PeriodsOps ----------------------------
(* Oracle for C06 "splitting into periods preserves the timeline and the segment identities", as pure
   operators shared by the model (Periods.tla) and the trace specification (trace/Periods_Trace.tla).

   periods_<pph> : pph periods per hour, period duration PD = 3600 \div pph whole seconds (PDof).
   The property is RELATIVE: the reference is the single-period presentation produced by the same server
   at the same instant.  Both presentations are given as explicit segment lists per AdaptationSet.

   Number ranges (TLC integers are 32 bit).  Everything that grows with wall-clock time is given relative to a
   base B = Period@start (s) of the first period of the multi-period MPD:
     segment tuple  x = <<t, d, n, ...>>   t = media time - B*TS (ticks), d = duration (ticks), n = number - NB
     period view    v = [start |-> Period@start in s (absolute; < 2^31 until 2038),
                         pto   |-> presentationTimeOffset - B*TS (ticks),  segs |-> Seq(x)]
     single list    one = Seq(x) with t = presentation time - B*TS  (t - pto + Period@start*TS of the single period)
   TS is the timescale of the AdaptationSet, NB an arbitrary common number base.                                     *)
EXTENDS LiveTimelineOps, FiniteSets

PDof(pph) == 3600 \div pph

\* ------------------------------------------------------------------------------------------- C06.reject
\* "period durations that are not a multiple of the segment duration are rejected".  The text fixes the answer only
\* when every reading agrees that PD is not a multiple: the asset has ONE segment duration (all segments of the
\* reference track equal), and PD is a multiple neither of the exact duration (ticks) nor of the nominal duration in
\* ms of any track (segms), neither for PD = floor(3600/P) s nor for the exact quotient 3600/P s.
UniformSc(sc) == \A i \in 1..sc.N : sc.dur[i] = sc.dur[1]
Mult(x, y) == y > 0 /\ x % y = 0
MustReject(sc, segms, pph) ==
   LET pd    == PDof(pph)
       hourT == 3600 * sc.TS
   IN /\ pph >= 1 /\ pph <= 3600
      /\ UniformSc(sc)
      /\ ~Mult(pd * sc.TS, sc.dur[1])
      /\ \A i \in 1..Len(segms) : ~Mult(pd * 1000, segms[i])
      /\ ~(Mult(hourT, sc.dur[1]) /\ Mult(hourT \div sc.dur[1], pph))
      /\ \A i \in 1..Len(segms) : ~(Mult(3600000, segms[i]) /\ Mult(3600000 \div segms[i], pph))

\* ------------------------------------------------------------------------------------------- C06.tile
\* "the generated periods tile wall-clock time (period k starts at k*PD)": every start lies on a grid of step PD and
\* consecutive periods are PD apart.  starts: Period@start in whole seconds (relative to availabilityStartTime ast, s),
\* fracs: the sub-second remainder in ms (must be 0).  With ast # 0 the text leaves the anchor of the grid open; both are
\* accepted: the grid anchored at availabilityStartTime (Period@start = k*PD) or at the epoch (ast + Period@start = k*PD).
\* (sums are formed modulo PD: ast + start may exceed 31 bits)
TileOK(starts, fracs, pd, ast) ==
   /\ pd > 0
   /\ \A j \in 1..Len(starts) : fracs[j] = 0 /\ starts[j] >= 0
   /\ \/ \A j \in 1..Len(starts) : starts[j] % pd = 0
      \/ \A j \in 1..Len(starts) : ((starts[j] % pd) + (ast % pd)) % pd = 0
   /\ \A j \in 1..(Len(starts) - 1) : starts[j + 1] - starts[j] = pd           \* (difference: no 32-bit overflow)
\* C06.cover: periods that all lie in the future of the request instant tile nothing of the presentation (and make the
\* partition clause vacuous): the first generated period has started.  nowB = now - ast - B in any unit (only the sign is used).
CoverOK(nowB) == nowB >= 0
PeriodIdx(start, pd) == start \div pd          \* the k of a period; ids must be a function of k (C06.tile, ids)

\* ------------------------------------------------------------------------------------------- C06.partition
\* Arithmetic guard (TLC integers are 32 bit): the operators below may be applied only if every period starts within
\* RangeS(TS) seconds of the base and list values are bounded by 7*10^8 (recorder); a legitimate MPD stays far inside
\* (periods of at most 3600 s, windows of seconds).  Anything else is a failed clause, never an evaluation error.
RangeS(TS) == 700000000 \div (IF TS > 0 THEN TS ELSE 1)
InRange(B, TS, pd, starts) == /\ TS > 0 /\ pd <= RangeS(TS)
                              /\ \A j \in 1..Len(starts) : starts[j] - B >= 0 /\ starts[j] - B <= RangeS(TS)
\* presentation time (ticks, relative to B) of segment x of period view v: presentationTimeOffset and Period@start applied
Pres(B, TS, v, x) == x[1] - v.pto + (v.start - B) * TS
InPeriod(B, TS, pd, start, t) == (start - B) * TS <= t /\ t < (start - B + pd) * TS
\* all occurrences <<period, position>> of the presentation time t in the multi-period presentation
Matches(B, TS, per, t) ==
   UNION { { <<p, i>> : i \in { i \in 1..Len(per[p].segs) : Pres(B, TS, per[p], per[p].segs[i]) = t } } : p \in 1..Len(per) }
\* only segments whose start lies at or after the first period's start are required to appear
Required(one) == { j \in 1..Len(one) : one[j][1] >= 0 }
\* "" if the single-period segment s appears in exactly one period, the one containing its start, with the same
\* media time (Pres equal), duration and number; else the reason
SegWhy(B, TS, pd, per, s) ==
   LET M == Matches(B, TS, per, s[1]) IN
   IF M = {} THEN "missing"
   ELSE IF Cardinality(M) > 1 THEN "in more than one place"
   ELSE LET m == CHOOSE mm \in M : TRUE
            x == per[m[1]].segs[m[2]]
        IN IF ~InPeriod(B, TS, pd, per[m[1]].start, s[1]) THEN "not in the period containing its start"
           ELSE IF x[2] # s[2] THEN "duration differs"
           ELSE IF x[3] # s[3] THEN "number differs"
           ELSE ""
PartitionBad(B, TS, pd, one, per) == { j \in Required(one) : SegWhy(B, TS, pd, per, one[j]) # "" }

\* ------------------------------------------------------------------------------------------- C06.bytes
\* tuples carry x[4] = HTTP status of the segment URL derived from that MPD, x[5] = body digest.  Where the single-period
\* URL delivers the segment (200), the URL derived inside the period must deliver the same bytes.
BytesBad(B, TS, one, per) ==
   { j \in Required(one) : /\ one[j][4] = 200
                           /\ \E m \in Matches(B, TS, per, one[j][1]) :
                                 LET x == per[m[1]].segs[m[2]] IN x[4] # 200 \/ x[5] # one[j][5] }

\* ------------------------------------------------------------------------------------------- C06.cont
\* pcs[p][a]: AdaptationSet a of period p carries the period-continuity descriptor.  Requested: every period that
\* has a predecessor in the MPD signals it on every AdaptationSet (the first listed period is free); not requested: none.
ContOK(cont, pcs) ==
   IF cont THEN \A p \in 2..Len(pcs) : \A a \in 1..Len(pcs[p]) : pcs[p][a]
   ELSE \A p \in 1..Len(pcs) : \A a \in 1..Len(pcs[p]) : ~pcs[p][a]

\* ------------------------------------------------------------------------------------------- C06.pt
\* Number mode: the MPD changes exactly when a new period appears: publishTime = availabilityStartTime + start of the
\* last period (ptRelMS = publishTime - AST - B*1000 in ms)
PtOK(B, lastStart, ptRelMS) == lastStart - B >= 0 /\ lastStart - B <= 2000000 /\ ptRelMS = (lastStart - B) * 1000
=============================================================================

---------------------------- MODULE AudioResegOps ----------------------------
(* Oracle for C03: audio is re-segmented to follow the boundaries of the reference (video)
   representation without loss or duplication.  Pure operators over

     sc = video scenario record of LiveTimelineOps ([N, dur, vod0, TS, ...]): Start/End(sc, k, i) of
          video segment n = k*N + i in video ticks
     au = [ F      audio frame duration in audio ticks (1024 AAC, 1536 AC-3)
            TSa    audio timescale
            A      number of audio frames in the VoD audio track (all its segments concatenated; the
                   VoD audio starts at decode time 0)
            ra, rv a fraction with ra/rv = TSa/TS (video tick x is audio time x*ra/rv; need not be lowest terms)
            M      a number of video loops after which the audio frame grid repeats exactly:
                   M*L*ra/rv is a whole multiple of F
            PA     = M*L*ra/rv, the super-period in audio ticks ]

   Audio times grow with wall-clock time and are carried as pairs [w, r] over PA (spec/Time.tla);
   video loop k is split as k = (k \div M)*M + (k % M).  Everything is exact integer arithmetic
   (cross-multiplication, no rounding); every intermediate value stays far below 2^31 for the
   constants used (x*ra <= (M+2)*L*ra).                                                                 *)
EXTENDS LiveTimelineOps

AuAdmissible(sc, au) ==
   /\ au.F > 0 /\ au.A > 0 /\ au.M > 0 /\ au.ra > 0 /\ au.rv > 0 /\ au.TSa > 0
   /\ au.ra * sc.TS = au.rv * au.TSa                    \* ra/rv = TSa/TSv
   /\ au.PA * au.rv = au.M * L(sc) * au.ra              \* PA = M loops in audio ticks, a whole number
   /\ au.PA % au.F = 0                                  \* ... of whole frames

Den(au) == au.rv * au.F
\* Up: the first audio frame boundary (audio ticks) at or after video tick x, x >= 0:
\*     ceil( (x*ra/rv) / F ) * F, computed exactly
UpF(au, x) == ((x * au.ra + Den(au) - 1) \div Den(au)) * au.F

\* video-tick offset of the start of segment (k, i) inside its super-period
VOff(sc, au, k, i) == (k % au.M) * L(sc) + sc.vod0 + PreSum(sc.dur, i)
AOffStart(sc, au, k, i) == UpF(au, VOff(sc, au, k, i))
AOffEnd(sc, au, k, i)   == UpF(au, VOff(sc, au, k, i) + Dur(sc, i))

\* C03.start: the served audio segment n starts at the first frame boundary at or after the start of video segment n
AStart(sc, au, k, i) == TNorm(au.PA, k \div au.M, AOffStart(sc, au, k, i))
\* ... and ends at the first frame boundary at or after its end (= AStart of the successor: theorem Abut in AudioReseg.tla)
AEnd(sc, au, k, i)   == TNorm(au.PA, k \div au.M, AOffEnd(sc, au, k, i))
\* C03.count: exactly (end - start) / F frames
ACount(sc, au, k, i) == (AOffEnd(sc, au, k, i) - AOffStart(sc, au, k, i)) \div au.F
ADur(sc, au, k, i)   == AOffEnd(sc, au, k, i) - AOffStart(sc, au, k, i)

\* "hence less than one frame late": lateness of the audio start in units of 1/rv audio tick
LateRv(sc, au, k, i) == AOffStart(sc, au, k, i) * au.rv - VOff(sc, au, k, i) * au.ra
LateOK(sc, au, k, i) == LateRv(sc, au, k, i) >= 0 /\ LateRv(sc, au, k, i) < au.F * au.rv

\* ---- C03.frames: the looped source.  Loop w of the video (media time [w*L, (w+1)*L)) carries the audio frame
\* grid [LoopA(w), LoopA(w+1)); position p of that grid is VoD frame p, and positions beyond the VoD audio
\* (a loop whose audio is shorter than the video loop) repeat the last VoD frame.
LoopA(sc, au, w)  == UpF(au, (w % au.M) * L(sc))                 \* offset inside the super-period
LoopFrames(sc, au, w) == (UpF(au, ((w % au.M) + 1) * L(sc)) - LoopA(sc, au, w)) \div au.F
Src(au, p)        == IF p < au.A THEN p ELSE au.A - 1
\* j-th (0-based) frame of segment (k, i) when the segment lies inside video loop k (vod0 = 0)
Pos(sc, au, k, i, j)   == (AOffStart(sc, au, k, i) - LoopA(sc, au, k)) \div au.F + j
Frame(sc, au, k, i, j) == Src(au, Pos(sc, au, k, i, j))
\* the same by a separate definition: frame with index g (counted inside the super-period q of loop k; may run
\* into the next super-period) -> the loop whose grid contains it -> position -> VoD frame
LoopAbs(sc, au, w) == IF w <= au.M THEN UpF(au, w * L(sc)) ELSE au.PA + UpF(au, (w - au.M) * L(sc))     \* w in 0..2M
LoopOfG(sc, au, g) == CHOOSE w \in 0..(au.M + 1) : LoopAbs(sc, au, w) <= g * au.F /\ g * au.F < LoopAbs(sc, au, w + 1)
FrameOfG(sc, au, g) == Src(au, g - LoopAbs(sc, au, LoopOfG(sc, au, g)) \div au.F)

\* When the reference track does not start at media time 0 (vod0 # 0) the text does not say where a loop of the
\* looped source begins; then only the reading-independent part is demanded: consecutive served frames are
\* consecutive VoD frames, or the repeated last frame (padding), or a restart near the beginning of the VoD audio.
WeakNext(au, x, y, slack) == y = x + 1 \/ (x = au.A - 1 /\ y = au.A - 1) \/ y <= slack
=============================================================================

SPECIFICATION Spec
CONSTANTS
  Sess = {1}
  Reps = {"v", "a"}
  Clients = {"c1"}
  NSeg = 2
  Extra = 0
  First = 5
  Scripts <- Scripts1x4
  ErrSets <- NoErr
  StepGuard = TRUE
INVARIANTS Emit

SPECIFICATION Spec
CONSTANTS
  Streams <- StreamsGenQuick
  Patterns <- PatGen
  MaxRead = 3
  GarbageSizes = {0, 9, 62}
  W = 64
  SizeCheck = TRUE
  EofFix = TRUE
INVARIANTS Emit



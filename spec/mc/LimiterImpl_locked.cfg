SPECIFICATION Spec
CONSTANTS
  Clients = {"c1", "c2", "c3"}
  Addr = {"a", "b"}
  Times = {1, 4}
  Max = 1
  Interval = 2
  EndTimeLocked = TRUE
  defaultInitValue = 0
INVARIANTS NoConflict ExactlyOnce QuotaOK

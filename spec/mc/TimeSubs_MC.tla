---------------------------- MODULE TimeSubs_MC ----------------------------
EXTENDS TimeSubs
S0to12  == 0..12
S0to25  == 0..25
SOnSec  == {0, 4, 8, 12}          \* segment starts on whole seconds only (Sec = 4)
D1to5   == 1..5
D1to11  == 1..11
C1to9   == 1..9
C1to14  == 1..14
C1to4   == 1..4                   \* cue durations up to one second
C5to9   == 5..9                   \* longer than one second
Ast3    == {0, 1, 5}
Ast0    == {0}
=============================================================================

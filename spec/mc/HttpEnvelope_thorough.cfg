SPECIFICATION Spec
CONSTANTS
  RouteSet = {"live", "vod", "patch", "rlivesim", "rchunked", "rdashvod", "rurlgen", "healthz", "version", "config", "assets", "vodlist", "index", "favicon", "urlgen", "static", "reqcount", "loglevel", "metrics", "api", "unknown"}
  V = {1, 2, 3, 4, 5, 6, 7, 8, 9, 10, 11, 12, 13, 14, 15, 16, 17, 18, 19, 20, 21, 22, 23, 24, 25, 26, 27, 28, 29, 30, 31, 32, 33, 34, 35, 36, 37, 38, 39, 40}
INVARIANTS TypeOK InvOneCT InvAccept InvSensitive InvHead InvRedirect InvAllow Emit

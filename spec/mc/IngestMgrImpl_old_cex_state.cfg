SPECIFICATION Spec
CONSTANTS
  Clients = {"c1", "c2"}
  Ids = {"s1", "s2"}
  MaxCalls = 3
  MapsLocked = FALSE
  SessLocked = FALSE
  OldDelete = TRUE
  StepGuard = TRUE
  NilGuard = TRUE
  WithClose = FALSE
  defaultInitValue = 0
INVARIANTS NoConflict_state

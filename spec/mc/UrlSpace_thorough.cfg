SPECIFICATION Spec
CONSTANTS
  SingleClasses = {"empty", "zero", "neg1", "one", "typical", "huge", "nonnum", "float", "inf", "wrongsep", "brokenlist"}
  PairClasses = {"zero", "neg1", "typical", "huge", "nonnum"}
  PairTails = {"mpd", "vnum", "anum", "vtime", "subs_media"}
  PatchClasses = {"empty", "zero", "neg1", "one", "typical", "huge", "nonnum", "float", "inf", "wrongsep", "brokenlist"}
INVARIANTS TypeOK Sane Emit

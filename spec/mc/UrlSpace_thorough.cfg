SPECIFICATION Spec
CONSTANTS
  SingleClasses = {"empty", "zero", "neg1", "one", "typical", "huge", "nonnum", "float", "inf", "wrongsep", "brokenlist", "tickedge"}
  PairClasses = {"zero", "neg1", "one", "typical", "huge", "nonnum", "float", "inf"}
  PairTails = {"mpd", "vnum", "anum", "vtime", "subs_media", "bu_in"}
  PatchClasses = {"empty", "zero", "neg1", "one", "typical", "huge", "nonnum", "float", "inf", "wrongsep", "brokenlist"}
  LLTails = {"mpd", "init", "vnum", "anum", "vnum_lt", "num_huge", "vtime", "atime", "bu_in", "subs_media"}
  EarlyClasses = {"empty", "zero", "neg1", "one", "typical", "huge", "nonnum", "float", "inf", "wrongsep", "brokenlist"}
  EarlyPairClasses = {"zero", "one", "typical"}
  EarlyTails = {"mpd", "vnum", "anum", "vtime", "subs_media"}
  TripleClasses = {"empty", "zero", "neg1", "one", "typical", "huge", "nonnum", "float", "inf", "tickedge"}
  TripleTails = {"mpd", "vnum", "anum", "num_huge"}
  SeqMethods = {"PUT", "POST"}
INVARIANTS TypeOK Sane Emit

---- MODULE ReceiverShift_MC ----
EXTENDS ReceiverShift
KsDef == {-1, 0, 1, 5}    \* sender numbers off by k from time/duration (+ startNr)
T0All == 0..135          \* 0..3D for D = 45 ticks (3 s at 15 ticks/s)
T0Quick == {0, 1, 14, 15, 29, 30, 31, 44, 45, 46, 60, 75, 89, 90, 134, 135}
T0Small == 0..36         \* 0..3D for D = 12 ticks (3 s at 4 ticks/s)
T0One == 0..9           \* 0..3D for D = 3 ticks (1 tick/s)
T0Small12 == {0, 1, 3, 4, 7, 8, 9, 12, 13, 23, 24, 35, 36}
====

SPECIFICATION Spec
CONSTANTS
  Tm = 15
  Ta = 8
  DSecs = {2, 3}
  T0s <- T0Quick
  Ks <- KsDef
  StartNrs = {0, 1}
  Shorts = {0, 1}
  NSeg = 5
  Arith = "code"
INVARIANT NeverShifted

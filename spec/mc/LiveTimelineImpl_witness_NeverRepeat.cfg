SPECIFICATION Spec
CONSTANTS
  Configs <- CoarseQuick
  Fix = TRUE
  EmitGen = FALSE
  Seed = 0
INVARIANTS NeverRepeat

---------------------------- MODULE Scte35_MC ----------------------------
EXTENDS Scte35
\* grids: every whole-second duration 1..10 s (U = 1: 1 tick = 1 s), every start offset (Init)
Grid1 == {<<d>> : d \in 1..10}
Alt1  == {<<8, 4>>, <<3, 1>>, <<2, 3, 5>>, <<10, 1>>, <<7, 9>>}
GridAlt1 == Grid1 \cup {<<8, 4>>}
\* half-second resolution (U = 2): 0.5 .. 10 s grids, alternating and irregular layouts
Grid2 == {<<d>> : d \in 1..20}
Alt2  == {<<16, 8>>, <<7, 3>>, <<19, 1>>, <<5, 9, 13>>, <<20, 15>>, <<3, 4>>}
LayoutsThorough2 == Grid2 \cup Alt2
\* third-of-a-second resolution (U = 3), e.g. 2.33 s / 6.67 s / 9.67 s
Grid3 == {<<d>> : d \in {1, 2, 4, 5, 7, 10, 16, 20, 25, 29, 30}}
\* layouts on which the code as written loses no event (no segment of <= 3 s both starts in the minute before
\* an announce instant 60m+3 and contains it)
Small1 == {<<d>> : d \in 1..3}
\* hand-computed values of 90000*T mod 2^33 (python), as <<div 16, mod 16>>
ASSUME Pts16(0) = <<0, 0>>
ASSUME Pts16(10) = <<56250, 0>>
ASSUME Pts16(95443) = <<536866875, 0>>          \* last whole second before the first wrap
ASSUME Pts16(95444) = <<1588, 0>>               \* first whole second after the first wrap: 90000*95444 - 2^33 = 25408
ASSUME Pts16(1750000210) = <<223009730, 0>>
ASSUME Pts16(2147483647) = <<536865287, 0>>
ASSUME MulMod(123456789, 5625, Two29) = 270348909
=============================================================================

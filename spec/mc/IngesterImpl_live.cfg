SPECIFICATION Spec
CONSTANTS
  Sess = {1}
  Reps = {"v", "a"}
  Clients = {"c1", "c2"}
  NSeg = 2
  Extra = 0
  First = 5
  Scripts <- Scripts2x21
  ErrSets <- OneErr
  StepGuard = TRUE
INVARIANTS InitFirst Consecutive StepLower StepUpper DeleteStops Delivered StuckOnlyAfterStop DurationCount DurationLmsg
PROPERTIES ApiReturns SessionsEnd

---------------------------- MODULE RepCache_MC ----------------------------
EXTENDS RepCache
\* generator: two representations (their assets do not influence the enumerated action sequences)
RepsGen   == {"r1", "r2"}
AssetsGen == {"a1"}
AssetOfGen == [r \in RepsGen |-> "a1"]
AdmGen    == {"a1"}
\* quick: two representations of one admissible asset + one of an inadmissible asset
RepsQ   == {"r1", "r2", "r3"}
AssetsQ == {"a1", "bad"}
AssetOfQ == [r \in RepsQ |-> IF r = "r3" THEN "bad" ELSE "a1"]
AdmQ    == {"a1"}
\* thorough: two assets (2 + 1 representations) + an inadmissible one
RepsT   == {"r1", "r2", "r3", "r4"}
AssetsT == {"a1", "a2", "bad"}
AssetOfT == [r \in RepsT |-> IF r = "r4" THEN "bad" ELSE IF r = "r3" THEN "a2" ELSE "a1"]
AdmT    == {"a1", "a2"}
=============================================================================

SPECIFICATION Spec
CONSTANTS
  Layouts <- LayoutsVod0
  MaxLoops = 4
  FixEndIdx = TRUE
  FixPadding = TRUE
INVARIANTS Served StartOK CountOK

SPECIFICATION Spec
CONSTANTS
  Tm = 4
  Ta = 15
  DSecs = {2, 3}
  T0s <- T0Small12
  Ks <- KsDef
  StartNrs = {0, 1}
  Shorts = {0, 1}
  NSeg = 5
  Arith = "code"
INVARIANT Emit

SPECIFICATION Spec
CONSTANTS
  Sess = {1, 2}
  Reps = {"v", "a"}
  Clients = {"c1"}
  NSeg = 0
  Extra = 0
  First = 5
  Scripts <- Scripts1x3
  ErrSets <- OneErr1
  StepGuard = TRUE
INVARIANTS InitFirst Consecutive StepLower StepUpper DeleteStops Delivered StuckOnlyAfterStop

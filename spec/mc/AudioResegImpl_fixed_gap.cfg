SPECIFICATION Spec
CONSTANTS
  Layouts <- LayoutsGap
  MaxLoops = 3
  FixEndIdx = TRUE
INVARIANTS Served StartOK CountOK FramesOK

SPECIFICATION Spec
CONSTANTS
  U = 1
  Layouts <- Alt1
  Ns = {1, 2, 3}
  PHs = {0}
  Rules = {"L", "R", "both", "neither", "impl", "fix"}
  Minutes = 3
INVARIANTS MonitorExact AcceptsBothReadings ExactlyN AtOffsets

SPECIFICATION Spec
CONSTANTS
  Configs <- Vod0Quick
  Fix = FALSE
  EmitGen = FALSE
  Seed = 0
INVARIANTS InvLookupNr InvLookupTime InvTimelineShape InvTimelineEdge InvListedServed
PROPERTIES ImplMonotone ImplForward ImplPtIdentifiesEdge

SPECIFICATION Spec
CONSTANTS
  Layouts <- LayoutsQuick
  MaxLoops = 6
INVARIANTS Admissible_ Abut Late CountNonNeg FramesAgree LoopComplete Consecutive NoSkipWhenEnough

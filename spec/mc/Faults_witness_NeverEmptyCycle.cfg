SPECIFICATION Spec
CONSTANTS
  Layouts <- LayoutsQuick
  Pats1 <- Pats1Quick
  Pats2 <- Pats2Quick
  Reps <- RepsDef
  Traffic <- TrafficQuick
  MaxSeg = 20
  MaxSec = 24
INVARIANTS NeverEmptyCycle

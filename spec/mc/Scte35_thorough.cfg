SPECIFICATION Spec
CONSTANTS
  U = 2
  Layouts <- LayoutsThorough2
  Ns = {1, 2, 3}
  PHs = {0, 37, 40}
  Rules = {"L", "R", "both", "neither", "impl", "fix"}
  Minutes = 4
INVARIANTS MonitorExact AcceptsBothReadings ExactlyN AtOffsets

---------------------------- MODULE Faults_MC ----------------------------
EXTENDS Faults
\* layouts in "units": TS ticks per second, durations in ticks
Mk(d, v, ts) ==
  LET l == PreSum(d, Len(d)) IN
  [N |-> Len(d), dur |-> d, vod0 |-> v, TS |-> ts, loopMS |-> (l * 1000) \div ts, tsbd |-> 60, ato |-> 0, snr |-> 0]
\* 2 s uniform, 3 s uniform, one 8 s segment (longer than every cycle), irregular 1/3/2, irregular 4/1, 1.5 s (TS = 2),
\* irregular 2.5/1/1.5 (TS = 2)
LayoutsQuick    == { s \in { Mk(d[1], v, d[2]) : d \in { <<<<2, 2>>, 1>>, <<<<3>>, 1>>, <<<<8>>, 1>>, <<<<1, 3, 2>>, 1>>, <<<<3, 3>>, 2>> }, v \in {0, 1} } : Admissible(s) }
LayoutsThorough == { s \in { Mk(d[1], v, d[2]) : d \in { <<<<2, 2>>, 1>>, <<<<3>>, 1>>, <<<<8>>, 1>>, <<<<1, 3, 2>>, 1>>, <<<<4, 1>>, 1>>, <<<<1>>, 1>>,
                                                          <<<<3, 3>>, 2>>, <<<<5, 2, 3>>, 2>>, <<<<7, 7, 7>>, 3>> }, v \in {0, 1} } : Admissible(s) }
                   \cup { Mk(<<2, 2>>, 2, 1), Mk(<<5, 2, 3>>, 3, 2) }
Pat(c, q, code, reps) == [c |-> c, q |-> q, code |-> code, reps |-> reps]
RepsDef == {"V", "A"}
Filters == { <<>>, <<"V">>, <<"A">>, <<"V", "A">> }
\* first pattern: every cycle 2..7 and rsq 0..3; second pattern: a covering subset (another code)
Pats1Quick    == { Pat(c, q, 404, <<>>) : c \in 2..7, q \in 0..3 } \cup { Pat(c, 1, 404, <<"A">>) : c \in {3, 7} }
Pats2Quick    == { Pat(3, 0, 503, <<>>), Pat(5, 1, 503, <<"V">>), Pat(7, 0, 503, <<"V", "A">>) }
Pats1Thorough == { Pat(c, q, 404, f) : c \in 2..7, q \in 0..3, f \in { <<>>, <<"A">>, <<"V", "A">> } }
Pats2Thorough == { Pat(c, 0, 503, <<"V">>) : c \in {2, 3, 5, 7} } \cup { Pat(c, 1, 503, <<>>) : c \in {2, 3, 5, 7} }
Iv(s, d) == [s |-> s, d |-> d]
\* all traffic patterns over {u,d,s,h} up to length 3 with durations in {1,2,10}
Itvls == { Iv(s, d) : s \in TrafficStates, d \in {1, 2, 10} }
TrafficThorough == { <<a>> : a \in Itvls } \cup { <<a, b>> : a \in Itvls, b \in Itvls } \cup { <<a, b, c>> : a \in Itvls, b \in Itvls, c \in Itvls }
TrafficQuick    == { <<a>> : a \in Itvls } \cup { <<a, b>> : a \in Itvls, b \in Itvls }
                   \cup { <<Iv("u", 2), b, c>> : b \in Itvls, c \in Itvls }
=============================================================================

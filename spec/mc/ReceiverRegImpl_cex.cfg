SPECIFICATION Spec
CONSTANTS
  Requests = {"r1", "r2"}
  Atomic = FALSE
INVARIANTS MediaOK

SPECIFICATION Spec
CONSTANTS
  Tm = 1
  Ta = 1
  DSecs = {2, 3}
  T0s <- T0One
  Ks <- KsDef
  StartNrs = {0, 1}
  Shorts = {0, 1}
  NSeg = 5
  Arith = "code"
INVARIANT InvTune
INVARIANT InvKeep
INVARIANT InvGrid
INVARIANT InvTime
INVARIANT InvTimeExactShift

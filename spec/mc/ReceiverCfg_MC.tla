---- MODULE ReceiverCfg_MC ----
EXTENDS ReceiverCfg
GCAll == {<<"", "">>, <<"gu", "gp">>, <<"gu", "">>, <<"", "gp">>}
GCMain == {<<"", "">>, <<"gu", "gp">>}
GCNone == {<<"", "">>}
GCBoth == {<<"gu", "gp">>}
====

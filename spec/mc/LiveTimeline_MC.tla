---------------------------- MODULE LiveTimeline_MC ----------------------------
EXTENDS LiveTimeline
\* small layouts: TS ticks per second with 1000 | ... : choose TS = 5 with a "second" of 1000 ms is too
\* long for one-state-per-ms; instead durations are given in ticks at TS = 1000 (1 tick = 1 ms) and
\* TS = 3000 (1 ms = 3 ticks) so that loops last a few ms.
Mk(d, v, ts, tsbdv, atov, snrv) ==
  LET l == PreSum(d, Len(d)) IN
  [N |-> Len(d), dur |-> d, vod0 |-> v, TS |-> ts, loopMS |-> (l * 1000) \div ts, tsbd |-> tsbdv, ato |-> atov, snr |-> snrv]
DurSeqs == {<<2>>, <<3, 3>>, <<2, 3>>, <<5, 2, 3>>, <<3, 3, 6>>}
LayoutsQuick == { s \in { Mk(d, v, 1000, 0, a, 0) : d \in DurSeqs, v \in {0, 1}, a \in {0, 1, 4, -1} } : Admissible(s) }
LayoutsThorough == { s \in { Mk(d, v, ts, 0, a, sn) : d \in DurSeqs \cup {<<6, 3>>, <<9, 3, 6>>, <<3>>}, v \in {0, 1, 3}, ts \in {1000, 3000},
                                                     a \in {0, 1, 2, 4, 7, -1}, sn \in {0} } : Admissible(s) }
=============================================================================

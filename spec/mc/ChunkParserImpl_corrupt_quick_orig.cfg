SPECIFICATION Spec
CONSTANTS
  Streams <- StreamsCorruptQuick
  Patterns <- PatAny
  MaxRead = 3
  GarbageSizes = {0, 9, 62}
  W = 64
  SizeCheck = FALSE
  EofFix = FALSE
INVARIANTS Partition
PROPERTIES Terminates
VIEW ViewNoSched

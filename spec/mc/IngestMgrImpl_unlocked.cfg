SPECIFICATION Spec
CONSTANTS
  Clients = {"c1", "c2"}
  Ids = {"s1", "s2"}
  MaxCalls = 3
  Locked = FALSE
  StepGuard = TRUE
  NilGuard = TRUE
  defaultInitValue = 0
INVARIANTS NoConflict

SPECIFICATION Spec
CONSTANTS
  Reps <- RepsQ
  Assets <- AssetsQ
  AssetOf <- AssetOfQ
  Adm <- AdmQ
  MaxLen = 4
  Gen = FALSE
INVARIANTS TypeOK InadmissibleNeverServed AbsentOnlyIfDamagedOrPartial WriteServesAndHeals DisabledInert PlainIsUsable
PROPERTIES SameAfterWrite

SPECIFICATION Spec
CONSTANTS
  U = 2
  Layouts <- LayoutsThorough2
  Ns = {1, 2, 3}
  PHs = {0}
  Rules = {"fix"}
  Minutes = 3
INVARIANTS RuleAccepted MonitorExact

SPECIFICATION Spec
CONSTANTS
  Addr = {"a", "b", "w"}
  WL = {"w"}
  Max = 2
  Interval = 3
  Times = {0, 1, 3, 4, 5, 8, 9}
  MaxLen = 5
INVARIANTS C20_Counter C20_Quota C20_White C20_Consistent C20_Window
PROPERTIES C20_ResetOnlyAfterInterval

SPECIFICATION GenSpec
CONSTANTS
  HandlersA = {"t1", "t2"}
  HandlersB = {"u1", "u2"}
  Fixed = FALSE
  Media = TRUE
  GenMode = "logic"
INVARIANT Emit

SPECIFICATION Spec
CONSTANTS
  Layouts <- LayoutsGap
  MaxLoops = 3
  FixEndIdx = TRUE
  FixPadding = FALSE
INVARIANTS Served StartOK CountOK FramesOK

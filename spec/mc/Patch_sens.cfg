SPECIFICATION Spec
CONSTANTS
  Classes = {"slist"}
  MaxS = 2
  MaxSLong = 3
  MaxIds = 1
  MaxPlain = 1
  Strategy = 2
INVARIANTS SabotageAccepted

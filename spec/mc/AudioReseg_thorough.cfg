SPECIFICATION Spec
CONSTANTS
  Layouts <- LayoutsThorough
  MaxLoops = 12
INVARIANTS Admissible_ Abut Late CountNonNeg FramesAgree LoopComplete Consecutive NoSkipWhenEnough

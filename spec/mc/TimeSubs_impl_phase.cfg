SPECIFICATION Spec
CONSTANTS
  Sec = 4
  SVals <- S0to12
  DVals <- D1to5
  CVals <- C1to4
  AstVals <- Ast0
  MaxS = 14
INVARIANTS ImplOrigWellFormed

SPECIFICATION Spec
CONSTANTS
  Modes = {"number", "time", "tlnr"}
  Assets = {"plain", "utcvod"}
  PairModes = {"number", "time"}
  PairAssets = {"thumbs"}
  SingleAll = TRUE
  BigTimeline = FALSE
INVARIANTS TypeOK InvAccept InvSensitive InvIndep Emit

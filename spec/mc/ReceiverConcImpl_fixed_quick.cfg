SPECIFICATION Spec
CONSTANTS
  HandlersA = {"t1", "t2", "t3"}
  HandlersB = {"u1"}
  Fixed = TRUE
  Media = TRUE
INVARIANTS OneChannel Registered MediaOK NoConflict StreamsComplete

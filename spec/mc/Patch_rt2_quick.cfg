SPECIFICATION Spec
CONSTANTS
  Classes = {"slist", "period", "aset", "nest", "attrs", "scheme", "plain"}
  MaxS = 3
  MaxSLong = 4
  MaxIds = 3
  MaxPlain = 2
  Strategy = 2
INVARIANTS RoundTrip

SPECIFICATION Spec
CONSTANTS
  HandlersA = {"t1", "t2", "t3"}
  HandlersB = {}
  Fixed = FALSE
  Media = TRUE
INVARIANT StreamsComplete

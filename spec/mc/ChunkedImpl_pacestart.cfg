SPECIFICATION Spec
CONSTANTS
  R = 4
  DurSeqs <- DurSeqsMid
  ChunkMS = {1, 2}
  Phases <- PhasesQuick
  Res = 8
  PaceOn = "start"
  defaultInitValue = 0
INVARIANTS NotEarly

SPECIFICATION Spec
CONSTANTS
  GlobCreds <- GCMain
  CredClasses = {"none","both","same"}
  StartNrs = {0,1}
  ETsbds = {0,4}
  DefTsbds = {90}
  ERaws = {0}
  DefRaws = {0}
  Ignores = {FALSE,TRUE}
  IgnTracks = {FALSE}
  Names = {"A","B"}
  MaxEntries = 2
  Prefixes = {"/upload"}
  Focus = {"A","B","U"}
  Flips = {FALSE}
  Rounds = "short"
  DSec = 2
INVARIANT InvEffFunction
INVARIANT InvIsolation
INVARIANT InvAuthCredsOnly
INVARIANT InvNoCross
INVARIANT InvRefusedNoTrace
INVARIANT InvOwnPlace
INVARIANT InvFormsAgree
INVARIANT InvHorizon
INVARIANT InvRawCount

SPECIFICATION Spec
CONSTANTS
  Configs <- Vod0Quick
  EmitGen = FALSE
  Seed = 0
INVARIANTS InvLookupNr InvLookupTime InvTimelineShape InvTimelineEdge InvListedServed
PROPERTIES ImplMonotone ImplForward

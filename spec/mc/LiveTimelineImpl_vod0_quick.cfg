SPECIFICATION Spec
CONSTANTS
  Configs <- Vod0Quick
  Fix = TRUE
  EmitGen = FALSE
  Seed = 0
INVARIANTS InvLookupNr InvLookupTimeAll InvTimelineShape InvTimelineEdgeAll InvListedServedAll
PROPERTIES ImplMonotone ImplForward ImplPtIdentifiesEdge

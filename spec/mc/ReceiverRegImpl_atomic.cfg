SPECIFICATION Spec
CONSTANTS
  Requests = {"r1", "r2", "r3"}
  Atomic = TRUE
INVARIANTS MediaOK Loaded MutexOK

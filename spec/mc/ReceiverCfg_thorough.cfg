SPECIFICATION Spec
CONSTANTS
  GlobCreds <- GCAll
  CredClasses = {"none","both","user","pswd","same"}
  StartNrs = {0,1}
  ETsbds = {0,4}
  DefTsbds = {90,6}
  ERaws = {0,2}
  DefRaws = {0,2}
  Ignores = {FALSE,TRUE}
  IgnTracks = {FALSE,TRUE}
  Names = {"A","B"}
  MaxEntries = 1
  Prefixes = {"/upload"}
  Focus = {"A","B","U"}
  Flips = {FALSE}
  Rounds = "short"
  DSec = 2
INVARIANT InvEffFunction
INVARIANT InvIsolation
INVARIANT InvAuthCredsOnly
INVARIANT InvNoCross
INVARIANT InvRefusedNoTrace
INVARIANT InvOwnPlace
INVARIANT InvFormsAgree
INVARIANT InvHorizon
INVARIANT InvRawCount

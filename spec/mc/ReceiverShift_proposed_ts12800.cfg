SPECIFICATION Spec
CONSTANTS
  Tm = 4
  Ta = 15
  DSecs = {2, 3}
  T0s <- T0Small
  Ks <- KsDef
  StartNrs = {0, 1}
  Shorts = {0, 1}
  NSeg = 5
  Arith = "proposed"
INVARIANT InvTune
INVARIANT InvKeep
INVARIANT InvGrid
INVARIANT InvTime
INVARIANT InvTimeExactShift
INVARIANT InvManifest

SPECIFICATION Spec
CONSTANTS
  Layouts <- LayoutsThorough
  PDs = {1, 2, 4, 6, 9}
  Wins = {0, 1, 3, 6, 13}
INVARIANTS InvTile InvCover InvPartitionTL InvExactlyOnce InvNothingNew InvPartitionNr InvRejectRule

SPECIFICATION Spec
CONSTANTS
  Kind = {"video", "audio"}
  Kid = {"k1", "k2"}
  Key = {"x1", "x2"}
  NSeg = 2
  Impl = "all"
INVARIANTS Sound Complete

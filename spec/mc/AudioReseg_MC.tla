---------------------------- MODULE AudioReseg_MC ----------------------------
EXTENDS AudioReseg
RECURSIVE GCD(_, _)
GCD(a, b) == IF b = 0 THEN a ELSE GCD(b, a % b)
CeilDiv(a, b) == (a + b - 1) \div b
MkSc(d, v, ts) == [N |-> Len(d), dur |-> d, vod0 |-> v, TS |-> ts, loopMS |-> 0, tsbd |-> 0, ato |-> 0, snr |-> 0]
\* audio side for video layout s: frame duration f, ratio TSa/TSv = ra/rv (TSa = ra*TS/rv), VoD audio frames = needed + da
MkAu(s, f, ra, rv, da) ==
  LET l  == L(s)
      m  == (rv * f) \div GCD(l * ra, rv * f)
      pa == (m * l * ra) \div rv
      need == CeilDiv(l * ra, rv * f)          \* ceil(L/F) with L in audio ticks
  IN [F |-> f, TSa |-> (ra * s.TS) \div rv, A |-> need + da, ra |-> ra, rv |-> rv, M |-> m, PA |-> pa]
Durs == {4, 5, 7}
Seqs1 == {<<a>> : a \in Durs}
Seqs2 == {<<a, b>> : a \in Durs, b \in Durs}
Seqs3 == {<<a, b, c>> : a \in Durs, b \in Durs, c \in Durs}
Ratios == {<<1, 1>>, <<2, 3>>, <<3, 2>>}
Mk(d, v, f, r, da) == LET s == MkSc(d, v, 30) IN <<s, MkAu(s, f, r[1], r[2], da)>>
LayoutsQuick == { x \in { Mk(d, v, f, r, da) : d \in Seqs1 \cup Seqs2, v \in {0, 3}, f \in {2, 3}, r \in Ratios, da \in {-1, 0, 1} } : x[2].A > 0 }
LayoutsThorough == { x \in { Mk(d, v, f, r, da) : d \in Seqs1 \cup Seqs2 \cup Seqs3, v \in {0, 1, 3}, f \in {2, 3, 5}, r \in Ratios \cup {<<8, 15>>},
                                                   da \in {-2, -1, 0, 1, 2} } : x[2].A > 0 }
=============================================================================

---------------------------- MODULE AudioResegImpl_MC ----------------------------
EXTENDS AudioResegImpl
RECURSIVE GCD(_, _)
GCD(a, b) == IF b = 0 THEN a ELSE GCD(b, a % b)
CeilDiv(a, b) == (a + b - 1) \div b
MkSc(d, v, ts) == [N |-> Len(d), dur |-> d, vod0 |-> v, TS |-> ts, loopMS |-> 0, tsbd |-> 0, ato |-> 0, snr |-> 0]
MkAu(s, f, ra, rv, da) ==
  LET l  == L(s)
      m  == (rv * f) \div GCD(l * ra, rv * f)
      pa == (m * l * ra) \div rv
      need == CeilDiv(l * ra, rv * f)
  IN [F |-> f, TSa |-> (ra * s.TS) \div rv, A |-> need + da, ra |-> ra, rv |-> rv, M |-> m, PA |-> pa]
Durs == {4, 5, 7}
Seqs1 == {<<a>> : a \in Durs}
Seqs2 == {<<a, b>> : a \in Durs, b \in Durs}
Seqs3 == {<<a, b, c>> : a \in Durs, b \in Durs, c \in Durs}
Ratios == {<<1, 1>>, <<2, 3>>, <<3, 2>>}
\* VoD audio segment grids of a frames: one segment, every split in two, (thorough) every split in three
Splits2(a) == {<<a>>} \cup {<<x, a - x>> : x \in 1..(a - 1)}
Splits3(a) == Splits2(a) \cup {<<x, y, a - x - y>> : x \in 1..(a - 2), y \in 1..(a - 2)}
\* every segment starts inside the VoD audio (position in the loop's grid < A): the other layouts (LayoutsGap) need commit 9a9f787
Covered(s, a) == \A kk \in 0..(a.M - 1), ii \in 0..(s.N - 1) :
   LET x == VOff(s, a, kk, ii) IN (UpF(a, x) - UpF(a, (x \div L(s)) * L(s))) \div a.F < a.A
Mk(d, v, f, r, da, three, cov) ==
   LET s == MkSc(d, v, 30)
       a == MkAu(s, f, r[1], r[2], da)
   IN IF a.A <= 0 \/ (cov /\ ~Covered(s, a)) THEN {} ELSE { <<s, a, g>> : g \in { q \in (IF three THEN Splits3(a.A) ELSE Splits2(a.A)) : \A x \in 1..Len(q) : q[x] > 0 } }
\* LayoutsQuick/Thorough/Vod0: every segment starts inside the VoD audio; LayoutsGap: VoD audio 1-2 frames short, segments of pure padding
LayoutsQuick == UNION { Mk(d, 0, f, r, da, FALSE, TRUE) : d \in Seqs1 \cup Seqs2, f \in {2, 3}, r \in Ratios, da \in {-1, 0, 1} }
LayoutsThorough == UNION ({ Mk(d, 0, f, r, da, TRUE, TRUE) : d \in Seqs1 \cup Seqs2, f \in {2, 3}, r \in Ratios, da \in {-1, 0, 1, 2} }
                          \cup { Mk(d, 0, f, r, da, FALSE, TRUE) : d \in Seqs3, f \in {2, 3}, r \in Ratios, da \in {-1, 0, 1} })
LayoutsGap == UNION { Mk(d, 0, f, r, da, FALSE, FALSE) : d \in Seqs1 \cup Seqs2, f \in {2, 3}, r \in Ratios, da \in {-2, -1} }
LayoutsVod0 == UNION { Mk(d, v, f, r, da, FALSE, TRUE) : d \in Seqs1 \cup Seqs2, v \in {1, 3, 6}, f \in {2, 3}, r \in Ratios, da \in {-1, 0, 1} }
=============================================================================

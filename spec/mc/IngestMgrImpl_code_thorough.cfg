SPECIFICATION Spec
CONSTANTS
  Clients = {"c1", "c2"}
  Ids = {"s1", "s2"}
  MaxCalls = 2
  MapsLocked = TRUE
  SessLocked = TRUE
  OldDelete = FALSE
  StepGuard = TRUE
  NilGuard = TRUE
  WithClose = FALSE
  defaultInitValue = 0
INVARIANTS NoConflict NoConflict_ingesters NoConflict_cancels NoConflict_state NoConflict_report NoNilCancel StepNotStuck LockDiscipline

SPECIFICATION Spec
CONSTANTS
  Tier = "thorough"
  Variant = "code"
INVARIANTS TypeOK InvComplete InvOkResult InvNoPartial InvIdent InvForce InvReported InvOnce InvSkip InvAccepted

SPECIFICATION Spec
CONSTANTS
  Configs <- ConfigsThorough
  EmitGen = FALSE
  Seed = 0
INVARIANTS InvLookupNr InvLookupTime InvTimelineShape InvTimelineEdge InvListedServed
PROPERTIES ImplMonotone ImplForward

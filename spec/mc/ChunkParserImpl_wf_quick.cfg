SPECIFICATION Spec
CONSTANTS
  Streams <- StreamsQuick
  Patterns <- PatAny
  MaxRead = 3
  GarbageSizes = {0, 9, 62}
  W = 64
  SizeCheck = TRUE
  EofFix = TRUE
INVARIANTS Partition ConcatOK CutsOK InitOK PromptOK NoErrOnWellFormed
PROPERTIES Terminates
VIEW ViewNoSched

SPECIFICATION Spec
CONSTANTS
  GlobCreds <- GCAll
  CredClasses = {"none","both","user","pswd","same"}
  StartNrs = {0,1}
  ETsbds = {0,6}
  DefTsbds = {90,4}
  ERaws = {0,2}
  DefRaws = {0,2}
  Ignores = {FALSE,TRUE}
  IgnTracks = {FALSE,TRUE}
  Names = {"A"}
  MaxEntries = 1
  Prefixes = {"/in/gest"}
  Focus = {"A","U"}
  Flips = {TRUE}
  Rounds = "full"
  DSec = 2
INVARIANT Emit

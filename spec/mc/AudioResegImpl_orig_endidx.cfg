SPECIFICATION Spec
CONSTANTS
  Layouts <- LayoutsQuick
  MaxLoops = 3
  FixEndIdx = FALSE
  FixPadding = FALSE
INVARIANTS Served StartOK CountOK FramesOK

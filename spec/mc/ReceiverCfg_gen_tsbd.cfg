SPECIFICATION Spec
CONSTANTS
  GlobCreds <- GCMain
  CredClasses = {"none","both","user"}
  StartNrs = {0,1}
  ETsbds = {0,4,6,8}
  DefTsbds = {90,4}
  ERaws = {0}
  DefRaws = {0}
  Ignores = {FALSE}
  IgnTracks = {FALSE}
  Names = {"A"}
  MaxEntries = 1
  Prefixes = {"/upload"}
  Focus = {"A","U"}
  Flips = {FALSE,TRUE}
  Rounds = "full"
  DSec = 2
INVARIANT Emit

SPECIFICATION Spec
CONSTANTS
  Tracks <- T3
  Master = "V1"
  InitOrder <- Order3
  ASOf <- AS3
  UploadSets <- U_t3m5_nm
  Windows = {8}
  InitWindow = 8
  Video <- Vid3
  NoBtrt <- T3
  RecordHist = FALSE
INVARIANTS SyncNoPanic Listed SyncBounded TypeOK
PROPERTIES NewestMono
CONSTRAINT FirstBeforeSecond

SPECIFICATION RSpec
CONSTANTS
  Tracks = {"V1", "V2", "A1"}
  Master = "V1"
  InitOrder <- NoTracks
  ASOf <- ASByName
  UploadSets <- NoUploads
  Windows = {}
  InitWindow = 8
  Video = {"V1", "V2"}
  NoBtrt = {"V1", "V2", "A1"}
  RecordHist = FALSE
  FixBufResize = TRUE
  FixCtrResize = TRUE
  FixDropBound = TRUE
  FixDeriveGuards = TRUE
  FixLateTrack = TRUE
  FixDeleteOnAccept = TRUE
  FixStoreOnAccept = TRUE
INVARIANTS Pred TypeOK

SPECIFICATION Spec
CONSTANTS
  Kind = {"video", "audio"}
  Kid = {"k1", "k2"}
  Key = {"x1", "x2"}
  NSeg = 2
  Impl = "hash_fixed_same_name"
INVARIANTS C10_Kid C10_Licence C10_Roundtrip C10_Scheme

SPECIFICATION Spec
CONSTANTS
  Tracks <- T2
  Master = "V1"
  InitOrder <- Order2
  ASOf <- AS2
  UploadSets <- U_abortdel
  Windows = {3}
  InitWindow = 8
  Video <- Vid2
  NoBtrt <- T2
  RecordHist = FALSE
  FixBufResize = TRUE
  FixCtrResize = TRUE
  FixDropBound = TRUE
  FixDeriveGuards = TRUE
  FixLateTrack = TRUE
  FixDeleteOnAccept = TRUE
  FixStoreOnAccept = TRUE
INVARIANTS Listed

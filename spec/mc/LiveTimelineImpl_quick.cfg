SPECIFICATION Spec
CONSTANTS
  Configs <- ConfigsQuick
  EmitGen = FALSE
  Seed = 0
INVARIANTS InvLookupNr InvLookupTime InvTimelineShape InvTimelineEdge InvListedServed
PROPERTIES ImplMonotone ImplForward

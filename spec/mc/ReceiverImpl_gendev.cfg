SPECIFICATION Spec
CONSTANTS
  Tracks <- T2
  Master = "V1"
  InitOrder <- Order2
  ASOf <- AS2
  UploadSets <- U_t2m4_dev
  Windows = {2, 3, 8}
  InitWindow = 8
  Video <- Vid2
  NoBtrt <- T2
  RecordHist = TRUE
  FixBufResize = TRUE
  FixCtrResize = TRUE
  FixDropBound = TRUE
  FixDeriveGuards = TRUE
  FixLateTrack = TRUE
  FixDeleteOnAccept = TRUE
  FixStoreOnAccept = TRUE
INVARIANTS Emit

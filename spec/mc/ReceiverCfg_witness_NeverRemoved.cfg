SPECIFICATION Spec
CONSTANTS
  GlobCreds <- GCMain
  CredClasses = {"none","both","user"}
  StartNrs = {0}
  ETsbds = {0}
  DefTsbds = {4}
  ERaws = {0,2}
  DefRaws = {0,2}
  Ignores = {FALSE}
  IgnTracks = {FALSE}
  Names = {"A"}
  MaxEntries = 1
  Prefixes = {"/upload"}
  Focus = {"A","U"}
  Flips = {FALSE}
  Rounds = "full"
  DSec = 2
INVARIANT NeverRemoved

SPECIFICATION Spec
CONSTANTS
  U = 1
  Layouts <- Grid1
  Ns = {1, 2, 3}
  PHs = {0}
  Rules = {"neither"}
  Minutes = 3
INVARIANTS NoMissing

SPECIFICATION Spec
CONSTANTS
  Configs <- GenQuick
  Fix = TRUE
  EmitGen = TRUE
  Seed = 1
INVARIANTS Emit

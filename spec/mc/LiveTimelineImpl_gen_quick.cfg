SPECIFICATION Spec
CONSTANTS
  Configs <- GenQuick
  Fix = FALSE
  EmitGen = TRUE
  Seed = 1
INVARIANTS Emit

SPECIFICATION Spec
CONSTANTS
  Configs <- GenQuick
  EmitGen = TRUE
  Seed = 1
INVARIANTS Emit

---------------------------- MODULE LiveTimelineImpl_MC ----------------------------
(* Configuration sets for LiveTimelineImpl.  All quantities are real units (ticks at TS per second, ms): the explorer works
   near time zero, so nothing is scaled.  Families:
     fine    TS 1000 / 3000 / 1500 / 500 (1 ms = 1, 3, 1.5, 0.5 ticks), segments of 1..6 ticks, tsbd 0, every ms sampled
     coarse  TS 4 (1 tick = 250 ms), segments of 1..5 ticks, tsbd 0..2 s, offsets on and off the 50 ms sampling grid
     third   TS 3 (segment ends at x.333 / x.667 ms), tsbd 0..1 s, every ms sampled *)
EXTENDS LiveTimelineImpl
Mk(d, v, ts, tsbdv, atov, snrv, astv, g, lp) ==
  LET l == ISum(d, Len(d)) IN
  [N |-> Len(d), dur |-> d, vod0 |-> v, TS |-> ts, loopMS |-> (l * 1000) \div ts, tsbd |-> tsbdv, ato |-> atov, snr |-> snrv,
   ast |-> astv, fix |-> TRUE, grain |-> g, loops |-> lp]
\* (vod0 < loop: the domain of the oracle's IdxOfStart)
Adm(S) == { s \in S : Admissible(Sc(s)) /\ s.vod0 < ISum(s.dur, s.N) }
SnrAst == {<<0, 0>>, <<1, 0>>, <<5, 1>>, <<0, 2>>}

\* ---- fine: every ms
FineDur1000 == {<<2>>, <<3, 3>>, <<2, 3>>, <<5, 2, 3>>, <<3, 3, 6>>, <<1, 4, 2, 3>>}
FineQuick == Adm({ Mk(d, 0, 1000, 0, a, x[1], x[2], 1, 2) : d \in {<<2>>, <<2, 3>>, <<5, 2, 3>>, <<1, 4, 2, 3>>}, a \in {0, 1, 4, 7, -1}, x \in {<<0, 0>>, <<5, 1>>} })
             \cup Adm({ Mk(d, 0, 3000, 0, a, 0, 0, 1, 2) : d \in {<<2, 4>>, <<4, 5>>}, a \in {0, 1, 2} })
             \cup Adm({ Mk(<<1, 2>>, 0, 500, 0, a, 1, 0, 1, 2) : a \in {0, 3} })
FineThorough == Adm({ Mk(d, 0, 1000, 0, a, x[1], x[2], 1, 3) : d \in FineDur1000, a \in {0, 1, 2, 4, 7, 11, -1}, x \in SnrAst })
             \cup Adm({ Mk(d, 0, 3000, 0, a, x[1], x[2], 1, 3) : d \in {<<3>>, <<2, 4>>, <<4, 5>>, <<1, 2>>, <<6, 3>>, <<9, 3, 6>>, <<2, 2, 1, 4>>}, a \in {0, 1, 2, 5, -1}, x \in {<<0, 0>>, <<5, 1>>} })
             \cup Adm({ Mk(d, 0, 1500, 0, a, x[1], x[2], 1, 3) : d \in {<<1, 2>>, <<2, 4>>, <<3, 3>>, <<2, 5, 2>>}, a \in {0, 1, 3}, x \in {<<0, 0>>, <<1, 2>>} })
             \cup Adm({ Mk(d, 0, 500, 0, a, x[1], x[2], 1, 3) : d \in {<<1, 2>>, <<2>>, <<1, 1, 3>>}, a \in {0, 1, 3, 5}, x \in {<<0, 0>>, <<1, 2>>} })

\* ---- coarse: 250 ms ticks, sampled on a 50 ms grid (+- 1 ms)
CoarseDur == {<<2>>, <<1, 3>>, <<4, 2, 2>>, <<3, 5>>, <<2, 2, 2, 2>>, <<1, 2, 3, 2>>}
CoarseQuick == Adm({ Mk(d, 0, 4, tb, a, 5, 1, 50, 2) : d \in {<<1, 3>>, <<4, 2, 2>>}, tb \in {0, 1, 2}, a \in {0, 100, 1300} })
               \cup Adm({ Mk(<<2, 2, 2, 2>>, 0, 4, 1, a, 0, 0, 50, 2) : a \in {0, 100} })
CoarseThorough == Adm({ Mk(d, 0, 4, tb, a, x[1], x[2], 50, 2) : d \in CoarseDur, tb \in {0, 1, 2}, a \in {0, 100, 250, 900, 1300, -1}, x \in {<<5, 1>>, <<1, 2>>} })
                  \cup Adm({ Mk(d, 0, 4, 3, a, 0, 0, 50, 3) : d \in {<<1, 3>>, <<3, 5>>}, a \in {0, 900} })

\* ---- third: TS = 3, every ms
ThirdQuick == Adm({ Mk(<<1, 2>>, 0, 30, 1, 20, 0, 0, 1, 2) })       \* (TS 30: 33.33 ms ticks)
ThirdThorough == Adm({ Mk(d, 0, 3, tb, a, x[1], x[2], 1, 2) : d \in {<<1, 2>>, <<2, 4>>}, tb \in {0, 1}, a \in {0, 200}, x \in {<<0, 0>>, <<1, 1>>} })
                 \cup ThirdQuick

\* sub-ms segment ends with an offset: publishTime rounded to the ms before the change (LiveTimelineImpl_cex_pt_subms.cfg)
SubMsSet == { s \in FineThorough : s.TS = 1500 /\ s.ato = 1 /\ s.ast = 0 }

ConfigsQuick == FineQuick \cup CoarseQuick \cup ThirdQuick
ConfigsThorough == FineThorough \cup CoarseThorough \cup ThirdThorough

\* ---- first decode time not 0 (before 27fa7f8 / 52d2ae2 the code deviated from the oracle here: *_cex_vod0_* with Fix = FALSE)
Vod0Quick == Adm({ Mk(d, v, 1000, 0, a, 0, x, 1, 2) : d \in {<<2, 3>>, <<5, 2, 3>>}, v \in {1, 3}, a \in {0, 1, 4}, x \in {0, 1} })
             \cup Adm({ Mk(d, v, 4, tb, a, 1, 0, 50, 2) : d \in {<<1, 3>>, <<4, 2, 2>>}, v \in {1, 2}, tb \in {0, 1}, a \in {0, 100} })
Vod0Thorough == Adm({ Mk(d, v, 1000, 0, a, x[1], x[2], 1, 3) : d \in FineDur1000, v \in {1, 3}, a \in {0, 1, 4, 7, -1}, x \in {<<0, 0>>, <<5, 1>>} })
             \cup Adm({ Mk(d, v, 4, tb, a, x[1], x[2], 50, 2) : d \in CoarseDur, v \in {1, 2}, tb \in {0, 1, 2}, a \in {0, 100, 1300}, x \in {<<0, 0>>, <<5, 1>>} })

\* ---- replayed into the real server (GEN lines)
GenQuick == { s \in FineQuick : s.ato \in {0, 4, -1} } \cup { s \in CoarseQuick : s.ato # 0 \/ s.tsbd = 1 }
            \cup { s \in Vod0Quick : s.ato \in {0, 100} /\ s.ast = 0 }
GenThorough == ConfigsQuick \cup Vod0Quick \cup { s \in FineThorough : s.ato \in {2, 11} /\ s.snr = 1 }
               \cup { s \in CoarseThorough : s.ato \in {250, -1} /\ s.snr = 1 /\ s.tsbd # 3 } \cup { s \in ThirdThorough : s.tsbd = 1 /\ s.ato = 200 }
=============================================================================

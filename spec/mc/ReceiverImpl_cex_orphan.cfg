SPECIFICATION Spec
CONSTANTS
  Tracks <- T2
  Master = "V1"
  InitOrder <- Order2
  ASOf <- AS2
  UploadSets <- U_t2m7
  Windows = {2}
  InitWindow = 8
  Video <- Vid2
  NoBtrt <- T2
  RecordHist = FALSE
  FixBufResize = TRUE
  FixCtrResize = TRUE
  FixDropBound = TRUE
  FixDeriveGuards = TRUE
  FixLateTrack = TRUE
  FixDeleteOnAccept = TRUE
  FixStoreOnAccept = TRUE
INVARIANTS BoundedFiles

SPECIFICATION Spec
CONSTANTS
  Tier = "quick"
  Variant = "code"
INVARIANTS TypeOK InvReported

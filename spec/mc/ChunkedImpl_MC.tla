---------------------------- MODULE ChunkedImpl_MC ----------------------------
(* Bounded instances of ChunkedImpl.  R = 4: a quarter of a millisecond per sub-tick.  Sample durations are
   chosen around and between millisecond multiples (3, 4, 5, 7 sub-ticks = 0.75, 1, 1.25, 1.75 ms) so that
   chunk ends fall on every sub-millisecond phase; chunk durations 1..3 ms give 1..6 chunks with and without a
   trailing partial chunk; Phases = every sub-millisecond phase of the segment start. *)
EXTENDS ChunkedImpl
DurSeqsQuick == {<<3, 3, 3>>, <<7, 3>>}
DurSeqsMid == {<<3, 3, 3>>, <<5, 5>>, <<4, 4, 4>>, <<7, 3>>}
DurSeqsThorough == {<<3, 3, 3, 3>>, <<5, 5, 5>>, <<4, 4, 4>>, <<7, 3, 7>>, <<3, 5, 4>>, <<9>>}
PhasesQuick == {5, 7}
PhasesThorough == 4..7
=============================================================================

SPECIFICATION Spec
CONSTANTS
  RouteSet = {"live", "vod", "patch", "rlivesim", "rchunked", "rdashvod", "rurlgen", "healthz", "version", "config", "assets", "vodlist", "index", "favicon", "urlgen", "static", "reqcount", "loglevel", "metrics", "api", "unknown"}
  V = {1, 2, 3, 4, 5, 6}
INVARIANTS TypeOK InvOneCT InvAccept InvSensitive InvHead InvRedirect InvAllow Emit

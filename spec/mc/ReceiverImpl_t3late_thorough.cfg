SPECIFICATION Spec
CONSTANTS
  Tracks <- T3
  Master = "V1"
  InitOrder <- Order3Late
  ASOf <- AS3
  UploadSets <- U_t3m5_nm
  Windows = {2, 8}
  InitWindow = 8
  Video <- Vid3
  NoBtrt <- T3
  RecordHist = FALSE
  FixBufResize = TRUE
  FixCtrResize = TRUE
  FixDropBound = TRUE
  FixDeriveGuards = TRUE
  FixLateTrack = TRUE
  FixDeleteOnAccept = TRUE
  FixStoreOnAccept = TRUE
INVARIANTS NoPanic Listed BoundedBuf TypeOK
PROPERTIES NewestMono

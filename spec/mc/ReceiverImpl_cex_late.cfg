SPECIFICATION Spec
CONSTANTS
  Tracks <- T3
  Master = "V1"
  InitOrder <- Order3Late
  ASOf <- AS3
  UploadSets <- U_t3m4
  Windows = {8}
  InitWindow = 8
  Video <- Vid3
  NoBtrt <- T3
  RecordHist = FALSE
  FixBufResize = FALSE
  FixCtrResize = FALSE
  FixDropBound = FALSE
  FixDeriveGuards = FALSE
  FixLateTrack = FALSE
  FixDeleteOnAccept = FALSE
  FixStoreOnAccept = FALSE
INVARIANTS Listed

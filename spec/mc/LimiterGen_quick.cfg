SPECIFICATION GenSpec
CONSTANTS
  Addr = {"a", "b", "w"}
  WL = {"w"}
  Max = 2
  Interval = 3
  Times = {0, 3, 4, 8}
  MaxLen = 99
  GenLen = 3
INVARIANT Emit

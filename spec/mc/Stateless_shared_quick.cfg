SPECIFICATION Spec
CONSTANTS
  Urls = {"a/x", "a/y", "b/x"}
  Times = {1, 2}
  Insts = {"long", "fresh"}
  MaxReq = 4
  Impl = "shared"
INVARIANTS Accepted
PROPERTIES MemoStable

SPECIFICATION GenSpec
CONSTANTS
  HandlersA = {"t1", "t2"}
  HandlersB = {}
  Fixed = FALSE
  Media = TRUE
  GenMode = "conflict"
INVARIANT EmitC

SPECIFICATION Spec
CONSTANTS
  SingleStls = {"nr", "tlt", "tlnr"}
  SingleAssets = {"plain"}
  PairStls = {"nr", "tlt"}
  PairAssets = {"thumbs"}
  HostVariants = {"plain", "https", "fwd", "cfg"}
  MixedBad = FALSE
INVARIANTS TypeOK InvRoundTrip InvRejected InvAccept InvFeedback InvSensitive Emit

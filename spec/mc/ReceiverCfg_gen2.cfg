SPECIFICATION Spec
CONSTANTS
  GlobCreds <- GCMain
  CredClasses = {"none","both","same"}
  StartNrs = {0,1}
  ETsbds = {0}
  DefTsbds = {90}
  ERaws = {0,2}
  DefRaws = {0}
  Ignores = {FALSE}
  IgnTracks = {FALSE}
  Names = {"A","B"}
  MaxEntries = 2
  Prefixes = {"/in/gest"}
  Focus = {"A","B"}
  Flips = {FALSE}
  Rounds = "full"
  DSec = 2
INVARIANT Emit

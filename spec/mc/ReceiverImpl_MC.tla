---------------------------- MODULE ReceiverImpl_MC ----------------------------
(* Bounded instances of the explorer model of the CMAF-ingest receiver (C17). *)
EXTENDS ReceiverImpl
T2 == {"V1", "A1"}
T3 == {"V1", "V2", "A1"}
Vid2 == {"V1"}
Vid3 == {"V1", "V2"}
Order2 == <<"V1", "A1">>
Order3 == <<"V1", "V2", "A1">>
Order3Late == <<"V1", "A1">>                 \* V2's init segment arrives late
AS3 == [t \in T3 |-> IF t = "A1" THEN 2 ELSE 1]     \* V1 and V2 share an AdaptationSet
AS2 == [t \in T2 |-> IF t = "A1" THEN 2 ELSE 1]

InOrder(m) == [j \in 1..m |-> j]
\* one transposition of neighbours (1,2,4,3: the late number is inserted inside the counter window)
Transp(m) == { [j \in 1..m |-> IF j = i THEN i + 1 ELSE IF j = i + 1 THEN i ELSE j] : i \in 1..(m - 1) }
\* one gap of g numbers before the k-th upload
Gap(m, g) == { [j \in 1..m |-> IF j < k THEN j ELSE j + g] : k \in 2..m }
\* one duplicate: the k-th number is sent twice
Dup(m) == { [j \in 1..(m + 1) |-> IF j <= k THEN j ELSE j - 1] : k \in 1..m }
Variants(m) == {InOrder(m)} \cup Transp(m) \cup Gap(m, 1) \cup Dup(m)
\* one aborted upload of the k-th number (kind 1: the body breaks inside the first fragment, 2: inside a later one),
\* followed by the retry in full ...
Ab(k, kind) == IF kind = 1 THEN -k ELSE -(1000 + k)
AbortRetry(m, ks) == { [j \in 1..(m + 1) |-> IF j < k THEN j ELSE IF j = k THEN Ab(k, kind) ELSE j - 1] : k \in ks, kind \in {1, 2} }
\* ... or never repeated
AbortOnly(m, ks) == { [j \in 1..m |-> IF j = k THEN Ab(k, kind) ELSE j] : k \in ks, kind \in {1, 2} }
\* all tracks in order
Plain(T, m) == { [t \in T |-> InOrder(m)] }
\* at most one track deviates from 1..m
OneDev(T, m) == Plain(T, m) \cup { [t \in T |-> IF t = d THEN v ELSE InOrder(m)] : d \in T, v \in Variants(m) \ {InOrder(m)} }
\* every track deviates independently
AnyDev(T, m) == [T -> Variants(m)]

\* the master uploads 1..m, at most one other track deviates
OneDevNM(T, m) == { f \in OneDev(T, m) : f["V1"] = InOrder(m) }
U_t2m4_nm == OneDevNM(T2, 4)
U_t3m5_nm == OneDevNM(T3, 5)
\* exactly one track has one aborted upload
OneAbort(T, m, vs) == { [t \in T |-> IF t = d THEN v ELSE InOrder(m)] : d \in T, v \in vs }
U_t2m4_abort == OneAbort(T2, 4, AbortRetry(4, 1..4) \cup AbortOnly(4, 1..4))
U_t2m4_abortq == OneAbort(T2, 4, AbortRetry(4, {3, 4}))
U_t3m4_abort == OneAbort(T3, 4, AbortRetry(4, 1..4) \cup AbortOnly(4, 1..4))
\* two refused uploads of V1 (bodies broken inside a later fragment) each make room by deleting an older segment of V1,
\* which is listed when A1 catches up (open finding: a refused upload deletes a stored segment)
U_abortdel == { [t \in T2 |-> IF t = "V1" THEN <<1, 2, 3, -1004, -1005>> ELSE <<1, 2, 3>>] }
U_t2m4 == Plain(T2, 4)
\* a track that is far ahead before the window is known leaves files nobody deletes (open finding: orphan files)
U_t2m7 == Plain(T2, 7)
U_t2m4_dev == OneDev(T2, 4)
U_t2m5_dev == OneDev(T2, 5)
U_t2m5_any == AnyDev(T2, 5)
U_t3m4 == Plain(T3, 4)
U_t3m4_dev == OneDev(T3, 4)
U_t3m5 == Plain(T3, 5)
U_t3m5_dev == OneDev(T3, 5)
\* a run that fills the counter window (8) and then jumps by >= the window (DESIGN A.7)
U_jump == { [t \in T2 |-> <<1, 2, 3, 4, 5, 6, 7, 8, 20>>] }
\* jumps of every size after runs of 3..7 numbers
JumpRun(r, g) == [j \in 1..(r + 1) |-> IF j <= r THEN j ELSE r + g]
U_jumps == { [t \in T2 |-> JumpRun(r, g)] : r \in 3..7, g \in 2..6 }
=============================================================================

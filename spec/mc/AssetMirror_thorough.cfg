SPECIFICATION Spec
CONSTANTS
  Tier = "thorough"
  Variant = "spec"
INVARIANTS TypeOK InvComplete InvOkResult InvNoPartial InvIdent InvForce InvReported InvOnce InvSkip InvAccepted Emit

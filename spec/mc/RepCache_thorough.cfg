SPECIFICATION Spec
CONSTANTS
  Reps <- RepsT
  Assets <- AssetsT
  AssetOf <- AssetOfT
  Adm <- AdmT
  MaxLen = 5
  Gen = FALSE
INVARIANTS TypeOK InadmissibleNeverServed AbsentOnlyIfDamagedOrPartial WriteServesAndHeals DisabledInert PlainIsUsable
PROPERTIES SameAfterWrite

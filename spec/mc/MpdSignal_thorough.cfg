SPECIFICATION Spec
CONSTANTS
  Modes = {"number", "time", "tlnr"}
  Assets = {"plain", "thumbs", "imsc1", "s8", "utcvod", "irr"}
  PairModes = {"number", "time", "tlnr"}
  PairAssets = {"plain", "thumbs", "imsc1", "s8", "utcvod"}
  SingleAll = TRUE
  BigTimeline = TRUE
INVARIANTS TypeOK InvAccept InvSensitive InvIndep Emit

SPECIFICATION Spec
CONSTANTS
  R = 4
  DurSeqs <- DurSeqsThorough
  ChunkMS = {1, 2, 3}
  Phases <- PhasesThorough
  Res = 8
  PaceOn = "end"
  defaultInitValue = 0
INVARIANTS NotEarly ObservedIsEarlier Split_OK

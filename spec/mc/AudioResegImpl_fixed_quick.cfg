SPECIFICATION Spec
CONSTANTS
  Layouts <- LayoutsQuick
  MaxLoops = 3
  FixEndIdx = TRUE
INVARIANTS Served StartOK CountOK FramesOK

SPECIFICATION Spec
CONSTANTS
  U = 1
  Layouts <- GridAlt1
  Ns = {1, 2, 3}
  PHs = {0, 37}
  Rules = {"L", "R", "both", "neither"}
  Minutes = 2
INVARIANTS MonitorExact AcceptsBothReadings ExactlyN AtOffsets

---------------------------- MODULE Periods_MC ----------------------------
EXTENDS Periods
\* TS ticks per second; durations in ticks. loopMS only has to make the record well-formed for LiveTimelineOps.
Mk(d, v, ts) == LET l == PreSum(d, Len(d)) IN
  [N |-> Len(d), dur |-> d, vod0 |-> v, TS |-> ts, loopMS |-> (l * 1000) \div ts, tsbd |-> 0, ato |-> 0, snr |-> 0]
\* loops of 2, 4 (| 4, not | 6), 3 and 6 (| 6, not | 4), 5 (neither); uniform and variable
DursQ == {<<2>>, <<2, 2>>, <<1, 3>>, <<3>>, <<2, 1, 3>>, <<5>>, <<1, 1, 2>>}
LayoutsQuick == { Mk(d, 0, 1) : d \in DursQ } \cup { Mk(<<4, 4>>, 0, 2), Mk(<<3>>, 0, 2), Mk(<<2, 6>>, 0, 2) }
LayoutsThorough == { Mk(d, v, 1) : d \in DursQ \cup {<<4>>, <<6>>, <<1>>, <<3, 1, 2, 2>>, <<7>>}, v \in {0, 1} }
                   \cup { Mk(d, v, 2) : d \in {<<4, 4>>, <<3>>, <<2, 6>>, <<1>>, <<5, 3>>, <<8>>}, v \in {0, 1} }
                   \cup { Mk(d, 0, 3) : d \in {<<6>>, <<2, 4>>, <<9, 3>>} }
\* only layouts on which Number mode would be refused: for the expected-counterexample job
LayoutsNoReject == { Mk(<<3>>, 0, 1), Mk(<<5>>, 0, 1) }
=============================================================================

SPECIFICATION Spec
CONSTANTS
  U = 1
  Layouts <- Small1
  Ns = {1, 2, 3}
  PHs = {0}
  Rules = {"impl"}
  Minutes = 3
INVARIANTS RuleAccepted MonitorExact

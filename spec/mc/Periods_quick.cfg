SPECIFICATION Spec
CONSTANTS
  Layouts <- LayoutsQuick
  PDs = {4, 6}
  Wins = {0, 3}
INVARIANTS InvTile InvCover InvPartitionTL InvExactlyOnce InvNothingNew InvPartitionNr InvRejectRule

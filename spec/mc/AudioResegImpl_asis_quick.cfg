SPECIFICATION Spec
CONSTANTS
  Layouts <- LayoutsQuick
  MaxLoops = 3
  FixEndIdx = FALSE
INVARIANTS Served StartOK CountOK FramesOK

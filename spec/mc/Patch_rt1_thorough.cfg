SPECIFICATION Spec
CONSTANTS
  Classes = {"slist", "period", "aset", "nest", "attrs", "scheme", "plain"}
  MaxS = 4
  MaxSLong = 5
  MaxIds = 3
  MaxPlain = 3
  Strategy = 1
INVARIANTS RoundTrip

SPECIFICATION Spec
CONSTANTS
  MaxCells = 4
  MKeys = {"port", "loglevel", "vodroot", "repdataroot", "writerepdata", "domains", "certpath", "keypath"}
INVARIANTS TypeOK InvPrecedence InvFixpoint InvRejectByValue
PROPERTIES StepIndependent StepMonotone StepShadowed

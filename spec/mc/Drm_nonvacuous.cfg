SPECIFICATION Spec
CONSTANTS
  Kind = {"video"}
  Kid = {"k1", "k2"}
  Key = {"x1", "x2"}
  NSeg = 1
  Impl = "livesim2"
INVARIANTS SomeRoundtrip

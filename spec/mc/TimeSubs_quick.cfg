SPECIFICATION Spec
CONSTANTS
  Sec = 4
  SVals <- S0to12
  DVals <- D1to5
  CVals <- C1to9
  AstVals <- Ast3
  MaxS = 14
INVARIANTS OnePerSecondB OnePerSecondA WellFormed Shape CoverA CoverB AstFree ReadingsAgree ImplOKSupported ImplWellFormed

SPECIFICATION Spec
CONSTANTS
  Configs <- Vod0Quick
  Fix = FALSE
  EmitGen = FALSE
  Seed = 0
INVARIANTS InvLookupTimeAll

SPECIFICATION Spec
CONSTANTS
  Configs <- Vod0Quick
  EmitGen = FALSE
  Seed = 0
INVARIANTS InvLookupTimeAll

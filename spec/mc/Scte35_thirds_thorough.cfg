SPECIFICATION Spec
CONSTANTS
  U = 3
  Layouts <- Grid3
  Ns = {1, 2, 3}
  PHs = {0, 20}
  Rules = {"L", "R", "both", "neither"}
  Minutes = 3
INVARIANTS MonitorExact AcceptsBothReadings ExactlyN AtOffsets

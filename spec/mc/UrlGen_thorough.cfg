SPECIFICATION Spec
CONSTANTS
  SingleStls = {"nr", "tlt", "tlnr"}
  SingleAssets = {"plain", "s8", "thumbs"}
  PairStls = {"nr", "tlt", "tlnr"}
  PairAssets = {"thumbs", "s8"}
  HostVariants = {"plain", "https", "fwd", "cfg"}
  MixedBad = TRUE
INVARIANTS TypeOK InvRoundTrip InvRejected InvAccept InvFeedback InvSensitive Emit

SPECIFICATION Spec
CONSTANTS
  R = 4
  DurSeqs <- DurSeqsMid
  ChunkMS = {1, 2}
  Phases <- PhasesQuick
  Res = 4
  PaceOn = "end"
  defaultInitValue = 0
INVARIANTS NotEarly

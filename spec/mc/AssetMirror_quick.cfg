SPECIFICATION Spec
CONSTANTS
  Tier = "quick"
  Variant = "spec"
INVARIANTS TypeOK InvComplete InvOkResult InvNoPartial InvIdent InvForce InvReported InvOnce InvSkip InvAccepted Emit

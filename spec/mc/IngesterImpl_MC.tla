---------------------------- MODULE IngesterImpl_MC ----------------------------
(* Bounded script / receiver-behaviour sets for the C16 explorer (cfg files cannot hold tuples). *)
EXTENDS IngesterImpl
OpsOf(S) == {<<"step", z>> : z \in S} \cup {<<"delete", z>> : z \in S}
StepsOf(S) == {<<"step", z>> : z \in S}
SeqsUpTo(S, n) == UNION {[1..k -> S] : k \in 0..n}
\* one sequential client, up to 3 / 4 calls: step / delete anywhere
Scripts1x3 == {[c \in Clients |-> sq] : sq \in SeqsUpTo(OpsOf(Sess), 3)}
Scripts1x4 == {[c \in Clients |-> sq] : sq \in SeqsUpTo(OpsOf(Sess), 4)}
\* two concurrent clients: c1 up to n1 calls, c2 up to n2 calls
Scripts2(n1, n2) == {[c \in Clients |-> IF c = "c1" THEN a ELSE b] :
                        a \in SeqsUpTo(OpsOf(Sess), n1), b \in SeqsUpTo(OpsOf(Sess), n2)}
Scripts2x31 == Scripts2(3, 1)
Scripts2x32 == Scripts2(3, 2)
Scripts2x21 == Scripts2(2, 1)
\* scripts under which every API call must return in the code as it is:
\* steps only, and not more of them than the session sends segments
StepsOnly(n) == {[c \in Clients |-> sq] : sq \in SeqsUpTo(StepsOf(Sess), n)}
SafeScripts == IF NSeg = 0 THEN StepsOnly(3)
               ELSE {sc \in StepsOnly(NSeg + Extra) :
                       \A z \in Sess : Cardinality({<<c, k>> \in Clients \X (1..(NSeg + Extra)) :
                                                      k \in DOMAIN sc[c] /\ sc[c][k][2] = z}) <= NSeg + Extra}
\* receiver: no error, or exactly one position (init = 0, first / second media) of one representation answered 5xx
NoErr == {{}}
OneErr == {{}} \cup {{<<z, r, k>>} : z \in Sess, r \in Reps, k \in 0..2}
\* two sessions (thorough): errors only in session 1, at the init or the first media request
OneErr1 == {{}} \cup {{<<1, r, k>>} : r \in Reps, k \in 0..1}
=============================================================================

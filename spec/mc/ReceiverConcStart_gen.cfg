SPECIFICATION GenSpec
CONSTANTS
  Uploaders = {"u1", "u2"}
  SplitRead = FALSE
INVARIANTS ViewConsistent NoLoss Emit

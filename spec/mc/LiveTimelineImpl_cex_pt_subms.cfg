SPECIFICATION Spec
CONSTANTS
  Configs <- SubMsSet
  Fix = FALSE
  EmitGen = FALSE
  Seed = 0
PROPERTIES ImplPtIdentifiesEdgeAll

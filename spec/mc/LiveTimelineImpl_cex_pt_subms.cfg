SPECIFICATION Spec
CONSTANTS
  Configs <- SubMsSet
  Fix = TRUE
  EmitGen = FALSE
  Seed = 0
PROPERTIES ImplPtIdentifiesEdgeAll

SPECIFICATION Spec
CONSTANTS
  Layouts <- LayoutsNoReject
  PDs = {4}
  Wins = {6}
INVARIANTS InvPartitionNrAlways

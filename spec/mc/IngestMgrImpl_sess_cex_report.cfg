SPECIFICATION Spec
CONSTANTS
  Clients = {"c1", "c2"}
  Ids = {"s1", "s2"}
  MaxCalls = 3
  MapsLocked = TRUE
  SessLocked = FALSE
  OldDelete = FALSE
  StepGuard = TRUE
  NilGuard = TRUE
  WithClose = FALSE
  defaultInitValue = 0
INVARIANTS NoConflict_report

SPECIFICATION Spec
CONSTANTS
  R = 4
  DurSeqs <- DurSeqsQuick
  ChunkMS = {1}
  Phases <- PhasesQuick
  Res = 8
  PaceOn = "end"
  defaultInitValue = 0
INVARIANTS NotEarly ObservedIsEarlier Split_OK

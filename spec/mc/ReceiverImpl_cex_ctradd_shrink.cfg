SPECIFICATION Spec
CONSTANTS
  Tracks <- T2
  Master = "V1"
  InitOrder <- Order2
  ASOf <- AS2
  UploadSets <- U_t2m4
  Windows = {2, 3}
  InitWindow = 8
  Video <- Vid2
  NoBtrt <- T2
  RecordHist = FALSE
  FixBufResize = FALSE
  FixCtrResize = FALSE
  FixDropBound = FALSE
  FixDeriveGuards = FALSE
  FixLateTrack = FALSE
  FixDeleteOnAccept = FALSE
  FixStoreOnAccept = FALSE
INVARIANTS NoPanicCtrAdd

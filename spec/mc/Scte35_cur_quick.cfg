SPECIFICATION Spec
CONSTANTS
  U = 1
  Layouts <- GridAlt1
  Ns = {1, 2, 3}
  PHs = {0}
  Rules = {"fix"}
  Minutes = 3
INVARIANTS RuleAccepted MonitorExact

SPECIFICATION Spec
CONSTANTS
  Urls = {"a/x", "a/y", "b/x", "b/y"}
  Times = {1, 2}
  Insts = {"long", "fresh", "cached"}
  MaxReq = 5
  Impl = "pure"
INVARIANTS Accepted
PROPERTIES MemoStable

SPECIFICATION Spec
CONSTANTS
  Configs <- CoarseQuick
  EmitGen = FALSE
  Seed = 0
INVARIANTS NeverClip

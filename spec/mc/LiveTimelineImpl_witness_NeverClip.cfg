SPECIFICATION Spec
CONSTANTS
  Configs <- CoarseQuick
  Fix = FALSE
  EmitGen = FALSE
  Seed = 0
INVARIANTS NeverClip

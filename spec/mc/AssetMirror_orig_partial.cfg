SPECIFICATION Spec
CONSTANTS
  Tier = "quick"
  Variant = "orig"
INVARIANTS TypeOK InvNoPartial

SPECIFICATION Spec
CONSTANTS
  Configs <- FineQuick
  Fix = FALSE
  EmitGen = FALSE
  Seed = 0
INVARIANTS NeverGone

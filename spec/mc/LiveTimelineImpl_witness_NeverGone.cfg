SPECIFICATION Spec
CONSTANTS
  Configs <- FineQuick
  EmitGen = FALSE
  Seed = 0
INVARIANTS NeverGone

SPECIFICATION Spec
CONSTANTS
  Configs <- FineQuick
  Fix = TRUE
  EmitGen = FALSE
  Seed = 0
INVARIANTS NeverGone

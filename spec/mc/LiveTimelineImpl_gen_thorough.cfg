SPECIFICATION Spec
CONSTANTS
  Configs <- GenThorough
  Fix = FALSE
  EmitGen = TRUE
  Seed = 1
INVARIANTS Emit

SPECIFICATION Spec
CONSTANTS
  Configs <- GenThorough
  EmitGen = TRUE
  Seed = 1
INVARIANTS Emit

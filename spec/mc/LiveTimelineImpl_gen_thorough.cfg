SPECIFICATION Spec
CONSTANTS
  Configs <- GenThorough
  Fix = TRUE
  EmitGen = TRUE
  Seed = 1
INVARIANTS Emit

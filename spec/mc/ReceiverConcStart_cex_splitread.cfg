SPECIFICATION Spec
CONSTANTS
  Uploaders = {"u1", "u2"}
  SplitRead = TRUE
INVARIANTS ViewConsistent NoLoss

SPECIFICATION Spec
CONSTANTS
  Sec = 4
  SVals <- SOnSec
  DVals <- D1to11
  CVals <- C5to9
  AstVals <- Ast0
  MaxS = 14
INVARIANTS ImplConforms

SPECIFICATION Spec
CONSTANTS
  Layouts <- LayoutsThorough
  MaxLoops = 6
  FixEndIdx = TRUE
  FixPadding = TRUE
INVARIANTS Served StartOK CountOK FramesOK

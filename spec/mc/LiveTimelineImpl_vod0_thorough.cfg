SPECIFICATION Spec
CONSTANTS
  Configs <- Vod0Thorough
  Fix = TRUE
  EmitGen = FALSE
  Seed = 0
INVARIANTS InvLookupNr InvLookupTimeAll InvTimelineShape InvTimelineEdgeAll InvListedServedAll
PROPERTIES ImplMonotone ImplForward ImplPtIdentifiesEdge

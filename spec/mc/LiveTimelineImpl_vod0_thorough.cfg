SPECIFICATION Spec
CONSTANTS
  Configs <- Vod0Thorough
  EmitGen = FALSE
  Seed = 0
INVARIANTS InvLookupNr InvLookupTime InvTimelineShape InvTimelineEdge InvListedServed
PROPERTIES ImplMonotone ImplForward

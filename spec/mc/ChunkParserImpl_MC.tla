---------------------------- MODULE ChunkParserImpl_MC ----------------------------
EXTENDS ChunkParserImpl
Types == {"moov", "moof", "mdat"}
TypesT == {"ftyp", "moov", "moof", "mdat"}
B(t, s) == [t |-> t, s |-> s, real |-> s]
\* all well-formed streams of 1..3 boxes
WF(types, sizes) == UNION { [1..n -> { B(t, s) : t \in types, s \in sizes }] : n \in 1..3 }
StreamsQuick == WF(Types, {8, 9})
StreamsThorough == WF(TypesT, {8, 9, 12})
\* corrupted: one box of a 2..3-box stream declares an impossible / wrong size
Corrupt(types, sizes, bad) ==
  { [s EXCEPT ![i].s = b] : s \in UNION { [1..n -> { B(t, z) : t \in types, z \in sizes }] : n \in 2..3 },
                             i \in 1..3, b \in bad } 
CorruptOK(S) == { s \in S : TRUE }
StreamsCorruptQuick == UNION { { [x EXCEPT ![i].s = b] : i \in 1..Len(x), b \in {0, 1, 7, 13, 63} } : x \in UNION { [1..n -> { B(t, z) : t \in {"moof", "mdat"}, z \in {8, 9} }] : n \in 1..2 } }
StreamsCorruptThorough == UNION { { [x EXCEPT ![i].s = b] : i \in 1..Len(x), b \in {0, 1, 7, 10, 13, 55, 63} } : x \in WF(Types, {8, 9, 12}) }
StreamsGenQuick == UNION { [1..n -> { B(t, s) : t \in Types, s \in {8, 9} }] : n \in 1..2 }
PatAny == {<<>>}
PatGen == {<<1>>, <<2, 3>>, <<5>>, <<8>>, <<64>>}
=============================================================================

SPECIFICATION GenSpec
CONSTANTS
  Addr = {"a", "b", "w"}
  WL = {"w"}
  Max = 2
  Interval = 3
  Times = {0, 1, 3, 4, 7, 8}
  MaxLen = 99
  GenLen = 4
INVARIANT Emit

SPECIFICATION Spec
CONSTANTS
  SingleClasses = {"empty", "zero", "neg1", "one", "typical", "huge", "nonnum", "float", "inf", "wrongsep", "brokenlist"}
  PairClasses = {"zero", "neg1", "huge"}
  PairTails = {"mpd", "anum"}
  PatchClasses = {"zero", "neg1", "huge", "nonnum", "typical"}
INVARIANTS TypeOK Sane Emit

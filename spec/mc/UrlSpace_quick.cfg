SPECIFICATION Spec
CONSTANTS
  SingleClasses = {"empty", "zero", "neg1", "one", "typical", "huge", "nonnum", "float", "inf", "wrongsep", "brokenlist", "tickedge"}
  PairClasses = {"zero", "neg1", "huge"}
  PairTails = {"mpd"}
  PatchClasses = {"zero", "neg1", "huge", "nonnum", "typical"}
  LLTails = {"mpd", "vnum", "anum", "vtime", "num_huge"}
  EarlyClasses = {"zero", "neg1", "one", "typical", "huge"}
  EarlyPairClasses = {"typical"}
  EarlyTails = {"mpd", "anum"}
  TripleClasses = {"zero", "neg1", "one", "typical", "huge"}
  TripleTails = {"mpd", "anum"}
  SeqMethods = {"PUT"}
INVARIANTS TypeOK Sane Emit

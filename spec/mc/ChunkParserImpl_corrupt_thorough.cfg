SPECIFICATION Spec
CONSTANTS
  Streams <- StreamsCorruptThorough
  Patterns <- PatAny
  MaxRead = 3
  GarbageSizes = {0, 9, 62}
  W = 64
  SizeCheck = TRUE
  EofFix = TRUE
INVARIANTS Partition
PROPERTIES Terminates
VIEW ViewNoSched

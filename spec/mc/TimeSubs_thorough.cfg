SPECIFICATION Spec
CONSTANTS
  Sec = 4
  SVals <- S0to25
  DVals <- D1to11
  CVals <- C1to14
  AstVals <- Ast3
  MaxS = 30
INVARIANTS OnePerSecondB OnePerSecondA WellFormed Shape CoverA CoverB AstFree ReadingsAgree ImplOKSupported ImplWellFormed

SPECIFICATION Spec
CONSTANTS
  Layouts <- LayoutsGap
  MaxLoops = 3
  FixEndIdx = TRUE
  FixPadding = TRUE
INVARIANTS Served StartOK CountOK FramesOK

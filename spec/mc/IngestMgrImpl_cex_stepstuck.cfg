SPECIFICATION Spec
CONSTANTS
  Clients = {"c1", "c2"}
  Ids = {"s1", "s2"}
  MaxCalls = 3
  Locked = TRUE
  StepGuard = FALSE
  NilGuard = TRUE
  defaultInitValue = 0
INVARIANTS StepNotStuck

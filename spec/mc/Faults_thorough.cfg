SPECIFICATION Spec
CONSTANTS
  Layouts <- LayoutsThorough
  Pats1 <- Pats1Thorough
  Pats2 <- Pats2Thorough
  Reps <- RepsDef
  Traffic <- TrafficThorough
  MaxSeg = 30
  MaxSec = 45
INVARIANTS IdxAgrees IdxCounts OnePerCycle TwoPatterns HitOrNormal TrafficTotal TrafficCyclic TrafficDurations TrafficOrder

SPECIFICATION Spec
CONSTANTS
  Reps <- RepsGen
  Assets <- AssetsGen
  AssetOf <- AssetOfGen
  Adm <- AdmGen
  MaxLen = 5
  Gen = TRUE
INVARIANTS Emit

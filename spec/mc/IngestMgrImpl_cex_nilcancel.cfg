SPECIFICATION Spec
CONSTANTS
  Clients = {"c1", "c2"}
  Ids = {"s1", "s2"}
  MaxCalls = 3
  Locked = TRUE
  StepGuard = TRUE
  NilGuard = FALSE
  defaultInitValue = 0
INVARIANTS NoNilCancel

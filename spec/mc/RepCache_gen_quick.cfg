SPECIFICATION Spec
CONSTANTS
  Reps <- RepsGen
  Assets <- AssetsGen
  AssetOf <- AssetOfGen
  Adm <- AdmGen
  MaxLen = 4
  Gen = TRUE
INVARIANTS Emit

SPECIFICATION Spec
CONSTANTS
  Reps <- RepsGen
  Assets <- AssetsGen
  AssetOf <- AssetOfGen
  Adm <- AdmGen
  MaxLen = 3
  Gen = TRUE
INVARIANTS Emit

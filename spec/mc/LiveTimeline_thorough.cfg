SPECIFICATION Spec
CONSTANTS
  Layouts <- LayoutsThorough
  MaxLoops = 4
INVARIANTS C01_Contiguous C01_StartIncreasing C04_AvailMonotoneInN C05_UniqueLast
PROPERTIES C04_Monotone C05_LastForward

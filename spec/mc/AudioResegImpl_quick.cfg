SPECIFICATION Spec
CONSTANTS
  Layouts <- LayoutsQuick
  MaxLoops = 3
  FixEndIdx = TRUE
  FixPadding = TRUE
INVARIANTS Served StartOK CountOK FramesOK

SPECIFICATION Spec
CONSTANTS
  Tier = "quick"
  Variant = "code"
INVARIANTS TypeOK InvComplete InvOkResult InvNoPartial InvIdent InvForce InvReported InvOnce InvSkip InvAccepted

SPECIFICATION Spec
CONSTANTS
  R = 4
  DurSeqs <- DurSeqsMid
  ChunkMS = {1, 2}
  Phases <- PhasesQuick
  Res = 0
  PaceOn = "end"
  defaultInitValue = 0
INVARIANTS NotEarly

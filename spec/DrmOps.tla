---------------------------- MODULE DrmOps ----------------------------
(* ORACLE for C10: "Advertised key ids, init segments, licences and ciphertext agree".
   Pure operators with explicit parameters, shared by the protocol model (Drm.tla) and the trace
   specification (trace/Drm_Trace.tla).  Key ids, keys (digests), schemes and sample digests are strings;
   NoVal ("-") stands for "nothing observed / not present".

   A licence is a set of records [kid, kdig, klen]: the keys a licence response (or, for CPIX packages whose
   licence servers are external, the CPIX document) delivers.  Media is compared through digests: a fragment
   is [n |-> number of samples, d |-> digest of (decode time, duration, size, flags, composition offset,
   payload) of its samples]; a segment is the sequence of its fragments (one for whole delivery, one per
   chunk for chunked delivery). *)
EXTENDS Integers, Sequences, FiniteSets

NoVal == "-"
Schemes == {"cenc", "cbcs"}

(* ---- uninterpreted cipher (model only): Dec(k, s, Enc(k2, s2, x)) = x  <=>  k = k2 /\ s = s2 ---- *)
Enc(k, s, x) == <<"enc", k, s, x>>
Dec(k, s, c) == IF c[2] = k /\ c[3] = s THEN c[4] ELSE <<"garbage">>

(* ---- C10.kid: the default_KID announced in the MPD (for the AdaptationSet of this kind) equals the key id
        in the served init segment's protection box (tenc.default_KID); both must be present ---- *)
KidAgree(kidMPD, kidInit) == kidInit # NoVal /\ kidMPD = kidInit

(* ---- C10.licence: the licence endpoint returns a key for that id ---- *)
LicenceKeys(lic, kid) == {r \in lic : r.kid = kid}
LicenceOK(status, lic, kid) == status = 200 /\ \E r \in LicenceKeys(lic, kid) : r.klen = 16

(* the key handed to the decryptor is the licence's key for the init segment's key id *)
KeyBound(lic, kidInit, kdig) == \E r \in LicenceKeys(lic, kidInit) : r.kdig = kdig

(* ---- C10.roundtrip: decrypting the served segment with that key and init segment yields exactly the clear
        segment served without DRM for the same URL and instant ---- *)
RoundtripOK(dec, clr) == dec = clr

(* ---- C10.scheme: the protection scheme of the served init segment is the one the DRM mode names ---- *)
SchemeOK(schm, req) == schm \in Schemes /\ schm = req

(* ---- C10.preenc: a DRM request on a pre-encrypted asset is refused rather than encrypting twice.
        The MPD (the entry point of a DRM session) must be refused; for init/media requests both readings are
        accepted: refused, or served byte-identical to the response without DRM (= not encrypted twice). ---- *)
PreEncRefused(what, status, same) == IF what = "mpd" THEN status # 200 ELSE (status # 200 \/ same)

(* ---- C10.cpix: for a configured CPIX package the key id / scheme / constant IV announced and served for a
        content type are those the CPIX document assigns to that content type ---- *)
CpixKidOK(exp, kid) == exp.kid # NoVal /\ kid = exp.kid
\* cbcs carries the IV as tenc.default_constant_IV; cenc carries per-sample IVs in senc (no constant IV)
CpixIvOK(exp, schm, iv) == schm = "cbcs" => iv = exp.iv

(* ---- the server-side relation that C10 demands (used by the model to state the equivalence) ---- *)
ServerAgreesOn(srv, req, k) ==
  /\ srv.mpdKid[k] = srv.initKid[k]
  /\ srv.lic[srv.initKid[k]] # NoVal
  /\ srv.segKey[k] = srv.lic[srv.initKid[k]]
  /\ srv.segSchm[k] = srv.initSchm[k]
  /\ srv.initSchm[k] = req
=============================================================================

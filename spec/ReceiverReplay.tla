---------------------------- MODULE ReceiverReplay ----------------------------
(* The explorer model (ReceiverImpl) run along GIVEN histories: file "hists.ndjson", one history per line
     {id, w (window at start), first: [track] (init segments uploaded first), order: [{t, n, a}]}   n = 0: init of a late track;
                                                              a: 0 in full, 1 / 2 aborted inside the first / a later fragment
   - the same lines the (R) driver replays against the real receiver.  For every history the model's outcome
   (panic and its site, published range, latestSeqNr, started, nrTracks, listedBad) is printed as one PRED line;
   the driver compares it with what the real code did (explorer fidelity - never a verdict).
   The histories are chained into one deterministic behaviour: k = history, j = next step. *)
EXTENDS ReceiverImpl
Hists == ndJsonDeserialize("hists.ndjson")
VARIABLES k, j
NoTracks == <<>>                 \* every init segment is an explicit step of the history
NoUploads == {}
ASByName == [t \in Tracks |-> IF t = "A1" THEN 2 ELSE 1]
rvars == <<vars, k, j>>

\* the model's encoding of an upload {t, n, a}: a = 0 in full, 1 aborted inside the first fragment, 2 inside a later one
Enc(u) == IF u.a = 0 THEN u.n ELSE IF u.a = 1 THEN -u.n ELSE -(AbortLate + u.n)
Proj(order, t) ==
  LET F[i \in 0..Len(order)] == IF i = 0 THEN <<>>
                                ELSE IF order[i].t = t /\ order[i].n # 0 THEN Append(F[i - 1], Enc(order[i])) ELSE F[i - 1]
  IN F[Len(order)]
Steps(hh) == [i \in 1..Len(hh.first) |-> [t |-> hh.first[i], n |-> 0]] \o hh.order
UplOf(hh) == [t \in Tracks |-> Proj(hh.order, t)]

RInit == /\ k = 1 /\ j = 1
         /\ upl = UplOf(Hists[1]) /\ sw = Hists[1].w
         /\ pos = [t \in Tracks |-> 0] /\ reg = <<>> /\ bufs = [t \in Tracks |-> NoBuf]
         /\ ctr = NewCtr(InitWindow) /\ started = FALSE /\ nrTracks = 0 /\ latest = 0
         /\ genWindow = InitWindow /\ masterDur = 0 /\ mpd = <<>> /\ mpdReps = {} /\ panic = FALSE /\ why = ""
         /\ files = [t \in Tracks |-> {}] /\ listedBad = FALSE /\ post = {} /\ hist = <<>>
Over == panic \/ j > Len(Steps(Hists[k]))
StepH == /\ ~Over
         /\ LET s == Steps(Hists[k])[j] IN IF s.n = 0 THEN Register(s.t) ELSE Process(s.t)
         /\ j' = j + 1 /\ k' = k
NextH == /\ Over /\ k < Len(Hists)
         /\ k' = k + 1 /\ j' = 1
         /\ upl' = UplOf(Hists[k + 1]) /\ sw' = Hists[k + 1].w
         /\ pos' = [t \in Tracks |-> 0] /\ reg' = <<>> /\ bufs' = [t \in Tracks |-> NoBuf]
         /\ ctr' = NewCtr(InitWindow) /\ started' = FALSE /\ nrTracks' = 0 /\ latest' = 0
         /\ genWindow' = InitWindow /\ masterDur' = 0 /\ mpd' = <<>> /\ mpdReps' = {} /\ panic' = FALSE /\ why' = ""
         /\ files' = [t \in Tracks |-> {}] /\ listedBad' = FALSE /\ post' = {} /\ hist' = <<>>
RSpec == RInit /\ [][StepH \/ NextH]_rvars

Pred == Over => PrintT("PRED" \o ToJson([id |-> Hists[k].id, panic |-> panic, why |-> why, mpd |-> mpd, latest |-> latest,
                                          started |-> started, nrTracks |-> nrTracks, listedBad |-> listedBad,
                                          boundedBuf |-> BoundedBuf, boundedFiles |-> BoundedFiles]))
=============================================================================

---------------------------- MODULE Periods ----------------------------
(* (M) for C06: model-checks that slicing the single-period presentation the way livesim2 does
   (splitPeriod / reduceS: a segment goes to the period whose [k*PD, (k+1)*PD) contains its start; Number mode:
   startNumber = k*PD*TS \div D, presentationTimeOffset = k*PD*TS) satisfies the oracle clauses of PeriodsOps at
   EVERY instant over two full alignments of period grid and loop (2 * lcm(PD, L)), for layouts whose loop
   divides PD and layouts whose loop does not, uniform and variable durations, several window depths.
   One state per tick; the single-period presentation is generated from the timeline oracle (LiveTimelineOps). *)
EXTENDS PeriodsOps, TLC
CONSTANTS Layouts,   \* set of scenario records (LiveTimelineOps)
          PDs,       \* period durations in seconds
          Wins       \* time-shift window depths in seconds
VARIABLES sc, pd, win, now          \* now in ticks since availabilityStartTime
vars == <<sc, pd, win, now>>

RECURSIVE Gcd(_, _)
Gcd(a, b) == IF b = 0 THEN a ELSE Gcd(b, a % b)
Lcm(a, b) == (a * b) \div Gcd(a, b)
Horizon(s, p) == 2 * Lcm(p * s.TS, L(s))

PT == pd * sc.TS                                   \* period duration in ticks
Lo == now - win * sc.TS                            \* window start (may be negative)
K0 == (IF Lo > 0 THEN Lo ELSE 0) \div PT           \* first / last generated period
K1 == now \div PT
B  == K0 * pd                                      \* base: start of the first period (s)
BT == B * sc.TS

\* ---- SegmentTimeline modes: explicit lists from the timeline oracle
AbsOf(s, a) == a.w * L(s) + a.r
AbsStart(s, n) == AbsOf(s, Start(s, n \div s.N, n % s.N))
NMax(s, t) == ((t \div L(s)) + 1) * s.N
AllSegs(s, t) == [n1 \in 1..NMax(s, t) |-> <<AbsStart(s, n1 - 1), Dur(s, (n1 - 1) % s.N), n1 - 1>>]
Single == SelectSeq(AllSegs(sc, now), LAMBDA x : x[1] + x[2] <= now /\ x[1] + x[2] > Lo)      \* available and in the window
ReduceS(list, a, b) == SelectSeq(list, LAMBDA x : x[1] >= a /\ x[1] < b)                       \* reduceS
Rel(list) == [j \in 1..Len(list) |-> <<list[j][1] - BT, list[j][2], list[j][3]>>]
PerTL == [j \in 1..(K1 - K0 + 1) |-> LET k == K0 + j - 1 IN
            [start |-> k * pd, pto |-> k * PT - BT, segs |-> Rel(ReduceS(Single, k * PT, (k + 1) * PT))]]

\* ---- Number mode (SegmentTemplate@duration): nominal duration D, expansion by the DASH rules
D == L(sc) \div sc.N
Accepted == PT % D = 0                             \* the acceptance rule (period duration multiple of the segment duration)
NrList(t0, sn, first, cnt) == [j1 \in 1..cnt |-> <<t0 + (first + j1 - 1) * D, D, sn + first + j1 - 1>>]
InWin(x) == x[1] + x[2] <= now /\ x[1] + x[2] > Lo
SingleNr == SelectSeq(NrList(0, 0, 0, (now \div D) + 1), InWin)
PerNr == [j \in 1..(K1 - K0 + 1) |-> LET k   == K0 + j - 1
                                         sn  == (k * PT) \div D                  \* startNumber of period k
                                         cnt == IF k < K1 THEN (PT + D - 1) \div D ELSE ((now - k * PT) \div D) + 1
                                     IN [start |-> k * pd, pto |-> k * PT - BT,
                                         segs |-> Rel(SelectSeq(NrList(k * PT, sn, 0, cnt), InWin))]]

Init == sc \in Layouts /\ pd \in PDs /\ win \in Wins /\ now = 0
Tick == now < Horizon(sc, pd) /\ now' = now + 1 /\ UNCHANGED <<sc, pd, win>>
Spec == Init /\ [][Tick]_vars

Zeros(n) == [j \in 1..n |-> 0]
Starts(per) == [j \in 1..Len(per) |-> per[j].start]
\* C06.tile and coverage of [window start, now]
InvTile  == TileOK(Starts(PerTL), Zeros(Len(PerTL)), pd, 0) /\ CoverOK(now - BT)
InvCover == K0 * PT <= (IF Lo > 0 THEN Lo ELSE 0) /\ now < (K1 + 1) * PT
\* C06.partition holds for the sliced timeline at every instant, whatever the alignment of loop and period grid
InvPartitionTL == PartitionBad(B, sc.TS, pd, Rel(Single), PerTL) = {}
\* exactly-once, stated directly on segment numbers (independent of Matches)
InvExactlyOnce == \A j \in 1..Len(Single) : Single[j][1] >= BT =>
                     Cardinality({ p \in 1..Len(PerTL) : \E i \in 1..Len(PerTL[p].segs) : PerTL[p].segs[i][3] = Single[j][3] }) = 1
InvNothingNew == \A p \in 1..Len(PerTL) : \A i \in 1..Len(PerTL[p].segs) :
                     \E j \in 1..Len(Single) : Rel(Single)[j] = PerTL[p].segs[i]
\* Number mode: correct exactly under the acceptance rule ...
InvPartitionNr == Accepted => PartitionBad(B, sc.TS, pd, Rel(SingleNr), PerNr) = {}
\* ... and NOT without it (checked as an expected counterexample: why "not a multiple => rejected" is part of the property)
InvPartitionNrAlways == PartitionBad(B, sc.TS, pd, Rel(SingleNr), PerNr) = {}
\* the oracle's reject rule agrees with Accepted on uniform layouts (header sanity of MustReject)
InvRejectRule == (UniformSc(sc) /\ 3600 % pd = 0) =>
                     (MustReject(sc, <<(sc.dur[1] * 1000) \div sc.TS>>, 3600 \div pd) <=> ~Accepted)
=============================================================================

---------------------------- MODULE Limiter ----------------------------
(* Oracle for C20: the per-address request limiter as a sequential machine.
   One action, Inc(a, t): the linearization point of IPRequestLimiter.Inc
   (the critical section under its mutex).  Times are integers (ms). *)
EXTENDS Integers, Sequences, FiniteSets, TLC, LimiterOps

CONSTANTS Addr,      \* set of client addresses
          WL,        \* subset of Addr inside a white-listed block
          Max,       \* quota per interval
          Interval,  \* length of the limiting interval
          Times,     \* candidate request instants (model checking only)
          MaxLen     \* bound on the number of requests (model checking only)

VARIABLES resetTime, \* start of the current interval
          cnt,       \* [Addr -> Nat] requests counted in the current interval
          hist       \* results of the current interval, in order: [a, t, nr, ok]
vars == <<resetTime, cnt, hist>>

(* ---- the pure transition function, shared with the trace specification ---- *)
NextCnt(c, a, reset) == IF reset THEN [x \in DOMAIN c |-> IF x = a THEN 1 ELSE 0]
                                 ELSE [c EXCEPT ![a] = @ + 1]

Init == /\ resetTime = 0
        /\ cnt = [a \in Addr |-> 0]
        /\ hist = <<>>

Inc(a, t) ==
  LET reset == MustReset(resetTime, t, Interval)
      c2    == NextCnt(cnt, a, reset)
      res   == [a |-> a, t |-> t, nr |-> c2[a], ok |-> Passes(c2[a], Max, a \in WL)]
  IN /\ cnt' = c2
     /\ resetTime' = IF reset THEN t ELSE resetTime
     /\ hist' = IF reset THEN <<res>> ELSE Append(hist, res)

Next == /\ Len(hist) < MaxLen
        /\ \E a \in Addr, t \in Times : Inc(a, t)
Spec == Init /\ [][Next]_vars

(* ---- the property, stated on the history of one interval ---- *)
Of(a) == SelectSeq(hist, LAMBDA r : r.a = a)
\* the values reported for an address within an interval are 1..k, each exactly once, in order
C20_Counter == \A a \in Addr : \A i \in 1..Len(Of(a)) : Of(a)[i].nr = i
\* exactly the first Max requests of a non-white-listed address pass
C20_Quota   == \A a \in Addr \ WL : \A i \in 1..Len(Of(a)) : Of(a)[i].ok <=> i <= Max
C20_White   == \A a \in WL : \A i \in 1..Len(Of(a)) : Of(a)[i].ok
\* counters agree with the history
C20_Consistent == \A a \in Addr : cnt[a] = Len(Of(a))
\* counters restart only when the interval has elapsed
C20_ResetOnlyAfterInterval ==
  [][resetTime' # resetTime => \E a \in Addr, t \in Times : t - resetTime > Interval /\ resetTime' = t]_vars
\* every request in the history lies within Interval of the reset time (or is older: `now` may lag)
C20_Window == \A i \in 1..Len(hist) : hist[i].t - resetTime <= Interval
=============================================================================

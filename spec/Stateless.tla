---------------------------- MODULE Stateless ----------------------------
(* Model-checking module for the C07 oracle (StatelessOps): three abstract servers are run against
   the oracle over ALL request histories of bounded length on ALL instances (instances are
   independent copies of the server state, as a fresh / long-running / cache-loaded process):

     Impl = "pure"     the answer is F[url, t]                      -> oracle accepts every history
     Impl = "shared"   a handler leaves a mark in a structure that is shared between requests of one
                       instance (the parsed MPD, the init protect data ...) and a later answer
                       for a url of the same asset depends on the mark   -> oracle must reject
     Impl = "cache"    answers are cached under a key that lacks part of the configuration (the
                       url is cached per asset, not per url)             -> oracle must reject

   Accepted is the invariant "no response so far contradicted the memo".  For "shared" and "cache"
   TLC must find a counterexample (sensitivity of the oracle: `expect="violation"` in checks/c07.py);
   the counterexample histories (same key asked twice with a different request in between; same
   key asked on two instances with different pasts) are the phases of the driver. *)
EXTENDS Integers, Sequences, FiniteSets, TLC, StatelessOps
CONSTANTS Urls,      \* request URLs (strings); AssetOf groups them two by two
          Times,     \* instants
          Insts,     \* server instances
          MaxReq,    \* bound of the history
          Impl       \* "pure" | "shared" | "cache"

AssetOf(u) == IF u \in {"a/x", "a/y"} THEN "a" ELSE "b"
Key(u, t) == <<u, t>>                 \* the model uses pairs; the trace uses the string url@t
F(u, t) == <<"F", u, t>>              \* the pure function: one distinct digest per key

VARIABLES memo,      \* oracle state
          ok,        \* FALSE once a response contradicted the memo
          mark,      \* [Insts -> [assets -> last url served]]  (shared mutable structure / cache)
          n
vars == <<memo, ok, mark, n>>
Assets == {AssetOf(u) : u \in Urls}

Init == /\ memo = EmptyMemo /\ ok = TRUE /\ n = 0
        /\ mark = [i \in Insts |-> [a \in Assets |-> "none"]]

Answer(i, u, t) ==
   CASE Impl = "pure"   -> F(u, t)
     [] Impl = "shared" -> <<"F", u, t, mark[i][AssetOf(u)]>>     \* depends on what was served before
     [] Impl = "cache"  -> IF mark[i][AssetOf(u)] = "none" THEN F(u, t)
                           ELSE F(mark[i][AssetOf(u)], t)          \* hit under the too coarse key

Request(i, u, t) ==
   LET d == Answer(i, u, t) IN
   /\ n < MaxReq
   /\ ok' = (ok /\ Functional(memo, Key(u, t), d))
   /\ memo' = Learn(memo, Key(u, t), d)
   /\ mark' = [mark EXCEPT ![i][AssetOf(u)] = IF Impl = "cache" /\ @ # "none" THEN @ ELSE u]
   /\ n' = n + 1

Next == \/ \E i \in Insts, u \in Urls, t \in Times : Request(i, u, t)
        \/ (n = MaxReq /\ UNCHANGED vars)
Spec == Init /\ [][Next]_vars

Accepted == ok
\* the memo never changes an entry (the oracle itself is monotone)
MemoStable == [][\A k \in DOMAIN memo : k \in DOMAIN memo' /\ memo'[k] = memo[k]]_vars
=============================================================================

--------------------------- MODULE ReceiverCfgOps ---------------------------
(* X06 - ORACLE of the extra specification "the CMAF-ingest receiver applies its configuration per channel:
   authentication, per-channel settings, raw-segment capture, URL forms and stream matching"
   (cmd/cmaf-ingest-receiver/app: config.go, run.go, receiver.go, channelmgr.go, channel.go, stream.go).

   PROPERTY TEXT (what the check is held to; written from the usage text and the flag help of run.go, the comments
   of config.go / channel.go / receiver.go and the tests TestBasicAuth, TestMatchMPD, TestMatchStream,
   TestReceivingMediaLiveInput - never stronger):

   The receiver "receives streams of CMAF ingest segments sent to prefix/* and stores them at storage/*".  "The name
   structures should be one of  prefix/channel/Streams(track.cmf?)  and  prefix/channel/track/segmentID.cmf?  (.cmfv,
   .cmfa, .cmft, .cmfm).  In the first case the name is repeated for all segments of the track, in the second case the
   name is changed for each segment.  In both cases the names and paths of the generated files will be
   storage/channel/track/init.cmf?  and  storage/channel/track/sequenceNr.cmf?"; the original init segment is kept as
   init_org.cmf? (receiver.go); a channel name may have several path components (TestMatchStream).  "MPDs can also be
   received, but will just be stored as storage/channel/received.mpd.  DELETE requests are accepted, but not used,
   since there is a build in max buffer time resulting in a maximum number of segments stored.  The time is reflected
   in the timeShiftBufferDepth in the MPD."  PUT and POST are routed to the same handler (run.go).
   "There are some configuration on channel level that can be set in a config file depending on channel name:
   timeShiftBufferDepthS (default 90 s; flag -tsbd: "Default timeShiftBufferDepth in seconds"), startNr ("the start
   number for the first segment", default 0; receiver.go: at start the outgoing number is incomingSeqNr - startNr),
   authUser and authPassword: "If set, all requests must have this user and password (basic auth)"", and
   receiveNrRawSegments (flag -recRawNr: "Default number of raw segments to receive and store (turns off all
   parsing)").  config.go: "If DefaultUsr or DefaultPswd is set, it will be used as default for all channels, meaning
   that no password less channels are allowed.  Drop [ignore] means that a channel will be dropped and not processed";
   a representation with "ignore" "should be ignored".  TestBasicAuth: a channel with only authUser is opened by
   (user, ""), a wrong password is answered 401.

   CLAUSES
   X06.auth.refuse     a request to channel c that does not carry c's effective user AND password (HTTP basic
                       authentication) is answered 401 - every request: segments in both URL forms, MPDs, PUT and POST;
                       credentials of another channel or the global defaults do not open a channel with its own ones.
   X06.auth.challenge  "basic auth" is the HTTP Basic scheme (RFC 7617 / RFC 9110 15.5.2): a 401 carries a
                       WWW-Authenticate: Basic challenge (clients such as ffmpeg only send credentials after it).
   X06.auth.notrace    a refused request is not processed: nothing is created, changed or removed on disk.
   X06.auth.nostate    ... and no channel is instantiated for it (observable: `chan_created` hook; each channel owns a
                       goroutine and an MPD for the life of the process).
   X06.auth.serve      a request with the right credentials (or to a channel without credentials, whatever it sends)
                       is not answered 401.
   X06.store.init      an accepted init segment is answered 200 and creates storage/c/t/init.ext and init_org.ext
                       (init_org byte-identical to the upload).
   X06.startnr.name    an accepted media segment with incoming number n is answered 200 and stored as
                       storage/c/t/(n - startNr(c)).ext with its sample payload untouched (senders of the check number
                       their segments consistently with time, so nothing is shifted after tune-in either).
   X06.store.place     whatever a request to channel c changes lies in storage/c/ (an MPD upload: exactly
                       storage/c/received.mpd); nothing appears outside the storage root.
   X06.mpd.stored      an accepted MPD upload (PUT/POST prefix/c/<any>.mpd) is answered 200 and storage/c/received.mpd
                       holds the body.
   X06.mpd.written     "A DASH MPD with $Number$ is generated for each channel and stored as storage/channel/manifest.mpd ...
                       once two video segments of the same duration have been received, a SegmentTimelineNr MPD is
                       generated": after two accepted video segments manifest.mpd exists, after three complete rounds of
                       all tracks manifest_timeline_nr.mpd exists (their content is X02 / C17's subject).
   X06.tsbd.mpd        manifest.mpd and manifest_timeline_nr.mpd of c announce timeShiftBufferDepth = tsbd(c).
   X06.tsbd.keep       a media file is only removed when it lies completely before the time shift buffer of the newest
                       upload of its track: removed number <= newest - tsbd/D.
   X06.tsbd.bound      "a maximum number of segments stored": after tsbd/D + 4 or more segments of a track the number
                       of stored media files of the track is at most tsbd/D + 3 (the code keeps tsbd/D + 2).
   X06.tsbd.timeline   the SegmentTimeline MPD lists at most tsbd/D + 3 segments per track and, once the check has
                       uploaded tsbd/D + 4 complete rounds, at least tsbd/D of them.
   X06.raw.store       receiveNrRawSegments(c) = N > 0: each of the first N uploads of a track is stored as ONE new file
                       in storage/c/t/ that is byte-identical to the upload; no parsing: no init.cmf?, no numbered
                       files, no MPD (file names are not documented and not judged).
   X06.raw.limit       ... and later uploads store nothing (the status is not judged; bodies of the check are >= 4096
                       bytes there: the code treats shorter ones as init segments).
   X06.ignore          requests to an ignored channel / for an ignored representation are answered 200 and store nothing.
   X06.url.bad         URLs outside prefix/*, names that are not one of the forms (other extension, .../Segment(n), one
                       path component) and methods other than PUT/POST/DELETE are answered 4xx and change nothing.
   X06.delete          DELETE changes nothing and is answered 2xx (401 accepted without credentials).
   X06.cfg.function    the behaviour of channel c is a function of its effective settings alone: the same requests sent
                       to a receiver configured with only c's entry, every setting written out (reference run "cfg"),
                       are answered and stored identically (covers: defaults where the entry is silent, unknown
                       channels, order and presence of other entries = isolation).
   X06.url.forms       ... and identically when every upload uses the other URL form and the other of PUT/POST
                       (reference run "forms").
   X06.store.inside    at the end of a run every file lies inside the storage root.

   READINGS ACCEPTED (rule 1)
   * effective credentials: per field (entry value, else the default of that field - channelmgr.go) or per pair
     (the entry's pair if it sets anything, else the default pair): where the readings disagree about a request, 401
     and not-401 are both accepted and the reference run "cfg" is not compared;
   * requests that are not authorised to an ignored channel: 200 or 401; DELETE without credentials: 2xx or 401;
   * a name with two components (prefix/track/segment.cmf?, no channel): refused or stored below storage/ - only
     X06.store.place / X06.store.inside are demanded; MPD uploads to ignored channels are not generated;
   * raw capture: status of uploads beyond N, names of raw files, uploads < 4096 bytes beyond N are not judged.   *)
EXTENDS Integers, Sequences, FiniteSets

Range(s) == {s[i] : i \in DOMAIN s}

(* ---------------------------------------------------------------- configuration -> effective settings
   cfg   = [prefix, defUser, defPswd : STRING, defTsbd, defRaw : Nat,
            chans : Seq([name, user, pswd : STRING, startNr, tsbd, raw : Nat (0 = not set), ignore : BOOLEAN,
                         ignTracks : Seq(STRING)])]                                                              *)
HasEntry(cfg, ch) == \E i \in DOMAIN cfg.chans : cfg.chans[i].name = ch
NoEntry(ch) == [name |-> ch, user |-> "", pswd |-> "", startNr |-> 0, tsbd |-> 0, raw |-> 0, ignore |-> FALSE, ignTracks |-> <<>>]
\* the first entry with the name (names are unique in the configurations of the check)
Entry(cfg, ch) == IF HasEntry(cfg, ch)
                  THEN cfg.chans[CHOOSE i \in DOMAIN cfg.chans : cfg.chans[i].name = ch /\ \A j \in 1..(i-1) : cfg.chans[j].name # ch]
                  ELSE NoEntry(ch)

FieldCreds(cfg, e) == <<IF e.user # "" THEN e.user ELSE cfg.defUser, IF e.pswd # "" THEN e.pswd ELSE cfg.defPswd>>
PairCreds(cfg, e)  == IF e.user # "" \/ e.pswd # "" THEN <<e.user, e.pswd>> ELSE <<cfg.defUser, cfg.defPswd>>
CredReadings(cfg, ch) == {FieldCreds(cfg, Entry(cfg, ch)), PairCreds(cfg, Entry(cfg, ch))}
Needs(p) == p[1] # "" \/ p[2] # ""

\* effective settings of channel ch: a function of (defaults, entry)
Eff(cfg, ch) == LET e == Entry(cfg, ch) IN
   [startNr |-> e.startNr,
    tsbd |-> IF e.tsbd # 0 THEN e.tsbd ELSE cfg.defTsbd,
    raw |-> IF e.raw # 0 THEN e.raw ELSE cfg.defRaw,
    ignore |-> e.ignore, ignTracks |-> Range(e.ignTracks), creds |-> CredReadings(cfg, ch)]

\* the configuration of the reference run "cfg": only ch's entry, every setting written out, program defaults
Solo(cfg, ch) == LET f == Eff(cfg, ch) p == FieldCreds(cfg, Entry(cfg, ch)) IN
   [prefix |-> cfg.prefix, defUser |-> "", defPswd |-> "", defTsbd |-> 90, defRaw |-> 0,
    chans |-> <<[name |-> ch, user |-> p[1], pswd |-> p[2], startNr |-> f.startNr, tsbd |-> f.tsbd, raw |-> f.raw,
                 ignore |-> f.ignore, ignTracks |-> Entry(cfg, ch).ignTracks]>>]

(* ---------------------------------------------------------------- requests
   rq = [ch, kind ("init" | "media" | "mpd" | "none"), track, ext, nin (incoming number, -1), form ("seg" | "streams" |
         "mpd" | "noprefix" | "badext" | "segment_n" | "onecomp" | "dotdot" | "nochan"), m (method), hasCred, user, pswd,
         big (body >= 4096 bytes)]                                                                                 *)
Passes(p, rq) == ~Needs(p) \/ (rq.hasCred /\ rq.user = p[1] /\ rq.pswd = p[2])
\* X06.auth.*: "yes" / "no" when every reading agrees, else "either".  Depends on the request only through its credentials.
Authorised(cfg, rq) == LET R == CredReadings(cfg, rq.ch) IN
   IF \A p \in R : Passes(p, rq) THEN "yes" ELSE IF \A p \in R : ~Passes(p, rq) THEN "no" ELSE "either"

GoodForms == {"seg", "streams", "mpd"}
UploadMethods == {"PUT", "POST"}
\* which clause family judges the request
Class(cfg, rq) ==
   LET f == Eff(cfg, rq.ch) a == Authorised(cfg, rq) IN
   IF rq.form \in {"noprefix", "badext", "segment_n", "onecomp"} THEN "bad"
   ELSE IF rq.form \in {"dotdot", "nochan"} THEN "open"
   ELSE IF rq.m = "DELETE" THEN "delete"
   ELSE IF rq.m \notin UploadMethods THEN "bad"
   ELSE IF a = "either" THEN "open"
   ELSE IF rq.kind = "mpd" THEN (IF a = "no" THEN "unauth" ELSE "mpd")
   ELSE IF f.ignore \/ (rq.track \in f.ignTracks /\ a = "yes") THEN "ignored"
   ELSE IF a = "no" THEN "unauth"
   ELSE IF f.raw > 0 THEN "raw"
   ELSE "parse"

\* ExpectedStore: the files (track, name-stem or number) an accepted parsed upload must create in storage/ch/
ExpInitNames(rq) == {"init" \o rq.ext, "init_org" \o rq.ext}
ExpMediaNr(cfg, rq) == rq.nin - Eff(cfg, rq.ch).startNr
\* the stored place does not depend on the URL form or the method
ExpectedStore(cfg, rq) ==
   CASE Class(cfg, rq) = "parse" /\ rq.kind = "init"  -> [ch |-> rq.ch, track |-> rq.track, names |-> ExpInitNames(rq), nr |-> -1]
     [] Class(cfg, rq) = "parse" /\ rq.kind = "media" -> [ch |-> rq.ch, track |-> rq.track, names |-> {}, nr |-> ExpMediaNr(cfg, rq)]
     [] Class(cfg, rq) = "mpd"                         -> [ch |-> rq.ch, track |-> "", names |-> {"received.mpd"}, nr |-> -1]
     [] OTHER                                          -> [ch |-> rq.ch, track |-> "", names |-> {}, nr |-> -1]

(* ---------------------------------------------------------------- time shift buffer (D = segment duration in s) *)
Horizon(tsbd, D) == tsbd \div D                     \* whole segments inside the buffer
MayRemove(m, newest, tsbd, D) == m <= newest - Horizon(tsbd, D)          \* X06.tsbd.keep
MaxStored(tsbd, D) == Horizon(tsbd, D) + 3                                \* X06.tsbd.bound
LongRun(n, tsbd, D) == n >= Horizon(tsbd, D) + 4

Is2xx(s) == s >= 200 /\ s <= 299
Is4xx(s) == s >= 400 /\ s <= 499
=============================================================================

---------------------------- MODULE UrlSpaceOps ----------------------------
(* ORACLE of property C08 ("no request can crash a handler or make it spin").

   An abstract request is a record
     [srv, ep, method, parts, ctx, asset, tail, query, body]
   srv    server instance/configuration: "plain" | "drm" (DRM config loaded) | "limit" (request limiter on)
          | "rcv" (CMAF-ingest receiver) | "rcvraw" (receiver in raw mode with file server)
   ep     endpoint family: "livesim2" | "patch" | "urlgen_create" | "urlgen_mpds" | "urlgen_drms" | "misc"
          | "laurl" | "api" | "rcv" | "rcvseq" (a SEQUENCE of uploads on one receiver channel: tail = sequence shape,
          body = class of the malformed init segment in it, query = channel kind shifted | unshifted; the outcome is
          the first panic / timeout / process death of any step, else the status of the last step)
   parts  sequence of [k |-> key, c |-> value class]: the URL parameters under test (0, 1 or 2)
   ctx    sequence of [k, c]: parameters (always class "typical") that the tail shape needs to be meaningful
          (TailCtx below); the driver puts them in front of `parts`
   asset  "known" | "unknown" | "none"
   tail   shape of the rest of the path (livesim2: see LiveTails; other endpoints: path shape)
   query  query-string class / Content-Length class / id class; for /livesim2 also the INSTANT class of the request:
          "now_ok" (long after the start), "t_start" (exactly at availabilityStartTime), "t_first" (inside the first
          segment duration after the start), "t_early" (2-3 segment durations after the start, first status-code cycle)
   body   body shape

   Allowed(r) is the SET OF OUTCOME CLASSES the property text permits for r.  Outcome classes:
     "s2xx" "s3xx" "s404" "s4xx" (4xx other than 404) "s5xx"  - a response with that status
     "sodd"    - a status outside 200..599
     "panic"   - the handler died of a runtime error / explicit panic (recovered by the router's Recoverer)
     "fatal"   - the process died (panic in a goroutine started by the handler, runtime fatal error)
     "timeout" - the handler did not return within the bound
   Property text only (properties.jsonl C08):
     * never panic / fatal / timeout                                            (all requests)
     * unknown assets and segments give 404
     * malformed or out-of-range URL parameters give a 4xx (with a message)
   Where the text is open, every reading is accepted (e.g. boundary values such as snr_-1 or a huge start_
   are only required not to crash or hang; a 404 is demanded for an unknown asset only when no other
   parameter could legitimately be rejected first).                                                        *)
EXTENDS Integers, Sequences, FiniteSets

IntKeys   == {"start", "ast", "stop", "startrel", "stoprel", "dur", "init", "tsbd", "mup", "periods", "xlink", "etp",
              "etpDuration", "peroff", "scte35", "snr", "ltgt", "spd", "timesubsdur", "timesubsreg", "patch"}
FloatKeys == {"timeoffset", "chunkdur", "ato"}
FlagKeys  == {"tfdt", "cont", "insertad", "continuous", "segtimeline", "segtimelinenr", "sidx", "segtimelineloss"}
ListKeys  == {"utc", "timesubsstpp", "timesubswvtt", "statuscode", "traffic", "annexI", "drm", "eccp"}
OtherKeys == {"modulo", "zzz"}          \* "modulo": documented as not implemented; "zzz": a key livesim2 does not know
Keys      == IntKeys \cup FloatKeys \cup FlagKeys \cup ListKeys \cup OtherKeys

\* "tickedge": boundary values derived from the asset of the request - its segment duration exactly and off by half a
\* tick / one tick of the addressed track's timescale / 1 ms (float keys: seconds with 7 decimals; integer keys: ms +-1)
Classes == {"empty", "zero", "neg1", "one", "typical", "huge", "nonnum", "float", "inf", "wrongsep", "brokenlist", "tickedge"}

\* tail shapes of /livesim2 requests on a known asset
MediaTails == {"vnum", "anum", "vnum_lt", "anum_lt", "num_huge", "num_ovf", "vtime", "atime", "bu_in", "bu_out",
               "subs_media", "subs_unk_lang", "wvtt_media"}
LiveTails  == {"mpd", "init", "unk_rep", "bad_seg", "unk_ext", "subs_init"} \cup MediaTails

Part(k, c) == [k |-> k, c |-> c]

\* parameters a tail shape needs (the driver's tailCtx must agree; checked on every trace line: C08.meta.ctx)
TailCtx(ep, tail) ==
   IF ep = "patch" THEN <<Part("patch", "typical")>>
   ELSE IF ep # "livesim2" THEN <<>>
   ELSE IF tail \in {"vnum_lt", "anum_lt"} THEN <<Part("snr", "typical")>>
   ELSE IF tail \in {"vtime", "atime"} THEN <<Part("segtimeline", "typical")>>
   ELSE IF tail \in {"bu_in", "bu_out"} THEN <<Part("traffic", "typical")>>
   ELSE IF tail \in {"subs_init", "subs_media", "subs_unk_lang"} THEN <<Part("timesubsstpp", "typical")>>
   ELSE IF tail = "wvtt_media" THEN <<Part("timesubswvtt", "typical")>>
   ELSE <<>>

SeqSet(s) == {s[i] : i \in DOMAIN s}
PartKeys(parts) == {parts[i].k : i \in DOMAIN parts}
\* context actually used: a context parameter is dropped when the request sets that key itself
CtxOf(ep, tail, parts) == SelectSeq(TailCtx(ep, tail), LAMBDA p : p.k \notin PartKeys(parts))

Params(r) == SeqSet(r.ctx) \cup SeqSet(r.parts)
HasP(r, k, cs) == \E p \in Params(r) : p.k = k /\ p.c \in cs

IsLiveGet(r) == r.ep = "livesim2" /\ r.method \in {"GET", "HEAD"}

-----------------------------------------------------------------------------
(* C08.4xx_on_malformed: where "malformed or out of range" is unambiguous *)
NonNumeric == {"nonnum", "inf", "wrongsep", "brokenlist"}

MalformedAlways(p) ==
   \/ p.k \in IntKeys /\ p.c \in NonNumeric                         \* non-numeric text where an integer is required
   \/ p.k \in FloatKeys /\ p.c \in {"nonnum", "wrongsep", "brokenlist"}   \* ... where a number is required ("inf" parses)
   \/ p.k = "tsbd" /\ p.c \in {"neg1", "huge"}                      \* documented range 0..48h
   \/ p.k = "mup" /\ p.c \in {"zero", "neg1"}                       \* must be > 0
   \/ p.k = "timesubsreg" /\ p.c \in {"neg1", "huge"}               \* 0 or 1
   \/ p.k = "scte35" /\ p.c \in {"zero", "neg1", "huge"}            \* 1, 2 or 3
   \/ p.k = "statuscode" /\ p.c \in {"zero", "neg1", "nonnum", "inf"}  \* cycle > 0, rsq >= 0, code in 400..599, numbers

\* counts / divisors: demanded only on the requests that use the parameter (lenient reading for the others)
MalformedFor(r, p) ==
   /\ r.asset = "known"
   /\ \/ p.k = "periods" /\ p.c \in {"zero", "neg1"} /\ r.tail = "mpd"
      \/ p.k = "timesubsdur" /\ p.c \in {"zero", "neg1"} /\ r.tail \in {"subs_media", "wvtt_media"}
      \/ p.k = "traffic" /\ p.c \in {"zero", "neg1", "nonnum", "brokenlist"} /\ r.tail \in {"bu_in", "bu_out"}

\* bu<k> beyond the configured patterns
BuOutOfRange(r) == r.asset = "known" /\ r.tail = "bu_out" /\ HasP(r, "traffic", {"typical"})

Must4xx(r) ==
   /\ IsLiveGet(r)
   /\ \/ \E p \in Params(r) : MalformedAlways(p) \/ MalformedFor(r, p)
      \/ BuOutOfRange(r)

-----------------------------------------------------------------------------
(* C08.404_unknown: unknown asset / representation / segment name, and nothing else to object to *)
Benign(r) ==
   /\ \A p \in Params(r) : p.c = "typical" /\ p.k \notin {"modulo", "continuous", "zzz"}
   /\ ~(HasP(r, "segtimeline", Classes) /\ HasP(r, "segtimelinenr", Classes))
   /\ r.query \in {"now_ok", "now_none", "nowdate_ok", "none", "t_start", "t_first", "t_early"}

Must404(r) ==
   \/ /\ IsLiveGet(r) /\ Benign(r)
      /\ \/ r.asset = "unknown"
         \/ r.asset = "known" /\ r.tail \in {"unk_rep", "bad_seg"}
   \/ r.ep = "misc" /\ r.tail = "vod_file" /\ r.asset = "unknown" /\ r.method \in {"GET", "HEAD"}

-----------------------------------------------------------------------------
(* Waits by design: in chunked low-latency mode (chunkdur_) a media request for a segment that is being produced is
   answered as the chunks become available in real time (at most one segment duration); such a request may
   legitimately outlast the wall-time bound. A request for a segment FAR in the future (tails num_huge, num_ovf) is
   not such a wait: sleeping until that segment exists (years) is not a deliberate response. (The traffic states
   s/h, also waits by design, are never generated.)                                                      *)
MayWait(r) == IsLiveGet(r) /\ r.tail \in (MediaTails \ {"num_huge", "num_ovf"}) /\ HasP(r, "chunkdur", Classes)

NonCrash == {"s2xx", "s3xx", "s404", "s4xx", "s5xx"}

Allowed(r) ==
   IF Must4xx(r) THEN {"s4xx", "s404"}
   ELSE IF Must404(r) THEN {"s404"}
   ELSE IF MayWait(r) THEN NonCrash \cup {"timeout"}
   ELSE NonCrash

OutClass(kind, status) ==
   IF kind # "status" THEN kind
   ELSE IF status = 404 THEN "s404"
   ELSE IF status \in 200..299 THEN "s2xx"
   ELSE IF status \in 300..399 THEN "s3xx"
   ELSE IF status \in 400..499 THEN "s4xx"
   ELSE IF status \in 500..599 THEN "s5xx"
   ELSE "sodd"

\* sanity of the oracle itself (checked by TLC on every generated request)
OracleSane(r) ==
   /\ Allowed(r) # {}
   /\ Allowed(r) \subseteq NonCrash \cup {"timeout"}
   /\ ("timeout" \in Allowed(r)) => MayWait(r)
   /\ Must4xx(r) => Allowed(r) \subseteq {"s4xx", "s404"}
   /\ (Must404(r) /\ ~Must4xx(r)) => Allowed(r) = {"s404"}
=============================================================================

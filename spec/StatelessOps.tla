---------------------------- MODULE StatelessOps ----------------------------
(* ORACLE for C07: "livesim2 responses are a pure function of (URL, time) and race-free".

   A response is abstracted to a DIGEST (string: status | content type | hash of the body) and a
   request to a KEY (string: URL "@" wall-clock instant).  The oracle does not know WHAT the right
   answer is (that is the business of C01..C06, C09..C13); it only demands that there IS one answer
   per key: every response that any server instance gives at any point of any history, sequentially
   or concurrently with other requests, carries the digest that the first response for that key
   carried.  Because equality is symmetric and transitive, "equal to the first one seen" is the same
   as "all equal" and the order in which the recorder lists the events is irrelevant.

   memo \in [RequestKey -|-> Digest] is the only state.                                            *)
EXTENDS TLC

EmptyMemo == <<>>

Known(memo, key) == key \in DOMAIN memo

\* C07.functional: a response for a key that was answered before carries the same digest
Functional(memo, key, dig) == Known(memo, key) => memo[key] = dig

\* the oracle's transition: remember the first digest of a key, never change it afterwards
Learn(memo, key, dig) == IF Known(memo, key) THEN memo ELSE (key :> dig) @@ memo

\* C07.norace: a data-race report of the Go race detector or a runtime "concurrent map" fatal error is
\* an event kind for which the oracle has NO action; RaceFree is the (constant) judgement of such an event.
RaceFree(kind) == kind \notin {"race", "fatal"}
=============================================================================

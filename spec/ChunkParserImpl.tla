---------------------------- MODULE ChunkParserImpl ----------------------------
(* Explorer for C18: pkg/chunkparser.Parse + readUntil as written, one action per Read call,
   header decode and body completion.  Positions are byte offsets relative to buf[0];
   base = offset of buf[0] in the stream (cd.Start in the code).  Byte contents are not
   modelled: a header read at a real box start yields that box's declared (size, type); at
   any other offset it yields garbage (GarbageSize, "junk").
   SizeCheck = TRUE models the parser rejecting size < 8 and 32-bit wrap with an error
   (the code after the fix), FALSE the original code (size 0 => cycle without a Read).
   EofFix = TRUE models readUntil returning nil when the target was reached together with EOF. *)
EXTENDS Integers, Sequences, FiniteSets, TLC, Json, ChunkParserOps
CONSTANTS Streams,      \* set of sequences of [t |-> type, s |-> declared size, real |-> bytes in stream]
          MaxRead,      \* the reader returns 1..MaxRead bytes per call (capped by request and by what is left)
          Patterns,     \* set of read-size sequences; <<>> = nondeterministic reader
          GarbageSizes, \* sizes seen at offsets that are not box starts
          W,            \* modulus of the 32-bit offset arithmetic (small in the model)
          SizeCheck, EofFix

VARIABLES st,          \* the chosen stream
          trunc,       \* bytes delivered before EOF
          eofJoined,   \* the Read returning the last byte also returns EOF
          pat, pi,     \* read pattern and position in it
          pc, target, contentEnd, nextBoxStart, mdatEnd, base, isInit, out, atEof, err, sched
vars == <<st, trunc, eofJoined, pat, pi, pc, target, contentEnd, nextBoxStart, mdatEnd, base, isInit, out, atEof, err, sched>>

RECURSIVE RealStart(_, _)
RealStart(s, i) == IF i = 1 THEN 0 ELSE RealStart(s, i - 1) + s[i - 1].real
Total(s) == RealStart(s, Len(s) + 1)
HdrAt(s, p, g) == IF \E i \in 1..Len(s) : RealStart(s, i) = p
                  THEN LET i == CHOOSE i \in 1..Len(s) : RealStart(s, i) = p IN [size |-> s[i].s, type |-> s[i].t]
                  ELSE [size |-> g, type |-> "junk"]
Left == trunc - (base + contentEnd)          \* bytes the reader can still deliver
WellFormed(s) == \A i \in 1..Len(s) : s[i].s = s[i].real /\ s[i].s >= 8
\* what an independent walk of the delivered bytes sees (the trace header's `boxes`)
Walk(s) == [i \in 1..Len(s) |-> [t |-> s[i].t, s |-> s[i].s]]
Visible(s, n) == LET k == Cardinality({i \in 1..Len(s) : RealStart(s, i) + 8 <= n}) IN SubSeq(Walk(s), 1, k)

Init == /\ st \in Streams /\ trunc \in 0..Total(st) /\ eofJoined \in BOOLEAN /\ pat \in Patterns /\ pi = 1
        /\ pc = "hdr" /\ target = 8 /\ contentEnd = 0 /\ nextBoxStart = 0 /\ mdatEnd = 0
        /\ base = 0 /\ isInit = FALSE /\ out = <<>> /\ atEof = FALSE /\ err = FALSE /\ sched = <<>>

Callback(len) == out' = Append(out, [start |-> base, len |-> len, init |-> isInit])

\* one Read call inside readUntil(target); returns n bytes and possibly EOF
Read(phase) ==
  /\ pc = phase /\ contentEnd < target /\ ~atEof
  /\ IF Left = 0
     THEN /\ atEof' = TRUE /\ UNCHANGED <<contentEnd, pi>> /\ sched' = Append(sched, 0)
     ELSE \E n \in (IF pat = <<>> THEN 1..MaxRead ELSE {pat[pi]}) :
            LET m == IF n > target - contentEnd THEN target - contentEnd ELSE n
                k == IF m > Left THEN Left ELSE m IN
            /\ contentEnd' = contentEnd + k
            /\ atEof' = (eofJoined /\ k = Left)
            /\ pi' = IF pat = <<>> THEN pi ELSE (pi % Len(pat)) + 1
            /\ sched' = Append(sched, k)
  /\ UNCHANGED <<st, trunc, eofJoined, pat, pc, target, nextBoxStart, mdatEnd, base, isInit, out, err>>

\* readUntil returned: with the original code EOF together with the last requested byte is an EOF return
ReachedOK == contentEnd >= target /\ (EofFix \/ ~atEof)

\* top of loop: readUntil(nextBoxStart+8) finished or hit EOF
HdrDone ==
  /\ pc = "hdr" /\ (contentEnd >= target \/ atEof)
  /\ IF ~ReachedOK
     THEN \* EOF: deliver what is there and stop
          /\ IF contentEnd > 0 THEN Callback(contentEnd) ELSE UNCHANGED out
          /\ pc' = "done" /\ UNCHANGED <<target, nextBoxStart, mdatEnd, isInit, contentEnd, base, err>>
     ELSE \E g \in GarbageSizes :
          LET h == HdrAt(st, base + nextBoxStart, g) IN
          IF SizeCheck /\ (h.size < 8 \/ nextBoxStart + h.size >= W)
          THEN /\ pc' = "done" /\ err' = TRUE
               /\ UNCHANGED <<target, nextBoxStart, mdatEnd, isInit, contentEnd, base, out>>
          ELSE /\ nextBoxStart' = (nextBoxStart + h.size) % W
               /\ isInit' = (isInit \/ h.type = "moov")
               /\ mdatEnd' = IF h.type = "mdat" THEN (nextBoxStart + h.size) % W ELSE mdatEnd
               /\ target' = (nextBoxStart + h.size) % W
               /\ pc' = "body" /\ UNCHANGED <<contentEnd, base, out, err>>
  /\ UNCHANGED <<st, trunc, eofJoined, pat, pi, atEof, sched>>

BodyDone ==
  /\ pc = "body" /\ (contentEnd >= target \/ atEof)
  /\ LET eof == atEof /\ ~(EofFix /\ contentEnd >= target) IN
     IF mdatEnd = contentEnd /\ mdatEnd > 0
     THEN /\ Callback(mdatEnd)
          /\ base' = base + mdatEnd /\ contentEnd' = 0 /\ nextBoxStart' = (nextBoxStart - mdatEnd) % W /\ mdatEnd' = 0
          /\ IF eof THEN pc' = "done" /\ target' = target
                    ELSE pc' = "hdr" /\ target' = ((nextBoxStart - mdatEnd) % W) + 8
     ELSE IF eof
          THEN /\ IF contentEnd > 0 THEN Callback(contentEnd) ELSE UNCHANGED out
               /\ pc' = "done" /\ UNCHANGED <<base, contentEnd, nextBoxStart, mdatEnd, target>>
          ELSE /\ pc' = "hdr" /\ target' = nextBoxStart + 8
               /\ UNCHANGED <<base, contentEnd, nextBoxStart, mdatEnd, out>>
  /\ UNCHANGED <<st, trunc, eofJoined, pat, pi, atEof, isInit, err, sched>>

Finished == pc = "done" /\ UNCHANGED vars
Next == Read("hdr") \/ Read("body") \/ HdrDone \/ BodyDone \/ Finished
Spec == Init /\ [][Next]_vars /\ WF_vars(Read("hdr") \/ Read("body") \/ HdrDone \/ BodyDone)
ViewNoSched == <<st, trunc, eofJoined, pat, pi, pc, target, contentEnd, nextBoxStart, mdatEnd, base, isInit, out, atEof, err>>

(* ---- properties of the algorithm, judged by the oracle operators ---- *)
Delivered == IF out = <<>> THEN 0 ELSE out[Len(out)].start + out[Len(out)].len
Terminates == <>(pc = "done")                                        \* C18.term
Partition == \A k \in 1..Len(out) : out[k].start = (IF k = 1 THEN 0 ELSE out[k-1].start + out[k-1].len)
ConcatOK == (pc = "done" /\ ~err) => (WellFormed(st) => Delivered = trunc)        \* C18.concat
CutsOK == (pc = "done" /\ WellFormed(st)) =>                          \* C18.cuts
            LET b == Visible(st, trunc) IN
            /\ Len(out) = NCuts(b, trunc)
            /\ \A k \in 1..Len(out) : out[k].start + out[k].len = NthMin(CutSet(b, trunc), k)
InitOK == (pc = "done" /\ WellFormed(st)) =>                          \* C18.init
            \A k \in 1..Len(out) : out[k].init <=> InitExpected(Visible(st, trunc), out[k].start + out[k].len)
PromptOK == (WellFormed(st) /\ pc \in {"hdr", "body"}) =>              \* C18.prompt
            LET lim == PromptLimit(Walk(st), base) IN lim >= 0 => base + target <= lim
NoErrOnWellFormed == WellFormed(st) => ~err

(* ---- (R): emit every explored terminal behaviour as JSON ---- *)
Emit == pc = "done" => PrintT("GEN" \o ToJson([boxes |-> st, trunc |-> trunc, eofJoined |-> eofJoined, sched |-> sched,
                                                 out |-> out, err |-> err]))
=============================================================================

---------------------------- MODULE TimeSubs ----------------------------
(* (M) for C12: model-checks the theorems of the oracle TimeSubsOps on small constants (a "second" of
   Sec units) and judges an implementation-shaped model of calcCueItvls (cmd/livesim2/app/timesubs.go)
   by the oracle.  One behaviour = a run of consecutive segments S, S+D, ... of one stream. *)
EXTENDS TimeSubsOps, FiniteSets, TLC
CONSTANTS Sec,      \* units per UTC second
          SVals,    \* media start times of the first segment
          DVals,    \* segment durations
          CVals,    \* cue durations
          AstVals,  \* availabilityStartTime in seconds
          MaxS      \* no segment starts after MaxS
VARIABLES S, D, c, ast
vars == <<S, D, c, ast>>

Init == S \in SVals /\ D \in DVals /\ c \in CVals /\ ast \in AstVals
NextSeg == /\ S + D <= MaxS
           /\ S' = S + D /\ D' \in DVals /\ UNCHANGED <<c, ast>>
Spec == Init /\ [][NextSeg]_vars

U    == S + Sec * ast                     \* UTC time of the segment start
Ph   == U % Sec
Base == U \div Sec
LA   == TSListA(Sec, Ph, D, c)
LB   == TSListB(Sec, Ph, D, c)

\* the UTC seconds that intersect [U, U+D), defined point-wise (independent of TSNSec)
Secs == {t \div Sec : t \in U..(U + D - 1)}
Shown(l) == {Base + l[x].so : x \in 1..Len(l)}

\* exactly one cue per intersecting second (reading B always; reading A except for an expired first cue)
OnePerSecondB == Shown(LB) = Secs /\ Len(LB) = Cardinality(Secs)
OnePerSecondA == /\ Len(LA) = Cardinality(Shown(LA))
                 /\ Shown(LA) \subseteq Secs
                 /\ \A s \in Secs \ Shown(LA) : s = Base /\ Ph >= c
\* ordered, disjoint, non-empty, inside the segment
WellFormed == TSWellFormed(LA, D) /\ TSWellFormed(LB, D)
\* each cue starts at its second or at the segment start, stays inside its second, lasts at most c
CueShape(l) == \A x \in 1..Len(l) :
   LET s == Base + l[x].so IN
   /\ U + l[x].b = TSMax(s * Sec, U)
   /\ U + l[x].e <= (s + 1) * Sec
   /\ l[x].e - l[x].b <= c
   \* shorter than c only when clipped by the next second, the segment end, or (reading A) the segment start
   /\ (l[x].e - l[x].b < c) => (U + l[x].e = (s + 1) * Sec \/ l[x].e = D \/ l[x].b = 0)
Shape == CueShape(LA) /\ CueShape(LB)
\* reading A is "UTC instant t is covered iff it lies in the first c units of its second"
Covered(l, t) == \E x \in 1..Len(l) : U + l[x].b <= t /\ t < U + l[x].e
CoverA == \A t \in U..(U + D - 1) : Covered(LA, t) <=> (t % Sec) < c
\* reading B covers at least that
CoverB == \A t \in U..(U + D - 1) : Covered(LA, t) => Covered(LB, t)
\* the cue lists do not depend on availabilityStartTime (whole seconds)
AstFree == LA = TSListA(Sec, S % Sec, D, c) /\ LB = TSListB(Sec, S % Sec, D, c)
\* the readings differ only when the segment starts inside a second
ReadingsAgree == Ph = 0 => LA = LB

\* ---- implementation-shaped model of calcCueItvls(segStart, segDur, utcStart, cueDur) with 1000 -> Sec
CueFullS  == (c + Sec - 1) \div Sec
CueFullMS == CueFullS * Sec
\* current code (since repo commit 5285868): starts from a UTC second, skips a cue that is over before the segment starts
RECURSIVE ImplFrom(_)
ImplFrom(utcS) ==
   IF utcS * Sec >= U + D THEN <<>>
   ELSE LET b == TSMax(utcS * Sec, U) - U
            e == TSMin(utcS * Sec + c, U + D) - U
        IN (IF e <= b THEN <<>> ELSE << TSCue(b, e, utcS - Base) >>) \o ImplFrom(utcS + CueFullS)
Impl == ImplFrom((U \div CueFullMS) * CueFullS)
\* expected to hold: conforming inside the documented range (c <= one second), well-formed for every c
ImplOKSupported == c <= Sec => Impl \in TSAccepted(Sec, Ph, D, c)
ImplWellFormed  == TSWellFormed(Impl, D)
\* expected to be VIOLATED for c > Sec (open finding C12-cue-duration-over-1000: one cue per ceil(c/Sec) seconds)
ImplConforms    == Impl \in TSAccepted(Sec, Ph, D, c)

\* the algorithm before 5285868 (design counterexamples kept as documentation of the two fixed findings):
\* the loop variable started as a count of cue periods, expired first cue not skipped
RECURSIVE ImplOrigFrom(_)
ImplOrigFrom(utcS) ==
   IF utcS > (U + D) \div CueFullMS \/ utcS * Sec = U + D THEN <<>>
   ELSE << TSCue(TSMax(utcS * Sec, U) - U, TSMin(utcS * Sec + c, U + D) - U, utcS - Base) >> \o ImplOrigFrom(utcS + CueFullS)
ImplOrig == ImplOrigFrom(U \div CueFullMS)
ImplOrigWellFormed == TSWellFormed(ImplOrig, D)
=============================================================================

---------------------------- MODULE ReceiverConcGen ----------------------------
(* (R) generator for C19: behaviours of the explorer ReceiverConcImpl as lists of (handler, label) steps
   that the driver harness/drive/c19 forces in the real handler with the verif gates.
   Only steps that sit behind a gate are recorded (Controlled); the other labels cannot be delayed in the code.
   GenMode = "logic":    labels that are not choice points for the channel / track tables (stream-table
                         windows, get2, m3) follow their predecessor immediately (hand-made partial-order
                         reduction: the stream table is keyed by the handler's own id), so a behaviour is an
                         interleaving of the choice points get1, add, reg, m1, m2.  Every terminal behaviour
                         is printed (prefix GEN) together with the outcome the model predicts.
   GenMode = "conflict": only add and get2 are eager (the channel-table interleavings are covered by "logic");
                         exploration stops at the first state violating NoConflict and the prefix leading
                         there is printed (prefix GENC) with the conflicting handlers. *)
EXTENDS ReceiverConcImpl, Json
CONSTANT GenMode
VARIABLE hist
Controlled == {"get1", "add", "s1", "s3", "reg", "m1", "ms1", "m2"}
Eager == IF GenMode = "logic" THEN {"get2", "s1", "s2", "s3", "s4", "ms1", "ms2", "m3"} ELSE {"add", "get2"}
GenInit == Init /\ hist = <<>>
GenNext == /\ GenMode = "conflict" => NoConflict
           /\ LET U == {p \in Handlers : pc[p] \in Eager}
                  S == IF U # {} THEN U ELSE Handlers
              IN \E self \in S :
                    /\ h(self)
                    /\ hist' = IF pc[self] \in Controlled THEN Append(hist, <<self, pc[self]>>) ELSE hist
GenSpec == GenInit /\ [][GenNext]_<<vars, hist>>
Emit == (GenMode = "logic" /\ AllDone) =>
           PrintT("GEN" \o ToJson([steps |-> hist, createdA |-> created["A"], createdB |-> created["B"],
                                   fail |-> {x \in Handlers : resp[x] = "fail"},
                                   orphan |-> {x \in Handlers : x \notin tracksOf[C(x)][chan[C(x)]]}]))
EmitC == (GenMode = "conflict" /\ ~NoConflict) =>
           PrintT("GENC" \o ToJson([steps |-> hist, procs |-> {x[1] : x \in acc}, kinds |-> {<<x[2][1], x[3]>> : x \in acc},
                                    raced |-> raced]))
=============================================================================

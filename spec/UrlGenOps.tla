---------------------------- MODULE UrlGenOps ----------------------------
(* ORACLE of the extra specification X04.

   PROPERTY TEXT (X04) - "the URL generator and the URL parser agree".
   Sources: cmd/livesim2/app/templates/urlgen.html (the form and the documentation of its fields), README.md ("the
   served page /urlgen makes it easy to construct URLs to play the content with specific parameters set"; "--host:
   host (and possible prefix) used in MPD elements. Overrides auto-detected full scheme://host"; "--playurl: URL
   template to play mpd. %s will be replaced by MPD URL"), the comments of handler_urlgen.go ("createURL creates a URL
   from the request parameters. Errors are returned in ErrorMsg field", urlGenData.Errors: "error messages to display
   due to bad configuration", the field comments of urlGenData), of configurl.go (processURLCfg: one key_value path
   part per parameter, the key comments; verifyAndFillConfig: what a configuration must satisfy; fullHost) and of
   livempd.go (ErrAtoInfTimeline).  Nothing below is stronger than those; where they leave something open every
   reading is accepted (said at the clause).

   A FORM is what GET /urlgen/create?... receives: asset, mpd, stl (SegmentTemplate variant: nr | tlt | tlnr) and the
   fields of urlgen.html; an empty or missing field is "not set".  A field VALUE belongs to a class whose KIND says what
   the documentation promises:
       req  a documented in-range value: the configuration has this parameter with this value
       opt  the documented default of a pre-filled field (tsbd 60, ltgt 3500, timesubsdur 900, timesubsreg 0, drm
            None, snr 0): the parameter may be written out or left out
       off  a value documented as "not active" (patch-ttl: "Set a positive TTL"): as opt, or reported
       bad  a value outside the field's documentation (not a number, out of the range that verifyAndFillConfig /
            the parser demand)
   CONFLICTS (verifyAndFillConfig, LiveMPD): continuous without periods ("Only valid when periods_per_hour is set"),
   a stop time before the start time, ato = inf with a SegmentTimeline (ErrAtoInfTimeline).  SegmentTimeline $Time$
   together with $Number$ cannot be expressed by the form (one radio group).
   A form is ADMISSIBLE when no value is bad and there is no conflict.

   (a) ROUND TRIP
   X04.page          /urlgen/create answers 200 with an HTML page for every form (rejections are messages on the page).
   X04.gen.url       an admissible form gets exactly one URL and no error message.
   X04.gen.parts     that URL is <scheme://host>/livesim2/<parts>/<asset>/<mpd>[?query]: for every req field exactly
                     one part key_value with the value given (list values: utc as the documentation of the form writes
                     them, comma-separated, or as the parser reads them, hyphen-separated; drm = eccp-<scheme> as
                     drm_eccp-<scheme> or eccp_<scheme>), for stl = tlt / tlnr exactly one segtimeline_1 / segtimelinenr_1,
                     for opt / off fields at most one part, the four pre-filled defaults may be written out; NOTHING
                     ELSE; no part twice.  The query is the annexI pairs joined by & (DASH Annex I: the MPD request
                     must carry them), else empty.
   X04.gen.playlink  the page's Play link carries the generated URL (query-escaped, --playurl's %s) - one link.
   X04.play.served   the generated URL of an admissible form, requested from the same server (path + query, &nowMS=T),
                     is answered 200 with a well-formed MPD.
   X04.play.config   the configuration the server derived equals the form's: every value clause of X01
                     (MpdSignalOps.Failing) holds for the semantic reading m of the form on the served MPD - each
                     MPD-visible parameter is signalled with the value given, every other parameter has its default.
                     (stop, timesubsdur, timesubsreg and statuscode act on segments / after the stop time only: for
                     them X04.gen.parts is the binding.)
   (b) STABILITY
   X04.stable.order    the same fields in another query order give the same URL.
   X04.stable.style    a browser submission (every text field present, empty when not set, the pre-filled defaults)
                       and a sparse one (only the set fields) give the same URL ("empty = not set").
   X04.stable.feedback reading the generated URL's parts back as form values (FieldOfKey) regenerates the same URL.
   X04.stable.form     the page that shows the URL of an admissible form shows the form it was generated from:
                       submitting the returned page's form again gives the same URL (the template re-renders every
                       field from the request; after a rejection the offending field may be reset - not judged).
   (c) ERRORS
   X04.err.message   a page without a URL shows at least one error message and no Play link; a page with an error
                     message shows no URL and no Play link.
   X04.err.agree     a URL the generator shows is never answered 400 (= rejected by processURLCfg) by the server,
                     whatever the form.
   X04.err.exclusive a form with a conflict is either reported (message, no URL) or prevented (the shown URL is
                     served 200) - not left for the player to discover.
   (d) HOST
   X04.gen.host      the shown URL starts with the configured --host if there is one, else with scheme://Host of the
                     request (https iff the request came over TLS).  X-Forwarded-Proto / X-Forwarded-Host are not
                     documented: a URL that follows them instead is accepted too.                                    *)
EXTENDS Integers, Sequences, FiniteSets, TLC

\* ------------------------------------------------------------------ fields, classes, kinds
FieldSeq == <<"tsbd", "mup", "spd", "utc", "snr", "periods", "continuous", "ato", "chunkdur", "ltgt", "patch-ttl", "scte35",
              "start", "stop", "startrel", "stoprel", "timesubsstpp", "timesubswvtt", "timesubsdur", "timesubsreg", "drm",
              "annexI", "statuscode", "traffic">>
Fields == { FieldSeq[i] : i \in DOMAIN FieldSeq }
Stls == {"nr", "tlt", "tlnr"}
UtcOne == {"direct", "head", "ntp", "sntp", "httpxsdate", "httpxsdatems", "httpiso", "httpisoms", "none", "keep"}

\* classes by kind
Req(f) ==
   CASE f = "tsbd" -> {"0", "1", "typ", "max"}        [] f = "mup" -> {"1", "typ", "big"}          [] f = "spd" -> {"0", "typ"}
     [] f = "utc" -> UtcOne \cup {"multi"}            [] f = "snr" -> {"1", "typ", "m1"}           [] f = "periods" -> {"typ", "alt"}
     [] f = "continuous" -> {"on"}                    [] f = "ato" -> {"typ", "ms", "inf"}         [] f = "chunkdur" -> {"typ"}
     [] f = "ltgt" -> {"typ", "1"}                    [] f = "patch-ttl" -> {"1", "typ"}           [] f = "scte35" -> {"1", "2", "3"}
     [] f = "start" -> {"1", "typ"}                   [] f = "stop" -> {"typ", "before"}           [] f = "startrel" -> {"m1", "typ"}
     [] f = "stoprel" -> {"typ"}
     [] f \in {"timesubsstpp", "timesubswvtt"} -> {"one", "two", "three"}
     [] f = "timesubsdur" -> {"1", "typ", "max"}      [] f = "timesubsreg" -> {"1"}
     [] f = "drm" -> {"eccp-cbcs", "eccp-cenc", "k1", "k2"}
     [] f = "annexI" -> {"one", "two"}                [] f = "statuscode" -> {"one", "two", "rep"} [] f = "traffic" -> {"one", "two", "three"}
Opt(f) ==
   CASE f = "tsbd" -> {"dflt"}   [] f = "ltgt" -> {"dflt"}   [] f = "timesubsdur" -> {"dflt"}   [] f = "timesubsreg" -> {"0"}
     [] f = "drm" -> {"None"}    [] f = "snr" -> {"0"}       [] OTHER -> {}
Off(f) == IF f = "patch-ttl" THEN {"0", "neg"} ELSE {}
Bad(f) ==
   CASE f = "tsbd" -> {"neg", "big", "nonint"}        [] f = "mup" -> {"0", "neg", "frac", "nonint"}   [] f = "spd" -> {"nonint"}
     [] f = "utc" -> {"hyph", "unknown", "keepmix"}   [] f = "snr" -> {"nonint"}
     [] f = "periods" -> {"0", "big", "huge", "nonint"}
     [] f = "ato" -> {"nonfloat"}                     [] f = "chunkdur" -> {"neg", "nonfloat"}         [] f = "ltgt" -> {"nonint"}
     [] f = "patch-ttl" -> {"nonint"}                 [] f = "start" -> {"nonint"}                     [] f = "stop" -> {"nonint", "neg"}
     [] f = "startrel" -> {"nonint"}                  [] f = "stoprel" -> {"nonint"}
     [] f = "timesubsdur" -> {"0", "neg", "nonint", "huge"}
     [] f = "annexI" -> {"nopair", "twoeq"}           [] f = "statuscode" -> {"code", "short", "key"}  [] f = "traffic" -> {"letter", "empty"}
     [] OTHER -> {}
ClassesOf(f) == Req(f) \cup Opt(f) \cup Off(f) \cup Bad(f)
Kind(f, c) == IF c \in Req(f) THEN "req" ELSE IF c \in Opt(f) THEN "opt" ELSE IF c \in Off(f) THEN "off" ELSE "bad"
ASSUME \A f \in Fields : Cardinality(ClassesOf(f)) = Cardinality(Req(f)) + Cardinality(Opt(f)) + Cardinality(Off(f)) + Cardinality(Bad(f))

\* asset classes: a listed asset and one of its MPDs, or "none" = nothing chosen (the placeholder options of the form)
AssetKind(a) == IF a = "none" THEN "bad" ELSE "req"

\* ------------------------------------------------------------------ forms
\* entry: [f, c, v (the value as submitted), vs (list values: the items; else <<v>>), n (integer value, 0 if none / not 32-bit)]
SeqSet(s) == { s[i] : i \in DOMAIN s }
Entry(F, f) == CHOOSE p \in SeqSet(F) : p.f = f
HasF(F, f) == \E p \in SeqSet(F) : p.f = f
HasReq(F, f) == \E p \in SeqSet(F) : p.f = f /\ Kind(p.f, p.c) = "req"

Conflicts(stl, F) ==
   (IF HasReq(F, "continuous") /\ ~HasReq(F, "periods") THEN {"continuous-needs-periods"} ELSE {})
   \cup (IF HasReq(F, "stop") /\ HasReq(F, "start") /\ Entry(F, "stop").n < Entry(F, "start").n THEN {"stop-before-start"} ELSE {})
   \cup (IF HasF(F, "ato") /\ Entry(F, "ato").c = "inf" /\ stl \in {"tlt", "tlnr"} THEN {"ato-inf-timeline"} ELSE {})

Admissible(stl, asset, F) ==
   /\ AssetKind(asset) = "req"
   /\ \A p \in SeqSet(F) : Kind(p.f, p.c) # "bad"
   /\ Conflicts(stl, F) = {}

BadClasses(F) == { p.f \o ":" \o p.c : p \in { q \in SeqSet(F) : Kind(q.f, q.c) = "bad" } }
\* no "off" value: the form must get a URL (an off value may also be reported)
NoOff(F) == \A p \in SeqSet(F) : Kind(p.f, p.c) # "off"

\* ------------------------------------------------------------------ expected URL parts
Join(vs, sep) == LET J[i \in 0..Len(vs)] == IF i = 0 THEN "" ELSE IF i = 1 THEN vs[1] ELSE J[i-1] \o sep \o vs[i] IN J[Len(vs)]

\* the URL key a form field is written under (processURLCfg) and back
KeyOfField(f) == IF f = "patch-ttl" THEN "patch" ELSE f
FieldOfKey(k) == IF k = "patch" THEN "patch-ttl" ELSE k

\* abstract parts <<key, value>> that express entry p; Render gives the path part
AltA(p) ==
   CASE p.f = "utc"        -> {<<"utc", Join(p.vs, "-")>>, <<"utc", Join(p.vs, ",")>>}
     [] p.f = "continuous" -> {<<"continuous", "1">>, <<"continuous", "on">>}
     [] p.f = "drm"        -> IF p.c = "eccp-cbcs" THEN {<<"drm", p.v>>, <<"eccp", "cbcs">>}
                              ELSE IF p.c = "eccp-cenc" THEN {<<"drm", p.v>>, <<"eccp", "cenc">>}
                              ELSE IF p.c = "None" THEN {} ELSE {<<"drm", p.v>>}          \* "None" is the radio button for "no drm parameter"
     [] OTHER              -> {<<KeyOfField(p.f), p.v>>}
Render(a) == a[1] \o "_" \o a[2]
Alt(p) == { Render(a) : a \in AltA(p) }
StlPartsA(stl) == CASE stl = "tlt" -> {<<"segtimeline", "1">>} [] stl = "tlnr" -> {<<"segtimelinenr", "1">>} [] OTHER -> {}
StlParts(stl) == { Render(a) : a \in StlPartsA(stl) }
\* the pre-filled defaults of the form, which mean the same written out or not
PrefilledA == {<<"tsbd", "60">>, <<"ltgt", "3500">>, <<"timesubsdur", "900">>, <<"timesubsreg", "0">>}
\* ... for a field the form does not set (a set field is written once, with the value given)
PrefilledFor(F) == { Render(a) : a \in { b \in PrefilledA : \A p \in SeqSet(F) : p.f # FieldOfKey(b[1]) } }

Count(parts, S) == Cardinality({ i \in DOMAIN parts : parts[i] \in S })
NoDup(parts) == \A i, j \in DOMAIN parts : i # j => parts[i] # parts[j]

\* X04.gen.parts on the configuration parts (between "livesim2" and the asset)
PartsOk(stl, F, parts) ==
   /\ NoDup(parts)
   /\ \A p \in SeqSet(F) : Count(parts, Alt(p)) \in (IF Kind(p.f, p.c) = "req" THEN {1} ELSE {0, 1})
   /\ (stl # "nr" => Count(parts, StlParts(stl)) = 1)
   /\ \A i \in DOMAIN parts : \/ \E p \in SeqSet(F) : parts[i] \in Alt(p)
                              \/ parts[i] \in StlParts(stl)
                              \/ parts[i] \in PrefilledFor(F)

\* the whole path: livesim2, configuration parts, asset path, mpd
Mid(path, na) == SubSeq(path, 2, Len(path) - na - 1)
PathOk(stl, F, aseg, mpd, path) ==
   /\ Len(path) >= Len(aseg) + 2
   /\ path[1] = "livesim2"
   /\ SubSeq(path, Len(path) - Len(aseg), Len(path)) = aseg \o <<mpd>>
   /\ PartsOk(stl, F, Mid(path, Len(aseg)))
QueryOk(F, query) == query = (IF HasF(F, "annexI") THEN Join(Entry(F, "annexI").vs, "&") ELSE "")

\* X04.gen.host: req = [scheme ("http" | "https": TLS), host (Host header), fproto, fhost (X-Forwarded-*, "" = not sent), cfghost (--host)]
HostReadings(req) ==
   IF req.cfghost # "" THEN {req.cfghost}
   ELSE { s \o "://" \o h : s \in ({req.scheme} \cup (IF req.fproto # "" THEN {req.fproto} ELSE {})),
                            h \in ({req.host} \cup (IF req.fhost # "" THEN {req.fhost} ELSE {})) }

\* ------------------------------------------------------------------ judging a generated page
\* g = [st, perr, nurl, url, prefix, path, query, msgs, nplay, plaympd]
GenClauseNames == <<"X04.page", "X04.gen.url", "X04.gen.parts", "X04.gen.playlink", "X04.gen.host", "X04.err.message">>
GenClauseOk(name, H, g) ==
   LET adm == Admissible(H.stl, H.acls, H.form)
       page == g.st = 200 /\ g.perr = ""
   IN CASE name = "X04.page" -> page
        [] name = "X04.gen.url" -> (adm /\ page /\ NoOff(H.form)) => (g.nurl = 1 /\ Len(g.msgs) = 0)
        [] name = "X04.gen.parts" -> (adm /\ page /\ g.nurl = 1) => (PathOk(H.stl, H.form, H.aseg, H.mpd, g.path) /\ QueryOk(H.form, g.query))
        [] name = "X04.gen.playlink" -> (adm /\ page /\ g.nurl = 1) => (g.nplay = 1 /\ g.plaympd = g.url)
        [] name = "X04.gen.host" -> (page /\ g.nurl >= 1) => g.prefix \in HostReadings(H.req)
        [] name = "X04.err.message" -> page => /\ (g.nurl = 0 => (Len(g.msgs) > 0 /\ g.nplay = 0))
                                               /\ (Len(g.msgs) > 0 => (g.nurl = 0 /\ g.nplay = 0))
GenFailing(H, g) == { GenClauseNames[i] : i \in { j \in DOMAIN GenClauseNames : ~GenClauseOk(GenClauseNames[j], H, g) } }

\* judging the answer to the generated URL: st = HTTP status, perr = projection error, x01bad = failing X01 value clauses
PlayClauseNames == <<"X04.play.served", "X04.play.config", "X04.err.agree", "X04.err.exclusive">>
PlayClauseOk(name, H, st, perr, x01bad) ==
   LET adm == Admissible(H.stl, H.acls, H.form)
   IN CASE name = "X04.play.served" -> adm => (st = 200 /\ perr = "")
        [] name = "X04.play.config" -> (adm /\ st = 200 /\ perr = "") => x01bad = {}
        [] name = "X04.err.agree" -> st # 400
        [] name = "X04.err.exclusive" -> Conflicts(H.stl, H.form) # {} => st = 200
PlayFailing(H, st, perr, x01bad) ==
   { PlayClauseNames[i] : i \in { j \in DOMAIN PlayClauseNames : ~PlayClauseOk(PlayClauseNames[j], H, st, perr, x01bad) } }

\* X04.stable.*: another submission of the same form must show the same URL (or the same absence of one)
SameUrl(g, s) == s.st = 200 /\ s.perr = "" /\ s.nurl = g.nurl /\ (g.nurl = 1 => s.url = g.url)

\* feedback: the form value that a URL part key_value reads back to (FieldOfKey; segtimeline* -> stl; continuous -> "on")
FeedbackPart(fv) ==
   CASE fv.f = "stl" -> (CASE fv.v = "tlt" -> "segtimeline_1" [] fv.v = "tlnr" -> "segtimelinenr_1" [] OTHER -> "")
     [] fv.f = "continuous" -> "continuous_1"
     [] OTHER -> KeyOfField(fv.f) \o "_" \o fv.v
\* the driver's feedback form fb (sequence of [f, v], without asset and mpd) is the inverse image of the parts
FeedbackOk(fb, parts) ==
   /\ { FeedbackPart(fb[i]) : i \in DOMAIN fb } \ {""} = SeqSet(parts)
   /\ Cardinality({ i \in DOMAIN fb : FeedbackPart(fb[i]) # "" }) = Len(parts)
   /\ Cardinality({ i \in DOMAIN fb : fb[i].f = "stl" }) = 1

\* ------------------------------------------------------------------ the form's semantic reading for X01's value clauses
\* X01 key of an entry ("" = not visible in the MPD's signalling at the request instant)
XKey(p) ==
   CASE p.f = "patch-ttl" -> "patch"
     [] p.f = "drm" -> (IF p.c \in {"eccp-cbcs", "eccp-cenc"} THEN "eccp" ELSE IF p.c = "None" THEN "" ELSE "drm")
     [] p.f \in {"stop", "timesubsdur", "timesubsreg", "statuscode"} -> ""
     [] OTHER -> p.f
XKeys(F) == { XKey(p) : p \in SeqSet(F) } \ {""}
ModeOf(stl) == CASE stl = "nr" -> "number" [] stl = "tlt" -> "time" [] stl = "tlnr" -> "tlnr"
=============================================================================

---------------------------- MODULE RepCache ----------------------------
(* Model-checking module for C15: the oracle machine over the metadata files of a few representations.
   One behaviour = a metadata root (fixed) and a sequence of actions
       Start(write)      a server is started on the current files; every asset gets an outcome the oracle permits
       Damage(rep, kind) the file of one representation is replaced by a damaged / plain variant
       Remove(rep)       the file of one representation is deleted (partial cache)
   With Gen = TRUE the outcome choice is canonical and every action sequence of length MaxLen that ends in a
   Start is printed as one "GEN" JSON line (shorter sequences are prefixes of these); harness/drive/c15 replays
   them on real directories with real servers. With Gen = FALSE every permitted outcome is explored and the
   consequences of the oracle listed below are checked. *)
EXTENDS RepCacheOps, TLC, Json
CONSTANTS Reps,      \* representation names
          Assets,    \* asset names
          AssetOf,   \* function Reps -> Assets
          Adm,       \* subset of Assets: the admissible ones
          MaxLen,    \* bound on the number of actions
          Gen        \* BOOLEAN, see above

VARIABLES root, file, served, hist
vars == <<root, file, served, hist>>

RepsOf(a) == { r \in Reps : AssetOf[r] = a }
Fs(a)     == [r \in RepsOf(a) |-> file[r]]
NoAct     == [a |-> "none", w |-> FALSE, r |-> "-", k |-> "-"]
Last      == IF hist = <<>> THEN NoAct ELSE hist[Len(hist)]

Init == /\ root \in Roots
        /\ file = [r \in Reps |-> "absent"]
        /\ served = [a \in Assets |-> "none"]
        /\ hist = <<>>

Canon(w) == [a \in Assets |-> IF "Scan" \in Allowed(root, w, Fs(a), a \in Adm) THEN "Scan" ELSE "Absent"]

Start(w) == /\ Len(hist) < MaxLen
            /\ \E o \in [Assets -> {"Scan", "Absent"}] :
                 /\ \A a \in Assets : o[a] \in Allowed(root, w, Fs(a), a \in Adm)
                 /\ Gen => o = Canon(w)
                 /\ served' = o
            /\ file' = AfterStart(root, w, file)
            /\ hist' = Append(hist, [a |-> "start", w |-> w, r |-> "-", k |-> "-"])
            /\ UNCHANGED root

Damage(r, k) == /\ Len(hist) < MaxLen - 1      \* a trailing Damage/Remove is never observed
                /\ CanDamage(root, k, file[r])
                /\ file' = [file EXCEPT ![r] = k]
                /\ served' = [a \in Assets |-> "none"]
                /\ hist' = Append(hist, [a |-> "damage", w |-> FALSE, r |-> r, k |-> k])
                /\ UNCHANGED root

Remove(r) == /\ Len(hist) < MaxLen - 1
             /\ CanRemove(root, file[r])
             /\ file' = [file EXCEPT ![r] = "absent"]
             /\ served' = [a \in Assets |-> "none"]
             /\ hist' = Append(hist, [a |-> "remove", w |-> FALSE, r |-> r, k |-> "-"])
             /\ UNCHANGED root

StartAny  == \E w \in BOOLEAN : Start(w)
DamageAny == \E r \in Reps, k \in DamageKinds : Damage(r, k)
RemoveAny == \E r \in Reps : Remove(r)
Next == StartAny \/ DamageAny \/ RemoveAny
Spec == Init /\ [][Next]_vars

(* ---- consequences of the oracle (invariants) ---- *)
TypeOK == /\ root \in Roots /\ file \in [Reps -> Kinds]
          /\ served \in [Assets -> {"none", "Scan", "Absent"}] /\ Len(hist) <= MaxLen
\* C15.admit
InadmissibleNeverServed == \A a \in Assets \ Adm : served[a] \in {"none", "Absent"}
\* C15.damaged: an admissible asset is left out only when some file of it is damaged or the set is partial
AbsentOnlyIfDamagedOrPartial ==
   \A a \in Adm : (served[a] = "Absent" /\ ~Last.w) => (~Complete(Fs(a)) /\ ~NoCache(Fs(a)) /\ root # "disabled")
\* write mode never leaves an admissible asset out, and repairs every file
WriteServesAndHeals ==
   (Last.a = "start" /\ Last.w) => /\ \A a \in Adm : served[a] = "Scan"
                                   /\ root # "disabled" => \A r \in Reps : file[r] = "good"
\* without a metadata root no file ever appears and every admissible asset is scanned
DisabledInert == root = "disabled" => /\ \A r \in Reps : file[r] = "absent"
                                      /\ \A a \in Adm : served[a] \in {"none", "Scan"}
\* C15.same (action property): Start(TRUE) immediately followed by Start(FALSE) serves what the scan serves
SameAfterWrite == [][ (Last.a = "start" /\ Last.w /\ Len(hist') = Len(hist) + 1 /\ hist'[Len(hist')].a = "start")
                      => \A a \in Adm : served'[a] = "Scan" ]_vars
\* plain JSON of a good file is as good as the file
PlainIsUsable == \A a \in Adm : (Last.a = "start" /\ ~Last.w /\ \A r \in RepsOf(a) : file[r] \in {"good", "plainjson"})
                                   => served[a] = "Scan"

(* ---- (R): emit the maximal action sequences ---- *)
Emit == (Gen /\ Len(hist) = MaxLen /\ Last.a = "start") => PrintT("GEN" \o ToJson([root |-> root, acts |-> hist]))
=============================================================================

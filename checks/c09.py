"""C09 - low-latency chunked delivery is the same media, never delivered early."""
import vlib
from vlib import Check, MachineryError


def run(tier, replay=None):
    c = Check("C09", tier)
    c.rule = ("one event per HTTP response of the real router recorded with a time-stamping ResponseWriter (every Write/Flush, "
              "monotonic clock); scenario = (asset incl. non-uniform segment durations, video/audio representation, addressing "
              "mode, startNumber, start time, availabilityTimeOffset from one sample short of the shortest segment down to 1/8 of "
              "it, chunkdur_ as an independent dimension: smaller than / equal to / larger than (segment - offset), = segment, "
              "> segment, DRM); per scenario seeded segments (near and ~2^30 numbers; shortest and longest of a non-uniform loop), "
              "each fetched in whole-segment mode and, in real time and concurrently, in chunked mode at instants over the whole "
              "life of the segment: before the advertised availability time (425 demanded), at it, at 25/50/75 % of the segment, "
              "between availability and end, in [start + mean segment duration, end) for longer-than-mean segments, after the end; "
              "the advertised offset is read from the live MPD fetched at the instant of each request; distinct = distinct (asset, "
              "rep, configuration, segment, kind of instant)")
    c.assumptions = [
        "resolution of C09.notearly is 2 ms (request clock and server clock are both millisecond-truncated; shown tight by the "
        "model: Res = 1 ms and 0 have counterexamples): a chunk whose first byte is written more than 2 ms before AST + its end "
        "is rejected, nothing is tolerated beyond that",
        "'written' = entry of the Write call that delivers the first byte of the chunk; 'flushed' = first Flush after its last "
        "byte (the return of the handler counts as a flush)",
        "C09.immediate: first chunk flushed within 250 ms + one sample (audio: two, segments are re-cut at frame borders) of a "
        "request made at/after the advertised availability time; judged on the last of up to 3 measurements (a response whose "
        "first flush came later than 150 ms is measured again - scheduling noise must not raise an alarm)",
        "C09.size: 'segment duration' = the duration of this segment as served in whole-segment mode; offset = the value "
        "advertised in the live MPD for the representation's adaptation set; audio gets one more sample of slack",
        "availability of an audio segment is that of the reference (video) segment with the same number",
        "chunkdur_ only switches the mode on (documentation / code comments): whatever its value, a chunk may span at most "
        "(segment duration - advertised availabilityTimeOffset) + one sample",
        "lateness of later chunks is not restricted by the property text (see 'late_tail' in the report, informational)",
    ]
    c.trusted = ["harness/drive/c09 recorder and its mp4ff-based projection", "asset generator ground truth / independent VoD parse",
                 "Go monotonic clock", "TLC"]
    # (M) explorer: pacing loop against a real-time clock, all layouts / request instants / schedules
    jobs = [("ChunkedImpl_MC", f"ChunkedImpl_{tier}.cfg", dict(workers=4, timeout=2400, required_actions=("tick", "rd", "slp", "nxt"))),
            ("ChunkedImpl_MC", "ChunkedImpl_res1ms.cfg", dict(workers=2, expect="violation", expect_violated=("NotEarly",), coverage=False)),
            ("ChunkedImpl_MC", "ChunkedImpl_exact.cfg", dict(workers=2, expect="violation", expect_violated=("NotEarly",), coverage=False)),
            ("ChunkedImpl_MC", "ChunkedImpl_pacestart.cfg", dict(workers=2, expect="violation", expect_violated=("NotEarly",), coverage=False))]
    res = c.models(jobs)
    c.exhaustive = False
    c.extra["design_counterexamples"] = {"resolution_1ms": res[1].violated, "resolution_0": res[2].violated,
                                         "pacing_on_chunk_start": res[3].violated}
    for r, name in zip(res[1:], ("res1ms", "exact", "pacestart")):
        if "NotEarly" not in r.violated:
            raise MachineryError(f"ChunkedImpl_{name}: expected design counterexample for NotEarly not found ({r.status})")

    # (V) real code
    drive = vlib.build_harness(cmd="c09")
    trace = c.work / "c09.ndjson"
    args = ["-out", trace, "-work", c.work, "-seed", c.seed] + (["-thorough"] if tier == "thorough" else [])
    st = vlib.run_driver(drive, args, timeout=1500)
    r, lines = c.validate_trace("Chunked_Trace", trace, timeout=1800)
    events = vlib.read_ndjson(trace)
    hdr = None
    hdr_at = {}
    for i, e in enumerate(events, 1):
        if e["ev"] == "hdr":
            hdr = e
        hdr_at[i] = hdr
    undec = [(e["asset"], e["rep"], e["cfg"], e["decErr"]) for e in events if e["ev"] == "hdr" and e.get("drm") and e.get("decErr")]
    if undec:
        raise MachineryError(f"DRM scenarios could not be decrypted by the recorder (no verdict possible): {undec[:3]}")
    c.extra["drm_scenarios"] = sum(1 for e in events if e["ev"] == "hdr" and e.get("drm"))
    machinery = []
    for f in vlib.bad_to_failures(r, events):
        if f["clause"].startswith(("trace.", "hdr.")):
            machinery.append(f)
            continue
        h = hdr_at.get(f["line"]) or {}
        for k in ("asset", "rep", "kind", "mode", "snr", "ast", "ato", "atoUrl", "cfg", "chunkdur", "drm", "repTS"):
            f.setdefault(k, h.get(k))
        du = h.get("dur") or []
        i = f.get("i")
        f["uniform_segments"] = len(set(du)) <= 1
        f["segment_shorter_than_mean"] = bool(du) and isinstance(i, int) and 0 <= i < len(du) and du[i] * len(du) < sum(du)
        for k in ("calls", "chunks", "samples"):
            f.pop(k, None)
        c.add_failure(f)
    if machinery:
        raise MachineryError("trace/header sanity clauses failed (not a verdict): " + str(machinery[:5])[:3000])
    stats = vlib.tlc_printed_json(r, "STATS")
    if not stats:
        raise MachineryError("trace spec printed no STATS")
    s = stats[-1]
    c.extra["judged"] = s
    # non-vacuity: every clause family was exercised
    need = ("r200", "r425", "chunksTimed", "tight", "immediate", "same", "multi")
    if any(s.get(k, 0) <= 0 for k in need):
        raise MachineryError(f"vacuity: {s}")
    if st["clock_jumps"] * 4 > st["requests"]:
        raise MachineryError(f"wall clock stepped during {st['clock_jumps']} of {st['requests']} requests")
    # informational: chunks written long after their end (not restricted by the property text)
    late = 0
    for e in events:
        if e["ev"] == "chunked" and e["st"] == 200 and e["at"] == "after" and e["doneUS"] > 300_000:
            late += 1
    c.extra["late_tail"] = {"responses_after_segment_end_lasting_over_300ms": late,
                            "note": "informational, not restricted by C09's text: before /repo d0762dd a trailing partial chunk was paced with the full chunk duration"}
    c.traces += st["scenarios"]
    c.events += lines
    c.distinct_nontrivial = st["distinct"]
    c.samples = st.get("samples", [])
    for k in ("requests", "ok200", "early425", "chunks", "retried", "clock_jumps", "realtime_wall_s", "max_calls_per_response"):
        c.extra[k] = st[k]
    return c.finish()

"""X02 (extra specification) - the ingest receiver normalises time and sequence numbers of a channel consistently
(start-up detection, seqNr/time shift, startNr, timescale change) and its $Number$ manifest matches what it stored.
Property text: top of spec/ReceiverShiftOps.tla."""
import json
import shutil
import tempfile
import vlib
from vlib import Check, MachineryError

BIG = 1 << 30


def _enrich(f, ev, hdr):
    """Attach the input class of the failing observation (for known-finding classification): scenario constants of the
    header, attributes of the upload computed by the driver from its own input, and simple differences read off the
    observation.  Nothing here decides a clause."""
    for k in ("id", "cls", "src", "startNr", "creation", "nearZero", "resendInit", "far", "Tm", "D"):
        if k in hdr:
            f.setdefault("sc_" + k if k in ("id",) else k, hdr[k])
    det = None
    try:
        det = json.loads(f.get("detail", "null"))
    except Exception:
        pass
    if isinstance(det, list):
        # details are flat <<"key", value, ...>> tuples
        kv = {det[i]: det[i + 1] for i in range(0, len(det) - 1, 2) if isinstance(det[i], str)}
        if "mode" in kv:
            f["mode"] = kv["mode"]
        if f["clause"] == "X02.mpd.number" and isinstance(kv.get("t"), list):
            q, rem = kv["t"]
            track = next((t for t in hdr["tracks"] if t["name"] == ev.get("track")), None)
            if track and q != BIG:
                nearest = q + (1 if 2 * rem >= track["S"] else 0)
                f["numOff"] = nearest - (kv["n"] - kv["startNumber"])
        if f["clause"] == "X02.mpd.tracks":
            listed, reg = kv.get("listed", []), kv.get("registered", [])
            f["dupOnly"] = set(listed) == set(reg) and all(listed.count(x) == 2 for x in reg)
    if ev.get("ev") == "up":
        fl = ev.get("file", {})
        frs = fl.get("frs") or []
        if frs and fl.get("nb") not in (None, BIG) and frs[0].get("mnb") != BIG:
            f["mfhdOff"] = frs[0]["mnb"] - fl["nb"]
        elif frs and fl.get("ng") not in (None, BIG) and frs[0].get("mng") != BIG:
            f["mfhdOff"] = frs[0]["mng"] - fl["ng"]
        if len(frs) > 1:
            f["laterRawSame"] = all(x.get("traw") for x in frs[1:])
        f["verbatim"] = bool(fl.get("verbatim"))
        hk = ev.get("hook", {})
        if hk.get("have"):
            f["hookTs"] = hk.get("ts")
        track = next((t for t in hdr.get("tracks", []) if t["name"] == ev.get("track")), None)
        if frs and track:
            # every sample duration that is not the scaled one is the uploaded one, unchanged
            bad = [p for x in frs for p in x.get("pairs", []) if abs(p["do"] * track["Uout"] - p["di"] * track["Uin"]) >= track["Uout"]]
            f["durUnscaled"] = bool(bad) and all(p["di"] == p["do"] for p in bad)
    return f


def run(tier, replay=None):
    c = Check("X02", tier)
    c.rule = ("one scenario = one channel of the real receiver (fresh router, own storage tree) fed with init + media uploads "
              "built by the driver: (R) every upload script of the TLC model ReceiverShift (segment duration x first time x "
              "numbering offset x startNr x leading short segment x track order) scaled to 90000/48000 and 12800/48000 ticks, near "
              "time zero and at wall-clock time; (V) seeded multi-track channels (7 timescale families, aligned / unaligned first "
              "time, numbers on the grid / off by one / unrelated, startNr 0/1, 1-3 chunks per segment, tfhd default durations, "
              "text tracks rescaled to ms, AAC frame boundaries, creation-time classes, both URL forms, resent init segments), "
              "fixed special timescale combinations and the repository's recorded encoder output (AWS MediaLive, zero_3.84s); "
              "distinct = distinct scenario constructions; an evaluation = one trace event (upload with stored file read back, "
              "hook scalars, manifest.mpd, timeline MPD)")
    c.assumptions = ["uploads of a channel are sequential: the next upload starts after the channel goroutine reported the previous one",
                     "grid clauses (X02.grid/number/listed) are evaluated only when the start time is 0 under every reading (creation time <= 1970-01-01)",
                     "for startNr != 0 both readings of the tuned-in numbering (t/D - startNr and t/D) are accepted",
                     "timescale conversions: any rounding accepted; equality demanded only when every conversion is exact",
                     "64-bit overflow is not modelled in ReceiverShift.tla (found by the driver, not by the model)"]
    c.trusted = ["mp4ff decoder/encoder used by the driver to build and read back segments", "harness/drive/x02 decomposition of times (exact int64)",
                 "encoding/xml reader of the manifests", "TLC"]
    wk = 4
    gen_cfgs = ["ReceiverShift_gen_quick.cfg", "ReceiverShift_gen_ts12800_quick.cfg"] if tier == "quick" else \
               ["ReceiverShift_gen_thorough.cfg", "ReceiverShift_gen_ts12800.cfg"]
    jobs = [("ReceiverShift_MC", f"ReceiverShift_{tier}.cfg", dict(workers=wk, required_actions=("Upload",))),
            ("ReceiverShift_MC", "ReceiverShift_ts12800_quick.cfg", dict(workers=wk)),
            ("ReceiverShift_MC", "ReceiverShift_snr0_manifest.cfg", dict(workers=wk)),
            ("ReceiverShift_MC", f"ReceiverShift_proposed_{tier}.cfg", dict(workers=wk)),
            ("ReceiverShift_MC", "ReceiverShift_cex_manifest.cfg", dict(workers=1, expect="violation", expect_violated=("InvManifest",), coverage=False)),
            ("ReceiverShift_MC", "ReceiverShift_witness_shifted.cfg", dict(workers=1, expect="violation", expect_violated=("NeverShifted",), coverage=False)),
            ("ReceiverShift_MC", "ReceiverShift_witness_kept.cfg", dict(workers=1, expect="violation", expect_violated=("NeverKept",), coverage=False))]
    ngen0 = len(jobs)
    jobs += [("ReceiverShift_MC", g, dict(workers=1, coverage=False)) for g in gen_cfgs]
    if tier == "thorough":
        jobs += [("ReceiverShift_MC", "ReceiverShift_same_quick.cfg", dict(workers=wk)),
                 ("ReceiverShift_MC", "ReceiverShift_orig_quick.cfg", dict(workers=wk)),
                 ("ReceiverShift_MC", "ReceiverShift_proposed_ts12800.cfg", dict(workers=wk))]
    res = c.models(jobs, parallel=4)
    for r, name in ((res[5], "NeverShifted"), (res[6], "NeverKept")):
        if name not in r.violated:
            raise MachineryError(f"model vacuity: witness {name} not reached")
    c.extra["design_counterexample_manifest_startNr"] = res[4].violated
    c.exhaustive = False
    scripts = []
    for r in res[ngen0:ngen0 + len(gen_cfgs)]:
        scripts += vlib.tlc_printed_json(r, "GEN")
    if not scripts:
        raise MachineryError("ReceiverShift produced no upload scripts")
    genf = c.work / "gen.jsonl"
    with open(genf, "w") as f:
        for s in scripts:
            f.write(json.dumps(s) + "\n")
    # (R)/(V) real code
    drive = vlib.build_harness(cmd="x02")
    trace = c.work / "x02.ndjson"
    n = 500 if tier == "quick" else 5000
    tmp = tempfile.mkdtemp(prefix="x02-", dir="/dev/shm" if shutil.os.path.isdir("/dev/shm") else None)
    try:
        st = vlib.run_driver(drive, ["-out", trace, "-gen", genf, "-seed", c.seed, "-n", n, "-par", 6, "-tmp", tmp])
    finally:
        shutil.rmtree(tmp, ignore_errors=True)
    r, lines = c.validate_trace_parallel("ReceiverShift_Trace", trace, chunks=4 if tier == "quick" else 8)
    events = vlib.read_ndjson(trace)
    hdr_at, cur = {}, None
    for i, e in enumerate(events, 1):
        if e["ev"] == "hdr":
            cur = e
        hdr_at[i] = cur
    kinds = {}
    for e in events:
        kinds[e["ev"]] = kinds.get(e["ev"], 0) + 1
    for k in ("hdr", "init", "up", "mpd", "tl", "end"):   # every action of the trace spec is taken
        if not kinds.get(k):
            raise MachineryError(f"trace vacuity: no '{k}' event recorded ({kinds})")
    c.extra["trace_events_by_kind"] = kinds
    for f in vlib.bad_to_failures(r, events):
        if f["clause"].startswith("X02.machinery"):
            raise MachineryError(f"scenario construction / trace problem: {json.dumps(f)[:600]}")
        ev = events[f["line"] - 1]
        c.add_failure(_enrich(f, ev, hdr_at.get(f["line"]) or {}))
    # non-vacuity of the driver, judged on the INPUTS it constructed (never on what the receiver did with them)
    if st["inputsOnGrid"] == 0 or st["inputsOffGrid"] == 0 or st["testdata"] < 1:
        raise MachineryError(f"driver vacuity: on-grid inputs={st['inputsOnGrid']} off-grid inputs={st['inputsOffGrid']} fixed={st['testdata']}")
    c.traces += st["scenarios"]
    c.events += lines
    c.distinct_nontrivial = st["distinct"]
    c.samples = st.get("samples", [])
    c.extra["driver"] = {k: st[k] for k in ("scenarios", "uploads", "tuned", "shifted", "inputsOnGrid", "inputsOffGrid", "testdata", "fromModel", "seeded", "classes")}
    c.extra["scenario_classes"] = dict(sorted(st["byClass"].items(), key=lambda kv: -kv[1])[:25])
    c.extra["replayed_model_scripts"] = len(scripts)
    c.extra["model_prediction_compared"] = st["fidelity_compared"]
    if st["fidelity_mismatch"]:
        c.fidelity.append(f"{st['fidelity_mismatch']} of {st['fidelity_compared']} replayed scripts: stored numbers/times differ from the "
                          f"model's prediction, e.g. {st['fidelity_notes'][:2]}")
    return c.finish()

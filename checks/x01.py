"""X01 (extra specification) - URL parameters are reflected faithfully in the live MPD's signalling."""
import json

import vlib
from vlib import Check, MachineryError

MP4P = "urn:mpeg:dash:mp4protection:2011"


def _discriminators(f, cfg, sig):
    """Fields that tell the failing input class (for known_findings matching only; the verdict is TLC's)."""
    c = cfg["c"]
    f["asset"], f["vod_mpd"], f["mode"] = cfg["asset"], cfg["amp"], cfg["mode"]
    f["keys"] = "+".join(sorted(p["k"] for p in cfg["parts"]))
    f["classes"] = "+".join(sorted(p["k"] + ":" + p["c"] for p in cfg["parts"]))
    f["vod_utc"] = len(cfg["e"]["vodUtc"])
    if sig is None:
        return
    facts = sig.get("facts", [])
    if f["clause"] == "X01.utc":
        insts = {}
        for (per, scope, cls, ask, inst, v) in facts:
            if scope == "MPD" and cls.startswith("UTCTiming"):
                d = insts.setdefault(inst, {})
                d[cls] = v
        want = c["utc"]
        n_want = {(): 1, ("none",): 0, ("keep",): f["vod_utc"]}.get(tuple(want), len(want))
        f["utc"] = "-".join(want)
        f["utc_extra"] = len(insts) - n_want
        f["utc_extra_is_vod"] = f["vod_utc"] > 0 and f["utc_extra"] == f["vod_utc"]
        f["utc_without_value"] = ",".join(sorted({d.get("UTCTiming@schemeIdUri", "?") for d in insts.values()
                                                  if "UTCTiming@value" not in d}))
    if f["clause"] == "X01.snr":
        f["snr"] = c["snr"]
        f["startnumbers"] = ",".join(sorted({v for (per, scope, cls, ask, inst, v) in facts
                                             if scope.startswith("AS:") and cls == "SegmentTemplate@startNumber"}))
    if f["clause"] == "X01.patch":
        ids = {}
        for (per, scope, cls, ask, inst, v) in facts:
            if scope.startswith("AS") and cls == "@id":
                ids.setdefault((per, v), []).append(scope)
        dup = sorted({v for (per, v), sc in ids.items() if len(sc) > 1})
        f["dup_as_ids"] = ",".join(dup)
        f["dup_scopes"] = "+".join(sorted({s for (per, v), sc in ids.items() if len(sc) > 1 for s in sc}))


def run(tier, replay=None):
    c = Check("X01", tier)
    c.rule = ("one scenario = one URL configuration (asset / VoD MPD, MPD type Number / SegmentTimeline $Time$ / $Number$, 0-3 documented "
              "parameters) requested from the real server at one instant; the configurations are the seeded concretisation of every element of "
              "the abstract configuration space enumerated by TLC (MpdSignal.tla: every (parameter, value class) singly, every pair of parameters "
              "that may be combined, listed triples); per scenario the served MPD is projected into facts (generic encoding/xml walk) and judged by "
              "every value clause, and for every given parameter compared with the MPD served without it at the same instant (X01.indep); "
              "distinct = distinct abstract configurations")
    c.assumptions = [
        "values stay within the documented / sensible ranges: tsbd 0..172800, mup 1..2e6 s, spd 0..120, start <= request instant, startrel -3600..-1, "
        "stoprel 10..3600 (the event has not stopped), ato below the shortest segment duration (inf only with $Number$ and without chunkdur), "
        "snr -1..100000, ltgt 1..10000, patch 0..120, scte35 1..3, periods with period durations that are multiples of a uniform segment duration; "
        "parameters are combined at most three at a time",
        "utc_ lists are hyphen-separated (configurl.go, strconv.go, the unit tests); urlgen.html calls the list comma-separated - not judged",
        "default UTCTiming: urlgen.html says httpiso, the code comment 'HTTP with ms precision': any single http-iso / http-xsdate element is accepted",
        "UTCTiming values other than their presence (and, for direct, being an xs:dateTime) are deployment constants and not judged",
        "'now' of startrel_/stoprel_ may be rounded down or up to whole seconds",
        "X01.indep compares fact sets; of the differing facts only scope and class matter, the driver records at most 2 per class",
        "period structure itself (number, start, duration of Periods) is C06's subject; X01 judges continuity signalling and independence only",
        "configurations with drm_<package> are requested (with and without each of their parameters) from a second server instance started "
        "with the repository's test DRM configuration (pkg/drm/testdata/drm_config_test.json); the expected encryption scheme is read by the driver from the CPIX files",
    ]
    c.trusted = ["harness/drive/x01 projection of an MPD into facts (generic XML walk, canonical durations / dates) and the set difference of two fact sets",
                 "concretisation of value classes (harness/drive/x01/x01.go) - cross-checked by hdr.admissible against the oracle's reading of the record",
                 "TLC"]
    # (M) + (R): abstract configuration space, oracle sanity on every element, GEN lines
    g = c.model("MpdSignal", f"MpdSignal_{tier}.cfg", workers=4, coverage=False, timeout=1200)
    gens = vlib.tlc_printed_json(g, "GEN")
    sigcls = vlib.tlc_printed_json(g, "SIGCLS")
    if len(gens) < 300 or len(gens) != g.distinct or not sigcls:
        raise MachineryError(f"MpdSignal printed {len(gens)} configurations for {g.distinct} states, SIGCLS={bool(sigcls)}")
    genf, clsf = c.work / "gen.jsonl", c.work / "sigcls.json"
    genf.write_text("".join(json.dumps(x) + "\n" for x in gens))
    clsf.write_text(json.dumps(sigcls[0]))
    # (V) real code
    drive = vlib.build_harness(cmd="x01")
    trace = c.work / "x01.ndjson"
    st = vlib.run_driver(drive, ["-gen", genf, "-sigcls", clsf, "-out", trace, "-work", c.work / "drv", "-seed", c.seed,
                                 "-instants", 2 if tier == "quick" else 3], timeout=3000)
    if tier == "quick":
        r, lines = c.validate_trace("MpdSignal_Trace", trace, timeout=1200)
    else:
        r, lines = c.validate_trace_parallel("MpdSignal_Trace", trace, chunks=6, timeout=3000)
    events = vlib.read_ndjson(trace)
    cfg_at, sig_at = {}, {}
    cfg = sig = None
    for i, e in enumerate(events, 1):
        if e["ev"] == "hdr":
            cfg, sig = e, None
        elif e["ev"] == "sig":
            sig = e
        cfg_at[i], sig_at[i] = cfg, sig
    for f in vlib.bad_to_failures(r, events):
        if f["clause"].startswith("hdr."):
            raise MachineryError(f"trace inconsistent: {f}")
        for k in ("facts", "diff", "c", "e", "parts"):
            f.pop(k, None)
        try:
            d = json.loads(f.get("detail") or "{}")
            if isinstance(d, dict) and f["clause"] == "X01.indep":
                f["ungoverned"] = ";".join(sorted({x[0] + "/" + x[1] for x in d.get("classes", [])}))[:400]
        except (ValueError, TypeError):
            pass
        _discriminators(f, cfg_at[f["line"]], sig_at[f["line"]])
        c.add_failure(f)
    # non-vacuity (machinery): every parameter generated, multi-period MPDs seen, both kinds of event judged
    want = {"tsbd", "mup", "spd", "snr", "start", "ast", "startrel", "stoprel", "utc", "ato", "chunkdur", "ltgt", "patch", "timesubsstpp",
            "timesubswvtt", "scte35", "annexI", "traffic", "periods", "continuous", "eccp", "drm"}
    missing = want - set(st.get("keys", {}))
    nsig = sum(1 for e in events if e["ev"] == "sig" and e["st"] == 200)
    nind = sum(1 for e in events if e["ev"] == "ind" and e["st"] == 200)
    ndiff = sum(1 for e in events if e["ev"] == "ind" and e.get("ndiff", 0) > 0)
    if missing or st.get("multi_period_mpds", 0) == 0 or nsig == 0 or nind == 0 or ndiff == 0:
        raise MachineryError(f"X01 vacuity: missing keys {missing}, multi-period {st.get('multi_period_mpds')}, sig {nsig}, ind {nind}, differing {ndiff}")
    c.traces += st["scenarios"]
    c.events += lines
    c.distinct_nontrivial = st["distinct"]
    c.samples = st.get("samples", [])
    c.extra["abstract_configurations"] = len(gens)
    c.extra["driver"] = {k: st.get(k) for k in ("configs", "sig", "ind", "requests", "multi_period_mpds", "keys", "statuses", "instants")}
    c.extra["served_mpds_judged"] = nsig
    c.extra["independence_comparisons"] = nind
    c.extra["comparisons_with_differences"] = ndiff
    return c.finish()

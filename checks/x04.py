"""X04 (extra specification) - the URL generator (/urlgen) and the URL parser agree."""
import json
import re

import vlib
from vlib import Check, MachineryError

_VERIFY_MSGS = {"period continuity": "continuous", "UTC value keep": "utc", "timeShiftBufferDepth": "tsbd", "minimumUpdatePeriod": "mup", "periods per hour must": "periods",
                "timesubsdur": "timesubsdur", "timesubsreg": "timesubsreg", "stop time": "stop",
                "infinite availabilityTimeOffset": "ato", "SegmentTimelineTime and SegmentTimelineNr": "stl"}
_CONFLICT_FIELD = {"continuous-needs-periods": "continuous", "stop-before-start": "stop", "ato-inf-timeline": "ato"}


def _discriminators(f, hdr, gen, play):
    """Fields that tell the failing input class (for known_findings matching only; the verdict is TLC's)."""
    f["classes"], f["stl"], f["acls"], f["hv"], f["style"] = hdr["classes"], hdr["stl"], hdr["acls"], hdr["hv"], hdr["style"]
    f["form_query"] = (gen or {}).get("q", "")[:300]
    f["generated_url"] = (gen or {}).get("url", "")[:300]
    try:
        d = json.loads(f.get("detail") or "{}")
    except (ValueError, TypeError):
        d = {}
    d = d if isinstance(d, dict) else {}
    badcls = sorted(d.get("badcls", []))
    conflicts = sorted(d.get("conflicts", []))
    f["bad_classes"] = "+".join(badcls)
    f["conflict"] = "+".join(conflicts)
    f["x01_failing"] = "+".join(sorted(d.get("x01", [])))
    f["utc_comma"] = "utc:multi" in hdr["classes"].split("+")
    if play is None or f["clause"] not in ("X04.play.served", "X04.play.config", "X04.err.agree", "X04.err.exclusive"):
        return
    body = play.get("body", "")
    f["status"], f["answer"] = play["st"], body[:200]
    m = re.search(r'key=[\\"]*([A-Za-z]+)', body)
    key = m.group(1) if m else ""
    if not key:
        for msg, fld in _VERIFY_MSGS.items():
            if msg in body:
                key = fld
                break
    f["answer_about"] = key
    badfields = {c.split(":")[0] for c in badcls}
    if key == "utc" and f["utc_comma"] and "utc" not in badfields:
        f["explained"] = "utc-comma"
    elif key and key in badfields:
        f["explained"] = "bad-value"
    elif key and key in {_CONFLICT_FIELD[c] for c in conflicts}:
        f["explained"] = "conflict"
    else:
        f["explained"] = ""


def run(tier, replay=None):
    c = Check("X04", tier)
    c.rule = ("one scenario = one form (asset / VoD MPD, SegmentTemplate variant, 0-3 fields of urlgen.html, request variant) submitted to GET "
              "/urlgen/create of the real server; the forms are the seeded concretisation of every element of the abstract form space enumerated "
              "by TLC (UrlGen.tla: every (field, value class) singly incl. default / 'off' / invalid classes x 3 SegmentTemplate variants, every pair "
              "of fields, listed conflict pairs and triples, the bare form under 4 host variants); per scenario: the returned page read by a tolerant "
              "HTML tokenizer (gen), the shown URL requested from the same server at a fixed instant and its MPD projected into facts (play), and "
              "four further submissions of the same form (other field order, other submission style, the URL's parts read back as form values, the "
              "form the returned page shows); distinct = distinct abstract forms")
    c.assumptions = [
        "in-range values: tsbd 0..172800, mup 1..2e6, spd 0..120, snr -1..100000, periods 1..60 dividing the hour into multiples of the (uniform) segment "
        "duration, ato below the shortest segment duration (inf only with $Number$ and without chunkdur), chunkdur 0.1..1 s, ltgt 1..10000, patch-ttl 1..120, "
        "start before the request instant, stop after it, startrel -3600..-1, stoprel 10..3600, timesubsdur 1..1000, 1-3 languages / traffic patterns, "
        "1-2 annexI pairs, 1-2 statuscode patterns; values contain no '/', '?', '#', '%', '+' or '&'",
        "utc lists are submitted comma-separated as urlgen.html documents them; in the URL the hyphen-separated spelling of the parser and the verbatim "
        "comma-separated one are both accepted by X04.gen.parts (X04.play.served decides)",
        "two spellings of one parameter in one form (start + startrel, stop + stoprel) and startrel together with an absolute stop are not enumerated: "
        "the documentation does not say what they mean together",
        "a 'bad' value that the generator accepts must only not be answered 400 (X04.err.agree); periods 61..3600 and a hyphen-separated utc list are "
        "'bad' (outside urlgen.html's wording) although the parser accepts them",
        "X-Forwarded-Proto / X-Forwarded-Host are not documented: URLs following the Host header or the forwarded values are both accepted",
        "the drm radio group exists only with a DRM configuration: every form goes to a server started with the repository's test DRM configuration "
        "(pkg/drm/testdata/drm_config_test.json); the --host variant goes to a second server with --host set",
        "X04.play.config reuses the value clauses of X01 (MpdSignalOps.Failing) with the driver's semantic reading of the form; stop, timesubsdur, "
        "timesubsreg and statuscode are not visible in the MPD at the request instant and are bound by X04.gen.parts only",
        "X04.stable.form is judged for admissible forms that got their URL (after a rejection the offending field is shown reset)",
    ]
    c.trusted = ["harness/drive/x04/html.go (golang.org/x/net/html tokenizer: URL= lines, Play links, message lines, form controls as a browser submits them)",
                 "harness/drive/x01 projection of an MPD into facts; spec/MpdSignalOps.tla value clauses (X01)",
                 "concretisation of value classes and of the semantic record m (harness/drive/x04/x04.go) - cross-checked by hdr.admissible "
                 "(ToString(n) = v, v = Join(vs), KeysOf(m) = XKeys(form), MAgrees)",
                 "splitting of the shown URL at /livesim2/ into prefix, path parts and query", "TLC"]
    # (M) + (R): abstract form space, oracle sanity on every element, GEN lines
    g = c.model("UrlGen", f"UrlGen_{tier}.cfg", workers=4, coverage=False, timeout=1200)
    gens = vlib.tlc_printed_json(g, "GEN")
    sigcls = vlib.tlc_printed_json(g, "SIGCLS")
    if len(gens) < 300 or len(gens) != g.distinct or not sigcls:
        raise MachineryError(f"UrlGen printed {len(gens)} forms for {g.distinct} states, SIGCLS={bool(sigcls)}")
    genf, clsf = c.work / "gen.jsonl", c.work / "sigcls.json"
    genf.write_text("".join(json.dumps(x) + "\n" for x in gens))
    clsf.write_text(json.dumps(sigcls[0]))
    # (V) real code
    drive = vlib.build_harness(cmd="x04")
    trace = c.work / "x04.ndjson"
    st = vlib.run_driver(drive, ["-gen", genf, "-sigcls", clsf, "-out", trace, "-work", c.work / "drv", "-seed", c.seed,
                                 "-reps", 1 if tier == "quick" else 3], timeout=3000)
    if tier == "quick":
        r, lines = c.validate_trace("UrlGen_Trace", trace, timeout=1200)
    else:
        r, lines = c.validate_trace_parallel("UrlGen_Trace", trace, chunks=6, timeout=3000)
    events = vlib.read_ndjson(trace)
    at = {}
    hdr = gen = play = None
    for i, e in enumerate(events, 1):
        if e["ev"] == "hdr":
            hdr, gen, play = e, None, None
        elif e["ev"] == "gen":
            gen = e
        elif e["ev"] == "play":
            play = e
        at[i] = (hdr, gen, play)
    for f in vlib.bad_to_failures(r, events):
        if f["clause"].startswith("hdr."):
            raise MachineryError(f"trace inconsistent: {f}")
        for k in ("facts", "eurl", "form", "m", "e", "req", "path", "fb", "msgs"):
            f.pop(k, None)
        _discriminators(f, *at[f["line"]])
        c.add_failure(f)
    # non-vacuity (machinery): every field generated, URLs and rejections seen, MPDs judged, every kind of resubmission made
    want = {"tsbd", "mup", "spd", "utc", "snr", "periods", "continuous", "ato", "chunkdur", "ltgt", "patch-ttl", "scte35", "start", "stop", "startrel",
            "stoprel", "timesubsstpp", "timesubswvtt", "timesubsdur", "timesubsreg", "drm", "annexI", "statuscode", "traffic"}
    missing = want - set(st.get("fields", {}))
    hvs = {e["hv"] for e in events if e["ev"] == "hdr"}
    njudged = sum(1 for e in events if e["ev"] == "play" and e["st"] == 200 and e["perr"] == "" and e["facts"])
    kinds = st.get("stab", {})
    if (missing or hvs != {"plain", "https", "fwd", "cfg"} or st.get("pages", {}).get("url", 0) == 0 or njudged == 0
            or any(kinds.get(k, 0) == 0 for k in ("order", "style", "feedback", "form"))):
        raise MachineryError(f"X04 vacuity: missing fields {missing}, host variants {hvs}, pages {st.get('pages')}, judged MPDs {njudged}, stab {kinds}")
    c.traces += st["scenarios"]
    c.events += lines
    c.distinct_nontrivial = st["distinct"]
    c.samples = st.get("samples", [])
    c.extra["abstract_forms"] = len(gens)
    c.extra["driver"] = {k: st.get(k) for k in ("forms", "requests", "played", "pages", "play_status", "stab", "fields", "instants")}
    c.extra["served_mpds_judged"] = njudged
    c.extra["pages_with_url"] = st["pages"].get("url", 0)
    c.extra["pages_rejected_with_message"] = st["pages"].get("rejected", 0)
    return c.finish()

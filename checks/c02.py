"""C02 - the live MPD and the segment server agree on what is available.
(Shares driver and trace specification with C05; each check reports only its own clauses.)"""
import re

import vlib
from vlib import Check, MachineryError

RULE = ("one mpd event per (scenario, instant) + fetch events for segments derived from that MPD at the same instant (first, second, "
        "middle, last two entries and the one after the live edge; for $Number$ templates the numbers around both edges of the "
        "declared set); scenario = (asset, AdaptationSet kind video/text/image, MPD type, startNumber, start time, tsbd, ato); "
        "instants = every availability breakpoint and window edge +-1 ms over the first loops, at wrap 2 and 1000 and in the "
        "year-2025 range, plus seeded instants in between; distinct = distinct scenarios")


_S_RE = re.compile(r'"S":\[(\[.*?\])\],')
_R_RE = re.compile(r',(\d+)\]')


def _cost(line):
    """Estimated cost of validating one event: an MPD event costs as much as its expanded SegmentTimeline is long."""
    if '"ev":"mpd"' not in line:
        return 1
    m = _S_RE.search(line)
    if not m:
        return 2
    return 2 + sum(int(x) + 1 for x in _R_RE.findall(m.group(1)))


def run_mpd(prop, tier, dense):
    c = Check(prop, tier)
    c.rule = RULE + ("; dense sweeps (-3..+3 ms around breakpoints, 97 ms steps in between)" if dense else "")
    c.assumptions = ["timeline MPDs are swept with tsbd <= 60 s (the expanded list is compared entry by entry)",
                     "audio AdaptationSets are decided by C03 (re-segmentation grid)",
                     "C02.first is one-sided: listing fewer old segments is never flagged"]
    c.trusted = ["encoding/xml MPD parse and mp4ff decode in the recorder", "asset ground truth", "TLC"]
    c.model("LiveTimeline_MC", f"LiveTimeline_{tier}.cfg", workers=4, required_actions=("Tick",))
    drive = vlib.build_harness(cmd="c02")
    trace = c.work / "mpd.ndjson"
    args = ["-out", trace, "-work", c.work, "-seed", c.seed] + (["-thorough"] if tier == "thorough" else []) + (["-dense", "-nofetch"] if dense else [])
    st = vlib.run_driver(drive, args, timeout=3000)
    r, lines = c.validate_trace_parallel("LiveMpd_Trace", trace, chunks=14 if tier == "quick" else 84, workers=14, timeout=3000, cost=_cost)
    events = vlib.read_ndjson(trace)
    hdr, last_mpd = None, None
    ctx = {}
    for i, e in enumerate(events, 1):
        if e["ev"] == "hdr":
            hdr = e
        if e["ev"] == "mpd":
            last_mpd = e
        ctx[i] = (hdr, last_mpd)
    other = 0
    for f in vlib.bad_to_failures(r, events):
        h, m = ctx.get(f["line"]) or ({}, {})
        h = h or {}
        for k in ("asset", "rep", "kind", "mode", "snr", "ast", "tsbd", "ato", "cfg", "TS", "vod0"):
            f.setdefault(k, h.get(k))
        if h.get("refvod0"):   # first decode time of the asset's reference (video) track, also for audio scenarios
            f["vod0"] = h["refvod0"]
        if m:
            f.setdefault("rel", m.get("rel"))
        if f["clause"].startswith("hdr."):
            raise MachineryError(f"bad scenario header: {f}")
        if f["clause"].startswith(prop + "."):
            c.add_failure(f)
        else:
            other += 1
    c.extra["failures_of_the_sibling_property_in_this_trace"] = other
    c.traces += st["scenarios"]
    c.events += lines
    c.distinct_nontrivial = st["distinct"]
    c.samples = st.get("samples", [])
    c.extra["mpds"] = st["mpds"]
    c.extra["fetches"] = st["fetches"]
    return c.finish()


def run(tier, replay=None):
    return run_mpd("C02", tier, dense=False)

"""X08 (extra specification) - server configuration layering: defaults < --cfg JSON file < command-line flags < LIVESIM_* environment,
the derivations of LoadConfig (absolute paths, repdataroot + / -, domains => port 443), rejection of invalid TLS combinations and
ill-typed values, independence of flag order, purity of LoadConfig."""
import json

import vlib
from vlib import Check, MachineryError

_ORDER = ["file", "flag", "env"]


def _discriminators(f, ev):
    """Fields that tell the failing input class (known_findings matching only; the verdict is TLC's)."""
    try:
        d = json.loads(f.get("detail") or "{}")
    except (ValueError, TypeError):
        d = {}
    d = d if isinstance(d, dict) else {}
    key = d.get("key", "")
    f["key"], f["got"], f["want"] = key, d.get("got"), d.get("want")
    layers = {ln: {k for k, _ in ev.get(ln, [])} for ln in _ORDER}
    f["key_layers"] = "+".join(ln for ln in _ORDER if key in layers[ln])
    f["top_layer"] = next((ln for ln in reversed(_ORDER) if key in layers[ln]), "default")
    # keys whose JSON name has an upper-case letter, set through the environment (LIVESIM_LIVEWINDOWS, LIVESIM_TIMEOUTS)
    f["env_mixed_case_keys"] = "+".join(sorted(k for k in layers["env"] if k != k.lower()))
    f["scenario_kind"] = ev.get("kind")
    f["layers"] = json.dumps({ln: ev.get(ln, []) for ln in _ORDER})[:400]
    f["err"] = (ev.get("o") or {}).get("err")
    for k in ("o", "o2", "op", "ob", "file", "flag", "env"):
        f.pop(k, None)


def run(tier, replay=None):
    c = Check("X08", tier)
    c.rule = ("one scenario = one assignment of string values to (key, layer) cells, 18 keys of ServerConfig x {JSON file given with --cfg, "
              "command-line flag, LIVESIM_ environment variable}: the empty assignment, every (key, layer, value) singly (ill-typed values of "
              "integer / boolean keys included), every key in every 2 or 3 layers with different values, repdataroot x vodroot x writerepdata, "
              "domains x certpath x keypath x port (unset / empty / set) in seeded layers, and seeded random assignments of 2-6 cells; per "
              "scenario the real app.LoadConfig is called four times (scenario, same inputs again, flags and variables reversed, afterwards "
              "with no layer) with the environment restored after each call; distinct = distinct assignments")
    c.assumptions = [
        "precedence as the doc comment of LoadConfig states it: defaults, config file, command line, 'and finally' environment variables (the "
        "environment wins over the command line)",
        "defaults are the documented ones (port 8888, logformat text, loglevel INFO, livewindowS 300, timeoutS 60, maxrequests 0, reqlimitint "
        "86400, vodroot ./vod, repdataroot +, writerepdata false, dash.js reference player URL), written in spec/ConfigOps.tla",
        "an ill-typed value shadowed by a higher layer may or may not be rejected; an empty string set in a higher layer is a value (it overrides)",
        "'Make drmconfig absolute': the verbatim and the absolute drmcfgfile are both accepted (the key named in the code does not exist)",
        "the content of the DRM configuration file is not read by LoadConfig (start.go does) - out of scope; unknown keys / unknown flags not enumerated",
    ]
    c.trusted = ["harness/drive/x08: writing the JSON file (integers / booleans as JSON numbers / booleans), os.Setenv / Unsetenv, projection of "
                 "ServerConfig to (key, string) pairs, path.Clean(cwd + '/' + v) for the absolute form of path tokens", "TLC"]
    g = c.model("Config", f"Config_{tier}.cfg", workers=2, coverage=False, timeout=900)
    drive = vlib.build_harness(cmd="x08")
    trace = c.work / "x08.ndjson"
    st = vlib.run_driver(drive, ["-out", trace, "-work", c.work / "drv", "-seed", c.seed, "-random", 300 if tier == "quick" else 6000], timeout=600)
    r, lines = c.validate_trace("Config_Trace", trace, timeout=900)
    events = vlib.read_ndjson(trace)
    for f in vlib.bad_to_failures(r, events):
        if f["clause"].startswith("hdr."):
            raise MachineryError(f"trace inconsistent: {f}")
        _discriminators(f, events[f["line"] - 1])
        c.add_failure(f)
    xs = vlib.tlc_printed_json(r, "X08STATS")
    oc = st.get("outcomes", {})
    if (not xs or xs[0]["judged"] + xs[0]["rejected"] != st["scenarios"] or xs[0]["judged"] < 300 or xs[0]["derived"] < 300
            or st["cells_covered"] != st["cells_total"] or min(oc.get(k, 0) for k in ("accepted", "parse", "tls", "value")) == 0
            or oc.get("panic", 0)):
        raise MachineryError(f"X08 vacuity: TLC {xs}, driver {st}")
    c.traces += st["scenarios"]
    c.events += lines
    c.distinct_nontrivial = st["distinct"]
    c.samples = st.get("samples", [])
    c.extra["model"] = {"distinct_states": g.distinct}
    c.extra["driver"] = {k: st.get(k) for k in ("calls", "kinds", "outcomes", "cells_covered", "cells_total")}
    c.extra["judged"] = xs[0]
    return c.finish()

"""C06 - splitting into periods preserves the timeline and the segment identities."""
import json

import vlib
from vlib import Check


def run(tier, replay=None):
    c = Check("C06", tier)
    c.rule = ("one event per instant: the single-period and the multi-period (periods_P) MPD fetched at the same nowMS, both expanded to "
              "explicit segment lists per AdaptationSet (SegmentTimeline entries, or SegmentTemplate@duration expanded by the DASH rules over "
              "the time-shift window), every listed segment fetched through the URL derived from its MPD; scenario = (asset / MPD incl. "
              "thumbnail and subtitle AdaptationSets and variable-duration layouts, MPD type Number/segtimeline/segtimelinenr, P from 1..60, "
              "120..3600 accepted for the asset + P that must be refused, continuous_1 on/off, tsbd, startNumber option none / snr_0 / snr_1 / snr_7 / snr_-1 (no attribute = the DASH default 1), generated "
              "subtitle AdaptationSets timesubsstpp_/timesubswvtt_ with 1-2 languages, availabilityStartTime 0 / 1000 / 3600 / 2023); the three MPD types of one (asset, P) are requested one after the other on one long-running "
              "server in an order rotating over all six permutations, and every scenario is visited a second time in reverse order (history); "
              "P includes values that do not divide 3600 (period grid off the hour grid) with period numbers up to P+1 and beyond; instants: near "
              "availabilityStartTime, period boundary / window edge / loop wrap and their coincidences (multiples of lcm(PD, loop)) -1/0/+1 ms, "
              "early and in 2023-2025, first segment after a wrap, seeded; distinct = distinct (asset, MPD, type, P, continuity, instant class)")
    c.assumptions = [
        "period duration is floor(3600/P) seconds; refusal is demanded only when the asset has one segment duration (reference track uniform) and "
        "the period duration is a multiple of neither the exact duration nor the nominal duration of any track, under the floor and the exact reading of 3600/P",
        "the reference is the single-period MPD of the same server at the same instant (the property is relative); only its segments whose start lies at or "
        "after the first period's start are required",
        "period-continuity: when requested every period with a predecessor in the MPD must signal it on every AdaptationSet (the first listed period is free); "
        "when not requested no AdaptationSet may signal it",
        "C06.pt (Number mode publishTime = start of the last period) follows the property's anchor 'publishTime in multi-period Number mode' and DESIGN.md",
        "a segment URL is compared only where the single-period URL is answered 200",
        "every AdaptationSet present in the single-period MPD (audio, video, VoD text / image, generated subtitles) is judged in every period by the same clauses; "
        "an absent SegmentTemplate@startNumber is read as 1; the tie between declared media time and the tfdt of the delivered segment is relative "
        "(same bytes as through the single-period URL), the absolute tie is C02's",
        "C06.history: the property quantifies over histories; besides judging every answer by all clauses, the acceptance (200 / refused) of the same "
        "URL at the same instant must be the same in both passes over one server",
        "availabilityStartTime != 0 (start_): the text does not say whether the period grid is anchored at availabilityStartTime or at the epoch; C06.tile accepts "
        "both; 'tile wall-clock time' is read as: the generated periods do not all lie in the future of the request instant (C06.cover: first Period@start <= now - AST)",
    ]
    c.trusted = ["encoding/xml MPD reader and DASH list expansion of the recorder", "asset generator ground truth / independent VoD parse (header)", "TLC"]
    jobs = [("Periods_MC", f"Periods_{tier}.cfg", dict(workers=4, required_actions=("Tick",))),
            ("Periods_MC", "Periods_noreject.cfg", dict(workers=1, expect="violation", expect_violated=("InvPartitionNrAlways",), coverage=False))]
    res = c.models(jobs, parallel=2)
    if res[1].status == "ok":
        raise vlib.MachineryError("Periods_noreject: the model does not show why the refusal rule is needed")
    c.exhaustive = False
    drive = vlib.build_harness(cmd="c06")
    trace = c.work / "c06.ndjson"
    args = ["-out", trace, "-work", c.work, "-seed", c.seed] + (["-thorough"] if tier == "thorough" else [])
    st = vlib.run_driver(drive, args, timeout=3000)
    r, lines = c.validate_trace("Periods_Trace", trace, timeout=3000)
    events = vlib.read_ndjson(trace)
    hdr = None
    hdr_at = {}
    nreq = nrefused_demanded = 0
    for i, e in enumerate(events, 1):
        if e["ev"] == "hdr":
            hdr = e
        hdr_at[i] = hdr
    for f in vlib.bad_to_failures(r, events):
        h = hdr_at.get(f["line"]) or {}
        for k in ("asset", "mpd", "mode", "snr", "snropt", "subs", "P", "cont", "tsbd", "ast", "cfg", "uniform", "probe", "repeat"):
            f.setdefault(k, h.get(k))
        try:
            d = json.loads(f.get("detail") or "{}")
            if isinstance(d, dict):
                for k in ("ct", "rep", "kind", "why", "nbad"):
                    if k in d:
                        f.setdefault(k, d[k])
        except (ValueError, TypeError):
            pass
        f["segms_differ"] = len(set(h.get("segms") or [])) > 1
        f.pop("as", None)
        f.pop("pers", None)
        c.add_failure(f)
    # non-vacuity (machinery): accepted multi-period MPDs with more than one period, refused ones, required segments
    multi = sum(1 for e in events if e["ev"] == "mpd" and e.get("acc") and e.get("parse") and len(e.get("pers", [])) > 1)
    refused = sum(1 for e in events if e["ev"] == "mpd" and e.get("stP") != 200)
    req = sum(1 for e in events if e["ev"] == "mpd" and e.get("acc") and e.get("parse")
              for a in e.get("as", []) for x in a.get("one", []) if x[0] >= 0)
    tmpl = sum(1 for e in events if e["ev"] == "mpd" and e.get("acc") and e.get("parse") for a in e.get("as", []) if a.get("tmpl"))
    # (a refusal that never happens is a C06.reject violation, not vacuity: only judged when nothing failed)
    hp = {}
    h = None
    nondiv = repeated = 0
    for e in events:
        if e["ev"] == "hdr":
            h = e
        elif e.get("acc") and e.get("parse"):
            nondiv += 3600 % h["P"] != 0 and len(e.get("pers", [])) > 1
            repeated += bool(h.get("repeat"))
    c.extra["accepted_mpds_P_not_dividing_3600_several_periods"] = nondiv
    c.extra["accepted_mpds_second_pass"] = repeated
    if not c.failures and (nondiv == 0 or repeated == 0):
        raise vlib.MachineryError(f"C06 vacuity: nondiv={nondiv} repeated={repeated}")
    if not c.failures and (multi == 0 or refused == 0 or req == 0 or tmpl == 0):
        raise vlib.MachineryError(f"C06 vacuity: multi={multi} refused={refused} required_segments={req} template_sets={tmpl}")
    c.traces += st["scenarios"]
    c.events += lines
    c.distinct_nontrivial = st["distinct"]
    c.samples = st.get("samples", [])
    for k in ("mpd_pairs", "accepted", "refused", "segments_fetched", "requests", "variants", "instant_classes"):
        c.extra[k] = st.get(k)
    c.extra["mpds_with_several_periods"] = multi
    c.extra["required_single_period_segments"] = req
    return c.finish()

"""C15 - the representation-metadata cache never changes what is served."""
import json
from concurrent.futures import ThreadPoolExecutor

import vlib
from vlib import Check, MachineryError


def run(tier, replay=None):
    c = Check("C15", tier)
    c.rule = ("one scenario = one TLC-generated behaviour of RepCache (metadata root same/separate/disabled x sequence of "
              "Start(write) / Damage(rep, truncated|garbage|empty|plainjson) / Remove(rep) over two representations) replayed on "
              "real directories with one real server instance per Start; every instance answers a fixed pool (MPDs of the 3 types "
              "at 2-3 instants, ClearKey eccp_cbcs/eccp_cenc MPD+init+media, init, video+audio media over a loop + wrap, $Time$ media, far-from-epoch numbers, text/thumbnails, "
              "asset listing) and is compared per asset with the scanning server of the same VoD root; the two model "
              "representations are mapped to 8 rotating pairs of real representations (bundled / generated / inadmissible "
              "assets); distinct = distinct (behaviour, mapping)")
    c.assumptions = ["'served identically' = same status and same body bytes for every pool request and the same entry in /assets "
                     "(headers are not compared); 'absent' = every pool request 404 and no entry in /assets",
                     "a damaged or partial metadata set may leave the asset out or be repaired by scanning (both readings accepted); "
                     "a complete set, no set, write mode and a disabled root must give the scanning server's answers",
                     "C15.idem is demanded for write-mode starts with no file action in between",
                     "C15.contig is decided (a) on the first tfdt and the summed sample durations of the served segments 0..N+1 (not for "
                     "the video of g_gap, whose first segment's samples legally end before the second segment starts) and (b) on the "
                     "SegmentTimeline the server declares: every declared entry is served (200) with tfdt = declared t, entries contiguous "
                     "(scanning server and read-mode instances)",
                     "the reference is the scanning server (no metadata root) of the same VoD root, as the property defines it; the "
                     "$Time$ values of audio requests are read from its MPD (inputs only)",
                     "(c) far from the epoch: video segment k*N+j of a generated admissible asset is served at k*L + start(j) exactly, L, N, "
                     "start(j) by construction; within one window all true times are < 2^31 ticks apart, a larger spread counts as not contiguous",
                     "metadata damage includes well-formed JSON with one field (every top-level field, every field of the first/last "
                     "segment entry, whole entries) replaced by a value of another type / negative / out of range / fractional / null / nested",
                     "metadata damage at the compression level: single-bit flips of the written .gz (header, deflate blocks, CRC-32, ISIZE; "
                     "thorough: every byte of four files, quick: a seeded sample) and valid gzip of a document with one plausible numeric "
                     "change of the table under the original (stale) CRC/ISIZE trailer",
                     "duration-disagreement layouts: same-type representations of 8000 / 6000 ms in two AdaptationSets of one MPD or in two "
                     "MPDs of one directory must be left out in every mode (README 'Content' / consolidateAsset), the 8000 / 8000 ms controls "
                     "served; video 8000 ms + audio 6016 ms (d_va) is left open by text and documentation: every mode must answer exactly "
                     "like the scanning server",
                     "admissibility ground truth is by construction of the generated layouts (loop ticks * 1000 mod timescale; "
                     "two video representations of 4 s and 3 s)"]
    c.trusted = ["harness/drive/c15 recorder (request pool, per-class digests, file damage)", "harness/assetgen", "TLC"]
    quick = tier == "quick"
    # (M) consequences of the oracle on the oracle machine, every permitted outcome explored
    c.model("RepCache_MC", f"RepCache_{tier}.cfg", workers=4, timeout=1500,
            required_actions=("Start", "Damage", "Remove"))
    # (R) every action sequence of the machine (length 4 / 5, ending in a Start)
    g = c.model("RepCache_MC", f"RepCache_gen_{tier}.cfg", workers=1, coverage=False, timeout=1500)
    beh = vlib.tlc_printed_json(g, "GEN")
    if not beh:
        raise MachineryError("RepCache generator produced no behaviours")
    genf = c.work / "gen.jsonl"
    with open(genf, "w") as f:
        for b in beh:
            f.write(json.dumps(b) + "\n")
    drive = vlib.build_harness(cmd="c15")
    n, workers = (130, 8) if quick else (5000, 8)
    st = vlib.run_driver(drive, ["-out", c.work / "c15", "-gen", genf, "-work", c.work / "run", "-seed", c.seed,
                                 "-n", n, "-workers", workers] + ([] if quick else ["-thorough"]), timeout=3000)
    # vacuity guards (machinery, never a verdict)
    if not st.get("probe_cache_is_read"):
        raise MachineryError("vacuity: the metadata files are not read by the server under test")
    for k in ("scan", "absent"):
        if st["outcomes"].get(k, 0) == 0:
            raise MachineryError(f"vacuity: no asset outcome '{k}' observed: {st['outcomes']}")
    if st["cache_read_instances"] == 0 or st["full_contig_windows"] == 0 or st["full_declared_timelines"] == 0 \
            or st["far_exact_checks"] == 0 or st["type_damage_instances"] == 0:
        raise MachineryError(f"vacuity: no read-mode instance / no complete contiguity window: {st}")
    traces = st["traces"]

    def one(tp):
        return tp, c.validate_trace("RepCache_Trace", tp, timeout=3000, heap="4g")

    seen = {"ref": 0, "hdr": 0, "damage": 0, "remove": 0, "start": 0, "asset": 0, "tl": 0, "mtl": 0, "far": 0, "files": 0}
    idem_compared = 0
    with ThreadPoolExecutor(max_workers=len(traces)) as ex:
        results = list(ex.map(one, traces))
    for tp, (r, lines) in results:
        events = vlib.read_ndjson(tp)
        hdr_at, cur = {}, None
        wvalid = False
        variants, var_at = {}, {}      # rep -> variant of its current damage (for classifying failures by input class)
        for i, e in enumerate(events, 1):
            seen[e["ev"]] = seen.get(e["ev"], 0) + 1
            if e["ev"] == "hdr":
                cur, wvalid, variants = e, False, {}
            elif e["ev"] in ("damage", "remove"):
                wvalid = False
                variants = dict(variants)
                if e["ev"] == "damage":
                    variants[e["rep"]] = e.get("variant", "")
                else:
                    variants.pop(e["rep"], None)
            elif e["ev"] == "start" and e["write"] and (cur or {}).get("root") != "disabled":
                variants = {}
            elif e["ev"] == "files" and e["write"]:
                idem_compared += 1 if wvalid else 0
                wvalid = True
            var_at[i] = variants
            hdr_at[i] = cur
        for f in vlib.bad_to_failures(r, events):
            h = hdr_at.get(f["line"]) or {}
            f["behaviour"] = h.get("desc")
            f["map"] = h.get("map")
            f["trace"] = str(tp).split("/")[-1]
            try:
                d = json.loads(f.get("detail") or "{}")
            except json.JSONDecodeError:
                d = {}
            if isinstance(d, dict):
                for k in ("asset", "outcome", "root", "write", "adm", "corrupt", "kinds", "rep", "kind", "first_bad"):
                    if k in d:
                        f[k] = d[k]
            # the damage variants of the failing asset's files; wellformed_accepted: a well-formed JSON document whose
            # damaged value is null, an entry of unknown shape or a negative signed timescale (encoding/json accepts these without an error)
            vs = sorted(v for r_, v in (var_at.get(f["line"]) or {}).items() if r_.split("/")[0] == f.get("asset"))
            f["variants"] = vs
            f["wellformed_accepted"] = any(v.startswith("typed:") and (v.endswith("=null") or v.endswith('=[{"a":[1]}]')
                                                                       or v in ("typed:mediaTimescale=-3", "typed:mpdTimescale=-3")) for v in vs)
            f.pop("cls", None)
            c.add_failure(f)
        c.events += lines
    for k, v in seen.items():
        if v == 0:
            raise MachineryError(f"vacuity: no '{k}' event in the traces ({seen})")
    if idem_compared == 0:
        raise MachineryError("vacuity: C15.idem never compared two write-mode starts")
    c.traces += st["scenarios"]
    c.distinct_nontrivial = st["distinct"]
    c.samples = st.get("samples", [])
    c.exhaustive = st["scenarios"] == st["behaviours_available"]
    c.extra.update({"replayed_tlc_behaviours": st["scenarios"], "tlc_behaviours_available": st["behaviours_available"],
                    "server_instances": st["instances"], "read_mode_instances_with_root": st["cache_read_instances"],
                    "requests": st["requests"], "pool_per_instance": st["pool"], "asset_outcomes": st["outcomes"],
                    "complete_contiguity_windows": st["full_contig_windows"], "complete_declared_timelines": st["full_declared_timelines"], "far_exact_checks": st["far_exact_checks"],
                    "type_damage_instances": st["type_damage_instances"], "type_damage_fields": st["type_damage_fields"], "idem_comparisons": idem_compared,
                    "events_by_type": seen, "damage_on_unusable_file": st.get("damage_on_unusable_file", 0), "assets": st["assets"], "driver_wall_s": st["_wall_s"]})
    return c.finish()

"""C05 - the MPD only moves forward, and publishTime identifies its content (driver/trace spec shared with C02)."""
import c02


def run(tier, replay=None):
    return c02.run_mpd("C05", tier, dense=True)

"""X06 (extra specification) - the CMAF-ingest receiver applies its configuration per channel: authentication, per-channel
settings (startNr, timeShiftBufferDepthS, receiveNrRawSegments, ignore), raw-segment capture, URL forms and stream matching.
Property text: top of spec/ReceiverCfgOps.tla."""
import json
import shutil
import tempfile

import vlib
from vlib import Check, MachineryError


def _entry(cfg, ch):
    for e in cfg["chans"]:
        if e["name"] == ch:
            return e
    return None


def _enrich(f, ev, hdr):
    """Input class of the failing observation (for known-finding classification only; the verdict is TLC's): fields of the
    abstract request, the oracle's class quoted in the clause detail, and where the channel's settings come from."""
    cfg = hdr["cfg"]
    f["gen"] = hdr["gen"]
    f["focus"] = hdr["focus"]
    f["nested"] = hdr["nested"]
    rq = ev.get("rq") if isinstance(ev.get("rq"), dict) else None
    ch = ev.get("ch") or None
    if rq:
        for k in ("kind", "form", "m", "credCls", "track", "big"):
            f[k] = rq[k]
        f["rch"] = rq["ch"]
        ch = rq["ch"]
    kv = {}
    try:
        det = json.loads(f.get("detail", "null"))
        if isinstance(det, list):
            kv = {det[i]: det[i + 1] for i in range(0, len(det) - 1, 2) if isinstance(det[i], str)}
    except Exception:
        det = None
    for k in ("cls", "auth"):
        if k in kv:
            f[k] = kv[k]
    if "ch" in kv and isinstance(kv["ch"], str):
        ch = kv["ch"]
    if ch in ("A", "B", "U"):
        e = _entry(cfg, ch)
        f["chan"] = ch
        f["hasEntry"] = e is not None
        f["rawSrc"] = "entry" if e and e["raw"] else ("global" if cfg["defRaw"] else "none")
        f["tsbdSrc"] = "entry" if e and e["tsbd"] else "global"
        own = bool(e and (e["user"] or e["pswd"]))
        glob = bool(cfg["defUser"] or cfg["defPswd"])
        f["credSrc"] = "own+global" if own and glob else "own" if own else "global" if glob else "none"
        f["startNr"] = e["startNr"] if e else 0
    if f["clause"] == "X06.store.inside" and isinstance(det, list):
        names = [x[2] for x in det if isinstance(x, list) and len(x) > 2]
        f["outside"] = "dotdot" if names and all("/esc" in n for n in names) else "other"
    if f["clause"] in ("X06.store.place", "X06.auth.notrace", "X06.mpd.stored") and "delta" in kv:
        out = [x for x in kv["delta"] if isinstance(x, list) and len(x) > 5 and not x[5]]
        f["strayCwd"] = bool(out) and all(str(x[2]).startswith("cwd:") for x in out)
    return f


def run(tier, replay=None):
    c = Check("X06", tier)
    c.rule = ("one scenario = one abstract receiver configuration enumerated by TLC (ReceiverCfg.tla, GEN lines): global default credentials "
              "(none / user+password / user only / password only), -tsbd, -recRawNr, 0-2 channel entries (credential class none / both / user "
              "only / password only / shared, startNr 0/1, timeShiftBufferDepthS unset/set, receiveNrRawSegments unset/2, ignore, an ignored "
              "representation), a focus channel (configured A / B or the unconfigured U) and a script of 17-45 requests against it and a "
              "bystander channel: wrong password / no / wrong user / other channel's / global / empty-password / malformed credentials, MPD "
              "uploads before and after the channel exists, init + media rounds long enough to pass the time shift buffer or the raw limit, "
              "both documented URL forms alternating with PUT/POST, names outside the forms, DELETE/GET/HEAD.  The driver writes the "
              "configuration as the documented JSON config file, starts a fresh receiver per run through the real router, uploads real fMP4 "
              "and records status, challenge, created channel objects and the digest-level difference of the whole sandbox tree per request; "
              "each scenario is repeated against a receiver holding only the channel's effective settings (run cfg) and, every third one (all "
              "in thorough), with URL forms and methods swapped (run forms).  distinct = distinct (configuration, focus, flip); an evaluation "
              "= one trace event (request with tree delta, MPD written by the receiver, final tree)")
    c.assumptions = ["effective credentials: per field or per pair - where the readings disagree 401 and not-401 are both accepted",
                     "senders number their segments consistently with time and the effective startNr (time/number shifting is X02's subject)",
                     "raw capture: names of raw files, the status of uploads beyond the limit and uploads < 4096 bytes beyond it are not judged",
                     "X06.tsbd.bound / .timeline allow one segment more than the receiver keeps (tsbd/D + 3)",
                     "unauthorised requests to ignored channels may be answered 200 or 401; DELETE without credentials 2xx or 401",
                     "names with two components (no channel) and with '..' are only held to X06.store.place / X06.store.inside",
                     "requests go through Router.ServeHTTP (no TCP): net/http's server does not rewrite paths for a non-ServeMux handler either"]
    c.trusted = ["mp4ff encoder/decoder and harness/drive/x02 seglib used to build and read back segments", "encoding/json, encoding/xml, os file tree walk of the driver",
                 "harness/drive/x06 syntactic classification of paths", "TLC"]
    wk = 4
    q = tier == "quick"
    jobs = [("ReceiverCfg_MC", "ReceiverCfg_quick.cfg" if q else "ReceiverCfg_thorough.cfg", dict(workers=wk, required_actions=("Step",))),
            ("ReceiverCfg_MC", "ReceiverCfg_two_quick.cfg" if q else "ReceiverCfg_two_thorough.cfg", dict(workers=wk, required_actions=("Step",)))]
    witnesses = ["NeverUnauth", "NeverEither", "NeverRemoved", "NeverRawLimit", "NeverCrossOpen"]
    jobs += [("ReceiverCfg_MC", f"ReceiverCfg_witness_{w}.cfg", dict(workers=1, expect="violation", expect_violated=(w,), coverage=False)) for w in witnesses]
    gen_cfgs = ["ReceiverCfg_gen1.cfg", "ReceiverCfg_gen2.cfg", "ReceiverCfg_gen_tsbd.cfg"] + ([] if q else ["ReceiverCfg_gen3_thorough.cfg", "ReceiverCfg_gen4_thorough.cfg"])
    ngen0 = len(jobs)
    jobs += [("ReceiverCfg_MC", g, dict(workers=2, coverage=False)) for g in gen_cfgs]
    res = c.models(jobs, parallel=4 if q else 3)
    for r, w in zip(res[2:2 + len(witnesses)], witnesses):
        if w not in r.violated:
            raise MachineryError(f"model vacuity: witness {w} not reached")
    c.exhaustive = False
    scen = []
    for r in res[ngen0:]:
        scen += vlib.tlc_printed_json(r, "GEN")
    scen.sort(key=lambda s: json.dumps(s, sort_keys=True))   # TLC workers print in any order: the seed must select the same scenarios
    if len(scen) < 500:
        raise MachineryError(f"ReceiverCfg produced only {len(scen)} scenarios")
    genf = c.work / "gen.jsonl"
    with open(genf, "w") as f:
        for s in scen:
            f.write(json.dumps(s) + "\n")
    c.extra["scenario_pool"] = len(scen)
    # (R)/(V) real code
    drive = vlib.build_harness(cmd="x06")
    trace = c.work / "x06.ndjson"
    pick = 380 if q else 6000
    tmp = tempfile.mkdtemp(prefix="x06-", dir="/dev/shm" if shutil.os.path.isdir("/dev/shm") else None)
    try:
        st = vlib.run_driver(drive, ["-out", trace, "-gen", genf, "-seed", c.seed, "-pick", pick, "-formsEvery", 3 if q else 1, "-par", 6, "-tmp", tmp])
    finally:
        shutil.rmtree(tmp, ignore_errors=True)
    r, lines = c.validate_trace_parallel("ReceiverCfg_Trace", trace, chunks=4 if q else 8)
    events = vlib.read_ndjson(trace)
    hdr_at, cur = {}, None
    kinds = {}
    for i, e in enumerate(events, 1):
        if e["ev"] == "hdr":
            cur = e
        hdr_at[i] = cur
        kinds[e["ev"]] = kinds.get(e["ev"], 0) + 1
    for k in ("hdr", "run", "req", "tree"):   # every action of the trace spec is taken ("mpd" depends on the receiver: X06.mpd.written demands it)
        if not kinds.get(k):
            raise MachineryError(f"trace vacuity: no '{k}' event recorded ({kinds})")
    c.extra["trace_events_by_kind"] = kinds
    main_reqs = [e for e in events if e["ev"] == "req" and e["run"] == "main"]
    c.extra["observed"] = {   # informational (what the receiver did; never gating)
        "media_files_removed_in_main_runs": sum(1 for e in main_reqs for x in e["delta"] if x["op"] == "-"),
        "files_written_in_main_runs": sum(1 for e in main_reqs for x in e["delta"] if x["op"] in "+~" and x["kind"] != "dir"),
        "requests_without_any_change": sum(1 for e in main_reqs if not e["delta"]),
        "answers_401": sum(1 for e in main_reqs if e["status"] == 401),
        "timeline_mpds_read": sum(1 for e in events if e["ev"] == "mpd" and e["which"] == "timeline" and e["run"] == "main"),
        "manifest_mpds_read": sum(1 for e in events if e["ev"] == "mpd" and e["which"] == "manifest" and e["run"] == "main"),
        "reference_requests_compared": sum(1 for e in events if e["ev"] == "req" and e["run"] != "main")}
    for f in vlib.bad_to_failures(r, events):
        if f["clause"].startswith("X06.machinery"):
            raise MachineryError(f"scenario construction / trace problem: {json.dumps(f)[:800]}")
        c.add_failure(_enrich(f, events[f["line"] - 1], hdr_at.get(f["line"]) or {}))
    # non-vacuity of the driver, judged on the INPUTS it constructed (never on what the receiver did with them)
    for cls in ("unauth", "parse", "raw", "ignored", "mpd", "bad", "delete", "open"):
        if not st["byClass"].get(cls):
            raise MachineryError(f"driver vacuity: no request of oracle class {cls} ({st['byClass']})")
    for cred in ("none", "right", "wrongp", "wrongu", "other", "global", "cross", "emptyp", "malformed", "any"):
        if not st["byCred"].get(cred):
            raise MachineryError(f"driver vacuity: no request with credential class {cred} ({st['byCred']})")
    for k in ("longRuns", "shortRuns", "rawFocus", "ignoredFocus", "twoEntries", "authEither", "refCfgRuns", "refFormsRuns", "otherPrefix", "nestedNames"):
        if not st.get(k):
            raise MachineryError(f"driver vacuity: {k} = 0")
    c.traces += st["runs"]
    c.events += lines
    c.distinct_nontrivial = st["distinct"]
    c.samples = st.get("samples", [])
    c.extra["driver"] = {k: st[k] for k in ("scenarios", "pool", "requests", "runs", "refCfgRuns", "refFormsRuns", "mpdEvents", "hookWaits", "twoEntries",
                                            "authEither", "longRuns", "shortRuns", "rawFocus", "ignoredFocus", "otherPrefix", "nestedNames")}
    c.extra["requests_by_oracle_class"] = st["byClass"]
    c.extra["requests_by_credential_class"] = st["byCred"]
    c.extra["requests_by_form_and_method"] = st["byForm"]
    c.extra["answers_by_status"] = st["byStatus"]
    return c.finish()
